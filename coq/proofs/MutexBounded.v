(** Bounded liveness check for the futex mutex model (C43): for small thread
    configurations the set of reachable states is enumerated exhaustively by
    [vm_compute] (closure under every event is re-checked, so the enumeration
    is proved complete), and from every reachable state a round-robin
    scheduler brings every thread to completion within a stated number of
    passes — no spurious wake-up is needed. *)
From Coq Require Import FMapPositive.
From Aranya Require Import base.Tactics base.Interleave gen.GenConc model.Mutex proofs.MutexProofs.
Open Scope N_scope.

(** ---- decidable equality of states ---- *)
Definition pc_code (p : pc) : N :=
  match p with
  | PLockCas => 0 | PSpinLoad i => 1 + N.of_nat i | PSpinCas i => 7 + N.of_nat i | PYield i => 13 + N.of_nat i
  | PSwap => 19 | PFutexWait => 20 | PSleeping => 21 | PCrit0 => 22 | PCrit1 => 23 | PUnlock => 24
  | PWake => 25 | PDone => 26 | PBug => 27
  end.
Definition pc_eqb (a b : pc) : bool :=
  match a, b with
  | PLockCas, PLockCas | PSwap, PSwap | PFutexWait, PFutexWait | PSleeping, PSleeping
  | PCrit0, PCrit0 | PCrit1, PCrit1 | PUnlock, PUnlock | PWake, PWake | PDone, PDone | PBug, PBug => true
  | PSpinLoad i, PSpinLoad j | PSpinCas i, PSpinCas j | PYield i, PYield j => Nat.eqb i j
  | _, _ => false
  end.
Lemma pc_eqb_eq a b : pc_eqb a b = true -> a = b.
Proof. destruct a, b; cbn; intros H; try discriminate; auto; apply Nat.eqb_eq in H; subst; auto. Qed.

Definition local_eqb (a b : local) : bool :=
  pc_eqb (lpc a) (lpc b) && N.eqb (wait a) (wait b) && N.eqb (tmp a) (tmp b) && Nat.eqb (iters a) (iters b).
Lemma local_eqb_eq a b : local_eqb a b = true -> a = b.
Proof.
  unfold local_eqb. destruct a, b; cbn. intros H.
  apply andb_prop in H. destruct H as [H H4]. apply andb_prop in H. destruct H as [H H3].
  apply andb_prop in H. destruct H as [H1 H2].
  apply pc_eqb_eq in H1. apply N.eqb_eq in H2. apply N.eqb_eq in H3. apply Nat.eqb_eq in H4. subst. reflexivity.
Qed.

Fixpoint list_eqb {A} (e : A -> A -> bool) (a b : list A) : bool :=
  match a, b with
  | [], [] => true
  | x :: a', y :: b' => e x y && list_eqb e a' b'
  | _, _ => false
  end.
Lemma list_eqb_eq {A} (e : A -> A -> bool) : (forall x y, e x y = true -> x = y) ->
  forall a b, list_eqb e a b = true -> a = b.
Proof.
  intros He. induction a; destruct b; cbn; intros H; try discriminate; auto.
  apply andb_prop in H. destruct H as [H1 H2]. f_equal; auto.
Qed.

Definition mstate_eqb (a b : mstate) : bool :=
  N.eqb (key (sh a)) (key (sh b)) && N.eqb (data (sh a)) (data (sh b))
  && list_eqb Nat.eqb (waitset (sh a)) (waitset (sh b)) && list_eqb local_eqb (th a) (th b).
Lemma mstate_eqb_eq a b : mstate_eqb a b = true -> a = b.
Proof.
  unfold mstate_eqb. destruct a as [[k1 d1 w1] t1], b as [[k2 d2 w2] t2]; cbn. intros H.
  apply andb_prop in H. destruct H as [H H4]. apply andb_prop in H. destruct H as [H H3].
  apply andb_prop in H. destruct H as [H1 H2].
  apply N.eqb_eq in H1. apply N.eqb_eq in H2.
  apply (list_eqb_eq Nat.eqb) in H3; [|intros x y E; apply Nat.eqb_eq; auto].
  apply (list_eqb_eq local_eqb local_eqb_eq) in H4. subst. reflexivity.
Qed.

(** ---- a hash key (need not be injective: equality is re-checked on lookup) ---- *)
Definition enc_local (l : local) : N := ((pc_code (lpc l) * 4 + wait l) * 16 + tmp l) * 8 + N.of_nat (iters l).
Definition enc (g : mstate) : positive :=
  N.succ_pos
    (fold_left (fun a l => a * 16384 + enc_local l) (th g)
       (fold_left (fun a t => a * 8 + N.of_nat t + 1) (waitset (sh g)) (key (sh g) * 16 + data (sh g)))).

(** ---- the events that matter in a state ---- *)
Definition events_of (g : mstate) : list event :=
  let n := length (th g) in
  let m := Nat.max 1 (length (waitset (sh g))) in
  flat_map (fun t => Spur t :: map (fun c => Run t c) (seq 0 m)) (seq 0 n).

Definition ex := exec tid_of step.

Lemma wake_one_mod c w : wake_one c w = wake_one (c mod Nat.max 1 (length w)) w.
Proof.
  destruct w as [|a r]; auto. unfold wake_one.
  replace (Nat.max 1 (length (a :: r))) with (length (a :: r)) by (cbn; lia).
  rewrite Nat.mod_mod by (cbn; lia). reflexivity.
Qed.

Lemma tstep_mod t c l s : tstep t c l s = tstep t (c mod Nat.max 1 (length (waitset s))) l s.
Proof. unfold tstep. destruct (lpc l); auto. rewrite <- wake_one_mod. reflexivity. Qed.

Lemma events_complete g e g' :
  gstep tid_of step e g = Some g' -> exists e', In e' (events_of g) /\ ex g e' = g'.
Proof.
  intros H. assert (Ht : (tid_of e < length (th g))%nat).
  { unfold gstep in H. destruct (nth_error (th g) (tid_of e)) eqn:E; try discriminate.
    apply nth_error_Some. congruence. }
  destruct e as [t c|t]; cbn [tid_of] in *.
  - exists (Run t (c mod Nat.max 1 (length (waitset (sh g))))). split.
    + unfold events_of. apply in_flat_map. exists t. split; [apply in_seq; lia|].
      right. apply in_map. apply in_seq.
      assert (Hm : (Nat.max 1 (length (waitset (sh g))) <> 0)%nat) by lia.
      pose proof (Nat.mod_upper_bound c _ Hm). lia.
    + unfold ex, exec, gstep in *. cbn [tid_of step] in *.
      destruct (nth_error (th g) t) as [l|]; try discriminate.
      rewrite <- tstep_mod. rewrite H. reflexivity.
  - exists (Spur t). split.
    + unfold events_of. apply in_flat_map. exists t. split; [apply in_seq; lia|]. left; auto.
    + unfold ex, exec. rewrite H. reflexivity.
Qed.

(** ---- exhaustive exploration ---- *)
Module PM := PositiveMap.

Fixpoint explore (fuel : nat) (work : list mstate) (seen : PM.t mstate) : option (PM.t mstate) :=
  match work with
  | [] => Some seen
  | g :: w =>
    match fuel with
    | O => None
    | Datatypes.S f =>
      let '(w', seen') :=
        fold_left (fun (acc : list mstate * PM.t mstate) e =>
                     let g' := ex g e in
                     let k := enc g' in
                     match PM.find k (snd acc) with
                     | Some _ => acc
                     | None => (g' :: fst acc, PM.add k g' (snd acc))
                     end) (events_of g) (w, seen) in
      explore f w' seen'
    end
  end.

Definition reach_set (fuel : nat) (ns : list nat) : option (PM.t mstate) :=
  let g0 := init ns in explore fuel [g0] (PM.add (enc g0) g0 (PM.empty _)).

Definition inb (seen : PM.t mstate) (g : mstate) : bool :=
  match PM.find (enc g) seen with Some g' => mstate_eqb g g' | None => false end.

(** The set contains the initial state and is closed under every event. *)
Definition closedb (seen : PM.t mstate) (ns : list nat) : bool :=
  inb seen (init ns)
  && forallb (fun kg => forallb (fun e => inb seen (ex (snd kg) e)) (events_of (snd kg))) (PM.elements seen).

Lemma inb_In seen g : inb seen g = true -> exists k, In (k, g) (PM.elements seen).
Proof.
  unfold inb. destruct (PM.find (enc g) seen) as [g'|] eqn:E; try discriminate.
  intros H. apply mstate_eqb_eq in H. subst g'. exists (enc g).
  apply PM.elements_correct. auto.
Qed.

Lemma closed_reachable seen ns :
  closedb seen ns = true -> forall g, reachable tid_of step (init ns) g -> inb seen g = true.
Proof.
  unfold closedb. intros H. apply andb_prop in H. destruct H as [H0 Hc].
  intros g Hr. induction Hr as [|g e g' Hr IH Hs]; auto.
  destruct (inb_In _ _ IH) as (k & Hin).
  rewrite forallb_forall in Hc. specialize (Hc _ Hin). cbn [snd] in Hc.
  destruct (events_complete _ _ _ Hs) as (e' & He' & <-).
  rewrite forallb_forall in Hc. apply Hc. auto.
Qed.

(** ---- round-robin completion ---- *)
Definition rr_pass (n : nat) : list event := map (fun t => Run t O) (seq 0 n).
Definition all_done (g : mstate) : bool := forallb (fun l => match lpc l with PDone => true | _ => false end) (th g).
Fixpoint rr_done (passes : nat) (g : mstate) : bool :=
  all_done g ||
  match passes with
  | O => false
  | Datatypes.S p => rr_done p (mrun (rr_pass (length (th g))) g)
  end.

Definition check_cfg (fuel passes : nat) (ns : list nat) : bool :=
  match reach_set fuel ns with
  | None => false
  | Some seen => closedb seen ns && forallb (fun kg => rr_done passes (snd kg)) (PM.elements seen)
  end.

Lemma check_cfg_sound fuel passes ns :
  check_cfg fuel passes ns = true ->
  forall g, reachable tid_of step (init ns) g -> rr_done passes g = true.
Proof.
  unfold check_cfg. destruct (reach_set fuel ns) as [seen|]; try discriminate.
  intros H. apply andb_prop in H. destruct H as [Hc Hd]. intros g Hr.
  pose proof (closed_reachable _ _ Hc g Hr) as Hin. destruct (inb_In _ _ Hin) as (k & Hk).
  rewrite forallb_forall in Hd. apply (Hd _ Hk).
Qed.

Definition count_cfg (fuel : nat) (ns : list nat) : nat :=
  match reach_set fuel ns with Some seen => PM.cardinal seen | None => O end.

(** ---- the bounded statement ---- *)
Definition bounded_cfgs : list (list nat) := [[1; 1]; [2; 2]; [1; 1; 1]]%nat.
Definition rr_bound : nat := 20.

Lemma bounded_cfgs_checked : forallb (check_cfg (100 * 1000) rr_bound) bounded_cfgs = true.
Proof. vm_compute. reflexivity. Qed.

(** For 2 threads x 1 or 2 acquisitions and 3 threads x 1 acquisition: from
    EVERY reachable state (any schedule, spurious wake-ups included) round-robin
    scheduling lets every thread finish within [rr_bound] = 20 passes, without
    any spurious wake-up: every waiter is woken and acquires. *)
Definition rr_terminates_bounded_stmt : Prop :=
  forall (ns : list nat), In ns bounded_cfgs ->
  forall (sched : list event), rr_done rr_bound (mrun sched (init ns)) = true.
Lemma rr_terminates_bounded_proof : rr_terminates_bounded_stmt.
Proof.
  intros ns Hin sched. pose proof bounded_cfgs_checked as H. rewrite forallb_forall in H.
  eapply check_cfg_sound; [apply (H _ Hin)|]. apply run_reachable.
Qed.

Lemma bounded_state_counts :
  map (count_cfg (100 * 1000)) bounded_cfgs = [219; 2903; 13222]%nat.
Proof. vm_compute. reflexivity. Qed.
