(** C05: the braid fails with ParallelFinalize exactly when the merged
    history contains two finalize commands neither of which is an ancestor of
    the other. *)
From Aranya Require Import base.Tactics model.Dag model.Braid
  proofs.BraidDag proofs.BraidKey proofs.BraidSpec proofs.BraidLca proofs.BraidCount proofs.BraidRefine proofs.BraidMain.

(** Only a parentless command carries the Init priority. *)
Definition init_prio_ok (g : graph) : Prop := forall c, In c g -> cprio c = PInit -> cpar c = PNone.

(** The finalize commands in the history of [h] are totally ordered by ancestry. *)
Definition fin_chain (g : graph) (h : N) : Prop :=
  forall f1 f2, is_fin g f1 = true -> is_fin g f2 = true -> anc g f1 h -> anc g f2 h -> anc g f1 f2 \/ anc g f2 f1.

Definition parallel_fins (g : graph) (hs : list N) : Prop :=
  exists f1 f2, is_fin g f1 = true /\ is_fin g f2 = true
    /\ (exists h, In h hs /\ anc g f1 h) /\ (exists h, In h hs /\ anc g f2 h)
    /\ ~ anc g f1 f2 /\ ~ anc g f2 f1.

Section Fin.
  Variable g : graph.
  Variable hs : list N.
  Hypothesis Hwf : wf_graph g.
  Let A := closure g hs.

  Lemma ready_incomparable done x y : okdone g hs done -> In x (ready g A done) -> In y (ready g A done) ->
    anc g x y -> x = y.
  Proof.
    intros Hok Hx Hy Hxy. destruct (anc_first_step g x y Hwf Hxy) as [|[c [Hc Hcy]]]; auto. exfalso.
    apply (ready_spec g hs Hwf) in Hx as [X1 [X2 X3]]. apply (ready_spec g hs Hwf) in Hy as [Y1 [Y2 Y3]].
    assert (HcA : In c A) by (apply (closure_down g hs Hwf c y); auto).
    apply Y2. apply (okdone_desc g hs Hwf done Hok c y); auto.
  Qed.

  Lemma spec_loop_parfin fuel : forall done, okdone g hs done -> spec_loop g A fuel done = BParFin ->
    exists done', okdone g hs done' /\ (2 <=? count_fin g (ready g A done')) = true.
  Proof.
    induction fuel as [|f IH]; intros done Hok; cbn [spec_loop]; [discriminate|].
    destruct (2 <=? count_fin g (ready g A done)) eqn:E; [eauto|].
    destruct (ready g A done) as [|x [|y r]] eqn:Er; [discriminate|discriminate|].
    intros H. apply IH in H; auto. apply okdone_ready; auto. fold A. rewrite Er. apply min_by_in.
  Qed.

  Lemma two_fins l : (2 <=? count_fin g l) = true -> NoDup l ->
    exists a b, In a l /\ In b l /\ a <> b /\ is_fin g a = true /\ is_fin g b = true.
  Proof.
    unfold count_fin. intros H Hnd. apply Nat.leb_le in H.
    assert (Hnd' : NoDup (filter (is_fin g) l)) by (apply NoDup_filter; auto).
    destruct (filter (is_fin g) l) as [|a [|b r]] eqn:E; cbn [length] in H; try lia.
    assert (Ha : In a (filter (is_fin g) l)) by (rewrite E; cbn; auto).
    assert (Hb : In b (filter (is_fin g) l)) by (rewrite E; cbn; auto).
    apply filter_In in Ha as [Ha1 Ha2]. apply filter_In in Hb as [Hb1 Hb2].
    exists a, b. repeat split; auto. intros ->. inv Hnd'. apply H2. cbn; auto.
  Qed.

  (** "only if": a ParallelFinalize verdict exhibits two concurrent finalize commands. *)
  Lemma parfin_only_if : braid_spec g hs = BParFin -> parallel_fins g hs.
  Proof.
    unfold braid_spec. fold A. intros H. apply spec_loop_parfin in H; [|constructor].
    destruct H as [done [Hok H2]]. apply two_fins in H2; [|apply (ready_nodup g hs Hwf)].
    destruct H2 as [a [b [Ha [Hb [Hne [Fa Fb]]]]]].
    exists a, b. split; [auto|split; [auto|]].
    assert (HaA : In a A) by (apply (ready_spec g hs Hwf) in Ha; tauto).
    assert (HbA : In b A) by (apply (ready_spec g hs Hwf) in Hb; tauto).
    split; [apply closure_spec in HaA; auto|]. split; [apply closure_spec in HbA; auto|].
    split; intros Hanc; apply Hne; [|symmetry]; eapply ready_incomparable; eauto.
  Qed.

  Hypothesis Hsr : single_root g.
  Hypothesis Hip : init_prio_ok g.

  Lemma fin_not_min x r : okdone g hs (@nil N) -> forall done, okdone g hs done ->
    ready g A done = x :: r -> r <> [] -> (2 <=? count_fin g (x :: r)) = false ->
    is_fin g (min_by g x r) = false.
  Proof.
    intros _ done Hok Er Hr Hc.
    set (m := min_by g x r). destruct (is_fin g m) eqn:Fm; auto. exfalso.
    assert (Hm : In m (x :: r)) by apply min_by_in.
    pose proof (ready_nodup g hs Hwf done) as Hnd. fold A in Hnd. rewrite Er in Hnd.
    (* another ready command z *)
    assert (Hz : exists z, In z (x :: r) /\ z <> m).
    { destruct r as [|y r']; [congruence|]. destruct (N.eq_dec x m) as [E|E].
      - exists y. split; [cbn; auto|]. inversion Hnd as [|? ? Hn1 Hn2]. intros E'. apply Hn1. rewrite E, <- E'. cbn; auto.
      - exists x. split; [cbn; auto|auto]. }
    destruct Hz as [z [Hz Hzm]].
    (* z is not a finalize *)
    assert (Fz : is_fin g z = false).
    { destruct (is_fin g z) eqn:Fz; auto. exfalso.
      rewrite (count_fin_ge2 g (x :: r) m z) in Hc; auto; discriminate. }
    (* m is least: key m <= key z, so z has priority Init *)
    assert (Hle : key_ltb (key_of g z) (key_of g m) = false).
    { pose proof (min_key_least (map (key_of g) r) (key_of g x)) as [_ Hl].
      unfold m. rewrite min_by_map. apply Hl. rewrite <- map_cons. apply in_map. auto. }
    assert (HzA : In z A) by (rewrite <- Er in Hz; apply (ready_spec g hs Hwf) in Hz; tauto).
    assert (HmA : In m A) by (rewrite <- Er in Hm; apply (ready_spec g hs Hwf) in Hm; tauto).
    destruct (ids_lookup g z (closure_ids g hs z HzA)) as [cz Hcz].
    destruct (ids_lookup g m (closure_ids g hs m HmA)) as [cm Hcm].
    unfold is_fin in Fm, Fz. rewrite Hcm in Fm. rewrite Hcz in Fz.
    assert (Hzi : cprio cz = PInit).
    { apply key_ltb_false in Hle. unfold key_of in Hle. rewrite Hcz, Hcm in Hle. unfold k1, k2 in Hle. cbn [fst snd] in Hle.
      destruct (lookup_In _ _ _ Hcz) as [_ Ez]. destruct (lookup_In _ _ _ Hcm) as [_ Em].
      destruct (cprio cm); try discriminate. destruct (cprio cz); auto; cbn in Hle; try discriminate; exfalso; lia. }
    destruct (lookup_In _ _ _ Hcz) as [Hczg Ez].
    assert (Hroot : is_root g z) by (exists cz; split; auto).
    assert (Hzm' : anc g z m) by (apply (root_anc_all g Hwf Hsr z Hroot); apply (closure_ids g hs); auto).
    apply Hzm. rewrite <- Er in Hz, Hm. eapply ready_incomparable; eauto.
  Qed.

  Lemma spec_loop_ok_nofin fuel : forall done b order, okdone g hs done ->
    (forall x, In x done -> is_fin g x = false) ->
    spec_loop g A fuel done = BOk b order ->
    exists done', okdone g hs done' /\ ready g A done' = [b] /\ (forall x, In x done' -> is_fin g x = false).
  Proof.
    induction fuel as [|f IH]; intros done b order Hok Hnf; cbn [spec_loop]; [discriminate|].
    destruct (2 <=? count_fin g (ready g A done)) eqn:Ec; [discriminate|].
    destruct (ready g A done) as [|x [|y r]] eqn:Er; [discriminate| |].
    - intros H; inv H. eauto.
    - intros H. apply IH in H; auto.
      + apply okdone_ready; auto. fold A. rewrite Er. apply min_by_in.
      + intros z [<-|Hz]; auto. apply (fin_not_min x (y :: r) (ok_nil g hs) done); auto. discriminate.
  Qed.

  (** "if": two concurrent finalize commands are always detected, provided
      each head's own history has its finalize commands in a chain (which
      is what the successful earlier braids guarantee, see [admissible]). *)
  Lemma parfin_if : hs <> [] -> incl hs (ids g) -> (forall h, In h hs -> fin_chain g h) ->
    parallel_fins g hs -> braid_spec g hs = BParFin.
  Proof.
    intros Hne Hin Hch [f1 [f2 [F1 [F2 [H1 [H2 [N1 N2]]]]]]].
    destruct (braid_spec g hs) as [b order| |] eqn:E; auto.
    - exfalso. unfold braid_spec in E. fold A in E.
      apply spec_loop_ok_nofin in E; [|constructor|intros x []].
      destruct E as [done [Hok [Hr Hnf]]].
      assert (Hf1A : In f1 A) by (apply closure_spec; auto).
      assert (Hf2A : In f2 A) by (apply closure_spec; auto).
      assert (Hb1 : anc g f1 b).
      { destruct (unprocessed_below_ready g hs Hwf done Hok f1 Hf1A) as [b' [Hb' Hx]].
        - intros Hd. rewrite (Hnf _ Hd) in F1. discriminate.
        - fold A in Hb'. rewrite Hr in Hb'. destruct Hb' as [<-|[]]. auto. }
      assert (Hb2 : anc g f2 b).
      { destruct (unprocessed_below_ready g hs Hwf done Hok f2 Hf2A) as [b' [Hb' Hx]].
        - intros Hd. rewrite (Hnf _ Hd) in F2. discriminate.
        - fold A in Hb'. rewrite Hr in Hb'. destruct Hb' as [<-|[]]. auto. }
      assert (HbA : In b A).
      { assert (In b (ready g A done)) by (rewrite Hr; cbn; auto). apply (ready_spec g hs Hwf) in H. tauto. }
      apply closure_spec in HbA as [h [Hh Hbh]]; auto.
      destruct (Hch h Hh f1 f2 F1 F2) as [X|X]; auto; eapply anc_trans; eauto.
    - exfalso. apply (spec_total g hs Hwf Hne Hin). auto.
  Qed.
End Fin.

(** * Graphs all of whose merge commands were braided successfully *)

Fixpoint admissible (g : graph) : Prop :=
  match g with
  | [] => True
  | c :: r => admissible r /\
      match cpar c with PMerge2 a b => braid_L1 r [a; b] <> BParFin | _ => True end
  end.

Lemma is_fin_cons c r x : wf_graph (c :: r) -> In x (ids r) -> is_fin (c :: r) x = is_fin r x.
Proof.
  intros [_ [Hn _]] Hx. unfold is_fin. rewrite lookup_cons_other; auto. intros E. apply Hn. rewrite E. auto.
Qed.

Lemma init_prio_tail c r : init_prio_ok (c :: r) -> init_prio_ok r.
Proof. intros H x Hx. apply H. cbn; auto. Qed.

Lemma fin_chain_all g : wf_graph g -> single_root g -> init_prio_ok g -> admissible g ->
  forall h, In h (ids g) -> fin_chain g h.
Proof.
  induction g as [|c r IH]; intros Hwf Hsr Hip Had h Hh; [destruct Hh|].
  pose proof Hwf as [Hwr [Hn Hp]]. destruct Had as [Har Hac].
  assert (Hsrr : single_root r) by (eapply single_root_tail; eauto).
  assert (Hipr : init_prio_ok r) by (eapply init_prio_tail; eauto).
  specialize (IH Hwr Hsrr Hipr Har).
  (* ancestors of an old command live in [r] *)
  assert (Hold : forall x y, In y (ids r) -> anc (c :: r) x y -> anc r x y /\ In x (ids r)).
  { intros x y Hy Hxy. assert (anc r x y) by (apply (anc_cons_inv c r); auto; intros ->; auto).
    split; auto. apply (anc_in r x y); auto. }
  assert (Hlift : forall y, In y (ids r) -> fin_chain (c :: r) y).
  { intros y Hy f1 f2 F1 F2 A1 A2. destruct (Hold f1 y Hy A1) as [B1 I1]. destruct (Hold f2 y Hy A2) as [B2 I2].
    rewrite is_fin_cons in F1, F2 by auto.
    destruct (IH y Hy f1 f2 F1 F2 B1 B2); [left|right]; apply anc_cons; auto. }
  destruct Hh as [<-|Hh]; [|auto].
  (* the newest command *)
  assert (Hself : forall x, anc (c :: r) x (cid c) -> x = cid c \/ exists p, In p (parents c) /\ anc (c :: r) x p).
  { intros x Hx. destruct (anc_inv _ _ _ Hx) as [|[p [Hpp Hxp]]]; auto. right.
    destruct (parent_of_cons_inv _ _ _ _ Hwf Hpp) as [[_ Hin]|[Hne _]]; [eauto|congruence]. }
  intros f1 f2 F1 F2 A1 A2.
  destruct (Hself f1 A1) as [->|[p1 [Hp1 B1]]]; [right; auto|].
  destruct (Hself f2 A2) as [->|[p2 [Hp2 B2]]]; [left; auto|].
  assert (Hp1r : In p1 (ids r)) by auto. assert (Hp2r : In p2 (ids r)) by auto.
  destruct (N.eq_dec p1 p2) as [->|Hne]; [apply (Hlift p2 Hp2r); auto|].
  (* two different parents: a merge *)
  unfold parents in Hp1, Hp2. destruct (cpar c) as [|p|a b] eqn:Ep.
  - destruct Hp1.
  - destruct Hp1 as [<-|[]]. destruct Hp2 as [<-|[]]. congruence.
  - destruct (anc_dec (c :: r) Hwf f1 f2) as [|N1]; auto.
    destruct (anc_dec (c :: r) Hwf f2 f1) as [|N2]; auto. exfalso.
    apply Hac. rewrite braid_refines_spec_proof; auto; [|discriminate|].
    + destruct (Hold f1 p1 Hp1r B1) as [C1 I1]. destruct (Hold f2 p2 Hp2r B2) as [C2 I2].
      apply parfin_if; auto; [discriminate| | |].
      * intros x [<-|[<-|[]]]; apply Hp; unfold parents; rewrite Ep; cbn; auto.
      * intros x [<-|[<-|[]]]; apply IH; apply Hp; unfold parents; rewrite Ep; cbn; auto.
      * exists f1, f2. rewrite <- (is_fin_cons c r f1), <- (is_fin_cons c r f2) by auto.
        split; [auto|split; [auto|]].
        split; [exists p1; split; auto; destruct Hp1 as [<-|[<-|[]]]; cbn; auto|].
        split; [exists p2; split; auto; destruct Hp2 as [<-|[<-|[]]]; cbn; auto|].
        split; intros X; [apply N1|apply N2]; apply anc_cons; auto.
    + intros x [<-|[<-|[]]]; apply Hp; unfold parents; rewrite Ep; cbn; auto.
Qed.

(** * C05 *)

Definition parallel_finalize_iff_stmt : Prop :=
  forall (g : graph) (hs : list N),
    wf_graph g -> single_root g -> init_prio_ok g -> admissible g -> hs <> [] -> incl hs (ids g) ->
    (braid_L1 g hs = BParFin <-> parallel_fins g hs).

Lemma parallel_finalize_iff_proof : parallel_finalize_iff_stmt.
Proof.
  intros g hs Hwf Hsr Hip Had Hne Hin. rewrite braid_refines_spec_proof by auto. split.
  - apply parfin_only_if; auto.
  - apply parfin_if; auto. intros h Hh. apply fin_chain_all; auto.
Qed.

(** When all finalize commands of the merged history are causally ordered the
    braid never fails for that reason — on any well-formed graph. *)
Definition ordered_finalize_never_fails_stmt : Prop :=
  forall (g : graph) (hs : list N),
    wf_graph g -> single_root g -> hs <> [] -> incl hs (ids g) ->
    (forall f1 f2 h1 h2, is_fin g f1 = true -> is_fin g f2 = true -> In h1 hs -> In h2 hs ->
        anc g f1 h1 -> anc g f2 h2 -> anc g f1 f2 \/ anc g f2 f1) ->
    braid_L1 g hs <> BParFin.

Lemma ordered_finalize_never_fails_proof : ordered_finalize_never_fails_stmt.
Proof.
  intros g hs Hwf Hsr Hne Hin Hord H. rewrite braid_refines_spec_proof in H by auto.
  apply parfin_only_if in H; auto.
  destruct H as [f1 [f2 [F1 [F2 [[h1 [Hh1 A1]] [[h2 [Hh2 A2]] [N1 N2]]]]]]].
  destruct (Hord f1 f2 h1 h2); auto.
Qed.

(** Non-vacuity: test_parallel_finalize and test_sequential_finalize of transaction.rs. *)
Definition g_parfin : graph :=
  [C 21 PFinalize (PSingle 9); C 20 PFinalize (PSingle 5);
   C 10 (PBasic 10) (PSingle 9); C 9 (PBasic 9) (PSingle 8); C 8 (PBasic 8) (PSingle 4);
   C 7 (PBasic 7) (PSingle 6); C 6 (PBasic 6) (PSingle 5); C 5 (PBasic 5) (PSingle 4); C 4 (PBasic 4) (PSingle 3);
   C 3 (PBasic 3) (PSingle 2); C 2 (PBasic 2) (PSingle 1); C 1 PInit PNone]%N.
Definition g_seqfin : graph :=
  [C 23 PFinalize (PSingle 22); C 22 (PBasic 22) (PSingle 21); C 21 (PBasic 21) (PSingle 20); C 20 PFinalize (PSingle 5);
   C 10 (PBasic 10) (PSingle 9); C 9 (PBasic 9) (PSingle 8); C 8 (PBasic 8) (PSingle 4);
   C 7 (PBasic 7) (PSingle 6); C 6 (PBasic 6) (PSingle 5); C 5 (PBasic 5) (PSingle 4); C 4 (PBasic 4) (PSingle 3);
   C 3 (PBasic 3) (PSingle 2); C 2 (PBasic 2) (PSingle 1); C 1 PInit PNone]%N.

Lemma init_prio_b g : forallb (fun c => match cprio c, cpar c with PInit, PNone => true | PInit, _ => false | _, _ => true end) g = true -> init_prio_ok g.
Proof.
  intros H c Hc Hp. rewrite forallb_forall in H. specialize (H c Hc). rewrite Hp in H. destruct (cpar c); auto; discriminate.
Qed.

Lemma admissible_nomerge g : forallb (fun c => negb (is_merge c)) g = true -> admissible g.
Proof.
  induction g as [|c r IH]; cbn; auto. intros H. apply andb_true_iff in H as [H1 H2]. split; auto.
  unfold is_merge in H1. destruct (cpar c); auto. discriminate.
Qed.

Example parallel_finalize_example :
  wf_graph g_parfin /\ single_root g_parfin /\ init_prio_ok g_parfin /\ admissible g_parfin
  /\ braid_L1 g_parfin [7; 10; 20; 21]%N = BParFin
  /\ wf_graph g_seqfin /\ single_root g_seqfin /\ init_prio_ok g_seqfin /\ admissible g_seqfin
  /\ braid_L1 g_seqfin [7; 10; 23]%N = BOk 23%N [8; 9; 10; 6; 7]%N.
Proof.
  split; [apply wf_graphb_spec; vm_compute; reflexivity|].
  split; [apply single_root_b; vm_compute; reflexivity|].
  split; [apply init_prio_b; vm_compute; reflexivity|].
  split; [apply admissible_nomerge; vm_compute; reflexivity|].
  split; [vm_compute; reflexivity|].
  split; [apply wf_graphb_spec; vm_compute; reflexivity|].
  split; [apply single_root_b; vm_compute; reflexivity|].
  split; [apply init_prio_b; vm_compute; reflexivity|].
  split; [apply admissible_nomerge; vm_compute; reflexivity|].
  vm_compute. reflexivity.
Qed.
