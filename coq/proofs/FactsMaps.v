(** Map-level lemmas for the fact model: two-level maps, the flat (spec) view,
    [find_prefixes], [merge_keep]/[overwrite], [live]. *)
From Aranya Require Import base.Tactics base.ListLex base.SortedAssoc model.Facts.

Lemma BL : CmpLaws bcmp.
Proof. apply lex_cmp_laws, N_cmp_laws. Qed.
Lemma KL : CmpLaws kcmp.
Proof. apply lex_cmp_laws, BL. Qed.

Definition neqb : name -> name -> bool := cmp_eqb bcmp.
Definition keqb : keys -> keys -> bool := cmp_eqb kcmp.

Lemma neqb_spec a b : neqb a b = true <-> a = b.
Proof. apply cmp_eqb_spec, BL. Qed.
Lemma keqb_spec a b : keqb a b = true <-> a = b.
Proof. apply cmp_eqb_spec, KL. Qed.
Lemma neqb_refl a : neqb a a = true.
Proof. apply neqb_spec; auto. Qed.
Lemma keqb_refl a : keqb a a = true.
Proof. apply keqb_spec; auto. Qed.
Lemma neqb_false a b : neqb a b = false <-> a <> b.
Proof. apply cmp_eqb_false, BL. Qed.
Lemma keqb_false a b : keqb a b = false <-> a <> b.
Proof. apply cmp_eqb_false, KL. Qed.

(** ** Well-formed maps *)

Definition fm_ok (fm : fmap) : Prop := sorted kcmp fm.
Definition nm_ok (m : nmap) : Prop := sorted bcmp m /\ Forall (fun e => fm_ok (snd e)) m.

Lemma nm_ok_nil : nm_ok [].
Proof. split; constructor. Qed.

Lemma nm_ok_inner m n fm : nm_ok m -> sget bcmp n m = Some fm -> fm_ok fm.
Proof.
  intros [S F] H. apply (sget_In bcmp BL) in H; auto.
  rewrite Forall_forall in F. apply (F (n, fm)); auto.
Qed.

Lemma nm_ok_sput m n fm : nm_ok m -> fm_ok fm -> nm_ok (sput bcmp n fm m).
Proof.
  intros [S F] H. split.
  - apply sorted_sput; auto. apply BL.
  - apply Forall_sput; auto.
Qed.

Lemma inner_or_nil_ok m n : nm_ok m -> fm_ok (match sget bcmp n m with Some fm => fm | None => [] end).
Proof.
  intros H. destruct (sget bcmp n m) eqn:E.
  - eapply nm_ok_inner; eauto.
  - constructor.
Qed.

Lemma nm_ok_put m n k v : nm_ok m -> nm_ok (nm_put m n k v).
Proof.
  intros H. unfold nm_put. apply nm_ok_sput; auto.
  apply sorted_sput; [apply KL|]. apply inner_or_nil_ok; auto.
Qed.

Lemma nm_ok_remove m n k : nm_ok m -> nm_ok (nm_remove m n k).
Proof.
  intros H. unfold nm_remove. destruct (sget bcmp n m) eqn:E; auto.
  apply nm_ok_sput; auto. apply sorted_sdel. eapply nm_ok_inner; eauto.
Qed.

Lemma nm_ok_filter f m : nm_ok m -> nm_ok (filter f m).
Proof.
  intros [S F]. split.
  - apply sorted_filter; auto.
  - rewrite Forall_forall in *. intros x Hx. apply filter_In in Hx as [Hx _]; auto.
Qed.

Lemma nm_ok_retain m : nm_ok m -> nm_ok (nm_retain_nonempty m).
Proof. apply nm_ok_filter. Qed.

(** ** Lookups after updates *)

Lemma nm_get_put m n k v n' k' :
  nm_get (nm_put m n k v) n' k' = if neqb n' n && keqb k' k then Some v else nm_get m n' k'.
Proof.
  unfold nm_get, nm_put. rewrite (sget_sput bcmp BL). fold (neqb n' n).
  destruct (neqb n' n) eqn:En; cbn [andb]; auto.
  apply neqb_spec in En; subst n'.
  rewrite (sget_sput kcmp KL). fold (keqb k' k).
  destruct (keqb k' k); auto.
  destruct (sget bcmp n m); auto.
Qed.

Lemma nm_get_remove m n k n' k' : nm_ok m ->
  nm_get (nm_remove m n k) n' k' = if neqb n' n && keqb k' k then None else nm_get m n' k'.
Proof.
  intros Hok. unfold nm_get, nm_remove.
  destruct (sget bcmp n m) as [fm|] eqn:E.
  - rewrite (sget_sput bcmp BL). fold (neqb n' n).
    destruct (neqb n' n) eqn:En; cbn [andb]; auto.
    apply neqb_spec in En; subst n'. rewrite E.
    rewrite (sget_sdel kcmp KL); [|eapply nm_ok_inner; eauto]. reflexivity.
  - destruct (neqb n' n) eqn:En; cbn [andb]; auto.
    apply neqb_spec in En; subst n'. rewrite E. destruct (keqb k' k); auto.
Qed.

Lemma nm_get_retain m n k : nm_ok m -> nm_get (nm_retain_nonempty m) n k = nm_get m n k.
Proof.
  intros [S _]. unfold nm_get, nm_retain_nonempty.
  rewrite (sget_filter bcmp BL); auto.
  destruct (sget bcmp n m) as [fm|]; auto. cbn.
  destruct fm; cbn; auto.
Qed.

Lemma nm_get_nil n k : nm_get [] n k = None.
Proof. reflexivity. Qed.

(** ** The flat view (specification side) *)

Definition flat := name -> keys -> option bytes.
Definition fempty : flat := fun _ _ => None.
Definition feq (f g : flat) : Prop := forall n k, f n k = g n k.
Infix "≡" := feq (at level 70).

(** Apply one insert ([Some v]) or delete ([None]) to the flat map. *)
Definition fupd (f : flat) (u : update) : flat :=
  fun n k => let '(n0, k0, v) := u in if neqb n n0 && keqb k k0 then v else f n k.
Definition fupds (f : flat) (us : list update) : flat := fold_left fupd us f.

(** A layer of entries (values and tombstones) over an older flat map. *)
Definition over (m : nmap) (f : flat) : flat :=
  fun n k => match nm_get m n k with Some v => v | None => f n k end.

Lemma feq_refl f : f ≡ f.
Proof. intros n k; auto. Qed.
Lemma feq_sym f g : f ≡ g -> g ≡ f.
Proof. intros H n k; auto. Qed.
Lemma feq_trans f g h : f ≡ g -> g ≡ h -> f ≡ h.
Proof. intros H1 H2 n k; rewrite H1; auto. Qed.

Lemma fupd_feq f g u : f ≡ g -> fupd f u ≡ fupd g u.
Proof. intros H n k. destruct u as [[n0 k0] v]; cbn. rewrite H; auto. Qed.

Lemma fupds_feq us : forall f g, f ≡ g -> fupds f us ≡ fupds g us.
Proof.
  induction us as [|u us IH]; intros f g H; cbn; auto.
  apply IH. apply fupd_feq; auto.
Qed.

Lemma fupds_app f us vs : fupds f (us ++ vs) = fupds (fupds f us) vs.
Proof. unfold fupds. apply fold_left_app. Qed.

Lemma over_feq m f g : f ≡ g -> over m f ≡ over m g.
Proof. intros H n k. unfold over. rewrite H; auto. Qed.

Lemma over_nil f : over [] f ≡ f.
Proof. intros n k; reflexivity. Qed.

Lemma over_put m f n k v : over (nm_put m n k v) f ≡ fupd (over m f) (n, k, v).
Proof.
  intros n' k'. unfold over, fupd. rewrite nm_get_put.
  destruct (neqb n' n && keqb k' k); auto.
Qed.

Lemma over_remove_empty m n k : nm_ok m -> over (nm_remove m n k) fempty ≡ fupd (over m fempty) (n, k, None).
Proof.
  intros Hok n' k'. unfold over, fupd. rewrite nm_get_remove; auto.
  destruct (neqb n' n && keqb k' k); auto.
Qed.

Lemma over_retain m f : nm_ok m -> over (nm_retain_nonempty m) f ≡ over m f.
Proof. intros H n k. unfold over. rewrite nm_get_retain; auto. Qed.

(** ** [merge_keep] and [overwrite] *)

Lemma merge_keep_sorted found : forall acc, fm_ok acc -> fm_ok (merge_keep acc found).
Proof.
  unfold merge_keep. induction found as [|e r IH]; intros acc S; cbn; auto.
  apply IH. destruct (smem kcmp (fst e) acc); auto. apply sorted_sput; auto. apply KL.
Qed.

Lemma merge_keep_get found : forall acc k,
  sget kcmp k (merge_keep acc found) =
  match sget kcmp k acc with Some x => Some x | None => sget kcmp k found end.
Proof.
  unfold merge_keep. induction found as [|[k1 v1] r IH]; intros acc k; cbn.
  - destruct (sget kcmp k acc); auto.
  - rewrite IH. unfold smem. destruct (sget kcmp k1 acc) eqn:E1.
    + destruct (sget kcmp k acc) eqn:E; auto.
      destruct (kcmp k k1) eqn:Ec; auto.
      apply (cmp_eq _ KL) in Ec; subst. congruence.
    + rewrite (sget_sput kcmp KL). fold (keqb k k1). unfold keqb, cmp_eqb.
      destruct (kcmp k k1) eqn:Ec.
      * apply (cmp_eq _ KL) in Ec; subst. rewrite E1; auto.
      * destruct (sget kcmp k acc); auto.
      * destruct (sget kcmp k acc); auto.
Qed.

Lemma overwrite_sorted found : forall acc, fm_ok acc -> fm_ok (overwrite acc found).
Proof.
  unfold overwrite. induction found as [|e r IH]; intros acc S; cbn; auto.
  apply IH. apply sorted_sput; auto. apply KL.
Qed.

(** On entries with distinct keys, overwriting makes the found entries win. *)
Lemma overwrite_get found : fm_ok found -> forall acc k,
  sget kcmp k (overwrite acc found) =
  match sget kcmp k found with Some x => Some x | None => sget kcmp k acc end.
Proof.
  unfold overwrite. induction found as [|[k1 v1] r IH]; intros S acc k; cbn; auto.
  apply sorted_inv in S as [Sr Hall].
  rewrite IH; auto.
  destruct (kcmp k k1) eqn:Ec.
  - apply (cmp_eq _ KL) in Ec; subst.
    rewrite (lb_sget_none kcmp); auto. apply (sget_sput_same kcmp KL).
  - rewrite (sget_sput_other kcmp KL); auto. intros ->. rewrite (cmp_refl _ KL) in Ec; discriminate.
  - rewrite (sget_sput_other kcmp KL); auto. intros ->. rewrite (cmp_refl _ KL) in Ec; discriminate.
Qed.

(** ** [find_prefixes] *)

Lemma find_prefixes_filter fm p : fm_ok fm ->
  find_prefixes fm p = filter (fun e => is_prefix bcmp p (fst e)) fm.
Proof. intros S. unfold find_prefixes. apply (range_prefix_filter bcmp BL). exact S. Qed.

Lemma find_prefixes_sorted fm p : fm_ok fm -> fm_ok (find_prefixes fm p).
Proof. intros S. rewrite find_prefixes_filter; auto. apply sorted_filter; auto. Qed.

Lemma find_prefixes_get fm p k : fm_ok fm ->
  sget kcmp k (find_prefixes fm p) = if is_prefix bcmp p k then sget kcmp k fm else None.
Proof.
  intros S. rewrite find_prefixes_filter; auto.
  rewrite (sget_filter kcmp KL); auto. cbn.
  destruct (sget kcmp k fm); destruct (is_prefix bcmp p k); auto.
Qed.

(** ** [live] (the storage query iterator) *)

Definition klt (a b : keys * bytes) : Prop := kcmp (fst a) (fst b) = Lt.

Lemma live_In m k v : In (k, v) (live m) <-> In (k, Some v) m.
Proof.
  induction m as [|[k' [v'|]] r IH]; cbn; try tauto.
  - rewrite IH. split; (intros [H|H]; [left; inv H; reflexivity|right; exact H]).
  - rewrite IH. split; auto. intros [H|H]; auto. discriminate.
Qed.

Lemma live_sorted m : fm_ok m -> StronglySorted klt (live m).
Proof.
  induction m as [|[k [v|]] r IH]; intros S; cbn; try constructor.
  - apply IH. apply sorted_inv in S; tauto.
  - apply sorted_inv in S as [_ Hall]. rewrite Forall_forall in *.
    intros [k2 v2] Hin. apply live_In in Hin. apply Hall in Hin. exact Hin.
  - apply IH. apply sorted_inv in S; tauto.
Qed.

(** The specification of a prefix query on a flat map: the strictly ascending list of
    exactly the present facts whose key starts with the prefix. *)
Definition sorted_listing (f : flat) (n : name) (p : keys) (l : list (keys * bytes)) : Prop :=
  StronglySorted klt l /\
  forall k v, In (k, v) l <-> (is_prefix bcmp p k = true /\ f n k = Some v).

Lemma sorted_listing_feq f g n p l : f ≡ g -> sorted_listing f n p l -> sorted_listing g n p l.
Proof. intros H [S M]. split; auto. intros k v. rewrite M, H. tauto. Qed.

(** The specification determines the answer. *)
Lemma sorted_listing_unique f n p l1 l2 :
  sorted_listing f n p l1 -> sorted_listing f n p l2 -> l1 = l2.
Proof.
  intros [S1 M1] [S2 M2].
  apply (sorted_ext kcmp KL); auto.
  intros k. destruct (sget kcmp k l1) as [v|] eqn:E1.
  - apply (sget_In kcmp KL) in E1; auto. apply M1 in E1. apply M2 in E1.
    apply (sget_In kcmp KL) in E1; auto.
  - destruct (sget kcmp k l2) as [v|] eqn:E2; auto.
    apply (sget_In kcmp KL) in E2; auto. apply M2 in E2. apply M1 in E2.
    apply (sget_In kcmp KL) in E2; auto. congruence.
Qed.

(** A sorted map of raw entries, restricted to the prefix, lists the flat map it denotes. *)
Lemma live_listing (f : flat) n p (r : fmap) (raw : keys -> option val) :
  fm_ok r ->
  (forall k, sget kcmp k r = if is_prefix bcmp p k then raw k else None) ->
  (forall k, f n k = match raw k with Some v => v | None => None end) ->
  sorted_listing f n p (live r).
Proof.
  intros S Hr Hf. split; [apply live_sorted; auto|].
  intros k v. rewrite live_In, (sget_In kcmp KL), Hr, Hf; auto.
  destruct (is_prefix bcmp p k); destruct (raw k) as [[x|]|];
    (split; [intros H; try discriminate; inv H; auto | intros [H1 H2]; try discriminate; inv H2; auto]).
Qed.
