(** Refinement: the strand-heap braid ([braid_gen], for every sound
    same-segment oracle) computes exactly the reference braid [braid_spec]. *)
From Aranya Require Import base.Tactics model.Dag model.Braid
  proofs.BraidDag proofs.BraidKey proofs.BraidSpec proofs.BraidLca proofs.BraidCount.

Section Refine.
  Variable g : graph.
  Variable hs : list N.
  Variable ss : N -> N -> bool.
  Variable d : N.
  Hypothesis Hwf : wf_graph g.
  Hypothesis Hin : incl hs (ids g).
  Hypothesis Hss : forall x o, ss x o = true -> anc g x o.
  Hypothesis Hd : forall h, In h hs -> cdom g d h.
  Hypothesis HdA : In d (closure g hs).

  Definition A := closure g hs.
  Definition L := max_cut g d.
  Definition mc := max_cut g.

  Lemma A_below x : In x A -> (mc x <= L)%N -> anc g x d.
  Proof.
    intros Hx Hm. apply closure_spec in Hx as [h [Hh Hx]]; auto. eapply cdom_below; eauto.
  Qed.
  Lemma A_above x : In x A -> (L < mc x)%N -> anc g d x.
  Proof.
    intros Hx Hm. apply closure_spec in Hx as [h [Hh Hx]]; auto. eapply cdom_above; eauto.
  Qed.

  (** Region membership of a command. *)
  Definition inRb (c : cmd) : bool := existsb (fun h => ancb g (cid c) h) hs && (L <? mc (cid c))%N.

  Lemma inRb_spec c : In c g -> (inRb c = true <-> In (cid c) A /\ (L < mc (cid c))%N).
  Proof.
    intros Hc. unfold inRb, A, closure. rewrite andb_true_iff, filter_In, N.ltb_lt.
    assert (In (cid c) (ids g)) by (apply in_map; auto). tauto.
  Qed.

  Definition undone (done : list N) (c : cmd) : bool := inRb c && negb (mem (cid c) done).
  Definition pend (done todo : list N) (x : N) : N := (countN x todo + contrib g (undone done) x)%N.
  Definition arr (x : N) : N := (countN x hs + contrib g inRb x)%N.

  Lemma pend_nil_arr todo x : pend [] todo x = (countN x todo + contrib g inRb x)%N.
  Proof.
    unfold pend. f_equal. apply contrib_in_ext. intros c _. unfold undone. cbn. apply andb_true_r.
  Qed.

  Lemma pend_le_arr done x : (pend done [] x <= contrib g inRb x)%N.
  Proof.
    unfold pend. cbn [countN]. rewrite N.add_0_l. apply contrib_in_le. intros c _. unfold undone.
    rewrite andb_true_iff. tauto.
  Qed.

  Lemma pend_todo done todo x : pend done todo x = (countN x todo + pend done [] x)%N.
  Proof. unfold pend. cbn [countN]. lia. Qed.

  Lemma pend_cons done y todo x : pend done (y :: todo) x = ((if (y =? x)%N then 1 else 0) + pend done todo x)%N.
  Proof. unfold pend. cbn [countN]. destruct (y =? x)%N; lia. Qed.

  (** Popping [m]: its parents move from "unprocessed children" to the todo list. *)
  Lemma pend_pop done m cm x : lookup g m = Some cm -> inRb cm = true -> ~ In m done ->
    pend (m :: done) (parents cm) x = pend done [] x.
  Proof.
    intros Hl Hr Hnd. destruct (lookup_In _ _ _ Hl) as [Hcm Hid]. unfold pend. cbn [countN]. rewrite N.add_0_l.
    unfold contrib. rewrite (contrib_in_split g (undone done) cm x); auto.
    - f_equal. apply contrib_in_ext. intros c Hc. unfold undone, mem. cbn [existsb].
      rewrite Hid. rewrite negb_orb. rewrite <- andb_assoc. f_equal. apply andb_comm.
    - apply wf_nodup; auto.
    - unfold undone. rewrite Hr, Hid. apply mem_false in Hnd. rewrite Hnd. auto.
  Qed.

  (** [pend done [] x = 0]: every region child of [x] has been processed. *)
  Lemma pend_zero done x : pend done [] x = 0%N <->
    forall c, parent_of g x c -> In c A -> (L < mc c)%N -> In c done.
  Proof.
    unfold pend. cbn [countN]. rewrite N.add_0_l, contrib_zero. split.
    - intros H c [cc [Hl Hp]] HcA Hm. destruct (lookup_In _ _ _ Hl) as [Hcc Hid].
      destruct (in_dec N.eq_dec c done) as [|Hn]; auto. exfalso.
      apply (H cc Hcc); auto. unfold undone. rewrite andb_true_iff, negb_true_iff, mem_false.
      rewrite Hid. split; auto. apply inRb_spec; auto. rewrite Hid. auto.
    - intros H c Hc Hu Hx. unfold undone in Hu. rewrite andb_true_iff, negb_true_iff, mem_false in Hu.
      destruct Hu as [Hr Hnd]. apply inRb_spec in Hr as [H1 H2]; auto. apply Hnd.
      apply H; auto. exists c. split; auto. apply lookup_self; auto.
  Qed.

  Lemma region_child x c : In x A -> (L < mc x)%N -> parent_of g x c -> (L < mc c)%N.
  Proof. intros _ Hm Hp. pose proof (max_cut_parent g x c Hwf Hp). unfold mc in *. lia. Qed.

  Lemma arr_pos x : In x A -> (L < mc x)%N -> (1 <= arr x)%N.
  Proof.
    intros Hx Hm. unfold arr. apply closure_spec in Hx as [h [Hh Hx]]; auto.
    destruct (anc_first_step g x h Hwf Hx) as [->|[c [Hc Hch]]].
    - assert (0 < countN h hs)%N by (apply countN_pos; auto). lia.
    - assert (0 < contrib g inRb x)%N; [|lia].
      destruct Hc as [cc [Hl Hp]]. destruct (lookup_In _ _ _ Hl) as [Hcc Hid].
      apply contrib_in_pos. exists cc. repeat split; auto. apply inRb_spec; auto. rewrite Hid. split.
      + apply closure_spec; auto. eauto.
      + apply (region_child x c); auto.
        * apply closure_spec; auto. exists h. split; auto.
        * exists cc. split; auto.
  Qed.

  (** * The BFS pass computes the arrival counts. *)
  Lemma arrivals_count : forall post pre reached, g = pre ++ post ->
    (forall x, countN x reached = (countN x hs + contrib_in pre inRb x)%N) ->
    forall x, countN x (arrivals post mc L reached) = arr x.
  Proof.
    induction post as [|c post IH]; intros pre reached Hg Hinv x; cbn [arrivals].
    - rewrite app_nil_r in Hg. subst pre. apply Hinv.
    - assert (Hcg : In c g) by (rewrite Hg; apply in_or_app; cbn; auto).
      assert (Hcond : mem (cid c) reached && (L <? mc (cid c))%N = inRb c).
      { destruct (L <? mc (cid c))%N eqn:Em; [|unfold inRb; rewrite Em, !andb_false_r; auto].
        rewrite andb_true_r. apply N.ltb_lt in Em.
        destruct (inRb c) eqn:Er.
        - apply inRb_spec in Er as [HcA _]; auto. apply mem_In. apply countN_pos. rewrite Hinv.
          apply closure_spec in HcA as [h [Hh Hch]]; auto.
          destruct (anc_first_step g (cid c) h Hwf Hch) as [E|[k [Hk Hkh]]].
          + rewrite E. assert (0 < countN h hs)%N by (apply countN_pos; auto). lia.
          + assert (0 < contrib_in pre inRb (cid c))%N; [|lia].
            assert (Hkpre : In k (ids pre)) by (apply (child_in_prefix pre c post); rewrite <- Hg; auto).
            apply in_map_iff in Hkpre as [ck [Ek Hck]].
            assert (Hckg : In ck g) by (rewrite Hg; apply in_or_app; auto).
            destruct Hk as [ck' [Hl' Hp']].
            assert (ck' = ck) by (rewrite <- Ek in Hl'; rewrite (lookup_self g ck Hwf Hckg) in Hl'; congruence). subst ck'.
            apply contrib_in_pos. exists ck. repeat split; auto.
            apply inRb_spec; auto. rewrite Ek. split.
            * apply closure_spec; auto. eauto.
            * assert (Hpo : parent_of g (cid c) k) by (exists ck; split; auto).
              pose proof (max_cut_parent g _ _ Hwf Hpo). unfold mc in *. lia.
        - apply mem_false. intros Hr. apply countN_pos in Hr. rewrite Hinv in Hr.
          assert (Hcase : (0 < countN (cid c) hs)%N \/ (0 < contrib_in pre inRb (cid c))%N) by lia.
          assert (In (cid c) A); [|assert (inRb c = true) by (apply inRb_spec; auto); congruence].
          destruct Hcase as [H|H].
          + apply countN_pos in H. apply closure_head; auto.
          + apply contrib_in_pos in H as [ck [Hck [Hrk Hpk]]].
            assert (Hckg : In ck g) by (rewrite Hg; apply in_or_app; auto).
            apply inRb_spec in Hrk as [HkA _]; auto.
            apply (closure_down g hs Hwf (cid c) (cid ck)); auto.
            apply anc_parent; auto. exists ck. split; auto. apply lookup_self; auto. }
      rewrite Hcond. destruct (inRb c) eqn:Er.
      + apply (IH (pre ++ [c])); [rewrite <- app_assoc; auto|].
        intros y. rewrite countN_app, Hinv. unfold contrib_in. rewrite filter_app, flat_map_app, countN_app.
        cbn [filter]. rewrite Er. cbn [flat_map]. rewrite app_nil_r. lia.
      + apply (IH (pre ++ [c])); [rewrite <- app_assoc; auto|].
        intros y. rewrite Hinv. unfold contrib_in. rewrite filter_app, flat_map_app, countN_app.
        cbn [filter]. rewrite Er. cbn. lia.
  Qed.

  Lemma arrivals_arr x : countN x (arrivals g mc L hs) = arr x.
  Proof.
    apply (arrivals_count g [] hs); auto. intros y. unfold contrib_in. cbn. lia.
  Qed.

  Lemma conv_init_look x : clook (conv_init g L hs) x =
    if in_dec N.eq_dec x (ids g) then (if (L <? mc x)%N && (2 <=? arr x)%N then Some (arr x) else None) else None.
  Proof.
    unfold conv_init.
    set (F := fun y => countN y (arrivals g (max_cut g) L hs)).
    assert (HF : forall y, F y = arr y) by (intros y; apply arrivals_arr).
    rewrite <- (map_map (fun y => y) (fun y => (y, F y))), map_id.
    (* move the region filter inside *)
    assert (E : forall l, filter (fun e : N * N => (2 <=? snd e)%N) (map (fun y => (y, F y)) (filter (fun y => (L <? max_cut g y)%N) l))
               = filter (fun e : N * N => (L <? max_cut g (fst e))%N && (2 <=? snd e)%N) (map (fun y => (y, F y)) l)).
    { induction l as [|y l IHl]; cbn [filter map]; auto. destruct (L <? max_cut g y)%N eqn:Ey; cbn [filter map fst snd]; rewrite ?Ey; cbn [andb].
      - destruct (2 <=? F y)%N; rewrite IHl; auto.
      - auto. }
    rewrite E, clook_init by (apply wf_nodup; auto). cbn [fst snd]. rewrite HF. reflexivity.
  Qed.

  (** * The invariant of the braid loop *)

  Definition Rready (done : list N) (x : N) : Prop :=
    In x A /\ (L < mc x)%N /\ ~ In x done /\ pend done [] x = 0%N.

  Definition conv_ok (done todo : list N) (m : list (N * N)) : Prop :=
    NoDup (map fst m)
    /\ (forall x n, clook m x = Some n ->
          n = pend done todo x /\ (1 <= n)%N /\ (2 <= arr x)%N /\ (L < mc x)%N /\ In x (ids g))
    /\ (forall x, In x (ids g) -> (L < mc x)%N -> (2 <= arr x)%N -> (1 <= pend done todo x)%N ->
          clook m x = Some (pend done todo x)).

  Definition heap_ok (done todo : list N) (h : list key) (hf : bool) : Prop :=
    NoDup (map snd h)
    /\ (forall k, In k h -> k = key_of g (snd k))
    /\ (forall x, In x (map snd h) <-> (In x A /\ (L < mc x)%N /\ ~ In x done /\ pend done todo x = 0%N))
    /\ hf = existsb kfin h
    /\ (forall k k', In k h -> In k' h -> kfin k = true -> kfin k' = true -> k = k').

  Record J (done todo : list N) (s : bst) : Prop := {
    J_ok : okdone g hs done;
    J_doneR : forall x, In x done -> (L < mc x)%N;
    J_todo : forall x, In x todo -> In x A /\ ~ In x done;
    J_heap : heap_ok done todo (heap s) (hasfin s);
    J_conv : conv_ok done todo (conv s);
    J_mono : forall x, (pend done todo x <= arr x)%N;
  }.

  Lemma kfin_key x : kfin (key_of g x) = is_fin g x.
  Proof. unfold kfin, key_of, is_fin. destruct (lookup g x); cbn; auto. Qed.

  Lemma pend_cons_other done y todo x : y <> x -> pend done (y :: todo) x = pend done todo x.
  Proof. intros H. rewrite pend_cons. apply N.eqb_neq in H. rewrite H. lia. Qed.

  Lemma pend_cons_same done todo x : pend done (x :: todo) x = (1 + pend done todo x)%N.
  Proof. rewrite pend_cons, N.eqb_refl. auto. Qed.

  Lemma pend_todo_zero done todo x : pend done todo x = 0%N -> pend done [] x = 0%N.
  Proof. rewrite pend_todo. lia. Qed.

  (** The convergence query at [x] (first element of the todo list). *)
  Lemma conv_step done x todo m : conv_ok done (x :: todo) m -> (L < mc x)%N -> In x (ids g) ->
    (pend done (x :: todo) x <= arr x)%N ->
    let '(m', go) := conv_query m x in
    conv_ok done todo m' /\ (go = true <-> pend done todo x = 0%N).
  Proof.
    intros [C0 [C1 C2]] Hm Hx Hmono.
    pose proof (conv_query_spec m x C0) as Hq. destruct (conv_query m x) as [m' go].
    destruct Hq as [Q0 [Q1 Q2]].
    pose proof (pend_cons_same done todo x) as HP.
    assert (Hgo : (go = true <-> pend done todo x = 0%N) /\
                  (forall n, clook m' x = Some n -> n = pend done todo x /\ (1 <= n)%N /\ (2 <= arr x)%N) /\
                  ((2 <= arr x)%N -> (1 <= pend done todo x)%N -> clook m' x = Some (pend done todo x))).
    { destruct (clook m x) as [n|] eqn:En.
      - destruct (C1 x n En) as [E1 [E2 [E3 _]]].
        destruct (1 <? n)%N eqn:E1n.
        + apply N.ltb_lt in E1n. destruct Q2 as [-> Q2]. rewrite Q2. split; [|split].
          * split; [discriminate|intros Hz; exfalso; lia].
          * intros n' Hn'. inv Hn'. repeat split; lia.
          * intros _ _. f_equal. lia.
        + apply N.ltb_ge in E1n. destruct Q2 as [-> Q2]. rewrite Q2. split; [|split].
          * split; [intros _; lia|auto].
          * intros n' Hn'. discriminate.
          * intros _ Hz. exfalso. lia.
      - destruct Q2 as [-> Q2]. rewrite Q2.
        assert (Ha : ~ (2 <= arr x)%N).
        { intros Ha. rewrite (C2 x Hx Hm Ha) in En by lia. discriminate. }
        split; [|split].
        * split; [intros _; lia|auto].
        * intros n' Hn'. discriminate.
        * intros Hz. tauto. }
    destruct Hgo as [G1 [G2 G3]]. split; auto.
    split; [auto|split].
    - intros y n Hy. destruct (N.eq_dec y x) as [->|Hne].
      + destruct (G2 n Hy) as [A1 [A2 A3]]. repeat split; auto.
      + rewrite Q1 in Hy by auto. destruct (C1 y n Hy) as [A1 A2].
        rewrite pend_cons_other in A1 by auto. split; auto.
    - intros y Hy Hym Hya Hyp. destruct (N.eq_dec y x) as [->|Hne]; auto.
      rewrite Q1 by auto. rewrite <- (pend_cons_other done x todo y) by auto. apply C2; auto.
      rewrite pend_cons_other; auto.
  Qed.

  (** Dropping [x] from the todo list without pushing it. *)
  Lemma heap_skip done x todo h hf : heap_ok done (x :: todo) h hf ->
    ((mc x <= L)%N \/ pend done todo x <> 0%N) -> heap_ok done todo h hf.
  Proof.
    intros [H0 [H1 [H2 [H3 H4]]]] Hx. split; [auto|split; [auto|split; [|split; auto]]].
    intros y. split.
    - intros Hy. apply H2 in Hy as [A1 [A2 [A3 A4]]]. split; [auto|split; [auto|split; [auto|]]].
      rewrite pend_cons in A4. lia.
    - intros [A1 [A2 [A3 A4]]]. apply H2. split; [auto|split; [auto|split; [auto|]]].
      destruct (N.eq_dec x y) as [->|Hne]; [|rewrite pend_cons_other; auto].
      destruct Hx; [unfold mc in *; lia|congruence].
  Qed.

  Lemma conv_skip done x todo m : conv_ok done (x :: todo) m -> (mc x <= L)%N -> conv_ok done todo m.
  Proof.
    intros [C0 [C1 C2]] Hx. split; auto. split.
    - intros y n Hy. destruct (C1 y n Hy) as [A1 [A2 [A3 [A4 A5]]]]. repeat split; auto.
      rewrite pend_cons_other in A1; auto. intros ->. lia.
    - intros y Hy Hym Hya Hyp. assert (x <> y) by (intros ->; lia).
      rewrite <- (pend_cons_other done x todo y) by auto. apply C2; auto. rewrite pend_cons_other; auto.
  Qed.

  (** The same-segment check never fires: a command whose last arrival was
      just processed is not an ancestor-or-equal of any strand in the heap. *)
  Lemma ss_never done x todo h hf : okdone g hs done -> heap_ok done (x :: todo) h hf ->
    In x A -> (L < mc x)%N -> pend done todo x = 0%N ->
    existsb (fun o => ss x (snd o)) h = false.
  Proof.
    intros Hok [H0 [H1 [H2 [H3 H4]]]] HxA Hm Hp.
    destruct (existsb (fun o => ss x (snd o)) h) eqn:E; auto. exfalso.
    apply existsb_exists in E as [o [Ho Hs]]. apply Hss in Hs.
    assert (Hoh : In (snd o) (map snd h)) by (apply in_map; auto).
    apply H2 in Hoh as [A1 [A2 [A3 A4]]].
    destruct (anc_first_step g x (snd o) Hwf Hs) as [E|[c [Hc Hco]]].
    - rewrite <- E in A4. rewrite pend_cons_same in A4. lia.
    - assert (HcA : In c A) by (apply (closure_down g hs Hwf c (snd o)); auto).
      assert (Hcm : (L < mc c)%N) by (apply (region_child x c); auto).
      apply pend_todo_zero in Hp. rewrite pend_zero in Hp.
      apply A3. apply (okdone_desc g hs Hwf done Hok c (snd o)); auto.
  Qed.

  Lemma visit_inv chk done x todo s : J done (x :: todo) s ->
    match visit ss chk g L s x with
    | Some s' => J done todo s' /\ out s' = out s
    | None => exists f, f <> x /\ is_fin g f = true /\ is_fin g x = true /\ Rready done f /\ Rready done x
    end.
  Proof.
    intros [Jok JdR Jtodo Jheap Jconv Jmono].
    destruct (Jtodo x (or_introl eq_refl)) as [HxA Hxd].
    assert (Hxg : In x (ids g)) by (apply (closure_ids g hs); auto).
    assert (Jtodo' : forall y, In y todo -> In y A /\ ~ In y done) by (intros y Hy; apply Jtodo; cbn; auto).
    assert (Jmono' : forall y, (pend done todo y <= arr y)%N).
    { intros y. specialize (Jmono y). rewrite pend_cons in Jmono. lia. }
    unfold visit. fold mc. destruct (mc x <=? L)%N eqn:Em.
    - apply N.leb_le in Em. split; auto. constructor; auto.
      + eapply heap_skip; eauto.
      + eapply conv_skip; eauto.
    - apply N.leb_gt in Em.
      pose proof (conv_step done x todo (conv s) Jconv Em Hxg (Jmono x)) as Hc.
      destruct (conv_query (conv s) x) as [m' go]. destruct Hc as [Hc Hgo].
      destruct go; cbn [negb].
      + assert (Hp : pend done todo x = 0%N) by (apply Hgo; auto).
        cbn [heap].
        assert (Hss' : (chk && existsb (fun o => ss x (snd o)) (heap s)) = false).
        { rewrite (ss_never done x todo (heap s) (hasfin s)); auto. apply andb_false_r. }
        rewrite Hss'. unfold push_strand. cbn [heap hasfin conv out].
        destruct Jheap as [H0 [H1 [H2 [H3 H4]]]].
        assert (Hxh : ~ In x (map snd (heap s))).
        { intros Hh. apply H2 in Hh as [_ [_ [_ Hh]]]. rewrite pend_cons_same in Hh. lia. }
        assert (Hheap' : forall hf', hf' = existsb kfin (key_of g x :: heap s) ->
                  (kfin (key_of g x) = true -> hasfin s = false) ->
                  heap_ok done todo (key_of g x :: heap s) hf').
        { intros hf' Ehf Hf. split; [|split; [|split; [|split; [auto|]]]].
          - cbn [map]. rewrite key_of_snd. constructor; auto.
          - intros k [<-|Hk]; [rewrite key_of_snd; auto|auto].
          - intros y. cbn [map In]. rewrite key_of_snd. split.
            + intros [<-|Hy]; [split; [auto|split; [auto|split; auto]]|].
              apply H2 in Hy as [A1 [A2 [A3 A4]]]. split; [auto|split; [auto|split; [auto|]]]. rewrite pend_cons in A4. lia.
            + intros [A1 [A2 [A3 A4]]].
              destruct (N.eq_dec x y) as [->|Hne]; auto. right. apply H2. split; [auto|split; [auto|split; [auto|]]].
              rewrite pend_cons_other; auto.
          - intros k k' [<-|Hk] [<-|Hk'] F1 F2; auto.
            + exfalso. specialize (Hf F1). rewrite H3 in Hf.
              assert (existsb kfin (heap s) = true) by (apply existsb_exists; eauto). congruence.
            + exfalso. specialize (Hf F2). rewrite H3 in Hf.
              assert (existsb kfin (heap s) = true) by (apply existsb_exists; eauto). congruence. }
        destruct (kfin (key_of g x)) eqn:Ek.
        * destruct (hasfin s) eqn:Ehf.
          -- symmetry in H3. apply existsb_exists in H3 as [k [Hk Hkf]].
             assert (Hkh : In (snd k) (map snd (heap s))) by (apply in_map; auto).
             exists (snd k). split; [intros E; apply Hxh; rewrite <- E; auto|].
             split; [rewrite <- kfin_key, <- (H1 k Hk); auto|].
             split; [rewrite <- kfin_key; auto|].
             apply H2 in Hkh as [A1 [A2 [A3 A4]]].
             split; (split; [auto|split; [auto|split; [auto|eapply pend_todo_zero; eauto]]]).
          -- split; auto. constructor; auto. apply Hheap'; auto. cbn [existsb]. rewrite Ek. auto.
        * split; auto. constructor; auto. apply Hheap'; [|congruence]. cbn [existsb]. rewrite Ek. auto.
      + assert (Hp : pend done todo x <> 0%N) by (intros E; apply Hgo in E; discriminate).
        split; auto. constructor; auto. cbn [heap hasfin]. eapply heap_skip; eauto.
  Qed.

  Lemma visit_all_inv chk done : forall todo s, J done todo s ->
    match visit_all ss chk g L s todo with
    | Some s' => J done [] s' /\ out s' = out s
    | None => exists f x, f <> x /\ is_fin g f = true /\ is_fin g x = true /\ Rready done f /\ Rready done x
    end.
  Proof.
    induction todo as [|x todo IH]; intros s HJ; cbn [visit_all]; [auto|].
    pose proof (visit_inv chk done x todo s HJ) as Hv.
    destruct (visit ss chk g L s x) as [s'|].
    - destruct Hv as [HJ' Ho]. specialize (IH s' HJ').
      destruct (visit_all ss chk g L s' todo) as [s''|]; auto.
      destruct IH as [H1 H2]. split; auto. congruence.
    - destruct Hv as [f Hf]. exists f, x. auto.
  Qed.

  (** * Ready commands of the reference = strands of the heap *)

  Lemma Rready_ready done x : Rready done x -> In x (ready g A done).
  Proof.
    intros [H1 [H2 [H3 H4]]]. apply (ready_spec g hs Hwf). split; [auto|split; [auto|]].
    intros c Hc HcA. rewrite pend_zero in H4. apply H4; auto. apply (region_child x c); auto.
  Qed.

  Lemma ready_Rready done x : In x (ready g A done) -> (L < mc x)%N -> Rready done x.
  Proof.
    intros Hr Hm. apply (ready_spec g hs Hwf) in Hr as [H1 [H2 H3]].
    split; [auto|split; [auto|split; [auto|]]]. apply pend_zero. intros c Hc HcA _. auto.
  Qed.

  Lemma ready_region done : okdone g hs done ->
    (exists y, In y A /\ (L < mc y)%N /\ ~ In y done) ->
    forall x, In x (ready g A done) -> (L < mc x)%N.
  Proof.
    intros Hok [y [HyA [Hym Hyd]]] x Hr.
    destruct (N.lt_ge_cases L (mc x)) as [|Hle]; auto. exfalso.
    apply (ready_spec g hs Hwf) in Hr as [H1 [H2 H3]].
    assert (Hxd : anc g x d) by (apply A_below; auto).
    assert (Hdy : anc g d y) by (apply A_above; auto).
    assert (Hxy : anc g x y) by (eapply anc_trans; eauto).
    destruct (anc_first_step g x y Hwf Hxy) as [E|[c [Hc Hcy]]].
    - subst. unfold mc in *. lia.
    - assert (HcA : In c A) by (apply (closure_down g hs Hwf c y); auto).
      apply Hyd. apply (okdone_desc g hs Hwf done Hok c y); auto.
  Qed.

  Lemma heap_ready done s : J done [] s -> heap s <> [] ->
    forall x, In x (map snd (heap s)) <-> In x (ready g A done).
  Proof.
    intros HJ Hne x. destruct HJ as [Jok _ _ [H0 [H1 [H2 _]]] _ _]. split.
    - intros Hx. apply H2 in Hx. apply Rready_ready. auto.
    - intros Hx. apply H2. apply ready_Rready; auto.
      apply (ready_region done Jok); auto.
      destruct (heap s) as [|k r] eqn:Eh; [congruence|].
      assert (Hk : In (snd k) (map snd (k :: r))) by (cbn; auto).
      apply H2 in Hk as [A1 [A2 [A3 _]]]. eauto.
  Qed.

  (** * Small list facts *)
  Lemma nodup_singleton (l : list N) b : NoDup l -> (forall y, In y l <-> y = b) -> l = [b].
  Proof.
    intros Hnd H. destruct l as [|x l].
    - exfalso. apply (H b). auto.
    - assert (x = b) by (apply H; cbn; auto). subst x. f_equal.
      destruct l as [|y l]; auto. exfalso. inv Hnd.
      assert (y = b) by (apply H; cbn; auto). subst y. apply H2. cbn; auto.
  Qed.

  Lemma count_fin_le1 l : NoDup l -> (forall x y, In x l -> In y l -> is_fin g x = true -> is_fin g y = true -> x = y) ->
    (2 <=? count_fin g l) = false.
  Proof.
    intros Hnd H. unfold count_fin.
    assert (Hf : NoDup (filter (is_fin g) l)) by (apply NoDup_filter; auto).
    destruct (filter (is_fin g) l) as [|a [|b r]] eqn:E; auto. exfalso.
    assert (Ha : In a (filter (is_fin g) l)) by (rewrite E; cbn; auto).
    assert (Hb : In b (filter (is_fin g) l)) by (rewrite E; cbn; auto).
    apply filter_In in Ha as [Ha1 Ha2]. apply filter_In in Hb as [Hb1 Hb2].
    assert (a = b) by (apply H; auto). subst. inv Hf. apply H2. cbn; auto.
  Qed.

  Lemma count_fin_ge2 l f x : NoDup l -> In f l -> In x l -> f <> x -> is_fin g f = true -> is_fin g x = true ->
    (2 <=? count_fin g l) = true.
  Proof.
    intros Hnd Hf Hx Hne F1 F2. unfold count_fin.
    assert (Hnd' : NoDup (filter (is_fin g) l)) by (apply NoDup_filter; auto).
    assert (Hinc : incl [f; x] (filter (is_fin g) l)).
    { intros y [<-|[<-|[]]]; apply filter_In; auto. }
    assert (Hl : length [f; x] <= length (filter (is_fin g) l)).
    { apply NoDup_incl_length; auto. constructor; [cbn; intuition congruence|constructor; [cbn; tauto|constructor]]. }
    cbn [length] in Hl. apply Nat.leb_le. auto.
  Qed.

  Lemma remove_key_ids k l y : NoDup (map snd l) -> In y (map snd (remove_key k l)) <-> In y (map snd l) /\ y <> snd k.
  Proof.
    intros Hnd. rewrite !in_map_iff. split.
    - intros [k' [E Hk']]. apply remove_key_in in Hk' as [H1 H2]; auto. subst y. split; eauto.
    - intros [[k' [E Hk']] Hne]. exists k'. split; auto. apply remove_key_in; auto. subst y. auto.
  Qed.

  Lemma parents_of_lookup m cm : lookup g m = Some cm -> parents_of g m = parents cm.
  Proof. intros H. unfold parents_of. rewrite H. auto. Qed.

  (** * The loop *)
  Lemma loop_refines : forall f2 f1 done s, J done [] s -> out s = filter (nm g) done ->
    (exists k1 k2 r, heap s = k1 :: k2 :: r) ->
    length A < f1 + length done + 1 -> length A < f2 + length done + 1 ->
    braid_loop ss g L f2 s = spec_loop g A f1 done.
  Proof.
    induction f2 as [|f2 IH]; intros f1 done s HJ Hout [k1 [k2 [hr Hheap]]] Hf1 Hf2.
    { exfalso. pose proof (ready_done_disjoint_length g hs Hwf done (J_ok _ _ _ HJ)) as Hlen.
      assert (Hk : In (snd k1) (ready g A done)).
      { apply (heap_ready done s HJ); [rewrite Hheap; discriminate|]. rewrite Hheap. cbn; auto. }
      fold A in Hlen. destruct (ready g A done); [destruct Hk|]. cbn [length] in Hlen. lia. }
    assert (Hhne : heap s <> []) by (rewrite Hheap; discriminate).
    pose proof (heap_ready done s HJ Hhne) as Hsame.
    pose proof HJ as [Jok JdR Jtodo [H0 [H1 [H2 [H3 H4]]]] Jconv Jmono].
    assert (Hrdnd : NoDup (ready g A done)) by (apply (ready_nodup g hs Hwf)).
    (* the ready list has at least two elements *)
    destruct (ready g A done) as [|x [|y r]] eqn:Er.
    { exfalso. assert (In (snd k1) []) by (apply Hsame; rewrite Hheap; cbn; auto). auto. }
    { exfalso. rewrite Hheap in H0. cbn [map] in H0. inversion H0 as [|? ? Hn1 Hn2].
      assert (E1 : In (snd k1) [x]) by (apply Hsame; rewrite Hheap; cbn; auto).
      assert (E2 : In (snd k2) [x]) by (apply Hsame; rewrite Hheap; cbn; auto).
      destruct E1 as [E1|[]]. destruct E2 as [E2|[]]. apply Hn1. rewrite <- E1, E2. cbn; auto. }
    clear Hsame. pose proof (heap_ready done s HJ Hhne) as Hsame.
    destruct f1 as [|f1].
    { exfalso. pose proof (ready_done_disjoint_length g hs Hwf done Jok) as Hlen. fold A in Hlen. rewrite Er in Hlen.
      cbn [length] in Hlen. lia. }
    cbn [spec_loop]. rewrite Er.
    assert (Hfin1 : (2 <=? count_fin g (x :: y :: r)) = false).
    { apply count_fin_le1; auto. intros a b Ha Hb Fa Fb. rewrite <- Er in Ha, Hb.
      apply Hsame in Ha. apply Hsame in Hb. apply in_map_iff in Ha as [ka [Ea Hka]]. apply in_map_iff in Hb as [kb [Eb Hkb]].
      assert (ka = kb); [|congruence].
      apply H4; auto; [rewrite (H1 ka Hka), kfin_key, Ea|rewrite (H1 kb Hkb), kfin_key, Eb]; auto. }
    rewrite Hfin1.
    set (m := min_by g x (y :: r)).
    (* the popped strand is the reference's choice *)
    cbn [braid_loop]. unfold pop_min. rewrite Hheap.
    set (k := min_key k1 (k2 :: hr)).
    assert (Hk : k = key_of g m).
    { apply (least_unique (k1 :: k2 :: hr) (map (key_of g) (x :: y :: r))).
      - intros i. rewrite map_map. rewrite (map_ext (fun z => snd (key_of g z)) (fun z => z)) by (intros; apply key_of_snd).
        rewrite map_id. rewrite <- Hheap, <- Er. apply Hsame.
      - intros ka kb Hka Hkb E. apply in_map_iff in Hkb as [z [Ez _]]. rewrite <- Hheap in Hka.
        rewrite (H1 ka Hka), E, <- Ez, key_of_snd. auto.
      - apply min_key_least.
      - unfold m. rewrite min_by_map. apply (min_key_least (map (key_of g) (y :: r))). }
    assert (Hksnd : snd k = m) by (rewrite Hk; apply key_of_snd).
    assert (Hmr : In m (ready g A done)) by (rewrite Er; apply min_by_in).
    assert (Hkin : In k (heap s)) by (rewrite Hheap; apply (min_key_least (k2 :: hr) k1)).
    assert (HmR : Rready done m).
    { assert (In m (map snd (heap s))) by (apply Hsame; auto). apply H2 in H. auto. }
    destruct HmR as [HmA [Hmm [Hmd Hmp]]].
    destruct (ids_lookup g m (closure_ids g hs m HmA)) as [cm Hcm].
    destruct (lookup_In _ _ _ Hcm) as [Hcmg Hcmid].
    assert (Hcmr : inRb cm = true) by (apply inRb_spec; auto; rewrite Hcmid; auto).
    rewrite Hksnd. rewrite (parents_of_lookup m cm Hcm).
    set (h' := remove_key k (k1 :: k2 :: hr)).
    set (s1 := {| heap := h'; hasfin := if kfin k then false else hasfin s; conv := conv s;
                  out := if is_merge_id g m then out s else m :: out s |}).
    assert (Hh'ids : forall z, In z (map snd h') <-> In z (map snd (heap s)) /\ z <> m).
    { intros z. unfold h'. rewrite <- Hheap, <- Hksnd. apply remove_key_ids; auto. }
    assert (HJ1 : J (m :: done) (parents cm) s1).
    { constructor.
      - apply okdone_ready; auto.
      - intros z [<-|Hz]; auto.
      - intros p Hp.
        assert (Hpo : parent_of g p m) by (exists cm; auto).
        split; [apply (closure_down g hs Hwf p m); auto; apply anc_parent; auto|].
        intros [E|Hpd].
        + pose proof (max_cut_parent g p m Hwf Hpo). subst. lia.
        + apply Hmd. apply (okdone_up g hs done Jok p m); auto.
      - cbn [heap hasfin s1]. split; [|split; [|split; [|split]]].
        + unfold h'. rewrite <- Hheap. apply remove_key_nodup; auto.
        + intros ka Hka. apply H1. unfold h' in Hka. rewrite <- Hheap in Hka. apply remove_key_in in Hka; tauto.
        + intros z. rewrite Hh'ids, H2. rewrite (pend_pop done m cm z Hcm Hcmr Hmd). cbn [In].
          split; [intros [[B1 [B2 [B3 B4]]] B5]|intros [B1 [B2 [B3 B4]]]]; intuition congruence.
        + destruct (kfin k) eqn:Ek.
          * symmetry. destruct (existsb kfin h') eqn:E; auto. exfalso.
            apply existsb_exists in E as [ka [Hka Fka]]. unfold h' in Hka. rewrite <- Hheap in Hka.
            apply remove_key_in in Hka as [Hka Hne]; auto. apply Hne. f_equal. apply H4; auto.
          * rewrite H3. destruct (existsb kfin (heap s)) eqn:E1; destruct (existsb kfin h') eqn:E2; auto; exfalso.
            -- apply existsb_exists in E1 as [ka [Hka Fka]].
               assert (In ka h').
               { unfold h'. rewrite <- Hheap. apply remove_key_in; auto. split; auto. intros E. 
                 assert (ka = k) by (rewrite (H1 ka Hka), (H1 k Hkin), E; auto). congruence. }
               assert (existsb kfin h' = true) by (apply existsb_exists; eauto). congruence.
            -- apply existsb_exists in E2 as [ka [Hka Fka]]. unfold h' in Hka. rewrite <- Hheap in Hka.
               apply remove_key_in in Hka as [Hka _]; auto.
               assert (existsb kfin (heap s) = true) by (apply existsb_exists; eauto). congruence.
        + intros ka kb Hka Hkb. unfold h' in Hka, Hkb. rewrite <- Hheap in Hka, Hkb.
          apply remove_key_in in Hka as [Hka _]; auto. apply remove_key_in in Hkb as [Hkb _]; auto.
      - cbn [conv s1]. destruct Jconv as [C0 [C1 C2]]. split; [auto|split].
        + intros z n Hz. rewrite (pend_pop done m cm z Hcm Hcmr Hmd). auto.
        + intros z. rewrite (pend_pop done m cm z Hcm Hcmr Hmd). auto.
      - intros z. rewrite (pend_pop done m cm z Hcm Hcmr Hmd). auto. }
    assert (Hout1 : out s1 = filter (nm g) (m :: done)).
    { cbn [out s1 filter]. unfold nm at 1. destruct (is_merge_id g m); cbn [negb]; congruence. }
    pose proof (visit_all_inv true (m :: done) (parents cm) s1 HJ1) as Hva.
    assert (Hok1 : okdone g hs (m :: done)) by (apply okdone_ready; auto).
    pose proof (ready_done_disjoint_length g hs Hwf (m :: done) Hok1) as Hlen1. fold A in Hlen1. cbn [length] in Hlen1.
    destruct (visit_all ss true g L s1 (parents cm)) as [s'|].
    - destruct Hva as [HJ' Ho'].
      (* some strand other than m survives *)
      assert (Hsurv : exists z, In z (map snd (heap s')) ).
      { assert (Hex : exists z, In z (map snd h')).
        { destruct (N.eq_dec (snd k1) m) as [E|E].
          - exists (snd k2). apply Hh'ids. rewrite Hheap. cbn [map In]. split; auto.
            rewrite Hheap in H0. cbn [map] in H0. inversion H0 as [|? ? Hn1 Hn2]. intros E'. apply Hn1. rewrite E, <- E'. cbn; auto.
          - exists (snd k1). apply Hh'ids. rewrite Hheap. cbn [map In]. auto. }
        destruct Hex as [z Hz]. exists z.
        destruct HJ1 as [_ _ _ [_ [_ [G2 _]]] _ _]. destruct HJ' as [_ _ _ [_ [_ [G2' _]]] _ _].
        apply G2'. cbn [heap s1] in G2. apply G2 in Hz as [B1 [B2 [B3 B4]]].
        split; [auto|split; [auto|split; [auto|eapply pend_todo_zero; eauto]]]. }
      assert (Hne' : heap s' <> []) by (destruct Hsurv as [z Hz]; destruct (heap s'); [destruct Hz|discriminate]).
      pose proof (heap_ready (m :: done) s' HJ' Hne') as Hsame'.
      destruct (heap s') as [|b [|b2 hr']] eqn:Eh'; [congruence| |].
      + (* lone *)
        destruct f1 as [|f1].
        { exfalso. destruct Hsurv as [z Hz]. apply Hsame' in Hz. destruct (ready g A (m :: done)); [destruct Hz|]. cbn [length] in Hlen1. lia. }
        cbn [spec_loop finish].
        assert (Hrd : ready g A (m :: done) = [snd b]).
        { apply nodup_singleton; [apply (ready_nodup g hs Hwf)|]. intros z. rewrite <- Hsame'. cbn. intuition. }
        rewrite Hrd. rewrite count_fin_le1.
        * rewrite Ho', Hout1. reflexivity.
        * constructor; [cbn; tauto|constructor].
        * intros a c [<-|[]] [<-|[]] _ _. auto.
      + apply IH; auto.
        * congruence.
        * eauto.
        * cbn [length]. lia.
        * cbn [length]. lia.
    - destruct Hva as [fa [xa [Hne [Fa [Fx [Ra Rx]]]]]].
      apply Rready_ready in Ra. apply Rready_ready in Rx.
      destruct f1 as [|f1].
      { exfalso. destruct (ready g A (m :: done)); [destruct Ra|]. cbn [length] in Hlen1. lia. }
      cbn [spec_loop]. rewrite (count_fin_ge2 _ fa xa); auto. apply (ready_nodup g hs Hwf).
  Qed.

  (** * Seeding and the whole braid *)
  Definition s0 : bst := {| heap := []; hasfin := false; conv := conv_init g L hs; out := [] |}.

  Lemma J_init : J [] hs s0.
  Proof.
    constructor.
    - constructor.
    - intros x [].
    - intros h Hh. split; [apply closure_head; auto|tauto].
    - cbn [heap hasfin s0]. split; [constructor|split; [intros k []|split; [|split; [reflexivity|intros k k' []]]]].
      intros x. cbn [map In]. split; [tauto|]. intros [H1 [H2 [_ H4]]].
      rewrite pend_nil_arr in H4. pose proof (arr_pos x H1 H2). unfold arr in H. lia.
    - cbn [conv s0]. split; [|split].
      + unfold conv_init. apply filter_map_keys_nodup. apply NoDup_filter. apply wf_nodup; auto.
      + intros x n Hx. rewrite conv_init_look in Hx. destruct (in_dec N.eq_dec x (ids g)); [|discriminate].
        destruct ((L <? mc x)%N && (2 <=? arr x)%N) eqn:E; [|discriminate]. inv Hx.
        apply andb_true_iff in E as [E1 E2]. apply N.ltb_lt in E1. apply N.leb_le in E2.
        rewrite pend_nil_arr. unfold arr in *. repeat split; auto; lia.
      + intros x Hx Hm Ha _. rewrite conv_init_look. destruct (in_dec N.eq_dec x (ids g)); [|tauto].
        apply N.ltb_lt in Hm. apply N.leb_le in Ha. rewrite Hm, Ha. cbn [andb]. rewrite pend_nil_arr. reflexivity.
    - intros x. rewrite pend_nil_arr. unfold arr. lia.
  Qed.

  Lemma spec_unfold f done : spec_loop g A (S f) done =
    let rd := ready g A done in
    if 2 <=? count_fin g rd then BParFin else
    match rd with
    | [] => BBug
    | [b] => BOk b (filter (fun x => negb (is_merge_id g x)) done)
    | x :: r => spec_loop g A f (min_by g x r :: done)
    end.
  Proof. reflexivity. Qed.

  Theorem braid_gen_spec_d : last_common_ancestor g hs = Some d -> braid_gen ss g hs = braid_spec g hs.
  Proof.
    intros Hlca. unfold braid_gen, braid_spec. rewrite Hlca. fold L. fold s0. fold A.
    pose proof (visit_all_inv false [] hs s0 J_init) as Hva.
    assert (HlenA : length A <= length g).
    { unfold A. rewrite <- (map_length cid g). apply NoDup_incl_length; [apply (closure_nodup g hs Hwf)|intros x; apply (closure_ids g hs)]. }
    rewrite spec_unfold. cbv zeta.
    destruct (visit_all ss false g L s0 hs) as [s1|].
    - destruct Hva as [HJ Ho]. cbn [out s0] in Ho.
      pose proof HJ as [Jok _ _ [H0 [H1 [H2 [H3 H4]]]] _ _].
      destruct (heap s1) as [|b [|b2 hr]] eqn:Eh.
      + (* no strand: every head is the LCA *)
        assert (Hreg : forall x, In x A -> (mc x <= L)%N).
        { intros x Hx. destruct (N.lt_ge_cases L (mc x)) as [Hlt|]; auto. exfalso.
          destruct (unprocessed_below_ready g hs Hwf [] Jok x Hx) as [b [Hb Hxb]]; [tauto|].
          assert (Hbm : (L < mc b)%N) by (pose proof (anc_max_cut g x b Hwf Hxb); unfold mc in *; lia).
          apply ready_Rready in Hb; auto.
          assert (In b (map snd (@nil key))) by (apply H2; auto). destruct H. }
        assert (Hrd : ready g A [] = [d]).
        { apply nodup_singleton; [apply (ready_nodup g hs Hwf)|]. intros y. rewrite (ready_spec g hs Hwf). split.
          - intros [HyA [_ Hc]]. assert (Hyd : anc g y d) by (apply A_below; auto).
            destruct (anc_first_step g y d Hwf Hyd) as [E|[c [Hc1 Hc2]]]; auto.
            exfalso. apply (Hc c Hc1). apply (closure_down g hs Hwf c d); auto.
          - intros ->. split; [auto|split; [tauto|]]. intros c Hc HcA. exfalso.
            pose proof (Hreg c HcA). pose proof (max_cut_parent g d c Hwf Hc). unfold mc, L in *. lia. }
        rewrite Hrd. rewrite count_fin_le1; [reflexivity|constructor; [cbn; tauto|constructor]|].
        intros a c [<-|[]] [<-|[]] _ _. auto.
      + (* one strand *)
        assert (Hne : heap s1 <> []) by (rewrite Eh; discriminate).
        pose proof (heap_ready [] s1 HJ Hne) as Hsame. rewrite Eh in Hsame.
        assert (Hrd : ready g A [] = [snd b]).
        { apply nodup_singleton; [apply (ready_nodup g hs Hwf)|]. intros z. rewrite <- Hsame. cbn. intuition. }
        rewrite Hrd. rewrite count_fin_le1; [reflexivity|constructor; [cbn; tauto|constructor]|].
        intros a c [<-|[]] [<-|[]] _ _. auto.
      + rewrite <- spec_unfold. apply loop_refines; auto.
        * rewrite Eh. eauto.
        * cbn [length]. lia.
        * cbn [length]. lia.
    - destruct Hva as [fa [xa [Hne [Fa [Fx [Ra Rx]]]]]].
      apply Rready_ready in Ra. apply Rready_ready in Rx.
      rewrite (count_fin_ge2 _ fa xa); auto. apply (ready_nodup g hs Hwf).
  Qed.
End Refine.

(** The braid, for every sound same-segment oracle (in particular for every
    segment layout of the same graph), computes the reference braid. *)
Definition braid_gen_refines_spec_stmt : Prop :=
  forall (ss : N -> N -> bool) (g : graph) (hs : list N),
    wf_graph g -> single_root g -> hs <> [] -> incl hs (ids g) ->
    (forall x o, ss x o = true -> anc g x o) ->
    braid_gen ss g hs = braid_spec g hs.

Lemma braid_gen_refines_spec_proof : braid_gen_refines_spec_stmt.
Proof.
  intros ss g hs Hwf Hsr Hne Hin Hss.
  destruct (lca_total g hs Hwf Hsr Hne Hin) as [d Hd].
  apply (braid_gen_spec_d g hs ss d); auto.
  - apply (lca_cdom g hs d); auto.
  - destruct hs as [|h t]; [congruence|].
    assert (Hc : cdom g d h) by (apply (lca_cdom g (h :: t) d); auto; cbn; auto).
    apply closure_spec; auto. exists h. split; [cbn; auto|apply Hc].
Qed.

Definition braid_refines_spec_stmt : Prop :=
  forall (g : graph) (hs : list N),
    wf_graph g -> single_root g -> hs <> [] -> incl hs (ids g) ->
    braid_L1 g hs = braid_spec g hs.

Lemma braid_refines_spec_proof : braid_refines_spec_stmt.
Proof.
  intros g hs Hwf Hsr Hne Hin. unfold braid_L1. apply braid_gen_refines_spec_proof; auto.
  intros x o H. discriminate.
Qed.
