(** C31 — proofs about the extracted decision skeleton of the policy compiler CLI.

    Everything here is stated over [GenCli.main_steps] and the [GenCli.validate_*]
    values, which are regenerated from main.rs / validate.rs on every run: if a
    condition in main.rs is inverted, or [validate] changes the meaning of its
    result, these proofs stop compiling. *)
From Aranya Require Import base.Tactics model.CliSyntax gen.GenCli model.Cli.

(** ** What [validate] returns, for every list of per-label trace results *)

Lemma validate_loop_true ts : validate_loop true ts = true.
Proof. induction ts as [|[|[|n]] ts IH]; cbn; auto. Qed.

Lemma validate_loop_false ts : validate_loop false ts = negb (forallb trace_clean ts).
Proof.
  induction ts as [|[|[|n]] ts IH]; cbn; auto.
  apply validate_loop_true.
Qed.

(** [validate] returns [true] exactly when validation did NOT pass. *)
Lemma validate_spec ts : validate ts = negb (forallb trace_clean ts).
Proof. unfold validate. cbn. apply validate_loop_false. Qed.

Definition validate_returns_failed_stmt : Prop :=
  forall ts : list trace, validate ts = negb (forallb trace_clean ts).
Lemma validate_returns_failed_proof : validate_returns_failed_stmt.
Proof. exact validate_spec. Qed.

Lemma passes_iff w : validation_passes w <-> forallb trace_clean (w_traces w) = true.
Proof.
  unfold validation_passes. rewrite forallb_forall, Forall_forall.
  split; intros H t Ht.
  - rewrite (H t Ht). reflexivity.
  - specialize (H t Ht). destruct t as [|[|n]]; cbn in H; congruence.
Qed.

Lemma validate_true_iff w : validate (w_traces w) = true <-> ~ validation_passes w.
Proof.
  rewrite validate_spec, passes_iff. destruct (forallb trace_clean (w_traces w)); cbn; split; congruence.
Qed.

Lemma validate_false_iff w : validate (w_traces w) = false <-> validation_passes w.
Proof.
  rewrite validate_spec, passes_iff. destruct (forallb trace_clean (w_traces w)); cbn; split; congruence.
Qed.

(** ** The decision theorem *)

Definition good_input (w : world) : Prop :=
  w_read_ok w = true /\ w_parse_ok w = true /\ w_compile_ok w = true
  /\ (w_no_validate w = true \/ validation_passes w).

Definition cli_decision_stmt : Prop :=
  forall w : world,
  let o := cli w in
  (* exits successfully only if the policy parses, compiles and (unless disabled) validates *)
  (st o = Exited ExitSuccess -> good_input w)
  (* an output file appears only in that case too, and then only without --stub-ffi *)
  /\ (created o = true -> good_input w /\ w_stub_ffi w = false)
  /\ (written o = true -> created o = true /\ st o = Exited ExitSuccess)
  (* a policy that fails validation makes the tool exit with failure and write nothing *)
  /\ (w_read_ok w = true -> w_parse_ok w = true -> w_compile_ok w = true ->
      w_no_validate w = false -> ~ validation_passes w ->
      st o = Exited ExitFailure /\ created o = false).

(** Case analysis over the nine atoms; the only non-boolean ingredient, the
    list of traces, enters through [validate_true_iff] / [validate_false_iff]. *)
Ltac crush_world w :=
  let Hv := fresh "Hv" in let Hp := fresh "Hp" in
  pose proof (validate_true_iff w) as Hv; pose proof (validate_false_iff w) as Hp;
  destruct w as [rd pa co ts nv sf vb cr wr];
  unfold cli, good_input, validation_passes in *;
  cbn [main_steps run eval_cond env_of
    w_read_ok w_parse_ok w_compile_ok w_traces w_no_validate w_stub_ffi w_verbose w_create_ok w_write_ok
    st created written] in *;
  destruct (validate ts);
  destruct rd, pa, co, nv, sf, cr, wr; cbn [negb andb orb st created written];
  intuition (try discriminate; try congruence).

Lemma cli_decision_proof : cli_decision_stmt.
Proof. intros w. cbv zeta. crush_world w. Qed.

(** Completeness (the other half of F4): a policy that parses, compiles and — unless
    validation is disabled — validates is accepted: exit status success, and the
    module is written unless --stub-ffi or the file system refuses. *)
Definition cli_accepts_stmt : Prop :=
  forall w : world,
  good_input w ->
  let o := cli w in
  (w_stub_ffi w = true -> st o = Exited ExitSuccess /\ created o = false)
  /\ (w_stub_ffi w = false -> w_create_ok w = true -> w_write_ok w = true ->
      st o = Exited ExitSuccess /\ created o = true /\ written o = true)
  /\ st o <> Exited ExitFailure.

Lemma cli_accepts_proof : cli_accepts_stmt.
Proof. intros w. cbv zeta. crush_world w. Qed.

(** Parse and compile errors: exit status failure, nothing written, whatever the flags. *)
Definition cli_rejects_stmt : Prop :=
  forall w : world,
  w_read_ok w = true -> (w_parse_ok w = false \/ w_compile_ok w = false) ->
  st (cli w) = Exited ExitFailure /\ created (cli w) = false /\ written (cli w) = false.

Lemma cli_rejects_proof : cli_rejects_stmt.
Proof. intros w. crush_world w. Qed.

(** Non-vacuity: each hypothesis pattern is inhabited, and the outcomes differ. *)
Definition w_valid : world :=
  {| w_read_ok := true; w_parse_ok := true; w_compile_ok := true; w_traces := [TrOk 0; TrOk 0];
     w_no_validate := false; w_stub_ffi := false; w_verbose := false; w_create_ok := true; w_write_ok := true |}.
Definition w_invalid : world :=
  {| w_read_ok := true; w_parse_ok := true; w_compile_ok := true; w_traces := [TrOk 0; TrOk 2];
     w_no_validate := false; w_stub_ffi := false; w_verbose := false; w_create_ok := true; w_write_ok := true |}.
Definition w_trace_error : world :=
  {| w_read_ok := true; w_parse_ok := true; w_compile_ok := true; w_traces := [TrOk 1; TrErr; TrOk 0];
     w_no_validate := false; w_stub_ffi := false; w_verbose := false; w_create_ok := true; w_write_ok := true |}.

Example cli_examples :
  cli w_valid = {| st := Exited ExitSuccess; created := true; written := true |}
  /\ cli w_invalid = {| st := Exited ExitFailure; created := false; written := false |}
  /\ cli w_trace_error = {| st := Exited ExitFailure; created := false; written := false |}
  /\ good_input w_valid /\ ~ validation_passes w_invalid /\ ~ validation_passes w_trace_error.
Proof.
  assert (Hne : forall n, TrOk (S n) <> TrOk 0) by (intros n H; discriminate).
  split; [vm_compute; reflexivity|]. split; [vm_compute; reflexivity|]. split; [vm_compute; reflexivity|].
  split; [|split].
  - unfold good_input, validation_passes; cbn. repeat split; auto.
  - unfold validation_passes; cbn. intros H.
    apply Forall_inv_tail, Forall_inv in H. discriminate.
  - unfold validation_passes; cbn. intros H. apply Forall_inv in H. discriminate.
Qed.

(** ** Finding F4, kept as a record: the skeleton of main.rs before the repair
    (condition [!no_validate && !validate(..)]) together with the [Err => return false]
    of validate.rs refutes the decision statement.  These two definitions are a
    hand copy of what the translator produced on commit f707aae. *)
Definition main_steps_f4 : list step :=
  [ SExpect A_read_ok;
    SExit (CNot (CAtom A_parse_ok)) ExitFailure;
    SExit (CNot (CAtom A_compile_ok)) ExitFailure;
    SExit (CAnd (CNot (CAtom A_no_validate)) (CNot (CAtom A_validate_ret))) ExitFailure;
    SExit (CAtom A_stub_ffi) ExitSuccess;
    SCreate; SWrite; SFinal ExitSuccess ].

Lemma cli_decision_refuted_before_fix :
  (* a policy failing validation was accepted and written … *)
  (let o := run (env_of w_invalid) main_steps_f4 false false in
   st o = Exited ExitSuccess /\ created o = true /\ ~ validation_passes w_invalid)
  (* … and a valid one was refused *)
  /\ (let o := run (env_of w_valid) main_steps_f4 false false in
      st o = Exited ExitFailure /\ created o = false /\ good_input w_valid).
Proof.
  destruct cli_examples as (_ & _ & _ & Hg & Hi & _).
  repeat split; try (vm_compute; reflexivity); auto; apply Hg.
Qed.
