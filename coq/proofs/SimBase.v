(** Machine-level vocabulary of the compiler simulation: executions of [Vm.step]
    with a predicate on every visited state, code embedded in the program
    memory, and one "step and continue" lemma per instruction the compiler
    emits.  A push onto a full stack ([STACK_SIZE]) ends the run with
    [ME_StackOverflow]; every lemma carries that alternative ([mruno]). *)
From Aranya Require Import base.Tactics model.VmBase gen.GenVm model.Vm proofs.VmTotal.
Local Open Scope N_scope.

Lemma len_app {A} (a b : list A) : len (a ++ b) = len a + len b.
Proof. unfold len. rewrite app_length. apply Nnat.Nat2N.inj_add. Qed.
Lemma len_cons {A} (x : A) l : len (x :: l) = len l + 1.
Proof. unfold len. cbn [List.length]. rewrite Nnat.Nat2N.inj_succ. lia. Qed.
Lemma len_nil {A} : len (@nil A) = 0.
Proof. reflexivity. Qed.
Lemma len_map {A B} (f : A -> B) l : len (map f l) = len l.
Proof. unfold len. rewrite map_length. reflexivity. Qed.
Lemma len_rev {A} (l : list A) : len (rev l) = len l.
Proof. unfold len. rewrite rev_length. reflexivity. Qed.
Global Hint Rewrite @len_app @len_cons @len_nil @len_map @len_rev : len.

Section Exec.
  Context {St : Type}.
  Variable dbg : bool.
  Variable io : MachineIO St.
  Variable m : Machine.
  Notation RS := (RunState St).
  Notation stepm := (step dbg io m).

  (** How a stretch of execution ends. *)
  Inductive mres : Type :=
    | MTo (s : RS)                                  (* still executing, in state s *)
    | MExit (r : ExitReason) (s : RS)
    | MErr (e : MachineErrorType) (s : RS).

  (** [mrun Q s o]: running from [s] ends as [o]; every state a step is taken from satisfies [Q]. *)
  Inductive mrun (Q : RS -> Prop) : RS -> mres -> Prop :=
    | ex_done s : mrun Q s (MTo s)
    | ex_step s s1 o : Q s -> stepm s = Executing s1 -> mrun Q s1 o -> mrun Q s o
    | ex_exit s r s1 : Q s -> stepm s = Exited r s1 -> mrun Q s (MExit r s1)
    | ex_err s e s1 : Q s -> stepm s = Errored e s1 -> mrun Q s (MErr (err_type e) s1).

  Lemma mrun_trans (Q : RS -> Prop) s s1 o : mrun Q s (MTo s1) -> mrun Q s1 o -> mrun Q s o.
  Proof.
    intros H. remember (MTo s1) as r eqn:E. induction H; intros; try discriminate.
    - inversion E; subst; auto.
    - eapply ex_step; eauto.
  Qed.
  Lemma mrun_weaken (Q Q' : RS -> Prop) s o : (forall x, Q x -> Q' x) -> mrun Q s o -> mrun Q' s o.
  Proof. intros HQ H; induction H; [constructor|eapply ex_step|eapply ex_exit|eapply ex_err]; eauto. Qed.

  (** The representation invariant of run states ([heapless::Vec<_, STACK_SIZE>]; saved stack
      depths and pcs fit a [usize]); [Vm.step] preserves it ([VmTotal.step_good]). *)
  Definition Wb (s : RS) : Prop :=
    len (rs_stack s) <= STACK_SIZE /\ Forall (fun x => x < usize_max) (rs_call_state s).
  Lemma N_lt_dec (a b : N) : {a < b} + {~ a < b}.
  Proof. destruct (a <? b) eqn:E; [left|right]; lia. Qed.
  Lemma Wb_dec s : Wb s \/ ~ Wb s.
  Proof.
    unfold Wb. destruct (N.le_gt_cases (len (rs_stack s)) STACK_SIZE) as [H|H].
    - destruct (Forall_dec (fun x => x < usize_max) (fun x => N_lt_dec x usize_max) (rs_call_state s)) as [F|F].
      + left; auto.
      + right; intros [_ H']; auto.
    - right; intros [H' _]; lia.
  Qed.

  (** ... or the stack overflowed on the way - or a state outside the representation invariant was
      reached, which [mruno_sound] below rules out for runs that start inside it. *)
  Definition ovf (Q : RS -> Prop) (s : RS) : Prop :=
    (exists s1, mrun Q s (MErr ME_StackOverflow s1)) \/ (exists s1, mrun Q s (MTo s1) /\ ~ Wb s1).
  Definition mruno (Q : RS -> Prop) (s : RS) (o : mres) : Prop := mrun Q s o \/ ovf Q s.

  Lemma mruno_done (Q : RS -> Prop) s : mruno Q s (MTo s).
  Proof. left; constructor. Qed.
  Lemma ovf_trans (Q : RS -> Prop) s s1 : mrun Q s (MTo s1) -> ovf Q s1 -> ovf Q s.
  Proof.
    intros H [[x Hx]|[x [Hx Hw]]]; [left|right]; exists x; [|split; auto]; eapply mrun_trans; eauto.
  Qed.
  Lemma mruno_trans (Q : RS -> Prop) s s1 o : mruno Q s (MTo s1) -> mruno Q s1 o -> mruno Q s o.
  Proof.
    intros [H|H] [H'|H']; [left|right|right|right]; auto.
    - eapply mrun_trans; eauto.
    - eapply ovf_trans; eauto.
  Qed.
  Lemma ovf_weaken (Q Q' : RS -> Prop) s : (forall x, Q x -> Q' x) -> ovf Q s -> ovf Q' s.
  Proof.
    intros HQ [[x Hx]|[x [Hx Hw]]]; [left|right]; exists x; [|split; auto]; eapply mrun_weaken; eauto.
  Qed.
  Lemma mruno_weaken (Q Q' : RS -> Prop) s o : (forall x, Q x -> Q' x) -> mruno Q s o -> mruno Q' s o.
  Proof. intros HQ [H|H]; [left; eapply mrun_weaken|right; eapply ovf_weaken]; eauto. Qed.
  Lemma mruno_step (Q : RS -> Prop) s s1 o : Q s -> stepm s = Executing s1 -> mruno Q s1 o -> mruno Q s o.
  Proof.
    intros HQ Hs [H|H]; [left; eapply ex_step; eauto|right].
    eapply ovf_trans; [|exact H]. eapply ex_step; eauto. constructor.
  Qed.
  Lemma mruno_exit (Q : RS -> Prop) s r s1 : Q s -> stepm s = Exited r s1 -> mruno Q s (MExit r s1).
  Proof. intros; left; eapply ex_exit; eauto. Qed.
  Lemma mruno_err (Q : RS -> Prop) s e s1 : Q s -> stepm s = Errored e s1 -> mruno Q s (MErr (err_type e) s1).
  Proof. intros; left; eapply ex_err; eauto. Qed.
  Lemma mruno_ovf (Q : RS -> Prop) s e s1 o : Q s -> stepm s = Errored e s1 -> err_type e = ME_StackOverflow -> mruno Q s o.
  Proof. intros HQ Hs He. right. left. exists s1. rewrite <- He. eapply ex_err; eauto. Qed.
  (** a state outside the invariant stands for any outcome *)
  Lemma mruno_bad (Q : RS -> Prop) s o : ~ Wb s -> mruno Q s o.
  Proof. intros H. right. right. exists s. split; [constructor|exact H]. Qed.

  (** ** What [mrun] says about [Vm.run] *)
  Hypothesis Hcm : codemap m = None.

  Lemma run_exec (Q : RS -> Prop) s o : mrun Q s o ->
    exists n, forall k,
      match o with
      | MTo s1 => run dbg io m (n + k) s = run dbg io m k s1
      | MExit r s1 => run dbg io m (n + S k) s = RunExited r s1
      | MErr e s1 => exists e', run dbg io m (n + S k) s = RunErrored e' s1 /\ err_type e' = e
      end.
  Proof.
    induction 1.
    - exists O. reflexivity.
    - destruct IHmrun as [n Hn]. exists (S n). intros k. specialize (Hn k).
      destruct o; cbn [Nat.add run]; rewrite H0; auto.
    - exists O. intros k. cbn [Nat.add run]. rewrite H0. reflexivity.
    - exists O. intros k. cbn [Nat.add run]. rewrite H0. rewrite Hcm.
      unfold with_position. destruct (err_source e); eexists; split; reflexivity.
  Qed.

  (** ** Code embedded in the program memory *)
  Definition at_pc (pc : N) (X : list Instruction) : Prop :=
    forall k i, nth_error X k = Some i -> nth_error (progmem m) (N.to_nat pc + k) = Some i.

  Lemma at_pc_app pc X Y : at_pc pc (X ++ Y) <-> at_pc pc X /\ at_pc (pc + len X) Y.
  Proof.
    unfold at_pc, len. split.
    - intros H; split; intros k i Hk.
      + apply H. rewrite nth_error_app1; auto. apply nth_error_Some. congruence.
      + replace (N.to_nat (pc + N.of_nat (List.length X)) + k)%nat with (N.to_nat pc + (List.length X + k))%nat by lia.
        apply H. rewrite nth_error_app2 by lia. replace (List.length X + k - List.length X)%nat with k by lia. auto.
    - intros [H1 H2] k i Hk.
      destruct (Nat.lt_ge_cases k (List.length X)).
      + rewrite nth_error_app1 in Hk by auto. auto.
      + rewrite nth_error_app2 in Hk by auto. apply H2 in Hk.
        replace (N.to_nat (pc + N.of_nat (List.length X)) + (k - List.length X))%nat with (N.to_nat pc + k)%nat in Hk by lia. auto.
  Qed.
  Lemma at_pc_cons pc i X : at_pc pc (i :: X) <-> nth_error (progmem m) (N.to_nat pc) = Some i /\ at_pc (pc + 1) X.
  Proof.
    change (i :: X) with ([i] ++ X). rewrite at_pc_app. change (len [i]) with 1.
    split; intros [H1 H2]; split; auto.
    - specialize (H1 O i eq_refl). rewrite Nat.add_0_r in H1. auto.
    - intros [|k] j Hk; cbn in Hk; [|destruct k; discriminate]. inversion Hk; subst. rewrite Nat.add_0_r. auto.
  Qed.
  Lemma at_pc_nil pc : at_pc pc [].
  Proof. intros [|k] i H; discriminate. Qed.

  Hypothesis Hlen : len (progmem m) <= usize_max.

  (** a step at an address that holds instruction [i] *)
  Lemma step_at s i :
    nth_error (progmem m) (N.to_nat (rs_pc s)) = Some i ->
    stepm s = match (bind (Vm.exec dbg io m i) (fun _ => advance_pc dbg PS_step_pc_assume)) s with
              | Stop r => r
              | Go _ s' => Executing s'
              end.
  Proof.
    intros H. unfold step.
    assert (Hlt : rs_pc s < len (progmem m)).
    { unfold len. apply nth_error_Some_lt in H || (assert (N.to_nat (rs_pc s) < List.length (progmem m))%nat by (apply nth_error_Some; congruence); lia). }
    destruct (len (progmem m) <=? rs_pc s) eqn:E; [lia|].
    rewrite H. reflexivity.
  Qed.

  Lemma advance_ok (s : RS) :
    rs_pc s < len (progmem m) ->
    advance_pc dbg PS_step_pc_assume s = Go tt (set_pc s (rs_pc s + 1)).
  Proof.
    intros H. unfold advance_pc, bind, gets, usize_checked_add.
    destruct (rs_pc s + 1 <=? usize_max) eqn:E; [reflexivity|lia].
  Qed.

  Lemma fail_pos_eq {A} t (s : RS) : @fail_pos St m A t s = Stop (Errored (error_new t) s).
  Proof. unfold fail_pos. rewrite Hcm. reflexivity. Qed.

  Lemma nth_lt pc i : nth_error (progmem m) (N.to_nat pc) = Some i -> pc < len (progmem m).
  Proof.
    intros H. unfold len.
    assert (N.to_nat pc < List.length (progmem m))%nat by (apply nth_error_Some; congruence). lia.
  Qed.

  Lemma step_go (s s' : RS) i :
    nth_error (progmem m) (N.to_nat (rs_pc s)) = Some i ->
    Vm.exec dbg io m i s = Go tt s' -> rs_pc s' = rs_pc s ->
    stepm s = Executing (set_pc s' (rs_pc s + 1)).
  Proof.
    intros Hi He Hp. rewrite (step_at s i Hi). unfold bind. rewrite He.
    rewrite (advance_ok s'); [rewrite Hp; reflexivity|rewrite Hp; eapply nth_lt; eauto].
  Qed.
  Lemma step_stop (s : RS) i r :
    nth_error (progmem m) (N.to_nat (rs_pc s)) = Some i ->
    Vm.exec dbg io m i s = Stop r -> stepm s = r.
  Proof. intros Hi He. rewrite (step_at s i Hi). unfold bind. rewrite He. reflexivity. Qed.

  (** ** Step-and-continue lemmas, by the shape of the instruction's effect *)

  (** the instruction completes and the pc advances *)
  Lemma s_go (Q : RS -> Prop) (s s' : RS) i o :
    nth_error (progmem m) (N.to_nat (rs_pc s)) = Some i ->
    Vm.exec dbg io m i s = Go tt s' -> rs_pc s' = rs_pc s ->
    Q s -> mruno Q (set_pc s' (rs_pc s + 1)) o -> mruno Q s o.
  Proof. intros Hi He Hp HQ Hk. eapply mruno_step; [exact HQ|eapply step_go; eauto|exact Hk]. Qed.

  (** the instruction ends with a push of [v] onto the stack of [s'] *)
  Lemma s_push (Q : RS -> Prop) (s s' : RS) i v o :
    nth_error (progmem m) (N.to_nat (rs_pc s)) = Some i ->
    Vm.exec dbg io m i s = ipush m v s' -> rs_pc s' = rs_pc s ->
    Q s -> mruno Q (set_pc (set_stack s' (v :: rs_stack s')) (rs_pc s + 1)) o -> mruno Q s o.
  Proof.
    intros Hi He Hp HQ Hk.
    unfold ipush, push_with, bind, gets, push_value in He.
    destruct (len (rs_stack s') <? STACK_SIZE) eqn:E.
    - eapply s_go; eauto.
    - rewrite fail_pos_eq in He. eapply mruno_ovf; [exact HQ|eapply step_stop; eauto|reflexivity].
  Qed.

  (** the instruction transfers control (jump, taken branch, call, return) *)
  Lemma s_jump (Q : RS -> Prop) (s s' : RS) i o :
    nth_error (progmem m) (N.to_nat (rs_pc s)) = Some i ->
    Vm.exec dbg io m i s = Stop (Executing s') ->
    Q s -> mruno Q s' o -> mruno Q s o.
  Proof. intros Hi He HQ Hk. eapply mruno_step; [exact HQ|eapply step_stop; eauto|exact Hk]. Qed.

  Lemma s_exit (Q : RS -> Prop) (s s' : RS) i r :
    nth_error (progmem m) (N.to_nat (rs_pc s)) = Some i ->
    Vm.exec dbg io m i s = Stop (Exited r s') ->
    Q s -> mruno Q s (MExit r s').
  Proof. intros Hi He HQ. eapply mruno_exit; [exact HQ|eapply step_stop; eauto]. Qed.

  Lemma s_err (Q : RS -> Prop) (s s' : RS) i e :
    nth_error (progmem m) (N.to_nat (rs_pc s)) = Some i ->
    Vm.exec dbg io m i s = Stop (Errored e s') ->
    Q s -> mruno Q s (MErr (err_type e) s').
  Proof. intros Hi He HQ. eapply mruno_err; [exact HQ|eapply step_stop; eauto]. Qed.

  (** an error that is a stack overflow stands for any outcome *)
  Lemma s_ovf (Q : RS -> Prop) (s s' : RS) i e o :
    nth_error (progmem m) (N.to_nat (rs_pc s)) = Some i ->
    Vm.exec dbg io m i s = Stop (Errored e s') -> err_type e = ME_StackOverflow ->
    Q s -> mruno Q s o.
  Proof. intros Hi He Ht HQ. eapply mruno_ovf; [exact HQ|eapply step_stop; eauto|exact Ht]. Qed.
  (** ** The invariant is kept, so runs that start inside it never leave it *)
  Hypothesis Hrepr : dbg = true -> Forall instr_repr (progmem m).

  Lemma step_Wb s s1 : Wb s -> stepm s = Executing s1 -> Wb s1.
  Proof.
    intros Hw Hs.
    assert (Hc : cm_ok m) by (unfold cm_ok; rewrite Hcm; exact Logic.I).
    pose proof (step_good dbg io m Hc true (fun _ => eq_refl) true s eq_refl (conj (fun _ => Hlen) Hrepr) (fun _ => Hw)) as Hg.
    rewrite Hs in Hg. exact (Hg eq_refl).
  Qed.
  Lemma mrun_Wb (Q : RS -> Prop) s s1 : mrun Q s (MTo s1) -> Wb s -> Wb s1.
  Proof.
    intros H. remember (MTo s1) as r eqn:E. induction H; intros Hw; try discriminate.
    - inversion E; subst; auto.
    - apply IHmrun; auto. eapply step_Wb; eauto.
  Qed.
  (** from a state inside the invariant: the run ends as stated, or in a stack overflow *)
  Lemma mruno_sound (Q : RS -> Prop) s o :
    Wb s -> mruno Q s o -> mrun Q s o \/ exists s1, mrun Q s (MErr ME_StackOverflow s1).
  Proof.
    intros Hw [H|[H|[s1 [H Hn]]]]; auto. exfalso. apply Hn. eapply mrun_Wb; eauto.
  Qed.

End Exec.

Arguments MTo {St}. Arguments MExit {St}. Arguments MErr {St}.

(** Unfolding of the step monad on a state given by its constructor. *)
Ltac vm_unf := cbv beta iota zeta delta [bind ret gets modify ipush ipop ipop_value ipeek_value push_with pop_with
   push_value pop_value lift_pos lift_nopos scope_op_pos scope_op_nopos replace_top set_stack set_scope
   set_pc set_call_state set_io set_ctx set_query_iters stop_executing stop_exited jump_to push_nopos pop_nopos
   rs_stack rs_scope rs_pc rs_call_state rs_ctx rs_io rs_query_iters io_lift
   as_int as_bool as_struct as_identifier scope_enter_block scope_exit_block scope_enter_function
   scope_exit_function].

(** the same, leaving a final [ipush] in place *)
Ltac vm_unf_np := cbv beta iota zeta delta [bind ret gets modify ipop ipop_value ipeek_value pop_with
   pop_value lift_pos lift_nopos scope_op_pos scope_op_nopos replace_top set_stack set_scope
   set_pc set_call_state set_io set_ctx set_query_iters stop_executing stop_exited jump_to pop_nopos
   rs_stack rs_scope rs_pc rs_call_state rs_ctx rs_io rs_query_iters io_lift
   as_int as_bool as_struct as_identifier scope_enter_block scope_exit_block scope_enter_function
   scope_exit_function].
