(** C26 — proofs about the struct codec model [model/Ser.v]. *)
From Coq Require Import String.
From Aranya Require Import base.Tactics model.Varint gen.GenSer model.Ser proofs.VarintProofs.
Open Scope N_scope.

(** ** The generated facts this development relies on (regenerated from the sources
    on every run; a new [TypeKind]/[Value] variant, a new arm, a changed constant
    or a new panic-capable construct in serialize.rs breaks one of these). *)
Lemma id_size_pinned : id_size = 32.
Proof. reflexivity. Qed.

Lemma typekind_variants_pinned :
  GenSer.typekind_variants =
  [ ("Unit", ""); ("String", ""); ("Bytes", ""); ("Int", ""); ("Bool", ""); ("Id", "");
    ("Struct", "(Identifier)"); ("Enum", "(Identifier)"); ("Optional", "(Box<TypeKind>)");
    ("Never", ""); ("Result", "(Box<ResultTypeKind>)") ]%string.
Proof. reflexivity. Qed.

Lemma value_variants_pinned :
  GenSer.value_variants =
  [ ("Unit", ""); ("Int", "(i64)"); ("Bool", "(bool)"); ("String", "(Text)"); ("Bytes", "(Vec<u8>)");
    ("Struct", "(Struct)"); ("Fact", "(Fact)"); ("Id", "(BaseId)"); ("Enum", "(Identifier,i64)");
    ("Identifier", "(Identifier)"); ("Option", "(Option<Box<Self>>)");
    ("Result", "(Result<Box<Value>,Box<Value>>)") ]%string.
Proof. reflexivity. Qed.

(** every variant has an arm, and the arms do what the model's clauses do *)
Lemma serialize_arms_pinned :
  GenSer.serialize_value_arms =
  [ ("Unit", "encodes"); ("Int", "encodes"); ("Bool", "encodes"); ("String", "encodes"); ("Bytes", "encodes");
    ("Struct", "encodes"); ("Id", "encodes"); ("Enum", "encodes"); ("Option", "encodes"); ("Result", "encodes");
    ("Identifier", "InternalValue"); ("Fact", "InternalValue") ]%string.
Proof. reflexivity. Qed.

Lemma deserialize_arms_pinned :
  GenSer.deserialize_value_arms =
  [ ("Unit", "decodes"); ("String", "decodes"); ("Bytes", "decodes"); ("Int", "decodes"); ("Bool", "decodes");
    ("Id", "decodes"); ("Struct", "decodes"); ("Enum", "decodes"); ("Optional", "decodes"); ("Result", "decodes");
    ("Never", "BadInput") ]%string.
Proof. reflexivity. Qed.

Lemma errors_pinned :
  GenSer.serialize_errors = [ "UnknownStruct"; "MissingField"; "FieldLengthMismatch"; "InternalValue" ]%string
  /\ GenSer.deserialize_errors = [ "UnknownEnum"; "UnknownStruct"; "UnexpectedEnd"; "TrailingData"; "BadInput" ]%string.
Proof. split; reflexivity. Qed.

(** the only panic-capable construct outside the tests of serialize.rs is the constant
    narrowing [size_of::<BaseId>() as u8], which [id_size_pinned] shows is exact (32 < 256) *)
Lemma panic_ledger_pinned : GenSer.panic_sites_serialize_rs = [ "as u8 in ID_SIZE" ]%string.
Proof. reflexivity. Qed.

(** ** Induction principle for the nested [value] type *)
Section ValueInd.
  Variable P : value -> Prop.
  Hypothesis HUnit : P VUnit.
  Hypothesis HInt : forall z, P (VInt z).
  Hypothesis HBool : forall b, P (VBool b).
  Hypothesis HString : forall s, P (VString s).
  Hypothesis HBytes : forall b, P (VBytes b).
  Hypothesis HStruct : forall name fields, Forall (fun p => P (snd p)) fields -> P (VStruct name fields).
  Hypothesis HFact : P VFact.
  Hypothesis HId : forall b, P (VId b).
  Hypothesis HEnum : forall e x, P (VEnum e x).
  Hypothesis HIdentifier : forall i, P (VIdentifier i).
  Hypothesis HNone : P VNone.
  Hypothesis HSome : forall v, P v -> P (VSome v).
  Hypothesis HOk : forall v, P v -> P (VOk v).
  Hypothesis HErr : forall v, P v -> P (VErr v).

  Fixpoint value_ind' (v : value) : P v :=
    match v with
    | VUnit => HUnit | VInt z => HInt z | VBool b => HBool b | VString s => HString s | VBytes b => HBytes b
    | VStruct name fields =>
      HStruct name fields
        ((fix go (fs : list (ident * value)) : Forall (fun p => P (snd p)) fs :=
            match fs with
            | [] => Forall_nil _
            | p :: r => Forall_cons p (value_ind' (snd p)) (go r)
            end) fields)
    | VFact => HFact | VId b => HId b | VEnum e x => HEnum e x | VIdentifier i => HIdentifier i
    | VNone => HNone | VSome x => HSome x (value_ind' x)
    | VOk x => HOk x (value_ind' x) | VErr x => HErr x (value_ind' x)
    end.
End ValueInd.

(** ** Association lists and the canonical map *)

Inductive ksorted {A} : list (ident * A) -> Prop :=
| ks_nil : ksorted []
| ks_cons k a m : (forall k', In k' (map fst m) -> k < k') -> ksorted m -> ksorted ((k, a) :: m).

Lemma assoc_in {A} k (m : list (ident * A)) a : assoc k m = Some a -> In (k, a) m.
Proof.
  induction m as [|[k' a'] m IH]; cbn; [discriminate|].
  destruct (N.eqb_spec k k'); intros H; [inv H; auto|auto].
Qed.

Lemma assoc_none {A} k (m : list (ident * A)) : ~ In k (map fst m) -> assoc k m = None.
Proof.
  induction m as [|[k' a'] m IH]; cbn; auto. intros H.
  destruct (N.eqb_spec k k'); [subst; tauto|]. apply IH. tauto.
Qed.

Lemma assoc_some_key {A} k (m : list (ident * A)) : In k (map fst m) -> exists a, assoc k m = Some a.
Proof.
  induction m as [|[k' a'] m IH]; cbn; [tauto|]. intros [->|H].
  - rewrite N.eqb_refl. eauto.
  - destruct (k =? k'); eauto.
Qed.

Lemma assoc_nodup {A} k a (m : list (ident * A)) : NoDup (map fst m) -> In (k, a) m -> assoc k m = Some a.
Proof.
  induction m as [|[k' a'] m IH]; cbn; [tauto|]. intros Hnd [H|H].
  - inv H. rewrite N.eqb_refl. reflexivity.
  - inv Hnd. destruct (N.eqb_spec k k').
    + subst. exfalso. apply H2. apply in_map_iff. exists (k', a). auto.
    + auto.
Qed.

Lemma ksorted_nodup {A} (m : list (ident * A)) : ksorted m -> NoDup (map fst m).
Proof.
  induction 1; cbn; constructor; auto. intros Hin. specialize (H _ Hin). lia.
Qed.

Lemma minsert_keys {A} k a (m : list (ident * A)) k' :
  In k' (map fst (minsert k a m)) <-> k' = k \/ In k' (map fst m).
Proof.
  induction m as [|[k0 a0] m IH]; cbn.
  - intuition.
  - destruct (N.ltb_spec k k0); [cbn; intuition|].
    destruct (N.eqb_spec k k0); cbn; [subst; intuition|].
    rewrite IH. intuition.
Qed.

Lemma minsert_sorted {A} k a (m : list (ident * A)) : ksorted m -> ksorted (minsert k a m).
Proof.
  induction 1 as [|k0 a0 m Hlt Hs IH]; cbn.
  - constructor; [cbn; tauto|constructor].
  - destruct (N.ltb_spec k k0).
    + constructor; [|constructor; auto]. cbn. intros k' [<-|Hin]; auto. specialize (Hlt _ Hin). lia.
    + destruct (N.eqb_spec k k0).
      * subst. constructor; auto.
      * constructor; auto. intros k' Hin. apply minsert_keys in Hin as [->|Hin]; [lia|auto].
Qed.

Lemma assoc_minsert {A} k a (m : list (ident * A)) k' :
  ksorted m -> assoc k' (minsert k a m) = if k' =? k then Some a else assoc k' m.
Proof.
  induction 1 as [|k0 a0 m Hlt Hs IH]; cbn; auto.
  destruct (N.ltb_spec k k0); [reflexivity|].
  destruct (N.eqb_spec k k0).
  - subst. cbn. destruct (k' =? k0); reflexivity.
  - cbn. rewrite IH. destruct (N.eqb_spec k' k0); auto.
    destruct (N.eqb_spec k' k); [subst; lia|reflexivity].
Qed.

Lemma ksorted_ext {A} (a b : list (ident * A)) :
  ksorted a -> ksorted b -> (forall k, assoc k a = assoc k b) -> a = b.
Proof.
  intros Ha. revert b. induction Ha as [|k x m Hlt Hs IH]; intros b Hb Hext.
  - destruct Hb as [|k' x' m']; auto. specialize (Hext k'). cbn in Hext. rewrite N.eqb_refl in Hext. discriminate.
  - destruct Hb as [|k' x' m' Hlt' Hs'].
    { specialize (Hext k). cbn in Hext. rewrite N.eqb_refl in Hext. discriminate. }
    assert (Hk : k = k').
    { pose proof (Hext k) as H1. pose proof (Hext k') as H2. cbn in H1, H2.
      rewrite N.eqb_refl in H1, H2.
      destruct (N.eqb_spec k k'); auto.
      destruct (N.eqb_spec k' k); [congruence|].
      symmetry in H1. apply assoc_in in H1. apply assoc_in in H2.
      assert (k' < k) by (apply Hlt', in_map_iff; exists (k, x); auto).
      assert (k < k') by (apply Hlt, in_map_iff; exists (k', x'); auto).
      lia. }
    subst k'.
    assert (Hx : x = x').
    { specialize (Hext k). cbn in Hext. rewrite N.eqb_refl in Hext. congruence. }
    subst x'. f_equal. apply IH; auto.
    intros k0. specialize (Hext k0). cbn in Hext.
    destruct (N.eqb_spec k0 k); auto. subst.
    rewrite !assoc_none; auto.
    + intros Hin. specialize (Hlt' _ Hin). lia.
    + intros Hin. specialize (Hlt _ Hin). lia.
Qed.

(** the map [deserialize_struct] builds: insert the value found for each field, in definition order *)
Definition rebuild (fields : list (ident * value)) (items : field_defs) (acc : list (ident * value)) :=
  fold_left (fun a p => match assoc (fst p) fields with Some x => minsert (fst p) x a | None => a end) items acc.

Lemma rebuild_spec fields items : forall acc, ksorted acc ->
  ksorted (rebuild fields items acc)
  /\ forall k, assoc k (rebuild fields items acc) =
               match (if in_dec N.eq_dec k (map fst items) then assoc k fields else None) with
               | Some x => Some x
               | None => assoc k acc
               end.
Proof.
  induction items as [|[f t] items IH]; intros acc Hacc; cbn [rebuild fold_left].
  - split; [assumption|]. intros k. destruct (in_dec N.eq_dec k (map fst (@nil (ident * ty)))) as [[]|]; reflexivity.
  - cbn [fst]. fold (rebuild fields items).
    destruct (assoc f fields) as [x|] eqn:Ef.
    + destruct (IH (minsert f x acc) (minsert_sorted _ _ _ Hacc)) as [Hs Hk]. split; auto.
      intros k. rewrite Hk, assoc_minsert by auto.
      destruct (in_dec N.eq_dec k (map fst items)) as [Hi|Hi];
      destruct (in_dec N.eq_dec k (map fst ((f, t) :: items))) as [Hj|Hj]; cbn in Hj.
      * destruct (assoc k fields) eqn:Ek; [reflexivity|].
        destruct (N.eqb_spec k f); [subst; congruence|reflexivity].
      * tauto.
      * destruct Hj as [<-|]; [|tauto]. rewrite N.eqb_refl, Ef. reflexivity.
      * destruct (N.eqb_spec k f); [subst; tauto|reflexivity].
    + destruct (IH acc Hacc) as [Hs Hk]. split; auto.
      intros k. rewrite Hk.
      destruct (in_dec N.eq_dec k (map fst items)) as [Hi|Hi];
      destruct (in_dec N.eq_dec k (map fst ((f, t) :: items))) as [Hj|Hj]; cbn in Hj; try tauto.
      destruct Hj as [<-|]; [|tauto]. rewrite Ef. reflexivity.
Qed.

Lemma rebuild_canonical fields items :
  ksorted fields -> (forall k, In k (map fst items) <-> In k (map fst fields)) ->
  rebuild fields items [] = fields.
Proof.
  intros Hs Hk. destruct (rebuild_spec fields items [] ks_nil) as [Hs' Ha].
  apply ksorted_ext; auto. intros k. rewrite Ha. cbn.
  destruct (in_dec N.eq_dec k (map fst items)) as [Hi|Hi].
  - destruct (assoc k fields); reflexivity.
  - symmetry. apply assoc_none. rewrite <- Hk. exact Hi.
Qed.

(** ** Typing of values against a schema, acyclicity *)
Section Codec.
Variable defs : struct_defs.
Variable enums : enum_defs.

(** [has_type v t]: the value matches the schema type.  Machine facts that hold of every Rust
    value are part of it: [i64] range, byte ranges, a [BaseId] is 32 bytes, a [Text] is
    NUL-free UTF-8, lengths are below 2^64, a struct value's field map is a (sorted) map. *)
Fixpoint has_type (v : value) (t : ty) {struct v} : Prop :=
  match v, t with
  | VUnit, TUnit => True
  | VInt z, TInt => in_i64 z
  | VBool _, TBool => True
  | VString s, TString =>
      bytes_ok s /\ utf8_valid s = true /\ has_nul s = false /\ N.of_nat (length s) < two64
  | VBytes b, TBytes => bytes_ok b /\ N.of_nat (length b) < two64
  | VId b, TId => bytes_ok b /\ length b = 32%nat
  | VEnum e x, TEnum e' =>
      e = e' /\ in_i64 x /\
      exists vs, assoc e enums = Some vs /\ existsb (fun p => Z.eqb (snd p) x) vs = true
  | VNone, TOptional _ => True
  | VSome x, TOptional t' => has_type x t'
  | VOk x, TResult a _ => has_type x a
  | VErr x, TResult _ b => has_type x b
  | VStruct name fields, TStruct s =>
      name = s /\
      exists items, assoc s defs = Some items /\ NoDup (map fst items) /\ ksorted fields
        /\ length fields = length items
        /\ (fix all (fs : list (ident * value)) : Prop :=
              match fs with
              | [] => True
              | p :: r => (exists t', assoc (fst p) items = Some t' /\ has_type (snd p) t') /\ all r
              end) fields
  | _, _ => False
  end.

Fixpoint struct_refs (t : ty) : list ident :=
  match t with
  | TStruct s => [s]
  | TOptional t' => struct_refs t'
  | TResult a b => struct_refs a ++ struct_refs b
  | _ => []
  end.

(** [rk] witnesses that the struct definitions are acyclic: every struct mentioned in a field
    type (directly or under option/result) has a strictly smaller rank. *)
Definition ranked (rk : ident -> nat) : Prop :=
  forall s items, assoc s defs = Some items ->
  forall f t, In (f, t) items -> forall s', In s' (struct_refs t) -> (rk s' < rk s)%nat.

Definition fits (rk : ident -> nat) (t : ty) (fuel : nat) : Prop :=
  forall s, In s (struct_refs t) -> (rk s < fuel)%nat.

(** the field-side typing condition, as a [Forall] *)
Lemma fields_typed items fields :
  (fix all (fs : list (ident * value)) : Prop :=
     match fs with
     | [] => True
     | p :: r => (exists t', assoc (fst p) items = Some t' /\ has_type (snd p) t') /\ all r
     end) fields
  <-> Forall (fun p => exists t', assoc (fst p) items = Some t' /\ has_type (snd p) t') fields.
Proof.
  induction fields as [|p r IH].
  - split; intros _; [constructor|exact I].
  - split; intros H.
    + destruct H as [H1 H2]. constructor; [exact H1|apply IH; exact H2].
    + inv H. split; [assumption|apply IH; assumption].
Qed.

(** items-side view: every declared field is present with a value of its type *)
Lemma struct_fields_complete items fields :
  NoDup (map fst items) -> ksorted fields -> length fields = length items ->
  Forall (fun p => exists t', assoc (fst p) items = Some t' /\ has_type (snd p) t') fields ->
  (forall k, In k (map fst items) <-> In k (map fst fields))
  /\ forall f t, In (f, t) items -> exists x, assoc f fields = Some x /\ In (f, x) fields /\ has_type x t.
Proof.
  intros Hnd Hs Hlen Hall.
  assert (Hsub : incl (map fst fields) (map fst items)).
  { intros k Hk. apply in_map_iff in Hk as ([k' x] & <- & Hin). cbn.
    rewrite Forall_forall in Hall. destruct (Hall _ Hin) as (t' & Ht & _). cbn in Ht.
    apply assoc_in in Ht. apply in_map_iff. exists (k', t'). auto. }
  assert (Hsup : incl (map fst items) (map fst fields)).
  { apply NoDup_length_incl; auto. { apply ksorted_nodup; auto. } rewrite !map_length. lia. }
  split; [intros k; split; [apply Hsup|apply Hsub]|].
  intros f t Hin.
  assert (Hk : In f (map fst fields)) by (apply Hsup, in_map_iff; exists (f, t); auto).
  destruct (assoc_some_key _ _ Hk) as (x & Hx). exists x. split; auto.
  pose proof (assoc_in _ _ _ Hx) as Hix. split; auto.
  rewrite Forall_forall in Hall. destruct (Hall _ Hix) as (t' & Ht' & Hty). cbn in *.
  rewrite (assoc_nodup _ _ _ Hnd Hin) in Ht'. congruence.
Qed.

(** ** Serialization of a struct value: the local recursion is [ser_fields] *)
Lemma ser_value_struct name fields :
  ser_value defs (VStruct name fields) = ser_struct_with defs name (length fields) (ser_fields defs fields).
Proof.
  cbn [ser_value]. f_equal. unfold ser_fields.
  induction fields as [|[k x] r IH]; cbn [map fst snd]; [reflexivity|]. f_equal. exact IH.
Qed.

Lemma assoc_ser_fields k fields :
  assoc k (ser_fields defs fields) = option_map (ser_value defs) (assoc k fields).
Proof.
  unfold ser_fields. induction fields as [|[k' x] r IH]; cbn; [reflexivity|].
  destruct (k =? k'); auto.
Qed.

(** ** Round trip and truncation, together, by induction on the value *)

Definition dv (fuel : nat) := deser_value defs enums fuel.

Definition codec_ok (v : value) : Prop :=
  forall t fuel rk, ranked rk -> has_type v t -> fits rk t fuel ->
  exists enc, ser_value defs v = Ok enc /\ bytes_ok enc
    /\ (forall rest, dv fuel t (enc ++ rest) = Ok (v, rest))
    /\ (forall p q, enc = p ++ q -> q <> [] -> dv fuel t p = Err DUnexpectedEnd).

Lemma byte_ok_small b : b < 256 -> byte_ok b. Proof. auto. Qed.

Lemma nil_app_inv {A} (p q : list A) : [] = p ++ q -> q = [].
Proof. destruct p; cbn; [auto|discriminate]. Qed.

Lemma single_app_inv {A} (x : A) p q : [x] = p ++ q -> q <> [] -> p = [].
Proof.
  destruct p as [|y p]; auto. cbn. intros H Hq. inv H.
  destruct p; cbn in *; [subst; congruence|discriminate].
Qed.

(** the struct-field loop, for a suffix [its] of the definition *)
Lemma items_ok rk fuel fields (its : field_defs) :
  ranked rk ->
  (forall f t, In (f, t) its -> fits rk t fuel /\ exists x, assoc f fields = Some x /\ has_type x t /\ codec_ok x) ->
  exists enc, ser_items its (ser_fields defs fields) = Ok enc /\ bytes_ok enc
    /\ (forall acc rest, deser_items (dv fuel) its acc (enc ++ rest) = Ok (rebuild fields its acc, rest))
    /\ (forall acc p q, enc = p ++ q -> q <> [] -> deser_items (dv fuel) its acc p = Err DUnexpectedEnd).
Proof.
  intros Hrk. induction its as [|[f t] its IH]; intros H.
  - exists []. cbn. repeat split; auto; try constructor.
    intros acc p q Hpq Hq. apply nil_app_inv in Hpq. congruence.
  - destruct (H f t (or_introl eq_refl)) as (Hfit & x & Hx & Hty & Hok).
    destruct (Hok t fuel rk Hrk Hty Hfit) as (e1 & Hs1 & Hb1 & Hr1 & Hp1).
    destruct IH as (e2 & Hs2 & Hb2 & Hr2 & Hp2); [intros; apply H; right; auto|].
    exists (e1 ++ e2). cbn [ser_items]. rewrite assoc_ser_fields, Hx. cbn [option_map]. rewrite Hs1, Hs2.
    split; [reflexivity|]. split; [apply Forall_app; auto|]. split.
    + intros acc rest. cbn [deser_items]. rewrite <- app_assoc, Hr1.
      rewrite Hr2. cbn [rebuild fold_left fst]. rewrite Hx. reflexivity.
    + intros acc p q Hpq Hq. cbn [deser_items].
      destruct (app_eq_app _ _ _ _ Hpq) as (l & [[He1 Hq'] | [Hp He2]]).
      * (* p ends inside the first field *)
        destruct l as [|y l].
        -- rewrite app_nil_r in He1. subst p. cbn [app] in Hq'. subst q.
           rewrite <- (app_nil_r e1), Hr1. apply (Hp2 _ [] e2); auto.
        -- rewrite (Hp1 p (y :: l)); auto. discriminate.
      * subst p. rewrite Hr1. apply (Hp2 _ l q); auto.
Qed.

Lemma codec_ok_all : forall v, codec_ok v.
Proof.
  induction v using value_ind'; intros t fuel rk Hrk Hty Hfit; destruct t; cbn [has_type] in Hty; try contradiction.
  - (* unit *)
    exists []. cbn. repeat split; auto; try constructor. intros p q H Hq. apply nil_app_inv in H. congruence.
  - (* int *)
    exists (push_i64 z). split; [reflexivity|]. split; [apply push_i64_ok|]. split.
    + intros rest. unfold dv, deser_value. cbn [deser_value_with]. rewrite i64_roundtrip; auto.
    + intros p q He Hq. unfold dv, deser_value. cbn [deser_value_with]. rewrite (i64_prefix _ _ _ He Hq). reflexivity.
  - (* bool *)
    exists (push_bool b). split; [reflexivity|]. split; [destruct b; repeat constructor|]. split.
    + intros rest. unfold dv, deser_value. destruct b; reflexivity.
    + intros p q He Hq. apply single_app_inv in He; auto. subst p. reflexivity.
  - (* string *)
    destruct Hty as (Hb & Hu & Hn & Hl).
    exists (push_bytes s). split; [reflexivity|]. split; [apply push_bytes_ok; auto|]. split.
    + intros rest. unfold dv, deser_value. cbn [deser_value_with]. rewrite bytes_roundtrip, Hu, Hn; auto.
    + intros p q He Hq. unfold dv, deser_value. cbn [deser_value_with]. rewrite (bytes_prefix _ _ _ Hl He Hq). reflexivity.
  - (* bytes *)
    destruct Hty as (Hb & Hl).
    exists (push_bytes b). split; [reflexivity|]. split; [apply push_bytes_ok; auto|]. split.
    + intros rest. unfold dv, deser_value. cbn [deser_value_with]. rewrite bytes_roundtrip; auto.
    + intros p q He Hq. unfold dv, deser_value. cbn [deser_value_with]. rewrite (bytes_prefix _ _ _ Hl He Hq). reflexivity.
  - (* struct *)
    destruct Hty as (-> & items & Hdef & Hnd & Hs & Hlen & Hall).
    apply fields_typed in Hall.
    destruct (struct_fields_complete items fields Hnd Hs Hlen Hall) as (Hkeys & Hitems).
    assert (Hf : (rk s < fuel)%nat) by (apply Hfit; cbn; auto).
    destruct fuel as [|f]; [lia|].
    destruct (items_ok rk f fields items Hrk) as (enc & Hse & Hbe & Hre & Hpe).
    { intros f0 t0 Hin. split.
      - intros s' Hs'. specialize (Hrk s items Hdef f0 t0 Hin s' Hs'). lia.
      - destruct (Hitems f0 t0 Hin) as (x & Hx & Hix & Htx). exists x. repeat split; auto.
        rewrite Forall_forall in H. apply (H (f0, x) Hix). }
    exists enc. split.
    { rewrite ser_value_struct. unfold ser_struct_with. rewrite Hdef.
      rewrite Hlen, Nat.eqb_refl. exact Hse. }
    split; auto. split.
    + intros rest. unfold dv, deser_value. cbn [deser_value_with deser_struct]. rewrite Hdef.
      fold (deser_value defs enums f). fold (dv f). rewrite Hre.
      rewrite rebuild_canonical; auto.
    + intros p q He Hq. unfold dv, deser_value. cbn [deser_value_with deser_struct]. rewrite Hdef.
      fold (deser_value defs enums f). fold (dv f). rewrite (Hpe [] p q He Hq). reflexivity.
  - (* id *)
    destruct Hty as (Hb & Hl).
    exists (id_size :: b). split; [reflexivity|]. split; [constructor; auto; rewrite id_size_pinned; reflexivity|]. split.
    + intros rest. unfold dv, deser_value. cbn [deser_value_with app]. rewrite N.eqb_refl.
      rewrite id_size_pinned. replace 32 with (N.of_nat (length b)) by (rewrite Hl; reflexivity).
      rewrite take_n_app. reflexivity.
    + intros p q He Hq. unfold dv, deser_value. destruct p as [|y p]; [reflexivity|].
      cbn [app] in He. inv He. cbn [deser_value_with]. rewrite N.eqb_refl.
      rewrite take_n_short; [reflexivity|].
      rewrite id_size_pinned. rewrite app_length in Hl. destruct q; [congruence|]. cbn [length] in Hl. lia.
  - (* enum *)
    destruct Hty as (-> & Hx & vs & Hvs & Hin).
    exists (push_i64 x). split; [reflexivity|]. split; [apply push_i64_ok|]. split.
    + intros rest. unfold dv, deser_value. cbn [deser_value_with]. rewrite Hvs, i64_roundtrip, Hin; auto.
    + intros p q He Hq. unfold dv, deser_value. cbn [deser_value_with]. rewrite Hvs, (i64_prefix _ _ _ He Hq). reflexivity.
  - (* none *)
    exists [0]. split; [reflexivity|]. split; [repeat constructor|]. split.
    + intros rest. reflexivity.
    + intros p q He Hq. apply single_app_inv in He; auto. subst p. reflexivity.
  - (* some *)
    destruct (IHv t fuel rk Hrk Hty Hfit) as (e & Hs & Hb & Hr & Hp).
    exists (1 :: e). split; [cbn [ser_value]; rewrite Hs; reflexivity|]. split; [constructor; auto; reflexivity|]. split.
    + intros rest. unfold dv, deser_value in *. cbn [deser_value_with app]. rewrite Hr. reflexivity.
    + intros p q He Hq. unfold dv, deser_value in *. destruct p as [|y p]; [reflexivity|].
      cbn [app] in He. inv He. cbn [deser_value_with]. rewrite (Hp p q); auto.
  - (* ok *)
    assert (Hfit1 : fits rk t1 fuel) by (intros s Hs; apply Hfit; cbn; apply in_or_app; auto).
    destruct (IHv t1 fuel rk Hrk Hty Hfit1) as (e & Hs & Hb & Hr & Hp).
    exists (0 :: e). split; [cbn [ser_value]; rewrite Hs; reflexivity|]. split; [constructor; auto; reflexivity|]. split.
    + intros rest. unfold dv, deser_value in *. cbn [deser_value_with app]. rewrite Hr. reflexivity.
    + intros p q He Hq. unfold dv, deser_value in *. destruct p as [|y p]; [reflexivity|].
      cbn [app] in He. inv He. cbn [deser_value_with]. rewrite (Hp p q); auto.
  - (* err *)
    assert (Hfit2 : fits rk t2 fuel) by (intros s Hs; apply Hfit; cbn; apply in_or_app; auto).
    destruct (IHv t2 fuel rk Hrk Hty Hfit2) as (e & Hs & Hb & Hr & Hp).
    exists (1 :: e). split; [cbn [ser_value]; rewrite Hs; reflexivity|]. split; [constructor; auto; reflexivity|]. split.
    + intros rest. unfold dv, deser_value in *. cbn [deser_value_with app]. rewrite Hr. reflexivity.
    + intros p q He Hq. unfold dv, deser_value in *. destruct p as [|y p]; [reflexivity|].
      cbn [app] in He. inv He. cbn [deser_value_with]. rewrite (Hp p q); auto.
Qed.

End Codec.

(** ** Top-level statements *)

(** acyclic schema: a rank function that decreases along struct references and is bounded by
    the number of definitions (which is what [deserialize_struct]'s recursion budget is) *)
Definition acyclic (defs : struct_defs) (rk : ident -> nat) : Prop :=
  ranked defs rk /\ forall s, (rk s <= length defs)%nat.

(** Round trip of every well-typed value at every type, with arbitrary trailing bytes. *)
Definition deser_ser_value_stmt : Prop :=
  forall (defs : struct_defs) (enums : enum_defs) (rk : ident -> nat) (v : value) (t : ty) (fuel : nat),
  ranked defs rk -> has_type defs enums v t -> fits rk t fuel ->
  exists enc, ser_value defs v = Ok enc /\ bytes_ok enc
    /\ (forall rest, deser_value defs enums fuel t (enc ++ rest) = Ok (v, rest))
    /\ (forall p q, enc = p ++ q -> q <> [] -> deser_value defs enums fuel t p = Err DUnexpectedEnd).

Lemma deser_ser_value_proof : deser_ser_value_stmt.
Proof. intros defs enums rk v t fuel Hrk Hty Hfit. exact (codec_ok_all defs enums v t fuel rk Hrk Hty Hfit). Qed.

(** The entry points: [deserialize_struct (serialize_struct s) = s]; a strict prefix is
    [UnexpectedEnd]; any extension is [TrailingData]. *)
Definition deser_ser_stmt : Prop :=
  forall (defs : struct_defs) (enums : enum_defs) (rk : ident -> nat) (name : ident) (fields : list (ident * value)),
  acyclic defs rk -> has_type defs enums (VStruct name fields) (TStruct name) ->
  exists enc, serialize_struct defs name fields = Ok enc /\ bytes_ok enc
    /\ deserialize_struct defs enums name enc = Ok (VStruct name fields)
    /\ (forall p q, enc = p ++ q -> q <> [] -> deserialize_struct defs enums name p = Err DUnexpectedEnd)
    /\ (forall x extra, deserialize_struct defs enums name (enc ++ x :: extra) = Err DTrailingData).

Lemma deser_ser_proof : deser_ser_stmt.
Proof.
  intros defs enums rk name fields [Hrk Hb] Hty.
  assert (Hfit : fits rk (TStruct name) (S (length defs))).
  { intros s [<-|[]]. specialize (Hb name). lia. }
  destruct (codec_ok_all defs enums _ _ _ rk Hrk Hty Hfit) as (enc & Hs & Hbo & Hr & Hp).
  exists enc. split; [exact Hs|]. split; [exact Hbo|].
  unfold deserialize_struct, deserialize_struct_fuel.
  unfold dv, deser_value in Hr, Hp. cbn [deser_value_with] in Hr, Hp.
  split; [|split].
  - specialize (Hr []). rewrite app_nil_r in Hr. rewrite Hr. reflexivity.
  - intros p q He Hq. rewrite (Hp p q He Hq). reflexivity.
  - intros x extra. rewrite Hr. reflexivity.
Qed.

(** ** Rejection of malformed input, for all inputs *)

Definition reject_stmt : Prop :=
  forall (defs : struct_defs) (enums : enum_defs) (fuel : nat),
  (* option / result tag outside {0,1} *)
  (forall t tag rest, tag <> 0 -> tag <> 1 ->
     deser_value defs enums fuel (TOptional t) (tag :: rest) = Err DBadInput)
  /\ (forall a b tag rest, tag <> 0 -> tag <> 1 ->
     deser_value defs enums fuel (TResult a b) (tag :: rest) = Err DBadInput)
  (* enum value outside the definition *)
  /\ (forall e vs x bs rest, assoc e enums = Some vs -> take_i64 bs = TSome x rest ->
     ~ In x (map snd vs) -> deser_value defs enums fuel (TEnum e) bs = Err DBadInput)
  /\ (forall e vs x rest, assoc e enums = Some vs -> in_i64 x -> ~ In x (map snd vs) ->
     deser_value defs enums fuel (TEnum e) (push_i64 x ++ rest) = Err DBadInput)
  (* text that is not UTF-8 or contains NUL *)
  /\ (forall bs s rest, take_bytes bs = TSome s rest -> utf8_valid s = false \/ In 0 s ->
     deser_value defs enums fuel TString bs = Err DBadInput)
  /\ (forall s rest, N.of_nat (length s) < two64 -> utf8_valid s = false \/ In 0 s ->
     deser_value defs enums fuel TString (push_bytes s ++ rest) = Err DBadInput)
  (* id whose length prefix is not 32 *)
  /\ (forall len rest, len <> 32 -> deser_value defs enums fuel TId (len :: rest) = Err DBadInput)
  (* the empty type *)
  /\ (forall bs, deser_value defs enums fuel TNever bs = Err DBadInput).

Lemma bad_tag (tag : N) : tag <> 0 -> tag <> 1 ->
  forall {A} (a b c : A), match tag with 0 => a | 1 => b | _ => c end = c.
Proof. intros H0 H1 A a b c. destruct tag as [|[p|p|]]; try reflexivity; congruence. Qed.

Lemma existsb_snd_false vs x : ~ In x (map snd vs) -> existsb (fun p : ident * Z => Z.eqb (snd p) x) vs = false.
Proof.
  intros H. destruct (existsb _ vs) eqn:E; auto. exfalso. apply H.
  apply existsb_exists in E as (p & Hin & Hp). apply Z.eqb_eq in Hp. subst. apply in_map; auto.
Qed.

Lemma has_nul_in s : In 0 s -> has_nul s = true.
Proof. intros H. unfold has_nul. apply existsb_exists. exists 0. split; auto. Qed.

Lemma reject_proof : reject_stmt.
Proof.
  intros defs enums fuel. unfold deser_value.
  split; [|split; [|split; [|split; [|split; [|split; [|split]]]]]].
  - intros t tag rest H0 H1. cbn [deser_value_with].
    destruct tag as [|[p|p|]]; try reflexivity; congruence.
  - intros a b tag rest H0 H1. cbn [deser_value_with].
    destruct tag as [|[p|p|]]; try reflexivity; congruence.
  - intros e vs x bs rest He Ht Hn. cbn [deser_value_with]. rewrite He, Ht, existsb_snd_false; auto.
  - intros e vs x rest He Hx Hn. cbn [deser_value_with]. rewrite He, i64_roundtrip, existsb_snd_false; auto.
  - intros bs s rest Ht [Hu|Hn]; cbn [deser_value_with]; rewrite Ht.
    + rewrite Hu. reflexivity.
    + rewrite (has_nul_in _ Hn). destruct (utf8_valid s); reflexivity.
  - intros s rest Hl [Hu|Hn]; cbn [deser_value_with]; rewrite bytes_roundtrip by auto.
    + rewrite Hu. reflexivity.
    + rewrite (has_nul_in _ Hn). destruct (utf8_valid s); reflexivity.
  - intros len rest Hl. cbn [deser_value_with]. rewrite id_size_pinned.
    destruct (N.eqb_spec len 32); [congruence|reflexivity].
  - reflexivity.
Qed.

(** ** Totality: for an acyclic schema the recursion budget is never exhausted, whatever
    the input bytes — every input is answered [Ok] or one of the five Rust errors. *)
Section Total.
Variable defs : struct_defs.
Variable enums : enum_defs.
Variable rk : ident -> nat.
Hypothesis Hrk : ranked defs rk.

Lemma dvw_no_oof rec t :
  (forall s bs, In s (struct_refs t) -> rec s bs <> Err DOutOfFuel) ->
  forall bs, deser_value_with enums rec t bs <> Err DOutOfFuel.
Proof.
  induction t; intros Hrec bs; cbn [deser_value_with]; try discriminate.
  - destruct (take_bytes bs); try discriminate. destruct (utf8_valid a); [destruct (has_nul a)|]; discriminate.
  - destruct (take_bytes bs); discriminate.
  - destruct (take_i64 bs); discriminate.
  - destruct (take_bool bs); discriminate.
  - destruct bs as [|len r]; [discriminate|]. destruct (len =? id_size); [|discriminate].
    destruct (take_n id_size r) as [[x r']|]; discriminate.
  - apply Hrec. cbn. auto.
  - destruct (assoc e enums); [|discriminate]. destruct (take_i64 bs); try discriminate.
    destruct (existsb _ l); discriminate.
  - destruct bs as [|[|[p|p|]] r]; try discriminate.
    specialize (IHt Hrec r). destruct (deser_value_with enums rec t r) as [[v r']|e]; [discriminate|congruence].
  - assert (H1 : forall s bs, In s (struct_refs t1) -> rec s bs <> Err DOutOfFuel)
      by (intros; apply Hrec; cbn; apply in_or_app; auto).
    assert (H2 : forall s bs, In s (struct_refs t2) -> rec s bs <> Err DOutOfFuel)
      by (intros; apply Hrec; cbn; apply in_or_app; auto).
    destruct bs as [|[|[p|p|]] r]; try discriminate.
    + specialize (IHt1 H1 r). destruct (deser_value_with enums rec t1 r) as [[v r']|e]; [discriminate|congruence].
    + specialize (IHt2 H2 r). destruct (deser_value_with enums rec t2 r) as [[v r']|e]; [discriminate|congruence].
Qed.

Lemma items_no_oof (d : ty -> list N -> dres) items :
  (forall f t bs, In (f, t) items -> d t bs <> Err DOutOfFuel) ->
  forall acc bs, deser_items d items acc bs <> Err DOutOfFuel.
Proof.
  induction items as [|[f t] items IH]; intros H acc bs; cbn [deser_items]; [discriminate|].
  pose proof (H f t bs (or_introl eq_refl)) as H1.
  destruct (d t bs) as [[v r]|e]; [|congruence].
  apply IH. intros; apply (H f0 t0); right; auto.
Qed.

Lemma struct_no_oof : forall fuel s bs, (rk s < fuel)%nat -> deser_struct defs enums fuel s bs <> Err DOutOfFuel.
Proof.
  induction fuel as [|f IH]; intros s bs Hlt; [lia|].
  cbn [deser_struct]. destruct (assoc s defs) as [items|] eqn:Hd; [|discriminate].
  assert (H : forall acc, deser_items (deser_value_with enums (deser_struct defs enums f)) items acc bs <> Err DOutOfFuel).
  { intros acc. apply items_no_oof. intros f0 t0 bs0 Hin. apply dvw_no_oof.
    intros s' bs' Hs'. apply IH. specialize (Hrk s items Hd f0 t0 Hin s' Hs'). lia. }
  specialize (H []). destruct (deser_items _ items [] bs) as [[fs r]|e]; [discriminate|congruence].
Qed.
End Total.

Definition deser_total_stmt : Prop :=
  forall (defs : struct_defs) (enums : enum_defs) (rk : ident -> nat) (name : ident) (bs : list N),
  acyclic defs rk ->
  deserialize_struct defs enums name bs <> Err DOutOfFuel
  /\ (forall t fuel, fits rk t fuel -> deser_value defs enums fuel t bs <> Err DOutOfFuel).

Lemma deser_total_proof : deser_total_stmt.
Proof.
  intros defs enums rk name bs [Hrk Hb]. split.
  - unfold deserialize_struct, deserialize_struct_fuel.
    pose proof (struct_no_oof defs enums rk Hrk (S (length defs)) name bs ltac:(specialize (Hb name); lia)) as H.
    destruct (deser_struct defs enums (S (length defs)) name bs) as [[v [|x r]]|e]; try discriminate. congruence.
  - intros t fuel Hfit. unfold deser_value. apply dvw_no_oof.
    intros s bs' Hs. apply struct_no_oof with (rk := rk); auto.
Qed.

(** F26cyc (open finding): with a cyclic schema no recursion budget suffices — the Rust code recurses
    without bound. *)
Lemma deser_cyclic_refuted :
  exists defs name, forall fuel bs, deser_struct defs [] fuel name bs = Err DOutOfFuel.
Proof.
  exists [(1, [(1, TStruct 1)])], 1. induction fuel as [|f IH]; intros bs; [reflexivity|].
  cbn [deser_struct assoc]. rewrite N.eqb_refl. cbn [deser_items deser_value_with].
  rewrite IH. reflexivity.
Qed.

(** ** Non-vacuity: a schema with nested structs, an enum, option and result, and a value of it *)
Definition ex_defs : struct_defs :=
  [ (1, [(3, TInt); (1, TString); (2, TOptional (TStruct 2))]);
    (2, [(1, TId); (2, TResult TBool (TEnum 1))]) ].
Definition ex_enums : enum_defs := [ (1, [(1, 0%Z); (2, 1%Z)]) ].
Definition ex_id : list N := map N.of_nat (seq 0 32).
Definition ex_fields : list (ident * value) :=
  [ (1, VString [104; 195; 169]);
    (2, VSome (VStruct 2 [ (1, VId ex_id); (2, VErr (VEnum 1 1%Z)) ]));
    (3, VInt (-5)%Z) ].
Definition ex_rk (s : ident) : nat := if s =? 1 then 1 else 0.

Example ex_acyclic : acyclic ex_defs ex_rk.
Proof.
  split; [|intros s; unfold ex_rk; destruct (s =? 1); cbn; lia].
  intros s items Hd f t Hin s' Hs'. unfold ex_defs in Hd. cbn [assoc] in Hd.
  destruct (N.eqb_spec s 1) as [->|].
  - inv Hd. cbn in Hin. destruct Hin as [H|[H|[H|[]]]]; inv H; cbn in Hs'; try contradiction.
    destruct Hs' as [<-|[]]. vm_compute. lia.
  - destruct (N.eqb_spec s 2) as [->|]; [|discriminate].
    inv Hd. cbn in Hin. destruct Hin as [H|[H|[]]]; inv H; cbn in Hs'; contradiction.
Qed.

Lemma ex_id_ok : bytes_ok ex_id /\ length ex_id = 32%nat.
Proof.
  split; [|reflexivity].
  unfold ex_id, bytes_ok. apply Forall_forall. intros x Hx. apply in_map_iff in Hx as (n & <- & Hn).
  apply in_seq in Hn. unfold byte_ok. lia.
Qed.

Example ex_typed : has_type ex_defs ex_enums (VStruct 1 ex_fields) (TStruct 1).
Proof.
  cbn [has_type]. split; [reflexivity|]. eexists. split; [reflexivity|].
  assert (Hs2 : ksorted [ (1, VId ex_id); (2, VErr (VEnum 1 1%Z)) ]).
  { constructor; [cbn; intros k [<-|[]]; lia|]. constructor; [cbn; tauto|constructor]. }
  split; [cbn; repeat constructor; cbn; intuition discriminate|].
  split. { constructor; [cbn; intros k [<-|[<-|[]]]; lia|]. constructor; [cbn; intros k [<-|[]]; lia|].
           constructor; [cbn; tauto|constructor]. }
  split; [reflexivity|].
  split; [|split; [|split; [|exact I]]].
  - eexists. split; [reflexivity|]. cbn. repeat split; auto. repeat constructor; unfold byte_ok; lia.
  - eexists. split; [reflexivity|]. cbn [snd has_type]. split; [reflexivity|]. eexists. split; [reflexivity|].
    split; [cbn; repeat constructor; cbn; intuition discriminate|]. split; [exact Hs2|]. split; [reflexivity|].
    split; [|split; [|exact I]].
    + eexists. split; [reflexivity|]. cbn [snd has_type]. exact ex_id_ok.
    + eexists. split; [reflexivity|]. cbn. split; [reflexivity|]. split; [unfold in_i64, two63z; lia|].
      eexists. split; reflexivity.
  - eexists. split; [reflexivity|]. cbn. unfold in_i64, two63z. lia.
Qed.

Example ex_bytes :
  serialize_struct ex_defs 1 ex_fields
  = Ok ([9; 3; 104; 195; 169; 1; 32] ++ ex_id ++ [1; 2])
  /\ deserialize_struct ex_defs ex_enums 1 ([9; 3; 104; 195; 169; 1; 32] ++ ex_id ++ [1; 2]) = Ok (VStruct 1 ex_fields)
  /\ deserialize_struct ex_defs ex_enums 1 ([9; 3; 104; 195; 169; 1; 32] ++ ex_id ++ [1; 4]) = Err DBadInput.
Proof. repeat split; vm_compute; reflexivity. Qed.

(** * The encoding is injective and prefix-free on well-typed values:
    two struct values of the same type with the same serialization are the
    same value, and no serialization is a proper prefix of another — a
    receiver can never mistake one command's fields for another's. *)
Definition ser_injective_prefix_free_stmt : Prop :=
  forall (defs : struct_defs) (enums : enum_defs) (rk : ident -> nat) (name : ident)
         (f1 f2 : list (ident * value)) (e1 e2 : list N),
  acyclic defs rk ->
  has_type defs enums (VStruct name f1) (TStruct name) ->
  has_type defs enums (VStruct name f2) (TStruct name) ->
  serialize_struct defs name f1 = Ok e1 -> serialize_struct defs name f2 = Ok e2 ->
  (e1 = e2 -> f1 = f2)
  /\ (forall rest, e2 = e1 ++ rest -> rest = [] /\ f1 = f2).
Lemma ser_injective_prefix_free_proof : ser_injective_prefix_free_stmt.
Proof.
  intros defs enums rk name f1 f2 e1 e2 Hac H1 H2 S1 S2.
  destruct (deser_ser_proof defs enums rk name f1 Hac H1) as (x1 & Sx1 & _ & D1 & _ & T1).
  destruct (deser_ser_proof defs enums rk name f2 Hac H2) as (x2 & Sx2 & _ & D2 & _ & _).
  rewrite S1 in Sx1. rewrite S2 in Sx2. inversion Sx1; subst x1. inversion Sx2; subst x2.
  assert (Hinj : e1 = e2 -> f1 = f2).
  { intros ->. rewrite D1 in D2. inversion D2. reflexivity. }
  split; [exact Hinj|].
  intros rest ->. destruct rest as [|x extra].
  - split; [reflexivity|]. apply Hinj. now rewrite app_nil_r.
  - exfalso. rewrite T1 in D2. discriminate.
Qed.
