(** The session's two-iterator merge ([QueryIterator] over [Peekable]s, with the
    non-fused [PrefixIter]) equals the pure sorted merge [pmerge], and [pmerge] is the
    overlay of the current entries on the prior facts, minus tombstones. *)
From Aranya Require Import base.Tactics base.ListLex base.SortedAssoc model.Facts model.Session
     proofs.FactsMaps.

(** ** The pure merge *)

Definition emit (k : keys) (v : val) (rest : list fact) : list fact :=
  match v with Some b => (k, b) :: rest | None => rest end.

Fixpoint pmerge (cur : list (keys * val)) : list fact -> list fact :=
  match cur with
  | [] => fun prior => prior
  | (k, v) :: cr =>
    fix go (prior : list fact) : list fact :=
      match prior with
      | [] => emit k v (pmerge cr [])
      | (ko, vo) :: pr =>
        match kcmp k ko with
        | Eq => emit k v (pmerge cr pr)
        | Gt => (ko, vo) :: go pr
        | Lt => emit k v (pmerge cr prior)
        end
      end
  end.

Lemma pmerge_nil prior : pmerge [] prior = prior.
Proof. reflexivity. Qed.

Lemma pmerge_cons_nil k v cr : pmerge ((k, v) :: cr) [] = emit k v (pmerge cr []).
Proof. reflexivity. Qed.

Lemma pmerge_cons_cons k v cr ko vo pr :
  pmerge ((k, v) :: cr) ((ko, vo) :: pr) =
  match kcmp k ko with
  | Eq => emit k v (pmerge cr pr)
  | Gt => (ko, vo) :: pmerge ((k, v) :: cr) pr
  | Lt => emit k v (pmerge cr ((ko, vo) :: pr))
  end.
Proof. reflexivity. Qed.

Lemma pmerge_length cur : forall prior, (length (pmerge cur prior) <= length cur + length prior)%nat.
Proof.
  induction cur as [|[k v] cr IH]; intros prior; [cbn; lia|].
  induction prior as [|[ko vo] pr IHp].
  - rewrite pmerge_cons_nil. specialize (IH []). destruct v; cbn in *; lia.
  - rewrite pmerge_cons_cons. destruct (kcmp k ko).
    + specialize (IH pr). destruct v; cbn in *; lia.
    + specialize (IH ((ko, vo) :: pr)). destruct v; cbn in *; lia.
    + cbn in *. lia.
Qed.

(** Keys of the result come from the inputs. *)
Lemma pmerge_keys cur : forall prior e, In e (pmerge cur prior) ->
  (exists v, In (fst e, v) cur) \/ In e prior.
Proof.
  induction cur as [|[k v] cr IH]; intros prior e; [cbn; auto|].
  assert (Hemit : forall rest, In e (emit k v rest) -> (exists v', In (fst e, v') ((k, v) :: cr)) \/ In e rest).
  { intros rest. destruct v as [b|]; cbn; auto. intros [<-|H]; auto. left. exists (Some b). cbn; auto. }
  induction prior as [|[ko vo] pr IHp].
  - rewrite pmerge_cons_nil. intros H. apply Hemit in H as [H|H]; auto.
    apply IH in H as [[v' H]|H]; auto. left. exists v'. cbn; auto.
  - rewrite pmerge_cons_cons. destruct (kcmp k ko).
    + intros H. apply Hemit in H as [H|H]; auto.
      apply IH in H as [[v' H]|H]; [left; exists v'; cbn; auto|right; cbn; auto].
    + intros H. apply Hemit in H as [H|H]; auto.
      apply IH in H as [[v' H]|H]; [left; exists v'; cbn; auto|right; auto].
    + intros [<-|H]; [right; cbn; auto|]. apply IHp in H as [H|H]; auto. right; cbn; auto.
Qed.

Definition vflat (x : option val) (dflt : option bytes) : option bytes :=
  match x with Some v => v | None => dflt end.

Lemma lb_of_sorted {V} k (v : V) r : sorted kcmp ((k, v) :: r) -> Forall (fun e => kcmp k (fst e) = Lt) r.
Proof. intros S. apply sorted_inv in S as [_ H]. exact H. Qed.

Lemma pmerge_spec cur : sorted kcmp cur -> forall prior, sorted kcmp prior ->
  sorted kcmp (pmerge cur prior) /\
  forall k, sget kcmp k (pmerge cur prior) = vflat (sget kcmp k cur) (sget kcmp k prior).
Proof.
  induction cur as [|[k1 v1] cr IH]; intros Sc prior Sp.
  { split; auto. }
  pose proof (lb_of_sorted _ _ _ Sc) as Lc.
  assert (Scr : sorted kcmp cr) by (apply sorted_inv in Sc; tauto).
  (* emitting the head of [cur] in front of a merge of later entries *)
  assert (Hemit : forall prior', sorted kcmp prior' -> Forall (fun e => kcmp k1 (fst e) = Lt) prior' ->
            sorted kcmp (emit k1 v1 (pmerge cr prior')) /\
            forall k, sget kcmp k (emit k1 v1 (pmerge cr prior')) =
                      vflat (sget kcmp k ((k1, v1) :: cr)) (sget kcmp k prior')).
  { intros prior' Sp' Lp'. destruct (IH Scr prior' Sp') as [Sm Gm].
    assert (Lm : Forall (fun e => kcmp k1 (fst e) = Lt) (pmerge cr prior')).
    { rewrite Forall_forall in *. intros e He. apply pmerge_keys in He as [[v' H]|H]; auto.
      apply (Lc (fst e, v')); auto. }
    destruct v1 as [b|]; cbn [emit].
    - split; [apply sorted_cons; auto|]. intros k. cbn [sget].
      destruct (kcmp k k1) eqn:E; cbn [vflat]; auto.
    - split; auto. intros k. rewrite Gm. cbn [sget].
      destruct (kcmp k k1) eqn:E; cbn [vflat]; auto.
      apply (cmp_eq _ KL) in E; subst k.
      rewrite (lb_sget_none kcmp k1 cr), (lb_sget_none kcmp k1 prior'); auto. }
  induction prior as [|[ko vo] pr IHp].
  - rewrite pmerge_cons_nil. apply Hemit; auto.
  - pose proof (lb_of_sorted _ _ _ Sp) as Lp.
    assert (Spr : sorted kcmp pr) by (apply sorted_inv in Sp; tauto).
    rewrite pmerge_cons_cons. destruct (kcmp k1 ko) eqn:E.
    + apply (cmp_eq _ KL) in E; subst ko.
      destruct (Hemit pr Spr Lp) as [S1 G1]. split; auto.
      intros k. rewrite G1. cbn [sget]. destruct (kcmp k k1); auto.
    + apply Hemit; auto. constructor; auto.
      exact (lt_all kcmp KL k1 (ko, vo) pr E Lp).
    + apply (cmp_gt_lt _ KL) in E.
      destruct (IHp Spr) as [S1 G1]. split.
      * apply sorted_cons; auto. rewrite Forall_forall. intros e He.
        apply pmerge_keys in He as [[v' H]|H].
        -- unfold slt; cbn. destruct H as [H|H].
           ++ inv H. exact E.
           ++ rewrite Forall_forall in Lc. eapply (cmp_lt_trans _ KL); [exact E|]. apply (Lc (fst e, v')); auto.
        -- rewrite Forall_forall in Lp. apply Lp; auto.
      * intros k. cbn [sget]. destruct (kcmp k ko) eqn:Ek.
        -- apply (cmp_eq _ KL) in Ek; subst k. rewrite E.
           rewrite (lb_sget_none kcmp ko cr); auto.
           exact (lt_all kcmp KL ko (k1, v1) cr E Lc).
        -- rewrite G1. reflexivity.
        -- rewrite G1. reflexivity.
Qed.

(** ** The iterator state machine *)

Definition abs_pi (it : prefix_iter) : list (keys * val) :=
  take_while (has_prefix bcmp (pi_prefix it)) (pi_range it).

Definition abs_cur (c : peekable prefix_iter (keys * val)) : list (keys * val) :=
  match pk_peeked c with
  | Some None => []
  | Some (Some e) => e :: abs_pi (pk_iter c)
  | None => abs_pi (pk_iter c)
  end.

Definition abs_prior (p : peekable (list (res fact)) (res fact)) : list (res fact) :=
  match pk_peeked p with
  | Some None => []
  | Some (Some x) => x :: pk_iter p
  | None => pk_iter p
  end.

Definition wf_prior (p : peekable (list (res fact)) (res fact)) : Prop :=
  pk_peeked p = Some None -> pk_iter p = [].

Lemma prior_peek p : wf_prior p ->
  let '(r, p') := pk_peek list_next p in
  r = hd_error (abs_prior p) /\ abs_prior p' = abs_prior p /\ wf_prior p'.
Proof.
  intros W. unfold pk_peek, abs_prior, wf_prior in *. destruct p as [[[x|]|] l]; cbn in *; auto.
  destruct l as [|x l]; cbn; auto. split; [auto|]. split; [auto|]. discriminate.
Qed.

Lemma prior_next p : wf_prior p ->
  let '(r, p') := pk_next list_next p in
  r = hd_error (abs_prior p) /\ abs_prior p' = tl (abs_prior p) /\ wf_prior p'.
Proof.
  intros W. unfold pk_next, abs_prior, wf_prior in *. destruct p as [[[x|]|] l]; cbn in *.
  - split; [auto|]. split; [auto|]. discriminate.
  - rewrite (W eq_refl). split; [auto|]. split; [auto|]. discriminate.
  - destruct l as [|x l]; cbn; (split; [auto|]; split; [auto|]; discriminate).
Qed.

Lemma cur_peek c :
  let '(r, c') := pk_peek pi_next c in
  r = hd_error (abs_cur c) /\ abs_cur c' = abs_cur c.
Proof.
  unfold pk_peek, abs_cur. destruct c as [[[e|]|] it]; cbn [pk_peeked pk_iter]; auto.
  unfold pi_next, abs_pi. destruct it as [[|e r] p]; cbn [pi_range pi_prefix]; cbn [take_while]; auto.
  unfold has_prefix, keys in *. destruct (is_prefix bcmp p (fst e)) eqn:E; cbn; rewrite ?E; auto.
Qed.

Lemma cur_next c : abs_cur c <> [] ->
  let '(r, c') := pk_next pi_next c in
  r = hd_error (abs_cur c) /\ abs_cur c' = tl (abs_cur c).
Proof.
  unfold pk_next, abs_cur. destruct c as [[[e0|]|] it]; cbn [pk_peeked pk_iter].
  - auto.
  - congruence.
  - unfold pi_next, abs_pi. destruct it as [[|e1 r] p]; cbn [pi_range pi_prefix]; cbn [take_while].
    + intros H; exfalso; apply H; reflexivity.
    + unfold has_prefix, keys in *. destruct (is_prefix bcmp p (fst e1)) eqn:E; cbn; rewrite ?E; auto.
      intros H; exfalso; apply H; reflexivity.
Qed.

Record qstate_ok (q : qiter) (cur : list (keys * val)) (pl : list fact) : Prop := {
  qo_cur : abs_cur (qi_current q) = cur;
  qo_prior : abs_prior (qi_prior q) = map Ok pl;
  qo_wf : wf_prior (qi_prior q);
}.

Lemma hd_map_ok (l : list fact) : hd_error (map (@Ok fact) l) = option_map Ok (hd_error l).
Proof. destruct l; auto. Qed.

(** One [next]: the head of the merged list; the rest stays to be produced. *)
Lemma qi_next_spec fuel : forall q cur pl, qstate_ok q cur pl -> (length cur < fuel)%nat ->
  let '(r, q') := qi_next fuel q in
  r = option_map Ok (hd_error (pmerge cur pl)) /\
  exists cur' pl', qstate_ok q' cur' pl' /\ pmerge cur' pl' = tl (pmerge cur pl) /\
                   (length cur' <= length cur)%nat.
Proof.
  induction fuel as [|fuel IH]; intros q cur pl [Hc Hp Hw] Hfu; [lia|].
  cbn [qi_next].
  pose proof (cur_peek (qi_current q)) as Hpk.
  destruct (pk_peek pi_next (qi_current q)) as [new cur1]. destruct Hpk as [Hnew Hcur1].
  rewrite Hc in Hnew, Hcur1.
  destruct cur as [|[k v] cr]; cbn [hd_error] in Hnew; subst new.
  - (* current exhausted *)
    pose proof (prior_next (qi_prior q) Hw) as Hn.
    destruct (pk_next list_next (qi_prior q)) as [r pr1]. destruct Hn as (Hr & Ha & Hw1).
    rewrite Hp in Hr, Ha. rewrite pmerge_nil. split; [rewrite Hr; apply hd_map_ok|].
    exists [], (tl pl). split; [|split; auto].
    constructor; cbn; auto. rewrite Ha. destruct pl; auto.
  - pose proof (prior_peek (qi_prior q) Hw) as Hpp.
    destruct (pk_peek list_next (qi_prior q)) as [old pr1]. destruct Hpp as (Hold & Hpr1 & Hw1).
    rewrite Hp in Hold, Hpr1.
    (* taking the current entry, given the prior state to continue with *)
    assert (Htake : forall pr pl2, abs_prior pr = map Ok pl2 -> wf_prior pr ->
              let '(r, q') :=
                  (let '(slot, cur2) := pk_next pi_next cur1 in
                   match slot with
                   | None => (Some (Err EBug), {| qi_prior := pr; qi_current := cur2 |})
                   | Some (k0, Some v0) => (Some (Ok (k0, v0)), {| qi_prior := pr; qi_current := cur2 |})
                   | Some (_, None) => qi_next fuel {| qi_prior := pr; qi_current := cur2 |}
                   end) in
              r = option_map Ok (hd_error (emit k v (pmerge cr pl2))) /\
              exists cur' pl', qstate_ok q' cur' pl' /\ pmerge cur' pl' = tl (emit k v (pmerge cr pl2)) /\
                               (length cur' <= length ((k, v) :: cr))%nat).
    { intros pr pl2 Hpr Hwpr.
      pose proof (cur_next cur1) as Hcn. rewrite Hcur1 in Hcn. specialize (Hcn ltac:(discriminate)).
      destruct (pk_next pi_next cur1) as [slot cur2]. destruct Hcn as [Hs Hc2]. cbn in Hs, Hc2. subst slot.
      destruct v as [b|]; cbn [emit].
      - split; auto. exists cr, pl2. split; [constructor; auto|]. split; auto. cbn; lia.
      - specialize (IH {| qi_prior := pr; qi_current := cur2 |} cr pl2).
        destruct (qi_next fuel {| qi_prior := pr; qi_current := cur2 |}) as [r q'].
        destruct IH as [Hr (cur' & pl' & Hq & Hm & Hl)]; [constructor; auto|cbn in Hfu; lia|].
        split; auto. exists cur', pl'. split; auto. split; auto. cbn; lia. }
    destruct pl as [|[ko vo] pr]; cbn [map hd_error] in Hold; subst old.
    + rewrite pmerge_cons_nil. apply (Htake pr1 []); auto.
    + rewrite pmerge_cons_cons. cbn [fst].
      destruct (kcmp k ko) eqn:E.
      * pose proof (prior_next pr1 Hw1) as Hn.
        destruct (pk_next list_next pr1) as [r0 pr2]. destruct Hn as (_ & Ha & Hw2).
        rewrite Hpr1 in Ha. cbn in Ha. apply (Htake pr2 pr); auto.
      * apply (Htake pr1 ((ko, vo) :: pr)); auto.
      * pose proof (prior_next pr1 Hw1) as Hn.
        destruct (pk_next list_next pr1) as [r0 pr2]. destruct Hn as (Hr & Ha & Hw2).
        rewrite Hpr1 in Hr, Ha. cbn in Hr, Ha. subst r0. split; auto.
        exists ((k, v) :: cr), pr. split; [constructor; auto|]. split; auto.
Qed.

Lemma qi_collect_spec fuel inner : forall q cur pl, qstate_ok q cur pl ->
  (length cur < inner)%nat -> (length (pmerge cur pl) < fuel)%nat ->
  qi_collect fuel inner q = map Ok (pmerge cur pl).
Proof.
  induction fuel as [|fuel IH]; intros q cur pl Hq Hin Hfu; [lia|].
  cbn [qi_collect].
  pose proof (qi_next_spec inner q cur pl Hq Hin) as Hn.
  destruct (qi_next inner q) as [r q']. destruct Hn as [Hr (cur' & pl' & Hq' & Hm & Hl)].
  destruct (pmerge cur pl) as [|x rest] eqn:Em; cbn in Hr; subst r; auto.
  cbn [map]. f_equal. cbn in Hm. rewrite <- Hm. apply IH; auto; try lia.
  rewrite Hm. cbn in Hfu. lia.
Qed.

Lemma take_while_length {X} (f : X -> bool) l : (length (take_while f l) <= length l)%nat.
Proof. induction l as [|x l IH]; cbn; auto. destruct (f x); cbn; lia. Qed.

Lemma find_prefixes_length fm p : (length (find_prefixes fm p) <= length (pi_range (pi_new fm p)))%nat.
Proof. unfold find_prefixes, range_prefix, pi_new. cbn [pi_range]. apply take_while_length. Qed.

(** The merge as the session builds it: prior facts (sorted, error free) against the
    [PrefixIter] over a sorted map. *)
Theorem query_iterator_merge (prior : list fact) (fm : fmap) (p : keys) :
  let cur := pi_new fm p in
  let bound := S (S (length prior + length (pi_range cur))) in
  qi_collect bound bound (qi_new (map Ok prior) cur) = map Ok (pmerge (find_prefixes fm p) prior).
Proof.
  intros cur bound.
  assert (Hq : qstate_ok (qi_new (map Ok prior) cur) (find_prefixes fm p) prior).
  { constructor; cbn; auto. discriminate. }
  pose proof (find_prefixes_length fm p) as H1.
  pose proof (pmerge_length (find_prefixes fm p) prior) as H2.
  apply qi_collect_spec; auto; unfold bound, cur; lia.
Qed.

(** With no current entries for the name, the merge is the prior. *)
Lemma query_iterator_default (prior : list fact) :
  let bound := S (S (length prior + 0)) in
  qi_collect bound bound (qi_new (map Ok prior) pi_default) = map Ok prior.
Proof.
  intros bound.
  assert (Hq : qstate_ok (qi_new (map Ok prior) pi_default) [] prior).
  { constructor; cbn; auto. discriminate. }
  rewrite (qi_collect_spec bound bound _ [] prior Hq); auto; cbn; lia.
Qed.
