(** C35: a replica accepts a synced command only if the wire fields the runtime feeds to the
    policy's [open] block form a tuple signed by the author's registered key. *)
From Aranya Require Import base.Tactics gen.GenEnvelope model.Envelope.
Local Open Scope N_scope.

Section Auth.
  Variables F E : Type.
  Variable kinds : tok -> option (prio * bool).
  Variable struct_decodes : tok -> tok -> bool.
  Variable open_key : F -> tok -> tok -> tok -> option tok.
  Variable verify_cmd : tok -> tok * tok * tok -> tok -> option tok.
  Variable policy_eval : F -> tok -> tok -> envelope -> pres F E.
  Variable empty_facts : F.

  (** Named component C34 ([cmd_sig_binds]): a command signature verifies only for the exact
      tuple (key, command bytes, name, parent id, signature, id) that was signed.
      [signed pk (data, name, parent) sig id]: the holder of [pk] produced [sig] and [id] by
      [sign_cmd] over that command. *)
  Variable signed : tok -> tok * tok * tok -> tok -> tok -> Prop.
  Hypothesis sig_sound : forall pk c s i, verify_cmd pk c s = Some i -> signed pk c s i.
  Hypothesis sig_binds : forall pk c s i pk' c' s' i',
    signed pk c s i -> signed pk' c' s' i' -> (s = s' \/ i = i') -> pk = pk' /\ c = c' /\ s = s' /\ i = i'.

  Notation call_rule := (call_rule F E kinds struct_decodes open_key verify_cmd policy_eval).
  Notation deliver := (deliver F E kinds struct_decodes open_key verify_cmd policy_eval empty_facts).
  Notation deliver_in_trx := (deliver_in_trx F E kinds struct_decodes open_key verify_cmd policy_eval).

  (** payload, name, parent, author and id are those of a tuple signed by the author's registered key *)
  Definition authentic (f : F) (c : wcmd) : Prop :=
    exists w pk, c_data c = Some w
      /\ open_key f (w_kind w) (w_payload w) (w_author w) = Some pk
      /\ signed pk (w_payload w, w_kind w, parent_id_of c) (w_sig w) (c_id c).

  Lemma ffi_verify_ok name pk parent payload cid sig :
    ffi_verify verify_cmd name pk parent payload cid sig = None ->
    exists k, pk = Some k /\ verify_cmd k (payload, name, parent) sig = Some cid.
  Proof.
    unfold ffi_verify. destruct pk as [k|]; [|discriminate].
    destruct (verify_cmd k (payload, name, parent) sig) as [i|] eqn:Ev; [|discriminate].
    destruct (N.eqb_spec i cid); [|discriminate]. subst. eauto.
  Qed.

  Lemma call_rule_ok_authentic f c f' effs : call_rule f c = POk f' effs -> authentic f c.
  Proof.
    intros H0.
    assert (H : call_rule_body F E kinds struct_decodes open_key verify_cmd policy_eval f c = POk f' effs).
    { unfold Envelope.call_rule in H0. destruct (c_parent c); auto; discriminate. }
    clear H0. unfold call_rule_body in H.
    destruct (c_data c) as [w|] eqn:Ed; [|discriminate].
    destruct (kinds (w_kind w)) as [[expected persistent]|]; [|discriminate].
    destruct (negb (prio_eqb (c_prio c) expected)); [discriminate|].
    destruct (negb persistent); [discriminate|].
    destruct (negb (struct_decodes (w_kind w) (w_payload w))); [discriminate|].
    destruct (open_block _ _ _ f w _) eqn:Eo; [discriminate|].
    unfold open_block in Eo. cbn [e_parent_id e_author_id e_command_id e_signature] in Eo.
    apply ffi_verify_ok in Eo as [k [Hk Hv]].
    exists w, k. split; [exact Ed|]. split; [exact Hk|]. apply sig_sound. exact Hv.
  Qed.

  Definition facts_seen (r : replica F E) : F :=
    match r_graph r with None => empty_facts | Some _ => r_facts r end.

  Lemma deliver_accept_authentic g r c r' : deliver g r c = (r', Accepted) -> authentic (facts_seen r) c.
  Proof.
    unfold Envelope.deliver, facts_seen. destruct (r_graph r) as [gid|].
    - destruct (has_addr _ _); [intros H; inv H|].
      destruct (c_parent c) as [|p m|] eqn:Ep.
      + destruct (c_id c =? gid); intros H; inv H.
      + destruct (negb (has_addr (r_cmds r) (p, m))); [intros H; inv H|].
        destruct (call_rule (r_facts r) c) as [f effs|e] eqn:Ec; intros H; inv H.
        eapply call_rule_ok_authentic; eauto.
      + intros H; inv H.
    - destruct (negb (g =? c_id c)); [intros H; inv H|].
      destruct (c_parent c), (c_policy c); try (intros H; inv H; fail).
      destruct (call_rule empty_facts c) as [f effs|e] eqn:Ec; intros H; inv H.
      eapply call_rule_ok_authentic; eauto.
  Qed.

  (** a command that is not accepted leaves no facts, no effects and no stored command *)
  Lemma deliver_not_accepted_unchanged g r c r' o : deliver g r c = (r', o) -> o <> Accepted -> r' = r.
  Proof.
    unfold Envelope.deliver. intros H Ho.
    repeat match type of H with
           | (if ?b then _ else _) = _ => destruct b
           | match ?x with _ => _ end = _ => destruct x
           end; inv H; auto; congruence.
  Qed.

  Lemma deliver_accepted_stored g r c r' : deliver g r c = (r', Accepted) ->
    In (c_id c, max_cut_of c) (r_cmds r').
  Proof.
    unfold Envelope.deliver, max_cut_of. intros H.
    repeat match type of H with
           | (if ?b then _ else _) = _ => destruct b
           | match ?x with _ => _ end = _ => destruct x eqn:?
           end; inv H; cbn [r_cmds];
      solve [ auto | left; reflexivity | apply in_or_app; right; left; reflexivity ].
  Qed.

  (** the tuple a command presents for verification *)
  Definition presented (f : F) (c : wcmd) : option (option tok * (tok * tok * tok) * tok * tok) :=
    match c_data c with
    | Some w => Some (open_key f (w_kind w) (w_payload w) (w_author w), (w_payload w, w_kind w, parent_id_of c), w_sig w, c_id c)
    | None => None
    end.

  Lemma authentic_same_tuple f c c' :
    authentic f c -> authentic f c' ->
    (option_map w_sig (c_data c) = option_map w_sig (c_data c') \/ c_id c = c_id c') ->
    presented f c = presented f c'.
  Proof.
    intros [w [pk [Hd [Hk Hs]]]] [w' [pk' [Hd' [Hk' Hs']]]] Hsame.
    unfold presented. rewrite Hd, Hd' in *. cbn [option_map] in Hsame.
    assert (Hor : w_sig w = w_sig w' \/ c_id c = c_id c') by (destruct Hsame as [H|H]; [left; congruence|right; auto]).
    destruct (sig_binds _ _ _ _ _ _ _ _ Hs Hs' Hor) as [E1 [E2 [E3 E4]]].
    rewrite Hk, Hk'. congruence.
  Qed.
End Auth.

(** * Closed statements *)

(** C34 as this development uses it. *)
Definition cmd_sig_binds (verify_cmd : tok -> tok * tok * tok -> tok -> option tok)
                         (signed : tok -> tok * tok * tok -> tok -> tok -> Prop) : Prop :=
  (forall pk c s i, verify_cmd pk c s = Some i -> signed pk c s i)
  /\ (forall pk c s i pk' c' s' i', signed pk c s i -> signed pk' c' s' i' -> (s = s' \/ i = i') ->
        pk = pk' /\ c = c' /\ s = s' /\ i = i').

Definition replica_accepts_authentic_only_stmt : Prop :=
  forall (F E : Type) kinds struct_decodes open_key verify_cmd policy_eval (empty_facts : F) signed,
  cmd_sig_binds verify_cmd signed ->
  let deliver := deliver F E kinds struct_decodes open_key verify_cmd policy_eval empty_facts in
  forall (g : tok) (r : replica F E) (c : wcmd),
  (* acceptance implies authenticity: payload, name, parent, author key and id are a signed tuple *)
  (forall r', deliver g r c = (r', Accepted) ->
     authentic F open_key signed (facts_seen F E empty_facts r) c
     /\ In (c_id c, max_cut_of c) (r_cmds r'))
  (* anything else leaves no facts, no effects, no stored command *)
  /\ (forall r' o, deliver g r c = (r', o) -> o <> Accepted -> r' = r)
  (* tampering: a delivered copy that keeps the signature or the id of an accepted command but
     differs in the key its author maps to, the payload, the name, the parent id, the signature
     or the id is not accepted *)
  /\ (forall c' r1 r2, deliver g r c = (r1, Accepted) ->
        (option_map w_sig (c_data c) = option_map w_sig (c_data c') \/ c_id c = c_id c') ->
        presented F open_key (facts_seen F E empty_facts r) c <> presented F open_key (facts_seen F E empty_facts r) c' ->
        deliver g r c' <> (r2, Accepted)).

Lemma replica_accepts_authentic_only_proof : replica_accepts_authentic_only_stmt.
Proof.
  intros F E kinds sd ok vc pe ef signed [Hsound Hbind]. cbv zeta. intros g r c.
  split; [|split].
  - intros r' H. split.
    + eapply deliver_accept_authentic; eauto.
    + eapply deliver_accepted_stored; eauto.
  - intros r' o H Ho. eapply deliver_not_accepted_unchanged; eauto.
  - intros c' r1 r2 H1 Hsame Hne H2. apply Hne.
    eapply authentic_same_tuple; eauto; eapply deliver_accept_authentic; eauto.
Qed.

(** the same-transaction path: after the repair a head mismatch keeps nothing; before it did *)
Definition in_trx_reject_unchanged_stmt : Prop :=
  forall (F E : Type) kinds struct_decodes open_key verify_cmd policy_eval head (r r' : replica F E) c o,
  deliver_in_trx F E kinds struct_decodes open_key verify_cmd policy_eval false head r c = (r', o) ->
  o <> Accepted -> r' = r.
Lemma in_trx_reject_unchanged_proof : in_trx_reject_unchanged_stmt.
Proof.
  intros F E kinds sd ok vc pe head r r' c o H Ho. unfold deliver_in_trx in H. cbv iota in H.
  repeat match type of H with
         | (if ?b then _ else _) = _ => destruct b
         | match ?x with _ => _ end = _ => destruct x
         end; inv H; auto; congruence.
Qed.

(** * The list-of-signed-tuples world satisfies the C34 component when signatures and ids are unique *)
Fixpoint distinct_by {A} (f : A -> N) (l : list A) : bool :=
  match l with [] => true | x :: r => negb (existsb (fun y => f y =? f x) r) && distinct_by f r end.
Definition sig_of (r : sigrec) : tok := snd (fst r).
Definition id_of (r : sigrec) : tok := snd r.
Definition list_signed (L : list sigrec) (pk : tok) (c : tok * tok * tok) (s i : tok) : Prop := In (pk, c, s, i) L.

Lemma cmd3_eqb_spec a b : cmd3_eqb a b = true -> a = b.
Proof.
  destruct a as [[a1 a2] a3], b as [[b1 b2] b3]. unfold cmd3_eqb; cbn.
  rewrite !andb_true_iff, !N.eqb_eq. intros [[] ]; congruence.
Qed.

Lemma distinct_by_in {A} (f : A -> N) l x y : distinct_by f l = true -> In x l -> In y l -> f x = f y -> x = y.
Proof.
  induction l as [|z l IH]; cbn; [tauto|]. intros H Hx Hy E. apply andb_prop in H as [H1 H2].
  apply negb_true_iff in H1.
  destruct Hx as [Hx|Hx], Hy as [Hy|Hy]; subst; auto.
  - exfalso. assert (existsb (fun y0 => f y0 =? f x) l = true); [|congruence].
    apply existsb_exists. exists y. split; auto. apply N.eqb_eq; auto.
  - exfalso. assert (existsb (fun y0 => f y0 =? f y) l = true); [|congruence].
    apply existsb_exists. exists x. split; auto. apply N.eqb_eq; auto.
Qed.

Lemma list_world_binds L : distinct_by sig_of L = true -> distinct_by id_of L = true ->
  cmd_sig_binds (list_verify L) (list_signed L).
Proof.
  intros Ds Di. split.
  - intros pk c s i H. unfold list_verify in H.
    match type of H with context [find ?f L] => destruct (find f L) as [[[[pk' c'] s'] i']|] eqn:Ef end; [|discriminate]. inv H.
    apply find_some in Ef as [Hin Hb]. repeat (apply andb_prop in Hb as [Hb ?]).
    apply N.eqb_eq in Hb. apply N.eqb_eq in H. apply cmd3_eqb_spec in H0. subst. exact Hin.
  - intros pk c s i pk' c' s' i' H1 H2 [E|E].
    + assert (X : (pk, c, s, i) = (pk', c', s', i')) by (eapply (distinct_by_in sig_of); eauto).
      inv X; auto.
    + assert (X : (pk, c, s, i) = (pk', c', s', i')) by (eapply (distinct_by_in id_of); eauto).
      inv X; auto.
Qed.

(** * Non-vacuity, and the transaction defect that was repaired *)
From Aranya Require Import model.EnvelopeCheck.

Definition ex_signed : list sigrec :=
  [ (11, (200, 100, 0), 300, 400);          (* Init by A (key 11): payload 200, name 100, no parent *)
    (11, (201, 102, 400), 301, 401);        (* AddNote by A over parent 400 *)
    (11, (202, 102, 401), 302, 402) ].
Definition ex_kinds : list (tok * (prio * bool)) := [(100, (PrInit, true)); (101, (PrBasic 1, true)); (102, (PrBasic 0, true))].
Definition ex_decodes : list (tok * tok * option (tok * tok)) := [(100, 200, Some (1, 11)); (102, 201, None); (102, 202, None); (102, 203, None)].
Definition ex_deliver := c_deliver ex_kinds 100 101 ex_decodes ex_signed.
Definition ex_c0 : wcmd := {| c_id := 400; c_prio := PrInit; c_parent := PNone; c_policy := Some 0;
                             c_data := Some {| w_author := 1; w_kind := 100; w_payload := 200; w_sig := 300 |} |}.
Definition ex_c1 : wcmd := {| c_id := 401; c_prio := PrBasic 0; c_parent := PSingle 400 0; c_policy := None;
                             c_data := Some {| w_author := 1; w_kind := 102; w_payload := 201; w_sig := 301 |} |}.
Definition ex_c2 : wcmd := {| c_id := 402; c_prio := PrBasic 0; c_parent := PSingle 401 1; c_policy := None;
                             c_data := Some {| w_author := 1; w_kind := 102; w_payload := 202; w_sig := 302 |} |}.
Definition ex_r1 := fst (ex_deliver 400 (fresh) ex_c0).

Example replica_accepts_authentic_only_nonvacuous :
  cmd_sig_binds (list_verify ex_signed) (list_signed ex_signed)
  /\ snd (ex_deliver 400 fresh ex_c0) = Accepted
  /\ snd (ex_deliver 400 ex_r1 ex_c1) = Accepted
  (* payload changed in transit *)
  /\ snd (ex_deliver 400 ex_r1 {| c_id := 401; c_prio := PrBasic 0; c_parent := PSingle 400 0; c_policy := None;
                                 c_data := Some {| w_author := 1; w_kind := 102; w_payload := 203; w_sig := 301 |} |})
     = Rejected (RPolicy EInternal)
  (* claimed id changed *)
  /\ snd (ex_deliver 400 ex_r1 {| c_id := 499; c_prio := PrBasic 0; c_parent := PSingle 400 0; c_policy := None;
                                 c_data := c_data ex_c1 |}) = Rejected (RPolicy EInternal)
  (* unregistered author *)
  /\ snd (ex_deliver 400 ex_r1 {| c_id := 401; c_prio := PrBasic 0; c_parent := PSingle 400 0; c_policy := None;
                                 c_data := Some {| w_author := 2; w_kind := 102; w_payload := 201; w_sig := 301 |} |})
     = Rejected (RPolicy EInternal)
  (* a later command re-parented onto the init command: the signed parent id no longer matches *)
  /\ snd (ex_deliver 400 ex_r1 {| c_id := 402; c_prio := PrBasic 0; c_parent := PSingle 400 0; c_policy := None;
                                 c_data := c_data ex_c2 |}) = Rejected (RPolicy EInternal).
Proof.
  split; [apply list_world_binds; reflexivity|]. repeat split; vm_compute; reflexivity.
Qed.

(** Before /repo's repair of [Transaction::add_single], a command evaluated in its parent's transaction
    whose parent address carried the right id and a wrong max_cut was refused by
    [Perspective::add_command] AFTER its policy had run, and its facts and effects were kept. *)
Lemma in_trx_mismatch_kept_facts_refuted :
  exists (head : tok * N) (r : replica kfacts tok) (c : wcmd),
    let '(r', o) := c_deliver_in_trx ex_kinds 100 101 ex_decodes ex_signed true head r c in
    o = Rejected RHeadMismatch /\ r' <> r /\ r_effects r' <> r_effects r.
Proof.
  exists (400, 0), ex_r1,
    {| c_id := 401; c_prio := PrBasic 0; c_parent := PSingle 400 7; c_policy := None; c_data := c_data ex_c1 |}.
  vm_compute. repeat split; discriminate.
Qed.
