(** C26 — command struct serialization round-trips and rejects bad input.

    Model: [model/Varint.v] (postcard varint / zig-zag / bool / bytes, UTF-8 validity) and
    [model/Ser.v] ([serialize_struct] / [deserialize_struct], every branch and error).
    Vocabulary of the statements ([has_type], [ranked], [fits], [acyclic]) is defined in
    [proofs/SerProofs.v]. *)
From Aranya Require Import base.Tactics model.Varint model.Ser proofs.VarintProofs proofs.SerProofs.
Open Scope N_scope.

(** Base codecs, on the full [u64] / [i64] range. *)
Theorem varint_roundtrip : varint_roundtrip_stmt.
Proof. exact varint_roundtrip_proof. Qed.
Check varint_roundtrip :
  forall (v : N) (rest : list N), v < two64 -> take_u64 (varint_u64 v ++ rest) = TSome v rest.
Print Assumptions varint_roundtrip.

Theorem zigzag_roundtrip : zigzag_roundtrip_stmt.
Proof. exact zigzag_roundtrip_proof. Qed.
Check zigzag_roundtrip :
  (forall z : Z, in_i64 z -> de_zig_zag_i64 (zig_zag_i64 z) = z /\ in_u64 (zig_zag_i64 z))
  /\ (forall n : N, in_u64 n -> zig_zag_i64 (de_zig_zag_i64 n) = n /\ in_i64 (de_zig_zag_i64 n)).
Print Assumptions zigzag_roundtrip.

(** Every well-typed value of every type of every acyclic schema: serialization succeeds,
    decoding the bytes followed by anything gives the value back and leaves the rest, and
    decoding any strict prefix of the bytes fails with [UnexpectedEnd]. *)
Theorem deser_ser_value : deser_ser_value_stmt.
Proof. exact deser_ser_value_proof. Qed.
Check deser_ser_value :
  forall (defs : struct_defs) (enums : enum_defs) (rk : ident -> nat) (v : value) (t : ty) (fuel : nat),
  ranked defs rk -> has_type defs enums v t -> fits rk t fuel ->
  exists enc, ser_value defs v = Ok enc /\ bytes_ok enc
    /\ (forall rest, deser_value defs enums fuel t (enc ++ rest) = Ok (v, rest))
    /\ (forall p q, enc = p ++ q -> q <> [] -> deser_value defs enums fuel t p = Err DUnexpectedEnd).
Print Assumptions deser_ser_value.

(** The entry points behind [Machine::serialize_struct] / [Machine::deserialize_struct]. *)
Theorem deser_ser : deser_ser_stmt.
Proof. exact deser_ser_proof. Qed.
Check deser_ser :
  forall (defs : struct_defs) (enums : enum_defs) (rk : ident -> nat) (name : ident) (fields : list (ident * value)),
  (ranked defs rk /\ forall s, (rk s <= length defs)%nat) ->
  has_type defs enums (VStruct name fields) (TStruct name) ->
  exists enc, serialize_struct defs name fields = Ok enc /\ bytes_ok enc
    /\ deserialize_struct defs enums name enc = Ok (VStruct name fields)
    /\ (forall p q, enc = p ++ q -> q <> [] -> deserialize_struct defs enums name p = Err DUnexpectedEnd)
    /\ (forall x extra, deserialize_struct defs enums name (enc ++ x :: extra) = Err DTrailingData).
Print Assumptions deser_ser.

(** Malformed input is rejected — each clause for all inputs. *)
Theorem reject : reject_stmt.
Proof. exact reject_proof. Qed.
Check reject :
  forall (defs : struct_defs) (enums : enum_defs) (fuel : nat),
  (forall t tag rest, tag <> 0 -> tag <> 1 ->
     deser_value defs enums fuel (TOptional t) (tag :: rest) = Err DBadInput)
  /\ (forall a b tag rest, tag <> 0 -> tag <> 1 ->
     deser_value defs enums fuel (TResult a b) (tag :: rest) = Err DBadInput)
  /\ (forall e vs x bs rest, assoc e enums = Some vs -> take_i64 bs = TSome x rest ->
     ~ In x (map snd vs) -> deser_value defs enums fuel (TEnum e) bs = Err DBadInput)
  /\ (forall e vs x rest, assoc e enums = Some vs -> in_i64 x -> ~ In x (map snd vs) ->
     deser_value defs enums fuel (TEnum e) (push_i64 x ++ rest) = Err DBadInput)
  /\ (forall bs s rest, take_bytes bs = TSome s rest -> utf8_valid s = false \/ In 0 s ->
     deser_value defs enums fuel TString bs = Err DBadInput)
  /\ (forall s rest, N.of_nat (length s) < two64 -> utf8_valid s = false \/ In 0 s ->
     deser_value defs enums fuel TString (push_bytes s ++ rest) = Err DBadInput)
  /\ (forall len rest, len <> 32 -> deser_value defs enums fuel TId (len :: rest) = Err DBadInput)
  /\ (forall bs, deser_value defs enums fuel TNever bs = Err DBadInput).
Print Assumptions reject.

(** For an acyclic schema the decoder's recursion is bounded by the schema, whatever the bytes:
    the model never runs out of its budget, i.e. every input is answered [Ok] or one of the five
    errors of [DeserializeError]. *)
Theorem deser_total : deser_total_stmt.
Proof. exact deser_total_proof. Qed.
Check deser_total :
  forall (defs : struct_defs) (enums : enum_defs) (rk : ident -> nat) (name : ident) (bs : list N),
  (ranked defs rk /\ forall s, (rk s <= length defs)%nat) ->
  deserialize_struct defs enums name bs <> Err DOutOfFuel
  /\ (forall t fuel, fits rk t fuel -> deser_value defs enums fuel t bs <> Err DOutOfFuel).
Print Assumptions deser_total.

(** The encoding is injective and prefix-free on well-typed struct values. *)
Theorem ser_injective_prefix_free : ser_injective_prefix_free_stmt.
Proof. exact ser_injective_prefix_free_proof. Qed.
Check ser_injective_prefix_free :
  forall (defs : struct_defs) (enums : enum_defs) (rk : ident -> nat) (name : ident)
         (f1 f2 : list (ident * value)) (e1 e2 : list N),
  acyclic defs rk ->
  has_type defs enums (VStruct name f1) (TStruct name) ->
  has_type defs enums (VStruct name f2) (TStruct name) ->
  serialize_struct defs name f1 = Ok e1 -> serialize_struct defs name f2 = Ok e2 ->
  (e1 = e2 -> f1 = f2)
  /\ (forall rest, e2 = e1 ++ rest -> rest = [] /\ f1 = f2).
Print Assumptions ser_injective_prefix_free.
