(** C04 — lazy merges: queries and actions see the same state; hello head = collapsed merge *)
From Aranya Require Import base.Tactics model.Dag model.Txn proofs.TxnGraph proofs.TxnInv proofs.TxnProps proofs.TxnExamples.
From Coq Require Import Sorted.

Theorem hello_head_is_collapse_address :
  forall (facts : Type) (fempty : facts) (eval : cmd -> facts -> outcome facts) (has_policy : cmd -> bool)
         (merge_id : N -> N -> N) (facts_effs : facts -> list eff)
         (braid : list (wcmd facts) -> list N -> bres facts) (libc : bool) (gid : N),
  hello_head_is_collapse_address_stmt facts fempty eval has_policy merge_id facts_effs braid libc gid.
Proof. exact hello_head_is_collapse_address_proof. Qed.
Check hello_head_is_collapse_address :
  forall (facts : Type) (fempty : facts) (eval : cmd -> facts -> outcome facts) (has_policy : cmd -> bool)
         (merge_id : N -> N -> N) (facts_effs : facts -> list eff)
         (braid : list (wcmd facts) -> list N -> bres facts) (libc : bool) (gid : N),
  forall ops, (rclash facts) ((run facts fempty eval has_policy merge_id facts_effs braid libc gid) r0 ops) = false -> forall s, rstore ((run facts fempty eval has_policy merge_id facts_effs braid libc gid) r0 ops) = Some s ->
  forall s1 m, (collapse_heads facts merge_id braid) s (sheads s) = (s1, inl m) -> sclash s1 = false ->
  (hello_head facts merge_id) s = Some (m, wmc_of (sW s1) m).
Print Assumptions hello_head_is_collapse_address.

Theorem collapse_no_effects :
  forall (facts : Type) (fempty : facts) (eval : cmd -> facts -> outcome facts) (has_policy : cmd -> bool)
         (merge_id : N -> N -> N) (facts_effs : facts -> list eff)
         (braid : list (wcmd facts) -> list N -> bres facts) (libc : bool) (gid : N),
  collapse_no_effects_stmt facts eval merge_id facts_effs braid libc.
Proof. exact collapse_no_effects_proof. Qed.
Check collapse_no_effects :
  forall (facts : Type) (fempty : facts) (eval : cmd -> facts -> outcome facts) (has_policy : cmd -> bool)
         (merge_id : N -> N -> N) (facts_effs : facts -> list eff)
         (braid : list (wcmd facts) -> list N -> bres facts) (libc : bool) (gid : N),
  forall s a l so' x, acmds a = [] -> adump a = false -> (do_action facts eval merge_id facts_effs braid libc) (Some s) a = (so', l, x) ->
  forall e z, In e l -> e <> SConsume z.
Print Assumptions collapse_no_effects.

Theorem collapse_transparent :
  forall (facts : Type) (fempty : facts) (eval : cmd -> facts -> outcome facts) (has_policy : cmd -> bool)
         (merge_id : N -> N -> N) (facts_effs : facts -> list eff)
         (braid : list (wcmd facts) -> list N -> bres facts) (libc : bool) (gid : N),
  collapse_transparent_stmt facts fempty eval has_policy merge_id facts_effs braid libc gid.
Proof. exact collapse_transparent_proof. Qed.
Check collapse_transparent :
  forall (facts : Type) (fempty : facts) (eval : cmd -> facts -> outcome facts) (has_policy : cmd -> bool)
         (merge_id : N -> N -> N) (facts_effs : facts -> list eff)
         (braid : list (wcmd facts) -> list N -> bres facts) (libc : bool) (gid : N),
(  (forall cs x y, (bfacts facts) (braid cs [x; y]) = (bfacts facts) (braid cs [y; x]))
  /\ (forall W W' a b rest l rg wm,
        (WInv facts fempty eval braid gid) W -> (WInv facts fempty eval braid gid) W' -> (ext facts) W W' ->
        (forall x, In x (a :: b :: rest) -> In x (map wid W)) ->
        (l, rg) = (if (b <? a)%N then (b, a) else (a, b)) ->
        wlookup W' (merge_id l rg) = Some wm -> wc wm = (mk_merge merge_id) l rg ->
        (bfacts facts) (braid (reachset W [l; rg]) [l; rg]) = Some (wfacts wm) ->
        rest <> [] ->
        (bfacts facts) (braid (reachset W' (rest ++ [merge_id l rg])) (rest ++ [merge_id l rg]))
        = (bfacts facts) (braid (reachset W (a :: b :: rest)) (a :: b :: rest))))
->
(  forall ops, (rclash facts) ((run facts fempty eval has_policy merge_id facts_effs braid libc gid) r0 ops) = false -> forall s, rstore ((run facts fempty eval has_policy merge_id facts_effs braid libc gid) r0 ops) = Some s ->
  forall s1 m, (collapse_heads facts merge_id braid) s (sheads s) = (s1, inl m) -> sclash s1 = false ->
  exists p, get_linear_perspective (sW s1) m = Some p /\ pfacts p = scache s).
Print Assumptions collapse_transparent.

Theorem collapse_transparent_partial :
  forall (facts : Type) (fempty : facts) (eval : cmd -> facts -> outcome facts) (has_policy : cmd -> bool)
         (merge_id : N -> N -> N) (facts_effs : facts -> list eff)
         (braid : list (wcmd facts) -> list N -> bres facts) (libc : bool) (gid : N),
  collapse_transparent_partial_stmt facts fempty eval has_policy merge_id facts_effs braid libc gid.
Proof. exact collapse_transparent_partial_proof. Qed.
Check collapse_transparent_partial :
  forall (facts : Type) (fempty : facts) (eval : cmd -> facts -> outcome facts) (has_policy : cmd -> bool)
         (merge_id : N -> N -> N) (facts_effs : facts -> list eff)
         (braid : list (wcmd facts) -> list N -> bres facts) (libc : bool) (gid : N),
  forall ops, (rclash facts) ((run facts fempty eval has_policy merge_id facts_effs braid libc gid) r0 ops) = false -> forall s, rstore ((run facts fempty eval has_policy merge_id facts_effs braid libc gid) r0 ops) = Some s ->
  (length (sheads s) <= 2)%nat ->
  forall s1 m, (collapse_heads facts merge_id braid) s (sheads s) = (s1, inl m) -> sclash s1 = false ->
  exists p, get_linear_perspective (sW s1) m = Some p /\ pfacts p = scache s.
Print Assumptions collapse_transparent_partial.

(** [collapse_transparent] is the full statement (any number of heads) under the named hypothesis
    [braid_merge_transparent] on the braid function (C03's merge transparency);
    [collapse_transparent_partial] is unconditional for up to two heads.  The check runs the real code
    for every head count. *)
