(** C32 — text and identifier values always satisfy their invariants. *)
From Coq Require Import String.
From Aranya Require Import base.Tactics gen.GenText model.Text proofs.TextProofs.
Open Scope N_scope.

(** [Text::validate] accepts exactly the strings without a NUL byte (and reports the first NUL). *)
Theorem text_valid_iff : text_valid_iff_stmt.
Proof. exact text_valid_iff_proof. Qed.
Check text_valid_iff :
  forall s,
  (text_validate s = None <-> ~ In 0 s)
  /\ (forall i, text_validate s = Some (ContainsNul i) ->
        i < blen s /\ nth (N.to_nat i) s 1 = 0 /\ forall j, (j < N.to_nat i)%nat -> nth j s 1 <> 0).
Print Assumptions text_valid_iff.

(** [Identifier::validate] accepts exactly [a-zA-Z][a-zA-Z0-9_]*, never trips its debug assertion,
    and each error names the right reason. *)
Theorem ident_valid_iff : ident_valid_iff_stmt.
Proof. exact ident_valid_iff_proof. Qed.
Check ident_valid_iff :
  forall s,
  (ident_validate s = VOk <->
     exists c r, s = c :: r
       /\ ((65 <= c <= 90) \/ (97 <= c <= 122))
       /\ Forall (fun b => ((65 <= b <= 90) \/ (97 <= b <= 122)) \/ (48 <= b <= 57) \/ b = 95) r)
  /\ ident_validate s <> VPanic
  /\ (ident_validate s = VErr NotEmpty <-> s = [])
  /\ (ident_validate s = VErr InitialNotAlphabetic <-> exists c r, s = c :: r /\ ~ alpha c)
  /\ (forall i, ident_validate s = VErr (TrailingNotValid i) ->
        0 < i < blen s /\ ~ alnum_us (nth (N.to_nat i) s 0)).
Print Assumptions ident_valid_iff.

Theorem ident_is_text : ident_is_text_stmt.
Proof. exact ident_is_text_proof. Qed.
Check ident_is_text : forall s, ident_validate s = VOk -> text_validate s = None.
Print Assumptions ident_is_text.

Theorem concat_valid : concat_valid_stmt.
Proof. exact concat_valid_proof. Qed.
Check concat_valid :
  forall a b, text_validate a = None -> text_validate b = None -> text_validate (a ++ b) = None.
Print Assumptions concat_valid.

(** Storage: [as_str (from_str s) = s] for every length, on both sides of [MAX_INLINE]; the [u8]
    length never truncates ([MAX_INLINE = 22 < 256] is pinned in [gen_pins]). *)
Theorem repr_roundtrip : repr_roundtrip_stmt.
Proof. exact repr_roundtrip_proof. Qed.
Check repr_roundtrip :
  forall s, repr_as_str (repr_from_str s) = s /\ repr_assert (repr_from_str s) = true.
Print Assumptions repr_roundtrip.

Theorem repr_variant : repr_variant_stmt.
Proof. exact repr_variant_proof. Qed.
Check repr_variant :
  forall s, match repr_from_str s with
            | Inline bytes n => blen s <= MAX_INLINE /\ n = blen s /\ blen bytes = MAX_INLINE
            | Heap s' => MAX_INLINE < blen s /\ s' = s
            | Static _ => False
            end.
Print Assumptions repr_variant.

(** Eq / Ord / Hash are functions of the content only, for every pair of storages. *)
Theorem eq_ord_hash_content : eq_ord_hash_content_stmt.
Proof. exact eq_ord_hash_content_proof. Qed.
Check eq_ord_hash_content :
  (forall a a' b b', repr_as_str a = repr_as_str a' -> repr_as_str b = repr_as_str b' ->
     repr_eq a b = repr_eq a' b' /\ repr_cmp a b = repr_cmp a' b' /\ repr_hash a = repr_hash a')
  /\ (forall a b, repr_eq a b = true <-> repr_as_str a = repr_as_str b)
  /\ (forall a b, repr_cmp a b = Eq <-> repr_as_str a = repr_as_str b)
  /\ (forall a b, repr_cmp b a = CompOpp (repr_cmp a b))
  /\ (forall a b c, repr_cmp a b = Lt -> repr_cmp b c = Lt -> repr_cmp a c = Lt)
  /\ (forall a b, repr_hash a = repr_hash b <-> repr_as_str a = repr_as_str b)
  /\ (forall s, let vs := [Static s; repr_from_str s; Heap s] in
       forall x y, In x vs -> In y vs -> repr_eq x y = true /\ repr_cmp x y = Eq /\ repr_hash x = repr_hash y).
Print Assumptions eq_ord_hash_content.

(** Every value, however produced (any finite combination of the constructors, decoders,
    conversions and concatenations), satisfies its invariant. *)
Theorem produced_invariant : produced_invariant_stmt.
Proof. exact produced_invariant_proof. Qed.
Check produced_invariant :
  (forall r, text_produced r -> ~ In 0 (repr_as_str r) /\ repr_assert r = true)
  /\ (forall r, ident_produced r -> ident_re (repr_as_str r) /\ repr_assert r = true).
Print Assumptions produced_invariant.

Theorem no_debug_panic : no_debug_panic_stmt.
Proof. exact no_debug_panic_proof. Qed.
Check no_debug_panic :
  (forall s, ident_validate s <> VPanic)
  /\ (forall a b, text_produced a -> text_produced b -> text_add a b <> TPanic)
  /\ (forall s, ident_from_str s <> IPanic /\ ident_deserialize s <> IPanic)
  /\ (forall t, ident_try_from_text t <> IPanic).
Print Assumptions no_debug_panic.

Theorem decoders_preserve_content : decoders_preserve_content_stmt.
Proof. exact decoders_preserve_content_proof. Qed.
Check decoders_preserve_content :
  forall s r,
  (text_from_str s = TOk r \/ text_try_from_cstr s = TOk r \/ text_deserialize s = TOk r
   \/ text_deserialize_bytes s = TOk r \/ text_rkyv_from_bytes s = TOk r -> repr_as_str r = s)
  /\ (ident_from_str s = IOk r \/ ident_deserialize s = IOk r \/ ident_deserialize_bytes s = IOk r
      \/ ident_rkyv_from_bytes s = IOk r -> repr_as_str r = s).
Print Assumptions decoders_preserve_content.

(** The generated constructor ledger: every function of the crate that returns or builds a
    [Text]/[Identifier] either reaches [validate] or is on the allow list, each allow-list entry
    carrying the lemma that makes it safe; the derives are the known-safe ones. *)
Theorem ledger_discharged : ledger_discharged_stmt.
Proof. exact ledger_discharged_proof. Qed.
Check ledger_discharged :
  forallb entry_ok CTOR_LEDGER = true
  /\ subset TEXT_DERIVES text_derives_ok = true
  /\ subset IDENT_DERIVES ident_derives_ok = true
  /\ TEXT_BYTECHECK_VERIFY = true /\ IDENT_BYTECHECK_VERIFY = true
  /\ Forall (fun e => snd e) allow_just.
Print Assumptions ledger_discharged.
