(** C37 — encryption round-trips and is bound to its context. *)
From Coq Require Import String.
From Aranya Require Import base.Tactics gen.GenCrypto model.TupleHash model.CryptoFrames model.CryptoSym
  proofs.TupleHashProofs proofs.CryptoSymProofs.
Local Open Scope N_scope.

Theorem seal_open_context : seal_open_context_stmt.
Proof. exact seal_open_context_proof. Qed.
Check seal_open_context :
  forall (oids : list bytes) (H : bytes -> bytes),
    (forall a b, H a = H b -> a = b) ->
    (forall (AKey : Type) Seal Open (Kdf : bytes -> bytes -> AKey),
       ideal_aead Seal Open ->
       (forall s i s' i', Kdf s i = Kdf s' i' -> s = s' /\ i = i') ->
       (forall seed c n pt,
          let info := gk_info oids H c in
          gk_open oids H AKey Open Kdf seed c n (fst (Seal (Kdf seed info) n info pt)) (snd (Seal (Kdf seed info) n info pt)) = Some pt
          /\ gk_seal oids H AKey Seal Kdf seed c n pt
             = n ++ fst (Seal (Kdf seed info) n info pt) ++ snd (Seal (Kdf seed info) n info pt))
       /\ (forall seed c n pt seed' c' n' pt',
          let info := gk_info oids H c in
          gk_open oids H AKey Open Kdf seed' c' n' (fst (Seal (Kdf seed info) n info pt)) (snd (Seal (Kdf seed info) n info pt)) = Some pt' ->
          seed' = seed /\ c' = c /\ n' = n /\ pt' = pt))
    /\ (forall (SK PK SS KEY : Type) pub dh KemKdf (KeySched : bool -> SS -> bytes -> KEY) Seal Open,
       @ideal_hpke SK PK SS KEY pub dh KemKdf KeySched -> ideal_ctx_aead Seal Open ->
       (forall e r seed group,
          let '(enc, (ct, tag)) := seal_group_key oids SK PK SS pub dh KEY KemKdf KeySched Seal e (pub r) seed group in
          open_group_key oids SK PK SS pub dh KEY KemKdf KeySched Open r enc ct tag group = Some seed)
       /\ (forall e r seed group r' enc' group' seed',
          let '(enc, (ct, tag)) := seal_group_key oids SK PK SS pub dh KEY KemKdf KeySched Seal e (pub r) seed group in
          open_group_key oids SK PK SS pub dh KEY KemKdf KeySched Open r' enc' ct tag group' = Some seed' ->
          r' = r /\ enc' = enc /\ group' = group /\ seed' = seed)
       /\ (forall e s r seed group,
          let '(enc, (ct, tag)) := seal_psk_seed oids SK PK SS pub dh KEY KemKdf KeySched Seal e s (pub r) seed group in
          open_psk_seed oids SK PK SS pub dh KEY KemKdf KeySched Open r (pub s) enc ct tag group = Some seed)
       /\ (forall e s r seed group r' pkS' enc' group' seed',
          let '(enc, (ct, tag)) := seal_psk_seed oids SK PK SS pub dh KEY KemKdf KeySched Seal e s (pub r) seed group in
          open_psk_seed oids SK PK SS pub dh KEY KemKdf KeySched Open r' pkS' enc' ct tag group' = Some seed' ->
          r' = r /\ pkS' = pub s /\ enc' = enc /\ group' = group /\ seed' = seed)).
Print Assumptions seal_open_context.

Theorem tuple_input_injective : tuple_input_injective_stmt.
Proof. exact tuple_input_injective_proof. Qed.
Check tuple_input_injective : forall xs ys : list bytes, tuple_input xs = tuple_input ys -> xs = ys.
Print Assumptions tuple_input_injective.

Theorem fixed_concat_injective : fixed_concat_injective_stmt.
Proof. exact fixed_concat_injective_proof. Qed.
Check fixed_concat_injective :
  forall xs ys : list bytes,
    Forall2 (fun x y => length x = length y) xs ys -> concat xs = concat ys -> xs = ys.
Print Assumptions fixed_concat_injective.

Theorem c37_sites :
  site_groupkey_ctx = ("GroupKey", "", ["label"; "parent"; "author_sign_pk.id()"])%string
  /\ site_groupkey_extract = ("kdf-ext-v1", "EventKey_prk", ["salt=[]"; "seed"])%string
  /\ site_groupkey_expand = ("kdr-exp-v1", "EventKey_key", ["prk=prk"; "info"])%string
  /\ site_sealed_groupkey_info = ("GroupKey-v1", "", ["group"])%string
  /\ site_open_groupkey_info = ("GroupKey-v1", "", ["group"])%string
  /\ site_psk_seal_info = ("PskSeed-v1", "", ["group=group"])%string
  /\ site_psk_open_info = ("PskSeed-v1", "", ["group=group"])%string.
Proof. pose proof sites_pinned. tauto. Qed.
Check c37_sites :
  site_groupkey_ctx = ("GroupKey", "", ["label"; "parent"; "author_sign_pk.id()"])%string
  /\ site_groupkey_extract = ("kdf-ext-v1", "EventKey_prk", ["salt=[]"; "seed"])%string
  /\ site_groupkey_expand = ("kdr-exp-v1", "EventKey_key", ["prk=prk"; "info"])%string
  /\ site_sealed_groupkey_info = ("GroupKey-v1", "", ["group"])%string
  /\ site_open_groupkey_info = ("GroupKey-v1", "", ["group"])%string
  /\ site_psk_seal_info = ("PskSeed-v1", "", ["group=group"])%string
  /\ site_psk_open_info = ("PskSeed-v1", "", ["group=group"])%string.
Print Assumptions c37_sites.

(** Topic keys (apq.rs). *)
Theorem topic_seal_open_context : topic_seal_open_context_stmt.
Proof. exact topic_seal_open_context_proof. Qed.
Check topic_seal_open_context :
  forall (oids : list bytes) (H : bytes -> bytes),
    (forall a b, H a = H b -> a = b) ->
    (forall (AKey : Type) Seal Open (Kdf : bytes -> bytes -> AKey),
       ideal_aead Seal Open ->
       (forall s i s' i', Kdf s i = Kdf s' i' -> s = s' /\ i = i') ->
       (forall key c n pt,
          let ad := tk_seal_ad oids H c in
          tk_open_message oids H AKey Open key c n (fst (Seal key n ad pt)) (snd (Seal key n ad pt)) = Some pt
          /\ tk_seal_message oids H AKey Seal key c n pt = n ++ fst (Seal key n ad pt) ++ snd (Seal key n ad pt))
       /\ (forall key c n pt key' c' n' pt',
          let ad := tk_seal_ad oids H c in
          tk_open_message oids H AKey Open key' c' n' (fst (Seal key n ad pt)) (snd (Seal key n ad pt)) = Some pt' ->
          key' = key /\ t_version c' = t_version c /\ t_topic c' = t_topic c
          /\ t_enc_id c' = t_enc_id c /\ t_sign_id c' = t_sign_id c /\ n' = n /\ pt' = pt)
       /\ (forall seed v t seed' v' t',
          length v = 4%nat -> length v' = 4%nat -> length t = 16%nat -> length t' = 16%nat ->
          tk_key AKey Kdf seed v t = tk_key AKey Kdf seed' v' t' -> seed = seed' /\ v = v' /\ t = t'))
    /\ (forall (SK PK SS KEY : Type) pub dh KemKdf (KeySched : bool -> SS -> bytes -> KEY) Seal Open,
       @ideal_hpke SK PK SS KEY pub dh KemKdf KeySched -> ideal_ctx_aead Seal Open ->
       (forall e s r seed v t,
          let '(enc, (ct, tag)) := seal_topic_key oids SK PK SS pub dh KEY KemKdf KeySched Seal e s (pub r) seed v t in
          open_topic_key oids SK PK SS pub dh KEY KemKdf KeySched Open r (pub s) enc ct tag v t = Some seed)
       /\ (forall e s r seed v t r' pkS' enc' v' t' seed',
          length v = length v' -> length t = length t' ->
          let '(enc, (ct, tag)) := seal_topic_key oids SK PK SS pub dh KEY KemKdf KeySched Seal e s (pub r) seed v t in
          open_topic_key oids SK PK SS pub dh KEY KemKdf KeySched Open r' pkS' enc' ct tag v' t' = Some seed' ->
          r' = r /\ pkS' = pub s /\ enc' = enc /\ v' = v /\ t' = t /\ seed' = seed)).
Print Assumptions topic_seal_open_context.

Theorem c37_apq_sites :
  site_topic_msg_seal_ad = ("apq msg", "", ["version.to_be_bytes()[..]"; "topic.as_bytes()[..]"; "ident.enc_key.id()"; "ident.sign_key.id()"])%string
  /\ site_topic_msg_open_ad = ("apq msg", "", ["version.to_be_bytes()[..]"; "topic.as_bytes()[..]"; "ident.enc_key.id()"; "ident.sign_key.id()"])%string
  /\ site_topic_extract = ("APQ-v1", "topic_key_prk", ["salt=[]"; "seed"])%string
  /\ site_topic_expand = ("APQ-v1", "topic_key_key", ["prk=prk"; "version.to_be_bytes()"; "topic"])%string
  /\ site_topic_seal_info = ("TopicKeyRotation-v1", "", ["version=U32::new(version.as_u32())"; "topic=topic.0"])%string
  /\ site_topic_open_info = ("TopicKeyRotation-v1", "", ["version=U32::new(version.as_u32())"; "topic=topic.0"])%string
  /\ apq_sender_fields = ["enc_key"; "sign_key"]%string
  /\ apq_aead_calls = [("seal_message", "seal", ["out"; "nonce"; "plaintext"; "ad"]);
                       ("open_message", "open", ["dst"; "nonce"; "ciphertext"; "ad"]);
                       ("seal_topic_key", "seal", ["mutdst"; "key.seed"; "ad"]);
                       ("open_topic_key", "open", ["mutseed"; "ciphertext"; "ad"]);
                       ("open_topic_key", "from_seed", ["seed"; "version"; "topic"])]%string.
Proof. pose proof apq_sites_pinned. tauto. Qed.
Check c37_apq_sites :
  site_topic_msg_seal_ad = ("apq msg", "", ["version.to_be_bytes()[..]"; "topic.as_bytes()[..]"; "ident.enc_key.id()"; "ident.sign_key.id()"])%string
  /\ site_topic_msg_open_ad = ("apq msg", "", ["version.to_be_bytes()[..]"; "topic.as_bytes()[..]"; "ident.enc_key.id()"; "ident.sign_key.id()"])%string
  /\ site_topic_extract = ("APQ-v1", "topic_key_prk", ["salt=[]"; "seed"])%string
  /\ site_topic_expand = ("APQ-v1", "topic_key_key", ["prk=prk"; "version.to_be_bytes()"; "topic"])%string
  /\ site_topic_seal_info = ("TopicKeyRotation-v1", "", ["version=U32::new(version.as_u32())"; "topic=topic.0"])%string
  /\ site_topic_open_info = ("TopicKeyRotation-v1", "", ["version=U32::new(version.as_u32())"; "topic=topic.0"])%string
  /\ apq_sender_fields = ["enc_key"; "sign_key"]%string
  /\ apq_aead_calls = [("seal_message", "seal", ["out"; "nonce"; "plaintext"; "ad"]);
                       ("open_message", "open", ["dst"; "nonce"; "ciphertext"; "ad"]);
                       ("seal_topic_key", "seal", ["mutdst"; "key.seed"; "ad"]);
                       ("open_topic_key", "open", ["mutseed"; "ciphertext"; "ad"]);
                       ("open_topic_key", "from_seed", ["seed"; "version"; "topic"])]%string.
Print Assumptions c37_apq_sites.
