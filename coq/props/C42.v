(** C42 — AFC shared-memory channel tables stay consistent.
    One writer, any number of readers, every schedule of the sequentially
    consistent interleaving model of [model/Shm.v]. *)
From Aranya Require Import base.Tactics base.Sched model.Shm proofs.ShmLists proofs.ShmSteps proofs.ShmProofs.

Theorem sides_mirror : sides_mirror_stmt.
Proof. exact sides_mirror_proof. Qed.
Check sides_mirror :
  forall (cap smax : N) (wp : list wop) (rps : list (list rop)) (sched : list nat),
  let g := runs sched (init cap smax wp rps) in
  writer_idle (wt g) ->
  sA (sh g) = sB (sh g)
  /\ roff (sh g) <> woff (sh g)
  /\ chans (sA (sh g)) = spec_table (wt g).
Print Assumptions sides_mirror.

Theorem reader_sees_writer_state : reader_sees_writer_state_stmt.
Proof. exact reader_sees_writer_state_proof. Qed.
Check reader_sees_writer_state :
  forall (cap smax : N) (wp : list wop) (rps : list (list rop)) (sched : list nat) (o : off),
  let g := runs sched (init cap smax wp rps) in
  In (chans (side_of (sh g) o)) (firstn 2 (hist g))
  /\ hd [] (hist g) = spec_table (wt g)
  /\ NoDup (ids (chans (side_of (sh g) o)))
  /\ (N.of_nat (length (chans (side_of (sh g) o))) <= cap)%N
  /\ (forall c, In c (chans (side_of (sh g) o)) -> In c (reg g)).
Print Assumptions reader_sees_writer_state.

Theorem ids_fresh : ids_fresh_stmt.
Proof. exact ids_fresh_proof. Qed.
Check ids_fresh :
  forall (cap smax : N) (wp : list wop) (rps : list (list rop)) (sched : list nat),
  let g := runs sched (init cap smax wp rps) in
  (forall i r, nth_error (add_results (wlog (wt g))) i = Some r -> r = WOutOfSpace \/ r = WOkId (N.of_nat i))
  /\ next_id (sh g) = N.of_nat (count_adds (wlog (wt g)) + if add_in_flight (wt g) then 1 else 0)
  /\ NoDup (ids (reg g))
  /\ (forall c, In c (reg g) -> (cid c < next_id (sh g))%N)
  /\ (forall c o, In c (chans (side_of (sh g) o)) -> In c (reg g)).
Print Assumptions ids_fresh.

Theorem out_of_space_iff_full : out_of_space_iff_full_stmt.
Proof. exact out_of_space_iff_full_proof. Qed.
Check out_of_space_iff_full :
  forall (cap smax : N) (wp : list wop) (rps : list (list rop)) (sched : list nat) d k l p rest,
  let g := runs sched (init cap smax wp rps) in
  wprog (wt g) = WAdd d k l p :: rest -> wpc_ (wt g) = W3 ->
  let n := N.of_nat (length (spec_table (wt g))) in
  (n <= cap)%N
  /\ (n = cap -> wlog (wt (step 0 g)) = (WAdd d k l p, WOutOfSpace) :: wlog (wt g)
                 /\ sh (step 0 g) = sh g)
  /\ ((n < cap)%N -> wlog (wt (step 0 g)) = wlog (wt g) /\ wpc_ (wt (step 0 g)) = W4
                 /\ spec_table (wt (step 0 g)) = spec_table (wt g) ++ [mkchan (w_id (wt g)) d k l p]).
Print Assumptions out_of_space_iff_full.

Theorem writer_never_fails : writer_never_fails_stmt.
Proof. exact writer_never_fails_proof. Qed.
Check writer_never_fails :
  forall (cap smax : N) (wp : list wop) (rps : list (list rop)) (sched : list nat) op r,
  let g := runs sched (init cap smax wp rps) in
  In (op, r) (wlog (wt g)) -> r <> WCorrupted /\ r <> WPanic /\ r <> WDiverged.
Print Assumptions writer_never_fails.
