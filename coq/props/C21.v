(** C21 — the traversal queue keeps its ordering and coverage rules. *)
From Aranya Require Import base.Tactics gen.GenQueue model.TravQueue
  proofs.TravQueueVec proofs.TravQueueMoves proofs.TravQueueSpec proofs.TravQueueProofs.
From Coq Require Import Sorting.Sorted.

(** Every sequence of queue operations, from every well-formed state: no
    Bug/Panic/Fuel outcome, each step refines the multiset specification
    [spec] (TravQueueSpec.v), the partition invariant always holds, and there
    is one entry per segment as long as [push_duplicate] is not used. *)
Theorem travqueue_refines : travqueue_refines_stmt.
Proof. exact travqueue_refines_proof. Qed.
Check travqueue_refines :
  forall (ops : list op) (q0 : queue),
    rep_ok q0 -> Forall op_wf ops ->
    exists tr,
      run q0 ops = Ok tr
      /\ spec_trace (absq q0) ops tr
      /\ Forall (fun vq => rep_ok (snd vq)) tr
      /\ (uniq_q q0 -> existsb is_push_dup ops = false -> Forall (fun vq => uniq_q (snd vq)) tr).
Print Assumptions travqueue_refines.

Theorem travqueue_from_new : travqueue_from_new_stmt.
Proof. exact travqueue_from_new_proof. Qed.
Check travqueue_from_new :
  forall ops : list op, Forall op_wf ops ->
    exists tr, run qnew ops = Ok tr /\ spec_trace [] ops tr
      /\ Forall (fun vq => rep_ok (snd vq)) tr
      /\ (existsb is_push_dup ops = false -> Forall (fun vq => uniq_q (snd vq)) tr).
Print Assumptions travqueue_from_new.

(** The popped entry is in the queue and has the highest max cut. *)
Theorem pop_highest_max_cut : pop_highest_max_cut_stmt.
Proof. exact pop_highest_max_cut_proof. Qed.
Check pop_highest_max_cut :
  forall (m m' : ms) l c, spec_pop m (Some (l, c)) m' ->
    In (l, c) m /\ forall e b, In (e, b) m -> (lmc e <= lmc l)%N.
Print Assumptions pop_highest_max_cut.

(** With one entry per segment the specification determines the next
    multiset and the output (drain outputs up to order). *)
Theorem spec_functional : spec_functional_stmt.
Proof. exact spec_functional_proof. Qed.
Check spec_functional :
  forall (m : ms) (o : op) m1 v1 m2 v2,
    uniq_ms m -> spec m o m1 v1 -> spec m o m2 v2 ->
    Permutation m1 m2 /\ out_equiv v1 v2.
Print Assumptions spec_functional.

(** Any number of consecutive pops drains in non-increasing max-cut order
    (a heap-sort of the multiset), leaves only entries at most as high as
    every popped one, and popped + remaining is exactly what was queued. *)
Theorem pops_descending : pops_descending_stmt.
Proof. exact pops_descending_proof. Qed.
Check pops_descending :
  forall (xs : list (loc * bool)) (m m' : ms), spec_pops m xs m' ->
    Permutation m (xs ++ m')
    /\ StronglySorted mc_ge xs
    /\ forall x y, In x xs -> In y m' -> mc_ge x y.
Print Assumptions pops_descending.

(** ... and for the model of the code itself: [n] consecutive [pop_covered]
    calls on any well-formed queue never fail and return their entries in
    non-increasing max-cut order, each one an entry of the starting queue. *)
Theorem queue_pops_descending : queue_pops_descending_stmt.
Proof. exact queue_pops_descending_proof. Qed.
Check queue_pops_descending :
  forall (n : nat) (q0 : queue), rep_ok q0 ->
    exists tr, run q0 (repeat OPopCovered n) = Ok tr
      /\ forall xs, popped tr = Some xs ->
           StronglySorted mc_ge xs /\ forall x, In x xs -> In x (absq q0).
Print Assumptions queue_pops_descending.
