(** C11 — command lookup and ancestry queries are exact. *)
From Aranya Require Import base.Tactics gen.GenQueue model.TravQueue model.SegStore
  proofs.TravQueueProofs proofs.SegStoreGraph proofs.SegStoreSearch proofs.SegStoreWrite proofs.SegStoreTop.

(** The graph of a store is given by [parents] (previous command of the
    segment / the segment's prior locations) — skip lists are not part of it.
    [from_heads st hs l]: [l] is an ancestor-or-equal of a committed head;
    [holds st l id mc]: the command stored at [l] has address (id, mc). *)
Theorem get_location_exact : get_location_exact_stmt.
Proof. exact get_location_exact_proof. Qed.
Check get_location_exact :
  forall (st : store) (hs : heads) (id mc : N),
    store_ok st -> heads_ok st hs ->
    exists r, get_location st hs id mc = ROk r /\
      match r with
      | Some l => from_heads st hs l /\ holds st l id mc
      | None => forall l, from_heads st hs l -> ~ holds st l id mc
      end.
Print Assumptions get_location_exact.

Theorem get_location_from_exact : get_location_from_exact_stmt.
Proof. exact get_location_from_exact_proof. Qed.
Check get_location_from_exact :
  forall (st : store) (start : loc) (id mc : N),
    store_ok st -> valid st start ->
    exists r, get_location_from st start id mc = ROk r /\
      match r with
      | Some l => reach st start l /\ holds st l id mc
      | None => forall l, reach st start l -> ~ holds st l id mc
      end.
Print Assumptions get_location_from_exact.

Theorem is_ancestor_exact : is_ancestor_exact_stmt.
Proof. exact is_ancestor_exact_proof. Qed.
Check is_ancestor_exact :
  forall (st : store) (target start : loc),
    store_ok st -> valid st start ->
    exists b, is_ancestor st target start = ROk b /\
      (b = true <-> (reach st start target /\ target <> start)).
Print Assumptions is_ancestor_exact.

(** Erasing every skip list changes no answer. *)
Theorem skip_lists_transparent : skip_lists_transparent_stmt.
Proof. exact skip_lists_transparent_proof. Qed.
Check skip_lists_transparent :
  forall st, store_ok st ->
    (forall target start, valid st start ->
       exists b, is_ancestor st target start = ROk b /\ is_ancestor (erase st) target start = ROk b)
    /\ (forall hs id mc, heads_ok st hs ->
         exists r r', get_location st hs id mc = ROk r /\ get_location (erase st) hs id mc = ROk r'
           /\ (r = None <-> r' = None)
           /\ ((forall l l', holds st l id mc -> holds st l' id mc -> l = l') -> r = r')).
Print Assumptions skip_lists_transparent.

(** [write] (with [build_skip_list] / [walk_collecting_skips]) keeps the layout invariant. *)
Theorem write_preserves : write_preserves_stmt.
Proof. exact write_preserves_proof. Qed.
Check write_preserves :
  forall st idx p st', store_ok st -> lookup idx st = None -> persp_ok st p ->
    write st idx p = ROk st' -> store_ok st'.
Print Assumptions write_preserves.

(** the halving boundaries are always computed (no assume site, fuel suffices) for a u64 length *)
Theorem skip_target_boundaries_total : skip_target_boundaries_total_stmt.
Proof. exact skip_target_boundaries_total_proof. Qed.
Check skip_target_boundaries_total :
  forall n, (n <= u64_max)%N -> exists l, skip_target_boundaries n = ROk l.
Print Assumptions skip_target_boundaries_total.
