(** C06 — commands rejected at origin leave no trace *)
From Aranya Require Import base.Tactics model.Dag model.Txn proofs.TxnGraph proofs.TxnInv proofs.TxnProps proofs.TxnExamples.
From Coq Require Import Sorted.

Theorem rejected_no_trace : forall facts fempty eval has_policy merge_id facts_effs braid libc gid,
  rejected_no_trace_stmt facts fempty eval has_policy merge_id facts_effs braid libc gid.
Proof. exact rejected_no_trace_proof. Qed.
Check rejected_no_trace :
  forall (facts : Type) (fempty : facts) (eval : cmd -> facts -> outcome facts) (has_policy : cmd -> bool)
         (merge_id : N -> N -> N) (facts_effs : facts -> list eff)
         (braid : list (wcmd facts) -> list N -> bres facts) (libc : bool) (gid : N),
  
  (forall ops, (rclash facts) ((run facts fempty eval has_policy merge_id facts_effs braid libc gid) r0 ops) = false -> forall s, rstore ((run facts fempty eval has_policy merge_id facts_effs braid libc gid) r0 ops) = Some s ->
     forall w a, In w (sW s) -> cpar (wc w) = PSingle a ->
     exists wa effs, wlookup (sW s) a = Some wa /\ eval (wc w) (wfacts wa) = Accept (wfacts w) effs)
  /\ (forall ops, (rclash facts) ((run facts fempty eval has_policy merge_id facts_effs braid libc gid) r0 ops) = false -> forall s, rstore ((run facts fempty eval has_policy merge_id facts_effs braid libc gid) r0 ops) = Some s ->
     forall c a wa, cpar c = PSingle a -> wlookup (sW s) a = Some wa ->
     (forall f effs, eval c (wfacts wa) <> Accept f effs) -> ~ (stored_cmd facts) s c)
  
  /\ (forall s t c parent s1 t1 p e d effs,
        get_perspective s t parent = (s1, t1, inl p) -> eval c (pfacts p) = Fail e d effs ->
        (add_single facts eval) s t c parent = (s1, t1, SBegin :: consumes effs ++ [SRollback], Some (EPolicy e)))
  
  /\ (forall pre c rest s t n l s1 t1 l1 n1 parent s2 t2 l2 e,
        (add_loop facts eval braid gid) s t pre n l = (s1, t1, l1, ROkN n1) ->
        match tpersp t1 with Some p => includes p (cid c) | None => false end = false ->
        locate s1 t1 (cid c) = false -> cpar c = PSingle parent ->
        (add_single facts eval) s1 t1 c parent = (s2, t2, l2, Some e) ->
        (add_loop facts eval braid gid) s t (pre ++ c :: rest) n l = (s2, t2, l1 ++ l2, RErr e))
  
  /\ (forall ops k, (rclash facts) ((run facts fempty eval has_policy merge_id facts_effs braid libc gid) r0 ops) = false -> forall s t, rstore ((run facts fempty eval has_policy merge_id facts_effs braid libc gid) r0 ops) = Some s ->
        tx_get (rtxs ((run facts fempty eval has_policy merge_id facts_effs braid libc gid) r0 ops)) k = Some t -> tstamp t <> None ->
        forall c parent s1 t1 l e, ~ In (cid c) ((pids facts) t) -> ~ (R facts) (sW s) (sheads s ++ ttips t) (cid c) ->
        (add_single facts eval) s t c parent = (s1, t1, l, e) -> sclash s1 = false ->
        tadded t1 = match e with None => cid c :: tadded t | Some _ => tadded t end)
  
  /\ (forall ops k, (rclash facts) ((run facts fempty eval has_policy merge_id facts_effs braid libc gid) r0 ops) = false -> forall s t, rstore ((run facts fempty eval has_policy merge_id facts_effs braid libc gid) r0 ops) = Some s ->
        tx_get (rtxs ((run facts fempty eval has_policy merge_id facts_effs braid libc gid) r0 ops)) k = Some t ->
        forall d p, ~ In p (map wid (sW s)) -> ~ In p ((pids facts) t) ->
        exists s1 t1, (add_single facts eval) s t d p = (s1, t1, [], Some (ENoSuchParent p))).
Print Assumptions rejected_no_trace.
