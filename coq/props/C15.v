(** C15 — file-backed graph storage survives crashes. *)
From Aranya Require Import base.Tactics gen.GenCrash model.Crash proofs.CrashBase proofs.CrashInv proofs.CrashProofs.
Open Scope Z_scope.

(** A graph file created by this run; any workload of appends and commits; any prefix of
    its system-call trace; any crash image of the disk at that point (un-synced writes lost,
    kept or torn at byte granularity): [open] returns the last commit whose [commit] call
    completed, or the commit whose root record was being written, or — only when no commit
    had completed — an error; every item appended below the recovered frontier reads back
    exactly, inside the file; and no item straddles the frontier (whatever was appended
    after the recovered commit lies wholly beyond it). *)
Theorem crash_recovery :
  forall sip : list N -> N, (forall l, (sip l <= u64_max)%N) -> crash_recovery_stmt sip.
Proof. exact crash_recovery_proof. Qed.
Check crash_recovery :
  forall sip : list N -> N, (forall l, (sip l <= u64_max)%N) ->
  forall (ops : list op) (n : nat) (img' : image),
    Forall op_typed ops -> tear_free sip Fresh ops ->
    let evs := firstn n (epoch_events sip Fresh ops) in
    crash (disk_after empty_image evs) img' ->
    match open sip img' with
    | None => last_committed evs = None
    | Some w' =>
      let r := w_root w' in
      (Some r = last_committed evs \/ Some r = root_in_flight evs)
      /\ FREE_START <= free_offset r <= isize img'
      /\ (forall off bs, In (EAppended off bs) evs -> off + 4 + zlen bs <= free_offset r ->
            FREE_START <= off /\ read img' off (4 + zlen bs) = Some (be32_bytes (zlen bs) ++ bs))
      /\ (forall off bs, In (EAppended off bs) evs ->
            off + 4 + zlen bs <= free_offset r \/ free_offset r <= off)
    end.
Print Assumptions crash_recovery.

(** The same for an epoch that starts from any recovered file ([start_ok]): additionally the
    data committed before the epoch is untouched, the recovered root is well formed and
    both slots stay parseable, so the conclusion is again a valid start. *)
Theorem crash_recovery_epoch :
  forall sip : list N -> N, (forall l, (sip l <= u64_max)%N) -> crash_recovery_epoch_stmt sip.
Proof. exact crash_recovery_epoch_proof. Qed.
Check crash_recovery_epoch :
  forall sip : list N -> N, (forall l, (sip l <= u64_max)%N) ->
  forall (s : start) (ops : list op) (n : nat) (img' : image),
    start_ok sip s -> Forall op_typed ops -> tear_free sip s ops ->
    let evs := firstn n (epoch_events sip s ops) in
    crash (disk_after (start_image s) evs) img' ->
    outcome_ok sip s evs img'.
Print Assumptions crash_recovery_epoch.

(** Any number of crash / reopen epochs: every start reachable that way satisfies
    [start_ok], so [crash_recovery_epoch] applies to every epoch of every history. *)
Theorem recovery_composes :
  forall sip : list N -> N, (forall l, (sip l <= u64_max)%N) -> recovery_composes_stmt sip.
Proof. exact recovery_composes_proof. Qed.
Check recovery_composes :
  forall sip : list N -> N, (forall l, (sip l <= u64_max)%N) ->
  forall s, reachable_start sip s -> start_ok sip s.
Print Assumptions recovery_composes.

(** Barrier ordering: whenever the write of a root record begins, nothing is pending — all
    data appended before (in particular everything the new root references) is durable. *)
Theorem data_before_root :
  forall sip : list N -> N, (forall l, (sip l <= u64_max)%N) -> data_before_root_stmt sip.
Proof. exact data_before_root_proof. Qed.
Check data_before_root :
  forall sip : list N -> N, (forall l, (sip l <= u64_max)%N) ->
  forall (s : start) (ops : list op) pre r rest,
    start_ok sip s -> Forall op_typed ops -> tear_free sip s ops ->
    epoch_events sip s ops = pre ++ ERootBegin r :: rest ->
    pnd (disk_after (start_image s) pre) = [].
Print Assumptions data_before_root.

(** Non-vacuity: a concrete checksum and three-commit workload satisfying every hypothesis
    ([tear_free] decided by enumerating all bytewise mixes of every root-record write). *)
From Aranya Require Import proofs.CrashExample.
Check crash_recovery_hypotheses_satisfiable :
  (forall l, (toy_sip l <= u64_max)%N)
  /\ Forall op_typed example_ops
  /\ tear_free toy_sip Fresh example_ops
  /\ map (fun r => (generation r, free_offset r))
         (flat_map (fun e => match e with ECommitted r => [r] | _ => [] end) (epoch_events toy_sip Fresh example_ops))
     = [(1%N, 12301); (2%N, 12310); (3%N, 12315)]
  /\ flat_map (fun e => match e with ESys (SPwrite off _) => if off <? FREE_START then [off] else [] | _ => [] end)
              (epoch_events toy_sip Fresh example_ops)
     = [4096; 4100; 8192; 8196; 4096; 4100].
