(** C28 — compiled modules are deterministic and survive serialization.

    Two units contributed.  Part 1 (unit vm, proofs/VmModuleProofs.v): loading a module into a
    machine, on the full VM model; round trip => same machine => same runs.  Part 2 (unit frontend,
    proofs/ModuleMapProofs.v + proofs/Determinism.v): nothing is lost by loading when names are
    unique and where uniqueness comes from; every use of a hash collection in the compiler crate
    (regenerated ledger gen/GenDeterminism.v) is insensitive to iteration order.
    (This file was re-assembled by unit frontend from the `_stmt` / `_proof` pairs of both units
    after an accidental overwrite; the statements of part 1 are copied from proofs/VmModuleProofs.v.) *)
From Coq Require Import List NArith Sorting.Permutation.
From Aranya Require model.ModuleMap proofs.ModuleMapProofs proofs.Determinism gen.GenDeterminism.
From Aranya Require Import base.Tactics model.VmBase gen.GenVm model.Vm proofs.VmModuleProofs.
Import ListNotations.

(** * Part 1 (unit vm) *)

Theorem roundtrip_same_machine_same_runs : roundtrip_same_machine_same_runs_stmt.
Proof. exact roundtrip_same_machine_same_runs_proof. Qed.
Check roundtrip_same_machine_same_runs :
  forall (B : Type) (enc : ModuleV0 -> B) (dec : B -> option ModuleV0),
    (forall md, dec (enc md) = Some md) ->
    forall md,
      exists md', dec (enc md) = Some md'
        /\ from_module md' = from_module md
        /\ forall (St : Type) (dbg : bool) (io : MachineIO St) (fuel : nat) (rs : RunState St),
             run dbg io (from_module md') fuel rs = run dbg io (from_module md) fuel rs
             /\ (forall name args, call_action dbg io (from_module md') fuel name args rs
                                   = call_action dbg io (from_module md) fuel name args rs)
             /\ (forall t e, call_command_policy dbg io (from_module md') fuel t e rs
                             = call_command_policy dbg io (from_module md) fuel t e rs).
Print Assumptions roundtrip_same_machine_same_runs.

Theorem from_module_canonical : from_module_canonical_stmt.
Proof. exact from_module_canonical_proof. Qed.
Check from_module_canonical : forall md, machine_canonical (from_module md).
Print Assumptions from_module_canonical.

Theorem load_lookup : load_lookup_stmt.
Proof. exact load_lookup_proof. Qed.
Check load_lookup :
  forall md k,
    automap_get StructDef_name k (struct_defs (from_module md))
      = find (fun d => String.eqb (StructDef_name d) k) (rev (mod_struct_defs md))
    /\ automap_get FactDef_name k (fact_defs (from_module md))
      = find (fun d => String.eqb (FactDef_name d) k) (rev (mod_fact_defs md))
    /\ automap_get ActionDef_name k (action_defs (from_module md))
      = find (fun d => String.eqb (ActionDef_name d) k) (rev (mod_action_defs md))
    /\ automap_get CommandDef_name k (command_defs (from_module md))
      = find (fun d => String.eqb (CommandDef_name d) k) (rev (mod_command_defs md)).
Print Assumptions load_lookup.

Theorem from_module_to_module : from_module_to_module_stmt.
Proof. exact from_module_to_module_proof. Qed.
Check from_module_to_module : forall m, machine_canonical m -> from_module (to_module m) = m.
Print Assumptions from_module_to_module.

Theorem from_module_idempotent : from_module_idempotent_stmt.
Proof. exact from_module_idempotent_proof. Qed.
Check from_module_idempotent : forall md, from_module (to_module (from_module md)) = from_module md.
Print Assumptions from_module_idempotent.

(** * Part 2 (unit frontend) *)

(** module -> machine loses nothing when definition names are unique; identity on vectors in name order. *)
Theorem module_load_faithful : ModuleMapProofs.module_load_faithful_stmt.
Proof. exact ModuleMapProofs.module_load_faithful_proof. Qed.
Check module_load_faithful :
  forall m : ModuleMap.module_v0,
    ModuleMapProofs.machine_wf (ModuleMap.from_module m)
    /\ (ModuleMapProofs.module_names_unique m ->
        Permutation (ModuleMap.m_actions (ModuleMap.to_module (ModuleMap.from_module m))) (ModuleMap.m_actions m)
        /\ Permutation (ModuleMap.m_commands (ModuleMap.to_module (ModuleMap.from_module m))) (ModuleMap.m_commands m)
        /\ Permutation (ModuleMap.m_facts (ModuleMap.to_module (ModuleMap.from_module m))) (ModuleMap.m_facts m)
        /\ Permutation (ModuleMap.m_structs (ModuleMap.to_module (ModuleMap.from_module m))) (ModuleMap.m_structs m)
        /\ Permutation (ModuleMap.m_enums (ModuleMap.to_module (ModuleMap.from_module m))) (ModuleMap.m_enums m)
        /\ (forall k, ModuleMap.lookup ModuleMap.defs ModuleMap.d_name k (ModuleMap.k_actions (ModuleMap.from_module m))
                      = find (fun v => ModuleMap.key_eqb (ModuleMap.d_name v) k) (ModuleMap.m_actions m))
        /\ (forall k, ModuleMap.lookup ModuleMap.defs ModuleMap.d_name k (ModuleMap.k_commands (ModuleMap.from_module m))
                      = find (fun v => ModuleMap.key_eqb (ModuleMap.d_name v) k) (ModuleMap.m_commands m))
        /\ (forall k, ModuleMap.lookup ModuleMap.defs ModuleMap.d_name k (ModuleMap.k_facts (ModuleMap.from_module m))
                      = find (fun v => ModuleMap.key_eqb (ModuleMap.d_name v) k) (ModuleMap.m_facts m))
        /\ (forall k, ModuleMap.lookup ModuleMap.defs ModuleMap.d_name k (ModuleMap.k_structs (ModuleMap.from_module m))
                      = find (fun v => ModuleMap.key_eqb (ModuleMap.d_name v) k) (ModuleMap.m_structs m))
        /\ (forall k, ModuleMap.lookup ModuleMap.defs ModuleMap.d_name k (ModuleMap.k_enums (ModuleMap.from_module m))
                      = find (fun v => ModuleMap.key_eqb (ModuleMap.d_name v) k) (ModuleMap.m_enums m)))
    /\ (ModuleMapProofs.sorted ModuleMap.defs ModuleMap.d_name (ModuleMap.m_actions m) ->
        ModuleMapProofs.sorted ModuleMap.defs ModuleMap.d_name (ModuleMap.m_commands m) ->
        ModuleMapProofs.sorted ModuleMap.defs ModuleMap.d_name (ModuleMap.m_facts m) ->
        ModuleMapProofs.sorted ModuleMap.defs ModuleMap.d_name (ModuleMap.m_structs m) ->
        ModuleMapProofs.sorted ModuleMap.defs ModuleMap.d_name (ModuleMap.m_enums m) ->
        ModuleMap.to_module (ModuleMap.from_module m) = m).
Print Assumptions module_load_faithful.

(** the uniqueness hypothesis is necessary *)
Theorem duplicate_names_lose_definitions : ModuleMapProofs.duplicate_names_lose_definitions_stmt.
Proof. exact ModuleMapProofs.duplicate_names_lose_definitions_proof. Qed.
Check duplicate_names_lose_definitions :
  exists m : ModuleMap.module_v0,
    List.length (ModuleMap.m_actions (ModuleMap.to_module (ModuleMap.from_module m))) < List.length (ModuleMap.m_actions m).
Print Assumptions duplicate_names_lose_definitions.

(** where uniqueness comes from on the compiler side: NamedMap::insert rejects an existing name *)
Theorem named_map_names_unique :
  forall (V : Type) (name : V -> ModuleMap.key) (l out : list V),
    ModuleMap.named_insert_all V name [] l = Some out -> NoDup (map name out) /\ out = l.
Proof. exact ModuleMapProofs.named_map_unique. Qed.
Check named_map_names_unique :
  forall (V : Type) (name : V -> ModuleMap.key) (l out : list V),
    ModuleMap.named_insert_all V name [] l = Some out -> NoDup (map name out) /\ out = l.
Print Assumptions named_map_names_unique.

(** results of membership operations do not depend on the iteration order of a hash collection *)
Theorem hash_membership_order_insensitive : ModuleMapProofs.hash_membership_order_insensitive_stmt.
Proof. exact ModuleMapProofs.hash_membership_order_insensitive_proof. Qed.
Check hash_membership_order_insensitive :
  forall (ops : list ModuleMap.hop) (l l' : list (ModuleMap.key * N)),
    Permutation l l' -> NoDup (map fst l) -> ModuleMap.hrun l ops = ModuleMap.hrun l' ops.
Print Assumptions hash_membership_order_insensitive.

(** every use of a hash collection in the compiler crate (regenerated list) is discharged *)
Theorem determinism_sites_discharged : Determinism.determinism_sites_discharged_stmt.
Proof. exact Determinism.determinism_sites_discharged_proof. Qed.
Check determinism_sites_discharged :
  Determinism.det_ledger_complete = true /\ Determinism.det_bindings_known = true
  /\ Determinism.det_mentions_known = true
  /\ Forall Determinism.use_order_free GenDeterminism.hash_uses.
Print Assumptions determinism_sites_discharged.
