(** C17 — sync sessions are sound and terminate. *)
From Aranya Require Import base.Tactics gen.GenSync model.Dag model.TravQueue model.Wire model.SyncStore model.SyncResp
  proofs.SyncStoreProofs proofs.SyncRespProofs proofs.SyncSessionProofs proofs.SyncC17 proofs.SyncCoverProofs proofs.SyncParentsProofs.
From Coq Require Import Sorted.
Local Open Scope N_scope.

(** Every location [find_needed_segments] returns is the location of a
    committed command (inside a stored segment, ancestor-or-equal of a head);
    the list is sorted by (max_cut, segment) and holds at most
    SEGMENT_BUFFER_MAX entries; every command the session will send is a
    committed command.  No panic, no Bug, no fuel exhaustion on any
    well-formed store. *)
Theorem responder_sound : responder_sound_stmt.
Proof. exact responder_sound_proof. Qed.
Check responder_sound :
  forall (dbg : bool) (st : store) (cmds : list addr),
  wf_store st -> (length cmds <= N.to_nat COMMAND_SAMPLE_MAX)%nat ->
  exists ts, find_needed_segments dbg st cmds = ROk ts /\
    Forall (committed_loc st) ts /\ StronglySorted loc_le ts /\ (length ts <= N.to_nat SEGMENT_BUFFER_MAX)%nat /\
    (forall c, In c (plan st ts) -> exists l, committed_loc st l /\ cmd_at st l = Some c).
Print Assumptions responder_sound.

(** Whatever target-buffer sizes the transport offers, poll after poll: the
    messages handed out are a prefix of the ideal sequence — responses
    carrying the planned commands in order, without loss or repetition, at
    most COMMAND_RESPONSE_MAX each (all but the last exactly that many), with
    indexes 0,1,2,…, then one SyncEnd whose max_index is the number of
    responses; every other poll outcome is a buffer error that leaves the
    responder unchanged, or NotReady after the end. *)
Theorem resume_exact : session_exact_stmt.
Proof. exact session_exact_proof. Qed.
Check resume_exact :
  forall (dbg : bool) (p : provider) (g sid mb : N) (st : store) (cmds : list addr),
  get_storage p g = ROk st -> wf_store st -> small_cmds st -> (length cmds <= N.to_nat COMMAND_SAMPLE_MAX)%nat ->
  exists ts, find_needed_segments dbg st cmds = ROk ts /\
    forall tlens : list N,
    let '(outs, rf) := run_polls dbg p (after_request sid g mb cmds) tlens in
    prefix (oks outs) (ideal sid (S (length (plan st ts))) 0 (plan st ts)) /\ Forall benign outs.
Print Assumptions resume_exact.

(** With buffers of at least BIG bytes every poll succeeds and the session
    ends with SyncEnd after exactly ceil(total / COMMAND_RESPONSE_MAX) + 1
    polls; afterwards the responder is idle. *)
Theorem session_terminates : session_terminates_stmt.
Proof. exact session_terminates_proof. Qed.
Check session_terminates :
  forall (dbg : bool) (p : provider) (g sid mb : N) (st : store) (cmds : list addr),
  get_storage p g = ROk st -> wf_store st -> small_cmds st -> (length cmds <= N.to_nat COMMAND_SAMPLE_MAX)%nat ->
  exists ts, find_needed_segments dbg st cmds = ROk ts /\
    let total := length (plan st ts) in
    let polls := S ((total + N.to_nat COMMAND_RESPONSE_MAX - 1) / N.to_nat COMMAND_RESPONSE_MAX) in
    forall tlens : list N, Forall (fun t => BIG <= t) tlens -> (polls <= length tlens)%nat ->
    let '(outs, rf) := run_polls dbg p (after_request sid g mb cmds) tlens in
    oks outs = ideal sid (S total) 0 (plan st ts) /\ length (oks outs) = polls /\ r_state rf = RIdle /\ r_ready rf = false.
Print Assumptions session_terminates.

(** Parents first.  Every entry of the plan starts at the first command of its
    segment or right above a command the requester is known to hold (an
    ancestor-or-equal of an advertised command the responder stores); the
    parents of a segment sent from its first command are known to the
    requester or are sent by an entry that sorts strictly earlier.  Entries
    are sent whole and in order ([resume_exact]) and commands inside a segment
    form a chain, so every command's parents precede it in the stream or lie
    in the closure of what the requester advertised. *)
Theorem parents_first : parents_first_stmt.
Proof. exact parents_first_proof. Qed.
Check parents_first :
  forall (dbg : bool) (st : store) (cmds : list addr) (ts : list loc),
  wf_store st -> find_needed_segments dbg st cmds = ROk ts ->
  forall x, In x ts ->
    valid_loc st x /\
    (forall sg, find_seg (st_segs st) (lseg x) = Some sg ->
       lmc x = g_first sg \/ covered_by st cmds (L (lmc x - 1) (lseg x))) /\
    (forall sg, find_seg (st_segs st) (lseg x) = Some sg -> lmc x = g_first sg ->
       forall p, In p (prior_list (g_prior sg)) ->
         covered_by st cmds p \/ exists y, In y ts /\ lseg y = lseg p /\ lmc y <= lmc p /\ lmc y < lmc x).
Print Assumptions parents_first.
