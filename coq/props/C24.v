(** C24 — policies the compiler accepts do not go wrong.

    [accepted_is_safe_full_stmt] (in proofs/CompileMachine.v) is the full statement; what is proved
    here is the part that follows from the simulation of C22: the compiled code ends safely whenever
    the reference semantics is defined on the call.  Missing for the full statement: type soundness of
    Typing.v with respect to Lang.v (accepted policy + well-typed arguments => never OWrong). *)
From Aranya Require Import base.Tactics model.VmBase gen.GenVm model.Vm model.Lang model.Typing
  model.Compile model.CompileDirect proofs.SimBase proofs.CompileSim proofs.CompileCorrect proofs.CompileMachine.
Local Open Scope N_scope.

Theorem accepted_is_safe_partial : accepted_is_safe_partial_stmt.
Proof. exact accepted_is_safe_partial_proof. Qed.
Check accepted_is_safe_partial :
  forall (St : Type) (dbg : bool) (lio : lang_io St) (p : policy) (is_debug : bool),
    layout_check p is_debug = true -> globals_ok p = true ->
    let m := machine_of p is_debug in
    forall (n : nat) (f : ident) (vs : list Value) (w : world St),
      len vs <= STACK_SIZE ->
      Lang.call_fun lio p is_debug n f vs w <> OWrong ->
      Lang.call_fun lio p is_debug n f vs w <> OFuel ->
      runs_to dbg lio p m (entry_state (label_addr (labels m)) f vs w)
        (fun r => match r with
                  | RunExited _ _ => True
                  | RunErrored e _ => going_wrong (err_type e) = false
                  | RunPanic _ | RunOutOfFuel _ => False
                  end
                  \/ exists e w' e' s', Lang.call_fun lio p is_debug n f vs w = OErr e w'
                                        /\ r = RunErrored e' s' /\ err_type e' = e).
Print Assumptions accepted_is_safe_partial.
