(** C22 — compiled policy code computes the language semantics. *)
From Aranya Require Import base.Tactics model.VmBase gen.GenVm model.Vm model.Lang model.Typing
  model.Compile model.CompileDirect proofs.SimBase proofs.CompileSim proofs.CompileCorrect proofs.CompileMachine.
Local Open Scope N_scope.

Theorem compile_correct : compile_correct_stmt.
Proof. exact compile_correct_proof. Qed.
Check compile_correct :
  forall (St : Type) (dbg : bool) (lio : lang_io St) (p : policy) (is_debug : bool),
    layout_check p is_debug = true -> globals_ok p = true ->
    let m := machine_of p is_debug in
    forall (n : nat) (f : ident) (vs : list Value) (w : world St),
      len vs <= STACK_SIZE ->
      let s0 := entry_state (label_addr (labels m)) f vs w in
      match Lang.call_fun lio p is_debug n f vs w with
      | OVal v w' =>
        runs_to dbg lio p m s0 (fun r => exists s', r = RunExited ER_Normal s' /\ rs_stack s' = [v] /\ rs_io s' = w_io w')
        \/ overflows dbg lio p m s0
      | OExit r w' =>
        runs_to dbg lio p m s0 (fun x => exists s', x = RunExited r s' /\ rs_io s' = w_io w') \/ overflows dbg lio p m s0
      | OErr e w' =>
        runs_to dbg lio p m s0 (fun x => exists e' s', x = RunErrored e' s' /\ err_type e' = e /\ rs_io s' = w_io w')
        \/ overflows dbg lio p m s0
      | ORet _ _ => False
      | OWrong | OFuel => True
      end.
Print Assumptions compile_correct.
