(** C30 - facts and effects change only inside finish blocks.

    Two machine-checked statements, both for every policy [Compile.compile] accepts
    (acceptance is the statement-context table of Typing.v, the transcription of the checks
    of lower.rs):

    [lang_writes_only_in_finish] - reference semantics (model/Lang.v, the semantics leg L3 compares
    the real compiler+VM with): evaluating the policy block of a command, at any call depth and
    against any I/O oracle whose reads and foreign calls leave the write log [wl] alone, if the
    evaluation stops with [ER_Panic], or with [ER_Check] outside recall context, the write log
    (fact inserts, deletes, effects) is what it was at the start.

    [writes_only_in_finish_partial] - compiled code: in the code of every function, command
    (policy block, recall blocks, seal, open) and action a write instruction (Create, Update,
    Delete, Emit) occurs only inside a segment [Meta (Finish true); Block; c; End; Exit Normal|Check]
    in which every instruction of [c] is straight-line finish code ([fin_instr]: no branch, jump,
    exit, recall or return); the body of every finish function is such a [c].

    Not proved ([writes_only_in_finish_full_stmt] in proofs/FinishOnly.v stays a definition): the
    same statement about runs of Vm.run on the compiled code.  The simulation of C22 does not
    cover the fact statements, so the link between the two statements above is the correspondence
    (L1: code; L3: runs with a logging MachineIO), not a theorem.  Also not proved: that effects
    emitted in recall context carry [recalled = true] (by inspection of SEmit in Lang.v and Emit
    in Vm.v; checked on every L3 run). *)
From Aranya Require Import base.Tactics model.VmBase gen.GenVm model.Vm model.Lang model.Typing
  model.Compile model.CompileDirect proofs.FinishOnly proofs.FinishLang.
Local Open Scope N_scope.

Theorem writes_only_in_finish_partial : forall p dbg la, writes_only_in_finish_partial_stmt p dbg la.
Proof. exact writes_only_in_finish_partial_proof. Qed.
Check writes_only_in_finish_partial :
  forall (p : policy) (dbg : bool) (la : Label -> N) (x : list Instruction * list (Label * N)),
    Compile.compile p dbg = ROk x ->
    (forall pc d, In d (p_funs p) -> scan false (d_function p dbg la pc d) = true)
    /\ (forall pc c, In c (p_cmds p) -> scan false (d_command p dbg la pc c) = true)
    /\ (forall pc a, In a (p_actions p) -> scan false (d_action p dbg la pc a) = true)
    /\ (forall pc d, In d (p_finfuns p) ->
          exists code, d_finish_function p dbg la pc d
                       = (map (fun x => I_Def (fst x)) (rev (ff_params d)) ++ code ++ [I_Return])%list
                       /\ forallb fin_instr code = true).
Print Assumptions writes_only_in_finish_partial.

Theorem lang_writes_only_in_finish : lang_writes_only_in_finish_stmt.
Proof. exact lang_writes_only_in_finish_proof. Qed.
Check lang_writes_only_in_finish :
  forall (St Wl : Type) (lio : lang_io St) (wl : St -> Wl),
    (forall s n k, wl (fst (lio_query lio s n k)) = wl s) ->
    (forall s a b vs c, wl (fst (lio_ffi lio s a b vs c)) = wl s) ->
    forall (p : policy) (dbg : bool) x, Compile.compile p dbg = ROk x ->
    forall fuel name this envelope (w : world St) r w',
      run_policy lio p dbg fuel name this envelope w = OExit r w' ->
      (r = ER_Panic \/ (r = ER_Check /\ is_recall_ctx (w_ctx w') = false)) ->
      wl (w_io w') = wl (w_io w).
Print Assumptions lang_writes_only_in_finish.

(** the source-level table on which both rest *)
Check accepted_outside :
  forall p is_debug sigs g cx te ss te',
    Typing.check_stmts p is_debug sigs g cx te ss = ROk te' -> is_finish cx = false -> nw_stmts ss = true.
Check accepted_finish :
  forall p is_debug sigs g te ss te',
    Typing.check_stmts p is_debug sigs g CxFinish te ss = ROk te' -> fin_stmts_ok ss = true.
