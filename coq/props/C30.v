(** C30 — facts and effects change only inside finish blocks.

    What is proved here is the syntactic form ([_partial]): for every policy [Compile.compile]
    accepts (acceptance is the statement-context table of Typing.v, the transcription of the
    checks of lower.rs), the compiled code of every function, command (policy block, recall
    blocks, seal, open) and action contains a write instruction (Create, Update, Delete, Emit)
    only inside a segment [Meta (Finish true); Block; c; End; Exit Normal|Check] in which every
    instruction of [c] is straight-line finish code ([fin_instr]: no branch, jump, exit, recall
    or return); the body of every finish function is such a [c].

    Not proved ([writes_only_in_finish_full_stmt] in proofs/FinishOnly.v stays a definition):
    the statement about runs of the VM - a run that ends with Exit Check without a recall, or
    with Exit Panic, leaves the write log unchanged.  That step needs an invariant over
    Vm.step (pc outside the finish segments until a [Meta (Finish true)] is executed); it is
    covered by leg L3 (real runs with a logging MachineIO). *)
From Aranya Require Import base.Tactics model.VmBase gen.GenVm model.Vm model.Lang model.Typing
  model.Compile model.CompileDirect proofs.FinishOnly.
Local Open Scope N_scope.

Theorem writes_only_in_finish_partial : forall p dbg la, writes_only_in_finish_partial_stmt p dbg la.
Proof. exact writes_only_in_finish_partial_proof. Qed.
Check writes_only_in_finish_partial :
  forall (p : policy) (dbg : bool) (la : Label -> N) (x : list Instruction * list (Label * N)),
    Compile.compile p dbg = ROk x ->
    (forall pc d, In d (p_funs p) -> scan false (d_function p dbg la pc d) = true)
    /\ (forall pc c, In c (p_cmds p) -> scan false (d_command p dbg la pc c) = true)
    /\ (forall pc a, In a (p_actions p) -> scan false (d_action p dbg la pc a) = true)
    /\ (forall pc d, In d (p_finfuns p) ->
          exists code, d_finish_function p dbg la pc d
                       = (map (fun x => I_Def (fst x)) (rev (ff_params d)) ++ code ++ [I_Return])%list
                       /\ forallb fin_instr code = true).
Print Assumptions writes_only_in_finish_partial.

(** the source-level table on which it rests *)
Check accepted_outside :
  forall p is_debug sigs g cx te ss te',
    Typing.check_stmts p is_debug sigs g cx te ss = ROk te' -> is_finish cx = false -> nw_stmts ss = true.
Check accepted_finish :
  forall p is_debug sigs g te ss te',
    Typing.check_stmts p is_debug sigs g CxFinish te ss = ROk te' -> fin_stmts_ok ss = true.
