(** C16 — repeated sync delivers everything. *)
From Aranya Require Import base.Tactics gen.GenSync model.Dag model.TravQueue model.Wire model.SyncStore model.SyncResp model.SyncReq model.SyncAnc
  proofs.SyncStoreProofs proofs.SyncRespProofs proofs.SyncSessionProofs proofs.SyncC17 proofs.SyncCoverProofs proofs.SyncWfCheck proofs.SyncC16 proofs.SyncProgressProofs.
Local Open Scope N_scope.

(** The literal clause "each session delivers at least one missing command
    while any are missing" is FALSE of the faithful model (finding F11): two
    well-formed stores sharing a 121-command history — the requester 150
    one-command segments ahead with an empty peer cache — where the session
    delivers 100 commands, all of which the requester already holds, while the
    responder's own command is still missing. *)
Theorem each_session_progress_refuted : each_session_progress_refuted_stmt.
Proof. exact each_session_progress_refuted_proof. Qed.
Check each_session_progress_refuted :
  exists (sa sb : store) (smp : list addr) (ts : list loc),
    wf_store sa /\ wf_store sb /\
    sample is_ancestor sa [] [] = ROk smp /\ length smp = 100%nat /\
    find_needed_segments true sb smp = ROk ts /\ length ts = 100%nat /\
    (In 5000 (store_ids sb) /\ ~ In 5000 (store_ids sa)) /\
    length (plan sb ts) = 100%nat /\
    forallb (fun y => existsb (N.eqb y) (store_ids sa)) (map c_id (plan sb ts)) = true.
Print Assumptions each_session_progress_refuted.

(** the full statement, kept visible, and its negation *)
Theorem each_session_progress_full_is_false : ~ each_session_progress_full_stmt.
Proof. exact each_session_progress_full_false. Qed.
Check each_session_progress_full_is_false :
  ~ (forall (dbg : bool) (sa sb : store) (smp : list addr) (ts : list loc),
     wf_store sa -> wf_store sb ->
     sample is_ancestor sa [] [] = ROk smp ->
     find_needed_segments dbg sb smp = ROk ts ->
     (exists x, In x (store_ids sb) /\ ~ In x (store_ids sa)) ->
     exists y, In y (map c_id (plan sb ts)) /\ ~ In y (store_ids sa)).
Print Assumptions each_session_progress_full_is_false.

(** What does hold.  If some head of the responder's store is not an
    ancestor-or-equal of a command the requester advertised (and the responder
    holds), the session delivers at least one command — including when more
    than SEGMENT_BUFFER_MAX segments are needed and when skip_jump starts the
    traversal far below the heads. *)
Theorem needed_nonempty : needed_nonempty_stmt.
Proof. exact needed_nonempty_proof. Qed.
Check needed_nonempty :
  forall (dbg : bool) (st : store) (cmds : list addr) (ts : list loc),
  wf_store st -> find_needed_segments dbg st cmds = ROk ts ->
  (exists i h, In (i, h) (st_heads st) /\ ~ covered_by st cmds h) ->
  ts <> [] /\ plan st ts <> [].
Print Assumptions needed_nonempty.

(** Frontier progress: unless the plan was truncated to SEGMENT_BUFFER_MAX
    entries, such a session delivers a command that lies OUTSIDE the closure
    of everything the requester advertised (the tip of one of the sent
    segments) — the hypothesis of the measure theorem below, discharged for
    untruncated sessions. *)
Theorem frontier_progress : frontier_progress_stmt.
Proof. exact frontier_progress_proof. Qed.
Check frontier_progress :
  forall (dbg : bool) (st : store) (cmds : list addr) (ts : list loc),
  wf_store st -> find_needed_segments dbg st cmds = ROk ts ->
  (length ts < N.to_nat SEGMENT_BUFFER_MAX)%nat ->
  (exists i h, In (i, h) (st_heads st) /\ ~ covered_by st cmds h) ->
  exists x, In x ts /\ valid_loc st x /\ ~ covered_by st cmds (tip st x).
Print Assumptions frontier_progress.

(** Hence a session that delivers nothing proves the requester holds every
    command of the responder … *)
Theorem sync_complete : quiescence_complete_stmt.
Proof. exact quiescence_complete_proof. Qed.
Check sync_complete :
  forall (dbg : bool) (st : store) (cmds : list addr) (has : N -> bool),
  wf_store st ->
  find_needed_segments dbg st cmds = ROk [] ->
  (forall a l, In a cmds -> get_location st a = Some l -> has (aid a) = true) ->
  closed_under st has ->
  forallb has (store_ids st) = true.
Print Assumptions sync_complete.

(** … and quiescence in both directions means the two replicas hold the same commands. *)
Theorem bidirectional_quiescence : bidirectional_quiescence_stmt.
Proof. exact bidirectional_quiescence_proof. Qed.
Check bidirectional_quiescence :
  forall (dbg : bool) (sa sb : store) (ca cb : list addr),
  wf_store sa -> wf_store sb ->
  let in_a := fun x => existsb (N.eqb x) (store_ids sa) in
  let in_b := fun x => existsb (N.eqb x) (store_ids sb) in
  find_needed_segments dbg sb ca = ROk [] -> find_needed_segments dbg sa cb = ROk [] ->
  (forall a l, In a ca -> get_location sb a = Some l -> in_a (aid a) = true) ->
  (forall a l, In a cb -> get_location sa a = Some l -> in_b (aid a) = true) ->
  closed_under sb in_a -> closed_under sa in_b ->
  forall x, In x (store_ids sa) <-> In x (store_ids sb).
Print Assumptions bidirectional_quiescence.

(** The measure the code decreases: if coverage only grows and every non-empty
    session covers a new location of the responder's store, at most
    [length locs] sessions are non-empty before a quiescent one. *)
Theorem sessions_bounded_thm :
  forall (locs : list loc) (C : nat -> list loc) (nonempty : nat -> Prop),
  (forall i, incl (C i) locs) -> (forall i, NoDup (C i)) -> (forall i, incl (C i) (C (S i))) ->
  (forall i, nonempty i -> exists l, In l locs /\ ~ In l (C i) /\ In l (C (S i))) ->
  (forall i, nonempty i \/ ~ nonempty i) ->
  exists i, (i <= length locs)%nat /\ ~ nonempty i.
Proof. exact sessions_bounded. Qed.
Check sessions_bounded_thm :
  forall (locs : list loc) (C : nat -> list loc) (nonempty : nat -> Prop),
  (forall i, incl (C i) locs) -> (forall i, NoDup (C i)) -> (forall i, incl (C i) (C (S i))) ->
  (forall i, nonempty i -> exists l, In l locs /\ ~ In l (C i) /\ In l (C (S i))) ->
  (forall i, nonempty i \/ ~ nonempty i) ->
  exists i, (i <= length locs)%nat /\ ~ nonempty i.
Print Assumptions sessions_bounded_thm.
