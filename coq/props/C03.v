(** C03 — braided fact state equals the reference braid. *)
From Aranya Require Import base.Tactics model.Dag model.Braid
  proofs.BraidDag proofs.BraidRefine proofs.BraidMain gen.GenBraid proofs.BraidPins proofs.BraidFast.

Theorem braid_refines_spec : braid_refines_spec_stmt.
Proof. exact braid_refines_spec_proof. Qed.
Check braid_refines_spec :
  forall (g : graph) (hs : list N),
    wf_graph g -> single_root g -> hs <> [] -> incl hs (ids g) ->
    braid_L1 g hs = braid_spec g hs.
Print Assumptions braid_refines_spec.

(** [same_segment_redundant]: whatever a (sound) same-segment check answers. *)
Theorem braid_gen_refines_spec : braid_gen_refines_spec_stmt.
Proof. exact braid_gen_refines_spec_proof. Qed.
Check braid_gen_refines_spec :
  forall (ss : N -> N -> bool) (g : graph) (hs : list N),
    wf_graph g -> single_root g -> hs <> [] -> incl hs (ids g) ->
    (forall x o, ss x o = true -> anc g x o) ->
    braid_gen ss g hs = braid_spec g hs.
Print Assumptions braid_gen_refines_spec.

Theorem layout_independent : layout_independent_stmt.
Proof. exact layout_independent_proof. Qed.
Check layout_independent :
  forall (ss1 ss2 : N -> N -> bool) (g : graph) (hs : list N),
    wf_graph g -> single_root g -> hs <> [] -> incl hs (ids g) ->
    (forall x o, ss1 x o = true -> anc g x o) -> (forall x o, ss2 x o = true -> anc g x o) ->
    braid_gen ss1 g hs = braid_gen ss2 g hs.
Print Assumptions layout_independent.

Theorem braid_state_refines_spec : braid_state_refines_spec_stmt.
Proof. exact braid_state_refines_spec_proof. Qed.
Check braid_state_refines_spec :
  forall (facts : Type) (eval : cmd -> facts -> outcome facts) (empty : facts) (g : graph) (hs : list N),
    wf_graph g -> single_root g -> hs <> [] -> incl hs (ids g) ->
    braid_state facts eval empty g hs = spec_braid_state facts eval empty g hs.
Print Assumptions braid_state_refines_spec.

(** The key order of the model is the derived order of [Priority] as declared in the source today. *)
Theorem priority_order_generated : priority_order_generated_stmt.
Proof. exact priority_order_generated_proof. Qed.
Check priority_order_generated :
  priority_derives_ord = true
  /\ length priority_variants = 4
  /\ forall p, nth_error priority_variants (N.to_nat (fst (prio_rank p))) = Some (prio_name p).
Print Assumptions priority_order_generated.

(** The function the correspondence run evaluates (tabulated max_cut / jump) is the model. *)
Theorem braid_fast_eq : braid_fast_eq_stmt.
Proof. exact braid_fast_eq_proof. Qed.
Check braid_fast_eq : forall (g : graph) (hs : list N), braid_fast g hs = braid_L1 g hs.
Print Assumptions braid_fast_eq.

Theorem braid_state_fast_eq : braid_state_fast_eq_stmt.
Proof. exact braid_state_fast_eq_proof. Qed.
Check braid_state_fast_eq :
  forall facts (eval : cmd -> facts -> outcome facts) empty g hs,
    braid_state_with facts eval empty braid_fast g hs = braid_state facts eval empty g hs.
Print Assumptions braid_state_fast_eq.

(** Structural properties of the braid used by the head-set collapse (C04). *)
From Aranya Require Import proofs.BraidKey proofs.BraidMerge.

(** The braid depends on the heads only as a set (order and multiplicity are irrelevant). *)
Theorem braid_heads_perm : braid_heads_perm_stmt.
Proof. exact braid_heads_perm_proof. Qed.
Check braid_heads_perm :
  forall (g : graph) (hs1 hs2 : list N),
    wf_graph g -> single_root g -> hs1 <> [] -> incl hs1 (ids g) ->
    (forall x, In x hs1 <-> In x hs2) ->
    braid_L1 g hs1 = braid_L1 g hs2
    /\ forall facts (eval : cmd -> facts -> outcome facts) empty,
         braid_state facts eval empty g hs1 = braid_state facts eval empty g hs2.
Print Assumptions braid_heads_perm.

(** Merge transparency: replacing two maximal heads a, b by a fresh merge
    command of them (pushed at the back of the head list) does not change the
    braided fact state.  The state stored at the merge command is, by the
    definition of [state_at], the braid of its parents. *)
Theorem braid_merge_transparent_L1 : braid_merge_transparent_L1_stmt.
Proof. exact braid_merge_transparent_L1_proof. Qed.
Check braid_merge_transparent_L1 :
  forall (g : graph) (a b mid body : N) (rest : list N),
    wf_graph g -> single_root g -> ~ In mid (ids g) -> incl (a :: b :: rest) (ids g) ->
    let m := {| cid := mid; cprio := PMerge; cpar := PMerge2 a b; cbody := body |} in
    (forall c, parent_of g a c \/ parent_of g b c -> ~ In c (closure g (a :: b :: rest))) ->
    (forall x, In x (closure g (a :: b :: rest)) -> key_ltb (key_of g x) (PMerge, mid) = true ->
       key_ltb (key_of g x) (key_of g a) = true /\ key_ltb (key_of g x) (key_of g b) = true) ->
    braid_L1 g (a :: b :: rest) <> BParFin ->
    forall facts (eval : cmd -> facts -> outcome facts) empty,
      braid_state facts eval empty (m :: g) (rest ++ [mid]) = braid_state facts eval empty g (a :: b :: rest).
Print Assumptions braid_merge_transparent_L1.
