(** C36 — wrapped keys are authenticated and bound to their type. *)
From Coq Require Import String.
From Aranya Require Import base.Tactics gen.GenCrypto model.TupleHash model.CryptoFrames model.CryptoSym
  proofs.TupleHashProofs proofs.CryptoSymProofs.
Local Open Scope N_scope.

Theorem wrapped_key_binds : wrapped_key_binds_stmt.
Proof. exact wrapped_key_binds_proof. Qed.
Check wrapped_key_binds :
  forall (oids : list bytes) (H : bytes -> bytes) (AKey : Type)
         (Seal : AKey -> bytes -> bytes -> bytes -> bytes * bytes)
         (Open : AKey -> bytes -> bytes -> bytes -> bytes -> option bytes)
         (alg_bytes : alg_kind -> bytes),
    (forall a b, H a = H b -> a = b) -> ideal_aead Seal Open ->
    let wrap := wrap oids H AKey Seal alg_bytes in
    let unwrap := unwrap oids H AKey Open alg_bytes in
    (forall k kind id n secret, unwrap k kind (wrap k kind id n secret) = UOk secret)
    /\ (forall k kind id n secret k' kind' w' s,
          unwrap k' kind' w' = UOk s ->
          w_ct w' = w_ct (wrap k kind id n secret) -> w_tag w' = w_tag (wrap k kind id n secret) ->
          k' = k /\ w_nonce w' = n /\ w_id w' = id /\ alg_bytes kind' = alg_bytes kind
          /\ kind' = w_kind w' /\ s = secret)
    /\ (forall k kind id n secret k' kind' s,
          unwrap k' kind' (wrap k kind id n secret) = UOk s -> k' = k /\ kind' = kind /\ s = secret)
    /\ (forall k kind id n secret kind',
          kind' <> kind -> unwrap k kind' (wrap k kind id n secret) <> UOk secret).
Print Assumptions wrapped_key_binds.

Theorem tuple_input_injective : tuple_input_injective_stmt.
Proof. exact tuple_input_injective_proof. Qed.
Check tuple_input_injective : forall xs ys : list bytes, tuple_input xs = tuple_input ys -> xs = ys.
Print Assumptions tuple_input_injective.

Theorem c36_sites :
  site_wrap_ad = ("DefaultEngine", "", ["T::ID"; "id"])%string
  /\ site_unwrap_ad = ("DefaultEngine", "", ["T::ID"; "key.id"])%string
  /\ unwrap_match_arms = [("Aead", "Aead"); ("Decap", "Decap"); ("Mac", "Mac"); ("Prk", "Prk"); ("Seed", "Seed"); ("Signing", "Signing")]%string
  /\ alg_id_variants = ["Aead"; "Decap"; "Mac"; "Prk"; "Seed"; "Signing"]%string.
Proof. pose proof sites_pinned. tauto. Qed.
Check c36_sites :
  site_wrap_ad = ("DefaultEngine", "", ["T::ID"; "id"])%string
  /\ site_unwrap_ad = ("DefaultEngine", "", ["T::ID"; "key.id"])%string
  /\ unwrap_match_arms = [("Aead", "Aead"); ("Decap", "Decap"); ("Mac", "Mac"); ("Prk", "Prk"); ("Seed", "Seed"); ("Signing", "Signing")]%string
  /\ alg_id_variants = ["Aead"; "Decap"; "Mac"; "Prk"; "Seed"; "Signing"]%string.
Print Assumptions c36_sites.
