(** C43 — the shared-memory mutex is exclusive and loses no wake-ups.
    Every theorem quantifies over every number of threads ([ns] gives the number
    of acquisitions of each), and every schedule [sched] (any length; spurious
    wake-ups are schedule events) of the sequentially consistent interleaving
    model [model/Mutex.v] of [Mutex::sys_lock]/[sys_unlock] (Linux futex path). *)
From Coq Require Import String.
From Aranya Require Import base.Tactics base.Interleave gen.GenConc model.Mutex proofs.MutexProofs
  proofs.MutexBounded proofs.MutexCasProofs.
Open Scope N_scope.

Theorem mutex_exclusive : mutex_exclusive_stmt.
Proof. exact mutex_exclusive_proof. Qed.
Check mutex_exclusive :
  forall (ns : list nat) (sched : list event) (t1 t2 : nat) (l1 l2 : local),
  let g := mrun sched (init ns) in
  at_ g t1 l1 -> at_ g t2 l2 ->
  holdingb (lpc l1) = true -> holdingb (lpc l2) = true -> t1 = t2.
Print Assumptions mutex_exclusive.

Theorem mutex_word : mutex_word_stmt.
Proof. exact mutex_word_proof. Qed.
Check mutex_word :
  forall (ns : list nat) (sched : list event),
  let g := mrun sched (init ns) in
  (key (sh g) = 0 \/ key (sh g) = 1 \/ key (sh g) = 2)
  /\ (key (sh g) = 0 <-> forall t l, at_ g t l -> holdingb (lpc l) = false).
Print Assumptions mutex_word.

Theorem no_lost_wakeup : no_lost_wakeup_stmt.
Proof. exact no_lost_wakeup_proof. Qed.
Check no_lost_wakeup :
  forall (ns : list nat) (sched : list event),
  let g := mrun sched (init ns) in
  (exists t l, at_ g t l /\ asleepb t l (sh g) = true) ->
  key (sh g) = mutex_sleeping
  \/ exists u lu, at_ g u lu /\ carrierb u lu (sh g) = true.
Print Assumptions no_lost_wakeup.

Theorem no_stuck_state : no_stuck_state_stmt.
Proof. exact no_stuck_state_proof. Qed.
Check no_stuck_state :
  forall (ns : list nat) (sched : list event),
  let g := mrun sched (init ns) in
  (exists t l, at_ g t l /\ finishedb (lpc l) = false) ->
  exists t c, enabled tid_of step (Run t c) g = true.
Print Assumptions no_stuck_state.

Theorem unlock_never_bugs : unlock_never_bugs_stmt.
Proof. exact unlock_never_bugs_proof. Qed.
Check unlock_never_bugs :
  forall (ns : list nat) (sched : list event) (t : nat) (l : local),
  at_ (mrun sched (init ns)) t l -> lpc l <> PBug.
Print Assumptions unlock_never_bugs.

Theorem waitset_sound : waitset_sound_stmt.
Proof. exact waitset_sound_proof. Qed.
Check waitset_sound :
  forall (ns : list nat) (sched : list event) (t : nat),
  let g := mrun sched (init ns) in
  In t (waitset (sh g)) -> exists l, at_ g t l /\ lpc l = PSleeping.
Print Assumptions waitset_sound.

Theorem free_lock_acquirable : free_lock_acquirable_stmt.
Proof. exact free_lock_acquirable_proof. Qed.
Check free_lock_acquirable :
  forall (g : mstate) (t : nat) (l : local),
  at_ g t l -> key (sh g) = 0 -> lockingb (lpc l) = true -> asleepb t l (sh g) = false ->
  exists k l', (k <= 3)%nat /\ at_ (mrun (solo t k) g) t l' /\ holdingb (lpc l') = true.
Print Assumptions free_lock_acquirable.

(** "Eventually acquires", possibility form: from every reachable state every
    thread inside [sys_lock] (spinning, about to sleep, or asleep in the futex
    queue) has a continuation without any spurious wake-up in which it holds
    the lock.  (Under a strongly fair scheduler of this finite-state system this
    is what "eventually" amounts to; see level_note.) *)
Theorem acquire_possible : acquire_possible_stmt.
Proof. exact acquire_possible_proof. Qed.
Check acquire_possible :
  forall (ns : list nat) (sched : list event) (t : nat) (l : local),
  let g := mrun sched (init ns) in
  at_ g t l -> lockingb (lpc l) = true ->
  exists sched',
    Forall (fun e => match e with Run _ _ => True | Spur _ => False end) sched'
    /\ exists l', at_ (mrun sched' g) t l' /\ holdingb (lpc l') = true.
Print Assumptions acquire_possible.

(** Bounded liveness (finite domain, bound in the statement): 2 threads x 1 or 2
    acquisitions and 3 threads x 1 acquisition; the reachable state sets (219,
    2903 and 13222 states) are enumerated and proved closed under every event. *)
Theorem rr_terminates_bounded : rr_terminates_bounded_stmt.
Proof. exact rr_terminates_bounded_proof. Qed.
Check rr_terminates_bounded :
  forall (ns : list nat), In ns [[1; 1]; [2; 2]; [1; 1; 1]]%nat ->
  forall (sched : list event), rr_done 20 (mrun sched (init ns)) = true.
Print Assumptions rr_terminates_bounded.

(** The CAS-only fallback ([cas_mutex] feature, no libc, or another OS): its own
    small model [cstep]; exclusion, word = 0 iff free, and no thread is ever blocked. *)
Theorem cas_mutex_exclusive : cas_mutex_exclusive_stmt.
Proof. exact cas_mutex_exclusive_proof. Qed.
Check cas_mutex_exclusive :
  forall (ns : list nat) (sched : list nat),
  let g := crun sched (cinit ns) in
  (forall t1 l1 t2 l2, at_ g t1 l1 -> at_ g t2 l2 ->
     choldingb (cpc_of l1) = true -> choldingb (cpc_of l2) = true -> t1 = t2)
  /\ (ckey (sh g) = 0 <-> forall t l, at_ g t l -> choldingb (cpc_of l) = false)
  /\ (forall t l, at_ g t l -> cpc_of l <> CDone -> enabled (fun t : nat => t) cstep t g = true).
Print Assumptions cas_mutex_exclusive.

(** Model assumption made checkable: the futex shim of the replay stands for a
    process-shared futex on the key word — the system-call sites of mutex.rs,
    regenerated from the source on every run, carry no private flag and address [key]. *)
Theorem futex_shared_on_key : futex_shared_on_key_stmt.
Proof. exact futex_shared_on_key_proof. Qed.
Check futex_shared_on_key :
  futex_calls =
  [("sys_lock", "futex_wait", ["&self.key"; "Self::MUTEX_SLEEPING"]);
   ("sys_unlock", "futex_wake", ["&self.key"; "1"]);
   ("futex", "syscall", ["SYS_futex"; "uaddr"; "futex_op"; "val"; "timeout"; "uaddr2"; "val3"]);
   ("futex_wait", "futex", ["ptr::from_ref::<AtomicU32>(uaddr)"; "FUTEX_WAIT"; "val"; "ptr::null_mut()"; "ptr::null_mut()"; "0"]);
   ("futex_wake", "futex", ["ptr::from_ref::<AtomicU32>(uaddr)"; "FUTEX_WAKE"; "cnt"; "ptr::null_mut()"; "ptr::null_mut()"; "0"]);
   ("futex_wait", "__ulock_wait", ["UL_COMPARE_AND_WAIT|ULF_NO_ERRNO"; "ptr::from_ref::<AtomicU32>(addr).cast::<u32>().cast_mut().cast::<c_void>()"; "u64::from(val)"; "0"]);
   ("futex_wake", "__ulock_wake", ["UL_COMPARE_AND_WAIT|ULF_NO_ERRNO"; "ptr::from_ref::<AtomicU32>(addr).cast::<u32>().cast_mut().cast::<c_void>()"; "u64::from(cnt)"])]%string
  /\ futex_libc_imports = ["FUTEX_WAIT"; "FUTEX_WAKE"; "SYS_futex"; "c_int"; "syscall"; "timespec"]%string
  /\ ulock_consts = ["UL_COMPARE_AND_WAIT=1"; "ULF_NO_ERRNO=0x01000000"]%string.
Print Assumptions futex_shared_on_key.
