(** C39 — AFC messages are authenticated and opening never panics. *)
From Coq Require Import String.
From Aranya Require Import base.Tactics gen.GenAfc model.AfcClient proofs.AfcClientProofs.
Local Open Scope N_scope.

(** Totality: every byte string, destination, channel state and build mode. *)
Theorem afc_open_total : afc_open_total_stmt.
Proof. exact afc_open_total_proof. Qed.
Check afc_open_total :
  forall K TAG aead_open garbage m (c : chan K),
    (forall dst input, is_panic (fst (open K TAG aead_open m c dst input)) = false)
    /\ (forall data, is_panic (fst (open_in_place K TAG aead_open garbage m c data)) = false).
Print Assumptions afc_open_total.

Theorem afc_seal_total : afc_seal_total_stmt.
Proof. exact afc_seal_total_proof. Qed.
Check afc_seal_total :
  forall K TAG aead_seal m (c : chan K),
    (forall dst pt, is_panic (fst (fst (seal K TAG aead_seal m c dst pt))) = false)
    /\ (forall data, buf_wf data -> TAG + data_header_size <= isize_max ->
          is_panic (fst (fst (seal_in_place K TAG aead_seal m c data))) = false).
Print Assumptions afc_seal_total.

(** Round trip through both interfaces, in all four combinations. *)
Theorem afc_roundtrip : afc_roundtrip_stmt.
Proof. exact afc_roundtrip_proof. Qed.
Check afc_roundtrip :
  forall K TAG aead_seal aead_open garbage, aead_ideal K TAG aead_seal aead_open garbage ->
  forall m m' (cs co : chan K),
    c_key K co = c_key K cs -> c_nonce K co = c_nonce K cs -> c_label K co = c_label K cs ->
    c_live K co = true ->
    (forall dst pt h dst' cs',
       seal K TAG aead_seal m cs dst pt = (Ok h, dst', cs') ->
       h = data_header /\ cs' = chan_next K cs /\
       let w := firstn (N.to_nat (len pt + OVERHEAD TAG)) dst' in
       skipn (N.to_nat (len pt + OVERHEAD TAG)) dst' = skipn (N.to_nat (len pt + OVERHEAD TAG)) dst
       /\ (forall dst2, len pt <= len dst2 ->
             open K TAG aead_open m' co dst2 w
             = (Ok (c_label K cs, c_seq K cs), pt ++ skipn (length pt) dst2))
       /\ (forall data, vis data = w ->
             exists data', open_in_place K TAG aead_open garbage m' co data
                           = (Ok (c_label K cs, c_seq K cs), data')
                           /\ vis data' = pt /\ kind data' = kind data))
    /\ (forall data h data' cs',
       buf_wf data -> TAG + data_header_size <= isize_max ->
       seal_in_place K TAG aead_seal m cs data = (Ok h, data', cs') ->
       h = data_header /\ cs' = chan_next K cs /\ kind data' = kind data
       /\ (forall dst2, len (vis data) <= len dst2 ->
             open K TAG aead_open m' co dst2 (vis data')
             = (Ok (c_label K cs, c_seq K cs), vis data ++ skipn (length (vis data)) dst2))
       /\ (forall d2, vis d2 = vis data' ->
             exists d2', open_in_place K TAG aead_open garbage m' co d2
                         = (Ok (c_label K cs, c_seq K cs), d2')
                         /\ vis d2' = vis data /\ kind d2' = kind d2)).
Print Assumptions afc_roundtrip.

Theorem afc_seal_succeeds : afc_seal_succeeds_stmt.
Proof. exact afc_seal_succeeds_proof. Qed.
Check afc_seal_succeeds :
  forall K TAG aead_seal aead_open garbage, aead_ideal K TAG aead_seal aead_open garbage ->
  forall m (c : chan K) n,
    c_live K c = true ->
    compute_nonce (c_nonce K c) (c_seq K c) = Some n ->
    (forall dst pt ct tag,
       aead_seal (c_key K c) n (ad_bytes (c_label K c)) pt = Some (ct, tag) ->
       len pt + OVERHEAD TAG <= len dst -> len dst <= usize_max ->
       exists dst', seal K TAG aead_seal m c dst pt = (Ok data_header, dst', chan_next K c))
    /\ (forall data ct tag,
       aead_seal (c_key K c) n (ad_bytes (c_label K c)) (vis data) = Some (ct, tag) ->
       buf_wf data -> TAG + data_header_size <= isize_max ->
       buf_try_reserve_exact m data (OVERHEAD TAG) = Ok tt ->
       exists data', seal_in_place K TAG aead_seal m c data = (Ok data_header, data', chan_next K c)).
Print Assumptions afc_seal_succeeds.

(** Authenticity: only exact sealings under this channel's key, label and the
    header's sequence number are accepted. *)
Theorem afc_open_authentic : afc_open_authentic_stmt.
Proof. exact afc_open_authentic_proof. Qed.
Check afc_open_authentic :
  forall K TAG aead_seal aead_open garbage, aead_ideal K TAG aead_seal aead_open garbage ->
  forall m (c : chan K),
    (forall dst input lbl seq dst',
       bytes_ok input ->
       open K TAG aead_open m c dst input = (Ok (lbl, seq), dst') ->
       exists pt ct tag n,
         compute_nonce (c_nonce K c) seq = Some n
         /\ aead_seal (c_key K c) n (ad_bytes (c_label K c)) pt = Some (ct, tag)
         /\ input = ct ++ tag ++ le_bytes 8 seq
         /\ lbl = c_label K c /\ c_live K c = true
         /\ dst' = pt ++ skipn (length pt) dst)
    /\ (forall data lbl seq data',
       bytes_ok (vis data) ->
       open_in_place K TAG aead_open garbage m c data = (Ok (lbl, seq), data') ->
       exists pt ct tag n,
         compute_nonce (c_nonce K c) seq = Some n
         /\ aead_seal (c_key K c) n (ad_bytes (c_label K c)) pt = Some (ct, tag)
         /\ vis data = ct ++ tag ++ le_bytes 8 seq
         /\ lbl = c_label K c /\ c_live K c = true
         /\ vis data' = pt /\ kind data' = kind data).
Print Assumptions afc_open_authentic.

(** Foreign ciphertexts: what another channel end sealed opens only under the
    same key, nonce and label. *)
Theorem afc_foreign_rejected : afc_foreign_rejected_stmt.
Proof. exact afc_foreign_rejected_proof. Qed.
Check afc_foreign_rejected :
  forall K TAG aead_seal aead_open garbage, aead_ideal K TAG aead_seal aead_open garbage ->
  (forall k n ad pt k' n' ad' pt' c,
     aead_seal k n ad pt = Some c -> aead_seal k' n' ad' pt' = Some c -> k = k' /\ n = n' /\ ad = ad' /\ pt = pt') ->
  forall m m' (cs co : chan K) dst pt h dst' cs' dst2 lbl seq out,
    seal K TAG aead_seal m cs dst pt = (Ok h, dst', cs') ->
    bytes_ok dst' ->
    open K TAG aead_open m' co dst2 (firstn (N.to_nat (len pt + OVERHEAD TAG)) dst') = (Ok (lbl, seq), out) ->
    c_key K co = c_key K cs /\ c_label K co = c_label K cs /\ seq = c_seq K cs /\ lbl = c_label K cs
    /\ compute_nonce (c_nonce K co) seq = compute_nonce (c_nonce K cs) (c_seq K cs)
    /\ out = pt ++ skipn (length pt) dst2.
Print Assumptions afc_foreign_rejected.

(** On error the destination is untouched or all zeros. *)
Theorem afc_open_err_clean : afc_open_err_clean_stmt.
Proof. exact afc_open_err_clean_proof. Qed.
Check afc_open_err_clean :
  forall K TAG aead_open garbage,
    (forall k n ad ct tag, length (garbage k n ad ct tag) = length ct) ->
    forall m (c : chan K),
      (forall dst input e dst',
         open K TAG aead_open m c dst input = (Err e, dst') -> dst' = dst \/ dst' = zeros (length dst))
      /\ (forall data e data',
         open_in_place K TAG aead_open garbage m c data = (Err e, data') ->
         data' = data \/ (kind data' = kind data /\ spare data' = spare data
                          /\ vis data' = zeros (length (vis data)))).
Print Assumptions afc_open_err_clean.

(** Header codecs. *)
Theorem afc_header_roundtrip : afc_header_roundtrip_stmt.
Proof. exact afc_header_roundtrip_proof. Qed.
Check afc_header_roundtrip :
  (forall m h out, len out = header_size ->
     exists enc, header_encode m h out = Ok enc /\ len enc = header_size /\ header_try_parse m enc = Ok h)
  /\ (forall m seq out, seq <= u64_max -> len out = data_header_size ->
     exists enc, data_header_encode m seq out = Ok enc /\ len enc = data_header_size
                 /\ data_header_try_parse m enc = Ok seq)
  /\ (forall m buf, len buf = header_size -> is_panic (header_try_parse m buf) = false)
  /\ (forall m buf, len buf = data_header_size -> is_panic (data_header_try_parse m buf) = false)
  /\ (forall m buf, is_panic (message_try_parse m buf) = false).
Print Assumptions afc_header_roundtrip.

(** Every panic-capable site of client.rs, header.rs, buf.rs, afc/keys.rs
    (regenerated from the source) is accounted for by the model. *)
Theorem ledger_complete : ledger_complete_stmt.
Proof. exact ledger_complete_proof. Qed.
Check ledger_complete : forallb site_known all_generated_sites = true.
Print Assumptions ledger_complete.

(** The codec shapes and zeroize/check inventory the model transcribes. *)
Theorem afc_layout : afc_version_current = "V1"%string /\ afc_client_open_in_place_zeroizes = ["data"%string]
  /\ afc_client_open_zeroizes = ["dst"%string]
  /\ afc_client_open_in_place_checked_ops = ["split_last_chunk_mut"; "checked_sub"; "split_at_mut_checked"; "truncate"]%string.
Proof. pose proof afc_layout_pinned. tauto. Qed.
Check afc_layout : afc_version_current = "V1"%string /\ afc_client_open_in_place_zeroizes = ["data"%string]
  /\ afc_client_open_zeroizes = ["dst"%string]
  /\ afc_client_open_in_place_checked_ops = ["split_last_chunk_mut"; "checked_sub"; "split_at_mut_checked"; "truncate"]%string.
Print Assumptions afc_layout.

(** F5 (repaired in /repo): the original [open_in_place] panicked. *)
Theorem open_in_place_orig_refuted : open_in_place_orig_refuted_stmt.
Proof. exact open_in_place_orig_refuted_proof. Qed.
Check open_in_place_orig_refuted :
  exists (data : buf),
    forall K aead_open garbage (c : chan K),
      is_panic (fst (open_in_place_orig K 16 aead_open garbage dev_mode c data)) = true.
Print Assumptions open_in_place_orig_refuted.
