(** C33 — shared text storage is memory safe across threads.
    All theorems quantify over every number of threads ([n]+1) and every
    schedule (any length, any interleaving of clone / read / drop / hand-over
    by threads that own a handle) of the interleaving model [model/ArcStr.v]
    of [repr.rs]'s [arc::ArcStr]. *)
From Aranya Require Import base.Tactics base.Interleave gen.GenConc model.ArcStr proofs.ArcStrProofs.

Theorem refcount_is_handles : refcount_is_handles_stmt.
Proof. exact refcount_is_handles_proof. Qed.
Check refcount_is_handles :
  forall (n : nat) (sched : list aevent),
  let g := arun sched (ainit n) in
  strong (sh g) = N.of_nat (ahandles g + leaked (sh g))
  /\ (leaked (sh g) = 0 -> strong (sh g) = N.of_nat (ahandles g)).
Print Assumptions refcount_is_handles.

Theorem no_read_after_free : no_read_after_free_stmt.
Proof. exact no_read_after_free_proof. Qed.
Check no_read_after_free :
  forall (n : nat) (sched : list aevent),
  let g := arun sched (ainit n) in
  auaf (sh g) = false
  /\ forall t l, at_ g t l ->
     (apc_of l = AClone \/ apc_of l = ARead \/ apc_of l = ADrop) -> afreed (sh g) = 0.
Print Assumptions no_read_after_free.

Theorem freed_at_most_once : freed_at_most_once_stmt.
Proof. exact freed_at_most_once_proof. Qed.
Check freed_at_most_once :
  forall (n : nat) (sched : list aevent),
  let g := arun sched (ainit n) in
  afreed (sh g) <= 1 /\ (1 <= ahandles g -> afreed (sh g) = 0).
Print Assumptions freed_at_most_once.

Theorem no_overflow : no_overflow_stmt.
Proof. exact no_overflow_proof. Qed.
Check no_overflow :
  forall (n : nat) (sched : list aevent),
  (forall k, (N.of_nat (ahandles (arun (firstn k sched) (ainit n))) <= max_refcount)%N) ->
  leaked (sh (arun sched (ainit n))) = 0.
Print Assumptions no_overflow.

Theorem no_leak : no_leak_stmt.
Proof. exact no_leak_proof. Qed.
Check no_leak :
  forall (n : nat) (sched : list aevent),
  let g := arun sched (ainit n) in
  small n sched -> aquiescent g -> afreed (sh g) = 1.
Print Assumptions no_leak.
