(** C10 — a graph is bound to its init command *)
From Aranya Require Import base.Tactics model.Dag model.Txn proofs.TxnGraph proofs.TxnInv proofs.TxnProps proofs.TxnExamples.
From Coq Require Import Sorted.

Theorem init_binding : forall facts fempty eval has_policy merge_id facts_effs braid libc gid,
  init_binding_stmt facts fempty eval has_policy merge_id facts_effs braid libc gid.
Proof. exact init_binding_proof. Qed.
Check init_binding :
  forall (facts : Type) (fempty : facts) (eval : cmd -> facts -> outcome facts) (has_policy : cmd -> bool)
         (merge_id : N -> N -> N) (facts_effs : facts -> list eff)
         (braid : list (wcmd facts) -> list N -> bres facts) (libc : bool) (gid : N),
  
  (forall t, (add_commands facts fempty eval has_policy braid libc gid) None t [] = (None, t, [], RErr EInitError))
  /\ (forall t c rest, cid c <> gid \/ cpar c <> PNone \/ has_policy c = false ->
        (add_commands facts fempty eval has_policy braid libc gid) None t (c :: rest) = (None, t, [], RErr EInitError))
  /\ (forall t c rest e d effs, cid c = gid -> cpar c = PNone -> has_policy c = true ->
        eval c fempty = Fail e d effs ->
        (add_commands facts fempty eval has_policy braid libc gid) None t (c :: rest) = (None, t, SBegin :: consumes effs ++ [SRollback], RErr (EPolicy e)))
  /\ (forall t c rest f effs, cid c = gid -> cpar c = PNone -> has_policy c = true ->
        eval c fempty = Accept f effs ->
        exists s0, sW s0 = [(init_entry facts) c f] /\ sheads s0 = [gid] /\ scache s0 = f /\
        (add_commands facts fempty eval has_policy braid libc gid) None t (c :: rest) =
          (let '(s1, t1, l, r) := (add_loop facts eval braid gid) s0 (capture s0 t) rest 1 (SBegin :: consumes effs ++ [SCommit]) in
           (Some s1, t1, l, r)))
  
  /\ (forall s t c rest n l, cpar c = PNone -> cid c = gid ->
        (add_loop facts eval braid gid) s t (c :: rest) n l = (add_loop facts eval braid gid) s t rest n l)
  /\ (forall s t c rest n l, cpar c = PNone -> cid c <> gid ->
        match tpersp t with Some p => includes p (cid c) | None => false end = false ->
        locate s t (cid c) = false ->
        (add_loop facts eval braid gid) s t (c :: rest) n l = (s, t, l, RErr EInitError))
  
  /\ (forall ops, (rclash facts) ((run facts fempty eval has_policy merge_id facts_effs braid libc gid) r0 ops) = false ->
      match rstore ((run facts fempty eval has_policy merge_id facts_effs braid libc gid) r0 ops) with
      | None => True
      | Some s => exists w0 pre, sW s = pre ++ [w0] /\ wid w0 = gid /\ cpar (wc w0) = PNone
                  /\ forall w, In w pre -> cpar (wc w) <> PNone
      end).
Print Assumptions init_binding.
