(** C20 — peer caches only record what the peer really has. *)
From Aranya Require Import base.Tactics gen.GenQueue model.TravQueue model.SegStore model.PeerCache
  proofs.SegStoreGraph proofs.SegStoreSearch proofs.SegStoreWrite proofs.SegStoreTop proofs.PeerCacheProofs.

(** [cache_inv]: at most PEER_HEAD_MAX (= 10, generated) entries, each a
    committed command recorded with its true location, no entry an
    ancestor-or-equal of another.  It holds after every history of
    [add_command] calls and replica growth steps. *)
Theorem peercache_inv : peercache_inv_stmt.
Proof. exact peercache_inv_proof. Qed.
Check peercache_inv :
  forall st hs pc, cache_hist st hs pc -> replica_ok st hs /\ cache_inv st hs pc.
Print Assumptions peercache_inv.

(** One call: never fails, follows the documented rules, keeps the invariant. *)
Theorem add_command_correct : add_command_correct_stmt.
Proof. exact add_command_correct_proof. Qed.
Check add_command_correct :
  forall st hs pc id mc,
    replica_ok st hs -> cache_inv st hs pc ->
    exists pc', add_command st hs pc id mc = ROk pc'
      /\ add_command_spec st hs pc id mc pc'
      /\ cache_inv st hs pc'.
Print Assumptions add_command_correct.

(** the pieces, written out *)
Check (eq_refl : cache_inv = fun st hs pc =>
  (N.of_nat (length pc) <= PEER_HEAD_MAX)%N
  /\ (forall e, In e pc -> committed st hs e)
  /\ antichain st pc).
Check (eq_refl : add_command_spec = fun st hs pc id mc pc' =>
  ((forall l, from_heads st hs l -> ~ holds st l id mc) /\ pc' = pc)
  \/ exists l, from_heads st hs l /\ holds st l id mc /\
     (   ((exists e, In e pc /\ reach st (snd e) l) /\ pc' = pc)
      \/ ((forall e, In e pc -> ~ reach st (snd e) l) /\
          exists f, (forall e, In e pc -> (f e = false <-> (reach st l (snd e) /\ snd e <> l)))
            /\ pc' = filter f pc ++ (if (N.of_nat (length (filter f pc)) <? PEER_HEAD_MAX)%N then [(id, l)] else [])))).
