(** C19 — hello notifications never suppress a needed sync. *)
From Aranya Require Import base.Tactics model.Dag model.Wire model.SyncHello proofs.BraidDag proofs.SyncHelloProofs.
Local Open Scope N_scope.

(** [should_sync_on_hello] answers "no" only for the receiver's own hello head
    or for an address it has committed; and when that address is the
    advertiser's hello head, every command the advertiser has committed is
    committed at the receiver — up to merge commands the receiver holds only
    virtually (it has both parents; see F13) — and strictly so when the address
    is committed at the receiver.  [merge_id] is the hash deriving a merge
    command's id: injectivity and "a command with such an id is that merge"
    are hypotheses ([merge_hyps]). *)
Theorem hello_no_false_negative : hello_no_false_negative_stmt.
Proof. exact hello_no_false_negative_proof. Qed.
Check hello_no_false_negative :
  forall (merge_id : N -> N -> N) (g : graph) (hs_r hs_p : list N) (a : addr),
  merge_hyps merge_id g -> heads_ok g hs_r -> heads_ok g hs_p ->
  should_sync merge_id (Some (g, hs_r)) a = Some false ->
  (hello_head merge_id g hs_r = Some a \/ has_addr g hs_r a = true) /\
  (hello_head merge_id g hs_p = Some a ->
   (forall x, cm g hs_p x -> mclose g (cm g hs_r) x) /\
   (has_addr g hs_r a = true -> forall x, cm g hs_p x -> cm g hs_r x)).
Print Assumptions hello_no_false_negative.

(** Replicas holding the same head set compute the same hello head; a replica
    that lacks the graph always decides to sync. *)
Theorem hello_basics : hello_basics_stmt.
Proof. exact hello_basics_proof. Qed.
Check hello_basics :
  (forall merge_id g hs1 hs2, hs1 = hs2 -> hello_head merge_id g hs1 = hello_head merge_id g hs2) /\
  (forall merge_id a, should_sync merge_id None a = Some true).
Print Assumptions hello_basics.

(** The strict reading ("every command of the advertiser is committed at the
    receiver") fails when the advertiser's single head is a materialised merge
    of exactly the receiver's unmerged heads: the merge command itself is
    missing at the receiver (finding F13; only payload-free merge commands can
    be missing, by the theorem above). *)
Theorem hello_strict_refuted : hello_strict_refuted_stmt.
Proof. exact hello_strict_refuted_proof. Qed.
Check hello_strict_refuted :
  exists (merge_id : N -> N -> N) (g : graph) (hs_r hs_p : list N) (a : addr),
    merge_hyps merge_id g /\ heads_ok g hs_r /\ heads_ok g hs_p /\
    hello_head merge_id g hs_p = Some a /\
    should_sync merge_id (Some (g, hs_r)) a = Some false /\
    exists x, cm g hs_p x /\ ~ cm g hs_r x /\ (exists c, In c g /\ cid c = x /\ cprio c = PMerge).
Print Assumptions hello_strict_refuted.
