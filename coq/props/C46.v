(** C46 — IDs round-trip through text and serde. *)
From Aranya Require Import base.Tactics gen.GenB58 model.B58 proofs.B58Proofs.
Open Scope N_scope.

(** Every 32-byte id prints as 44 base58 characters that parse back to the same id. *)
Theorem id_text_roundtrip : id_text_roundtrip_stmt.
Proof. exact id_text_roundtrip_proof. Qed.
Check id_text_roundtrip :
  forall b, is_id b ->
  exists s, id_to_base58 b = EOk s
            /\ length s = 44%nat /\ in_alphabet s /\ dval s = beval 256 b
            /\ id_from_str s = Ok b /\ id_decode s = Ok b.
Print Assumptions id_text_roundtrip.

(** The same for all numbers below 2^256. *)
Theorem b58_roundtrip : b58_roundtrip_stmt.
Proof. exact b58_roundtrip_proof. Qed.
Check b58_roundtrip :
  forall x, x < 2 ^ 256 ->
  exists s, encode32 (be_bytes 32 x) = EOk s /\ length s = 44%nat /\ in_alphabet s
            /\ dval s = x /\ decode32 s = Ok (be_bytes 32 x).
Print Assumptions b58_roundtrip.

(** [decode]/[FromStr] on every byte string, every rejection path. *)
Theorem id_decode_spec : id_decode_spec_stmt.
Proof. exact id_decode_spec_proof. Qed.
Check id_decode_spec :
  forall s, id_decode s =
            if all_valid s && (dval s <? 2 ^ 256) then Ok (be_bytes 32 (dval s)) else Err BadInput.
Print Assumptions id_decode_spec.

(** Parsing any text fails cleanly (never [Bug], never a panic) or yields the id it encodes. *)
Theorem id_parse_sound : id_parse_sound_stmt.
Proof. exact id_parse_sound_proof. Qed.
Check id_parse_sound :
  forall s,
  (id_from_str s = Err BadInput /\ ((exists c, In c s /\ ~ In c ALPHABET) \/ 2 ^ 256 <= dval s))
  \/ (exists b, id_from_str s = Ok b /\ is_id b /\ in_alphabet s /\ beval 256 b = dval s /\ dval s < 2 ^ 256).
Print Assumptions id_parse_sound.

Theorem id_display_canonical : id_display_canonical_stmt.
Proof. exact id_display_canonical_proof. Qed.
Check id_display_canonical :
  forall b s s', is_id b -> id_to_base58 b = EOk s ->
  length s' = 44%nat -> in_alphabet s' -> dval s' = beval 256 b -> s' = s.
Print Assumptions id_display_canonical.

Theorem id_display_injective : id_display_injective_stmt.
Proof. exact id_display_injective_proof. Qed.
Check id_display_injective :
  forall b1 b2 s, is_id b1 -> is_id b2 -> id_to_base58 b1 = EOk s -> id_to_base58 b2 = EOk s -> b1 = b2.
Print Assumptions id_display_injective.

(** Serialize then deserialize is the identity in the human-readable and the binary forms. *)
Theorem serde_roundtrip : serde_roundtrip_stmt.
Proof. exact serde_roundtrip_proof. Qed.
Check serde_roundtrip :
  forall b, is_id b ->
  (exists s, id_serialize true b = EOk (PStr s) /\ id_to_base58 b = EOk s
             /\ id_deserialize true (PStr s) = DOk b)
  /\ id_serialize false b = EOk (PBytes b)
  /\ id_deserialize false (PBytes b) = DOk b
  /\ id_deserialize false (PSeq b) = DOk b
  /\ pc_serialize b = EOk (32 :: b)
  /\ forall rest, pc_deserialize (32 :: b ++ rest) = PcOk b.
Print Assumptions serde_roundtrip.

(** Wrong lengths and wrong payload kinds are rejected; whatever is accepted is the payload's id. *)
Theorem serde_reject : serde_reject_stmt.
Proof. exact serde_reject_proof. Qed.
Check serde_reject :
  (forall v, length v <> 32%nat -> id_deserialize false (PBytes v) = DErr (InvalidLength (len v)))
  /\ (forall l, (length l < 32)%nat -> id_deserialize false (PSeq l) = DErr (InvalidLength (len l)))
  /\ (forall p b, id_deserialize false p = DOk b ->
        length b = 32%nat /\ (p = PBytes b \/ exists rest, p = PSeq (b ++ rest)))
  /\ (forall p b, id_deserialize true p = DOk b -> exists s, p = PStr s /\ id_from_str s = Ok b)
  /\ (forall p, id_deserialize true p <> DErr Custom)
  /\ (forall buf b, pc_deserialize buf = PcOk b ->
        length b = 32%nat /\ exists rest, take_varint 10 0 0 buf = inl (Some (32, b ++ rest))).
Print Assumptions serde_reject.
