(** C27 — policy front ends are total (panic-site granularity; proof (partial)). *)
From Coq Require Import String List NArith.
From Aranya Require Import model.PegSyntax model.ShapeRe model.Frontend
  proofs.ShapeReProofs proofs.FrontendShape proofs.FrontendFacts proofs.FrontendSites
  gen.GenGrammar gen.GenFrontendSites
  model.FrontMatterSyntax model.FrontMatter proofs.FrontMatterProofs gen.GenFrontMatter.
Import ListNotations.

(** Every panic-capable site of the current source has a ledger row, and every row is either
    proved (grammar shape / local model / audited type-level reason) or explicitly fuzz-only. *)
Theorem frontend_sites_discharged_partial : frontend_sites_discharged_partial_stmt.
Proof. exact frontend_sites_discharged_partial_proof. Qed.
Check frontend_sites_discharged_partial :
  ledger_complete = true /\
  Forall (fun s => site_proved s \/ site_fuzz_only s) frontend_sites.
Print Assumptions frontend_sites_discharged_partial.

(** The full statement, kept visible; it is NOT proved: [fuzz_only_sites] is not empty. *)
Check frontend_sites_discharged_full_stmt : Prop.
Check (eq_refl : frontend_sites_discharged_full_stmt = Forall site_proved frontend_sites).

(** The pair-tree facts the tree walker relies on hold of every forest the generated grammar can emit. *)
Theorem parser_shape_facts_hold : parser_shape_facts_stmt.
Proof. exact parser_shape_facts_proof. Qed.
Check parser_shape_facts_hold : Forall gfact_holds parser_shape_facts.
Print Assumptions parser_shape_facts_hold.

(** The shape analysis is sound for every grammar: whatever forest a parse started at rule [n]
    can emit, its root sequence is accepted by [top_shape] and every node's child sequence by
    [children_shape] of its rule (this is what the correspondence run tests against pest). *)
Theorem shape_analysis_sound : shape_analysis_sound_stmt.
Proof. exact shape_analysis_sound_proof. Qed.
Check shape_analysis_sound :
  forall (G : list rule) (n : string) (ts : list tree),
    emits G ANon (Ref n) ts ->
    matches (top_shape G n) (map root ts) = true
    /\ forallb (tree_all (fun r w => matches (children_shape G r) w)) ts = true.
Print Assumptions shape_analysis_sound.

(** The guard in front of the Markdown parser ([has_unterminated_front_matter], whose trim set and
    fence literals are regenerated into gen/GenFrontMatter.v and pinned) recognises a closing fence
    exactly when markdown-rs does: three marker characters, then spaces / tabs only. *)
Theorem front_matter_guard_exact : front_matter_guard_exact_stmt.
Proof. exact front_matter_guard_exact_proof. Qed.
Check front_matter_guard_exact :
  forall (o line : text), In o fm_fences ->
    (fence fm_trim fm_fences line = Some o <-> md_closing_fence o line = true).
Print Assumptions front_matter_guard_exact.

Theorem guard_passes_only_closed : guard_passes_only_closed_stmt.
Proof. exact guard_passes_only_closed_proof. Qed.
Check guard_passes_only_closed :
  forall (data first : text) (rest : list text) (o : text),
    split_on fm_line_seps [] (skip_prefix fm_skip_prefix data) = first :: rest ->
    fence fm_trim fm_fences first = Some o ->
    has_unterminated_front_matter fm_trim fm_fences fm_line_seps fm_skip_prefix data = false ->
    exists ln, In ln rest /\ md_closing_fence o ln = true.
Print Assumptions guard_passes_only_closed.
