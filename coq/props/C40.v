(** C40 — AFC sequence numbers never repeat within a seal context; the
    in-memory state never hands out a second live seal context. *)
From Aranya Require Import base.Tactics base.Sched model.Shm model.MemAfc
  proofs.ShmLists proofs.ShmSteps proofs.ShmProofs proofs.ShmReaders proofs.ShmC41 proofs.MemProofs.

Theorem seq_contiguous : seq_contiguous_stmt.
Proof. exact seq_contiguous_proof. Qed.
Check seq_contiguous :
  forall (cap smax : N) (wp : list wop) (rps : list (list rop)) (sched : list nat) i r c,
  let g := runs sched (init cap smax wp rps) in
  nth_error (rts g) i = Some r ->
  let seqs := rev (seal_seqs c (rlog r)) in
  seqs = map N.of_nat (seq 0 (length seqs))
  /\ Forall (fun s => (s < smax)%N) seqs
  /\ (forall x k, nth_error (rctxs r) c = Some x -> xdir x = DSeal -> xcache x = Some k ->
        kseq k = N.of_nat (length seqs)).
Print Assumptions seq_contiguous.

Theorem seal_key_is_registered : seal_key_is_registered_stmt.
Proof. exact seal_key_is_registered_proof. Qed.
Check seal_key_is_registered :
  forall (cap smax : N) (wp : list wop) (rps : list (list rop)) (sched : list nat) i r c md c' fr key label cs,
  let g := runs sched (init cap smax wp rps) in
  nth_error (rts g) i = Some r ->
  rfin (seqmax g) (sh g) r (RSeal c md) (RSealed c' fr key label) cs ->
  exists x ch, nth_error (rctxs r) c = Some x /\ xdir x = DSeal
    /\ In ch (reg g) /\ cid ch = xid x /\ cdir ch = DSeal /\ ckey ch = key /\ clabel ch = label.
Print Assumptions seal_key_is_registered.

Theorem single_live_ctx : single_live_ctx_stmt.
Proof. exact single_live_ctx_proof. Qed.
Check single_live_ctx :
  forall (smax : N) (wp : list mop) (cps : list (list cop)) (sched : list nat) (id : N),
  let g := mruns sched (minit smax wp cps) in
  count_live id (mcs g) <= 1
  /\ forall i t d rest, nth_error (mcs g) i = Some t -> cprog t = CSetup d id :: rest ->
       count_live id (mcs g) = 1 ->
       forall t', nth_error (mcs (mstep (S i) g)) i = Some t' -> hd_error (clog t') = Some (CSetup d id, RNotFound).
Print Assumptions single_live_ctx.

Theorem mem_seq_contiguous : mem_seq_contiguous_stmt.
Proof. exact mem_seq_contiguous_proof. Qed.
Check mem_seq_contiguous :
  forall (smax : N) (wp : list mop) (cps : list (list cop)) (sched : list nat) c,
  let g := mruns sched (minit smax wp cps) in
  In c (cells g) ->
  let seqs := rev (chan_seqs (mid c) (mtrace g)) in
  seqs = map (fun i => (mseq0 c + N.of_nat i)%N) (seq 0 (length seqs))
  /\ Forall (fun s => (s < smax)%N) seqs
  /\ mseq c = (mseq0 c + N.of_nat (length seqs))%N.
Print Assumptions mem_seq_contiguous.
