(** C09 — the head set is exactly the frontier *)
From Aranya Require Import base.Tactics model.Dag model.Txn proofs.TxnGraph proofs.TxnInv proofs.TxnProps proofs.TxnExamples.
From Coq Require Import Sorted.

Theorem heads_are_frontier : forall facts fempty eval has_policy merge_id facts_effs braid libc gid,
  heads_are_frontier_stmt facts fempty eval has_policy merge_id facts_effs braid libc gid.
Proof. exact heads_are_frontier_proof. Qed.
Check heads_are_frontier :
  forall (facts : Type) (fempty : facts) (eval : cmd -> facts -> outcome facts) (has_policy : cmd -> bool)
         (merge_id : N -> N -> N) (facts_effs : facts -> list eff)
         (braid : list (wcmd facts) -> list N -> bres facts) (libc : bool) (gid : N),
  forall ops, (rclash facts) ((run facts fempty eval has_policy merge_id facts_effs braid libc gid) r0 ops) = false ->
  match rstore ((run facts fempty eval has_policy merge_id facts_effs braid libc gid) r0 ops) with
  | None => True
  | Some s =>
    StronglySorted N.lt (sheads s) /\ NoDup (sheads s)
    /\ (forall x, In x (sheads s) <-> In x (frontier ((committed_graph facts) s)))
    /\ (forall h, In h (sheads s) -> anc (sg (sW s)) gid h)
    /\ wf_graph ((committed_graph facts) s)
  end.
Print Assumptions heads_are_frontier.
