(** C13 — reverting to a checkpoint is exact. *)
From Aranya Require Import base.Tactics base.ListLex base.SortedAssoc model.Facts model.FactsWorld
     model.Session proofs.FactsPersp proofs.CheckpointGeneric proofs.SessionProofs proofs.C13Proofs.

Theorem revert_exact : revert_exact_stmt.
Proof. exact revert_exact_proof. Qed.
Check revert_exact :
  forall (pr : fprior) (max_cut : N) (parents : paddr) (ops1 ops2 : list (gop pwrite)),
  let run := grun persp checkpoint pwrite p_checkpoint p_revert p_stepw in
  let s1 := run (ginit persp checkpoint (p_new pr max_cut parents)) ops1 in
  let j := length (g_cps _ _ s1) in
  Forall (fun o => match o with GRevert _ i => (j <= i)%nat | _ => True end) ops2 ->
  g_st _ _ (run s1 (GCheckpoint _ :: ops2 ++ [GRevert _ j])) = g_st _ _ s1.
Print Assumptions revert_exact.

Theorem revert_step_exact' : revert_step_exact_stmt.
Proof. exact revert_step_exact. Qed.
Check revert_step_exact' :
  forall S T : persp, persp_inv S -> persp_inv T -> extends S T -> p_revert T (p_checkpoint S) = Ok S.
Print Assumptions revert_step_exact'.

Theorem session_revert_exact : session_revert_exact_stmt.
Proof. exact session_revert_exact_proof. Qed.
Check session_revert_exact :
  forall (base : N) (ops1 ops2 : list (gop update)),
  let run := grun session checkpoint update s_checkpoint s_revert s_stepw in
  let s1 := run (ginit session checkpoint (s_new base)) ops1 in
  let j := length (g_cps _ _ s1) in
  Forall (fun o => match o with GRevert _ i => (j <= i)%nat | _ => True end) ops2 ->
  g_st _ _ (run s1 (GCheckpoint _ :: ops2 ++ [GRevert _ j])) = g_st _ _ s1.
Print Assumptions session_revert_exact.

(** A failed [Session::action] / [Session::receive] (checkpoint; policy call; revert). *)
Theorem failed_call_exact' :
  forall st s ops, session_inv s -> fst (s_call st s ops false) = Ok s.
Proof. exact failed_call_exact. Qed.
Check failed_call_exact' :
  forall (st : store) (s : session) (ops : list sop), session_inv s -> fst (s_call st s ops false) = Ok s.
Print Assumptions failed_call_exact'.

(** The behaviour before the repair (finding F12), kept as a refutation witness. *)
Theorem revert_old_refuted : revert_old_refuted_stmt.
Proof. exact revert_old_refuted_proof. Qed.
Check revert_old_refuted :
  exists (P : persp) (n : name) (k : keys) (v : bytes),
    let P1 := p_insert P n k v in
    let index := cp_index (p_checkpoint P1) in
    exists P2, p_revert_old P1 index = Ok P2 /\
               p_query [] P1 n k = Ok (Some v) /\ p_query [] P2 n k = Ok None.
Print Assumptions revert_old_refuted.
