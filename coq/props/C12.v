(** C12 — fact storage behaves as a key-value map. *)
From Aranya Require Import base.Tactics base.ListLex base.SortedAssoc model.Facts model.FactsWorld
     proofs.FactsMaps proofs.FactsIndex proofs.FactsWorldProofs proofs.C12Proofs gen.GenFacts.

Theorem facts_refine_flat : facts_refine_flat_stmt.
Proof. exact facts_refine_flat_proof. Qed.
Check facts_refine_flat :
  forall (maxd : N), (2 <= maxd)%N ->
  forall ops : list op, ops_ok sworld0 ops ->
  let w := mrun maxd ops in
  let sw := srun ops in
  let st := w_store w in
  (* in-flight perspectives *)
  (forall h P, get_h (w_persps w) h = Some P ->
     exists sp, get_h (sw_persps sw) h = Some sp /\
       (forall n k, p_query st P n k = Ok (sp_now sp n k)) /\
       (forall n p, exists l, p_query_prefix st P n p = Ok l /\ sorted_listing (sp_now sp) n p l)) /\
  (* fact perspectives (head or mid-segment) *)
  (forall f fp, get_h (w_fps w) f = Some fp ->
     exists g, get_h (sw_fps sw) f = Some g /\
       (forall n k, fp_query st fp n k = Ok (g n k)) /\
       (forall n p, exists l, fp_query_prefix st fp n p = Ok l /\ sorted_listing g n p l)) /\
  (* the fact index of every written segment *)
  (forall s sg, nth_error (w_segs w) s = Some sg ->
     exists ss, nth_error (sw_segs sw) s = Some ss /\
       (forall n k, index_query st (sg_facts sg) n k = Ok (sseg_head ss n k)) /\
       (forall n p, exists l, index_query_prefix st (sg_facts sg) n p = Ok l /\
                              sorted_listing (sseg_head ss) n p l)) /\
  (* every index returned by write_facts *)
  (forall j off, nth_error (w_idxs w) j = Some off ->
     exists g, nth_error (sw_idxs sw) j = Some g /\
       (forall n k, index_query st off n k = Ok (g n k)) /\
       (forall n p, exists l, index_query_prefix st off n p = Ok l /\ sorted_listing g n p l)) /\
  (* chains never exceed the limit *)
  (forall off fi, fetch_facts st off = Some fi -> (1 <= fi_depth fi <= maxd)%N).
Print Assumptions facts_refine_flat.

Theorem facts_refine_flat_here : facts_refine_flat_here_stmt.
Proof. exact facts_refine_flat_here_proof. Qed.
Check facts_refine_flat_here :
  forall ops : list op, ops_ok sworld0 ops ->
  world_refines max_fact_index_depth (mrun max_fact_index_depth ops) (srun ops).
Print Assumptions facts_refine_flat_here.

(** What "prefix listing" means: strictly ascending, exactly the present facts under the prefix
    (so no tombstone and no deleted fact), and determined uniquely. *)
Theorem sorted_listing_unique' :
  forall f n p l1 l2, sorted_listing f n p l1 -> sorted_listing f n p l2 -> l1 = l2.
Proof. exact sorted_listing_unique. Qed.
Check sorted_listing_unique' :
  forall (f : flat) (n : name) (p : keys) (l1 l2 : list (keys * bytes)),
  (StronglySorted klt l1 /\ forall k v, In (k, v) l1 <-> (is_prefix bcmp p k = true /\ f n k = Some v)) ->
  (StronglySorted klt l2 /\ forall k v, In (k, v) l2 <-> (is_prefix bcmp p k = true /\ f n k = Some v)) ->
  l1 = l2.
Print Assumptions sorted_listing_unique'.

Theorem prefix_range : prefix_range_stmt.
Proof. exact prefix_range_proof. Qed.
Check prefix_range :
  forall (p : keys) (m : fmap), sorted kcmp m ->
  find_prefixes m p = filter (fun e => is_prefix bcmp p (fst e)) m.
Print Assumptions prefix_range.
