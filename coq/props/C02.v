(** C02 — every command is applied once, after its ancestors; merges never evaluated. *)
From Aranya Require Import base.Tactics model.Dag model.Braid
  proofs.BraidDag proofs.BraidSpec proofs.BraidIterProofs proofs.BraidMain proofs.BraidTrace gen.GenBraid proofs.BraidPins
  model.ConvSpill proofs.ConvSpillProofs model.ConvBfs proofs.BraidLca proofs.ConvBfsProofs.

Theorem braid_exactly_once : braid_exactly_once_stmt.
Proof. exact braid_exactly_once_proof. Qed.
Check braid_exactly_once :
  forall (g : graph) (hs : list N) (base : N) (order : list N),
    wf_graph g -> single_root g -> hs <> [] -> incl hs (ids g) ->
    braid_L1 g hs = BOk base order ->
    NoDup order
    /\ (exists h, In h hs /\ anc g base h)
    /\ (forall c, In c order ->
          is_merge_id g c = false /\ (exists h, In h hs /\ anc g c h) /\ ~ anc g c base)
    /\ (forall x h, In h hs -> anc g x h -> is_merge_id g x = false -> In x order \/ anc g x base)
    /\ (forall a c, In a order -> In c order -> anc g a c -> a <> c -> before a c order).
Print Assumptions braid_exactly_once.

(** The whole evaluation sequence behind a stored state (stored state of the
    base, recursively, followed by the braid order): every non-merge ancestor
    exactly once, ancestors first, no merge command. *)
Theorem trace_exactly_once : trace_exactly_once_stmt.
Proof. exact trace_exactly_once_proof. Qed.
Check trace_exactly_once :
  forall (g : graph) (i : N) (t : list N),
    wf_graph g -> single_root g -> trace g i = Some t ->
    NoDup t
    /\ (forall x, In x t <-> anc g x i /\ is_merge_id g x = false)
    /\ (forall a b, In a t -> In b t -> anc g a b -> a <> b -> before a b t).
Print Assumptions trace_exactly_once.

Theorem braid_trace_exactly_once : braid_trace_exactly_once_stmt.
Proof. exact braid_trace_exactly_once_proof. Qed.
Check braid_trace_exactly_once :
  forall (g : graph) (hs : list N) (t : list N),
    wf_graph g -> single_root g -> hs <> [] -> incl hs (ids g) -> braid_trace g hs = Some t ->
    NoDup t
    /\ (forall x, In x t <-> (exists h, In h hs /\ anc g x h) /\ is_merge_id g x = false)
    /\ (forall a b, In a t -> In b t -> anc g a b -> a <> b -> before a b t).
Print Assumptions braid_trace_exactly_once.

Theorem braid_total : braid_total_stmt.
Proof. exact braid_total_proof. Qed.
Check braid_total :
  forall (g : graph) (hs : list N),
    wf_graph g -> single_root g -> hs <> [] -> incl hs (ids g) -> braid_L1 g hs <> BBug.
Print Assumptions braid_total.

Theorem braid_iter_rev : braid_iter_rev_stmt.
Proof. exact braid_iter_rev_proof. Qed.
Check braid_iter_rev :
  forall (B : nat) (xs : list N), 1 <= B ->
    br_iter B (fold_left (br_push B) xs br_empty) = rev xs.
Print Assumptions braid_iter_rev.

(** ... in particular at the block size found in the source today. *)
Theorem braid_iter_rev_generated : braid_iter_rev_generated_stmt.
Proof. exact braid_iter_rev_generated_proof. Qed.
Check braid_iter_rev_generated :
  forall xs : list N,
    br_iter (N.to_nat braid_block_entries) (fold_left (br_push (N.to_nat braid_block_entries)) xs br_empty) = rev xs.
Print Assumptions braid_iter_rev_generated.

(** The branches the model transcribes are still the ones in the source. *)
Theorem braid_shapes_generated : braid_shapes_generated_stmt.
Proof. exact braid_shapes_generated_proof. Qed.
Check braid_shapes_generated :
  strand_key_is_priority_id = true /\ strand_ord_reversed = true /\ strand_heap_is_binary_heap = true
  /\ cutoff_is_le_lca = true /\ heads_seeded_through_convergence = true /\ merge_skipped_by_prior = true
  /\ lone_is_len_one = true /\ second_finalize_refused = true
  /\ bfs_inserts_count_ge_2 = true /\ bfs_cutoff_is_le_lca = true /\ consume_decrements_above_one = true
  /\ disk_block_searched_before_install = true /\ lru_is_first_strictly_lowest = true.
Print Assumptions braid_shapes_generated.

(** The unrepaired braid (F7): a command applied on top of a state that contains it. *)
Theorem braid_comparable_heads_refuted : braid_comparable_heads_refuted_stmt.
Proof. exact braid_comparable_heads_refuted_proof. Qed.
Check braid_comparable_heads_refuted :
  exists (g : graph) (hs : list N) (base : N) (order : list N),
    wf_graph g /\ single_root g /\ hs <> [] /\ incl hs (ids g)
    /\ braid_unrepaired g hs = BOk base order
    /\ exists c, In c order /\ anc g c base.
Print Assumptions braid_comparable_heads_refuted.

(** The block / LRU / spill representation of the convergence map answers
    every interleaving of BFS insertions and strand queries exactly like the
    pure map used by [braid_L1] — for every block size >= 1, every number of
    in-memory blocks >= 1 and every root capacity ([None] = the
    ConvergenceRootOverflow error). *)
Theorem conv_spill_refines : forall mc B RC, conv_spill_refines_stmt mc B RC.
Proof. exact conv_spill_refines_proof. Qed.
Check conv_spill_refines :
  forall (mc : N -> N) (B RC nb : nat) (ops : list cop) (out : list bool),
    1 <= B -> 1 <= nb -> fresh_inserts [] ops ->
    run_impl mc B RC (cs_init nb) ops = Some out -> out = run_spec [] ops.
Print Assumptions conv_spill_refines.

Theorem conv_lookup_refines : forall mc B RC, 1 <= B -> conv_lookup_refines_stmt mc B RC.
Proof. exact conv_lookup_refines_proof. Qed.
Check conv_lookup_refines :
  forall (mc : N -> N) (B RC : nat), 1 <= B ->
  forall (st : cstate) (m : list entry) (x : N),
    Inv mc B st -> Permutation.Permutation (absmap st) m ->
    match lookup mc RC st x with
    | COk (st', go) =>
        Inv mc B st' /\ go = snd (conv_query m x) /\ Permutation.Permutation (absmap st') (fst (conv_query m x))
    | CErr e => e = RootOverflow
    end.
Print Assumptions conv_lookup_refines.

(** The lookup loop before the repair (F30) does not come back. *)
Theorem conv_lookup_old_refuted : conv_lookup_old_refuted_stmt.
Proof. exact conv_lookup_old_refuted_proof. Qed.
Check conv_lookup_old_refuted :
  exists st, st_f30 = COk st
    /\ In (3, 2)%N (absmap st)
    /\ disk_search_old mc_flat 100 2000
         {| blocks := blocks st; active := active st; root := root st; file := file st;
            next_off := next_off st; access := (access st + 1)%N |} 0 3%N = None
    /\ exists st', lookup mc_flat 100 st 3%N = COk (st', false).
Print Assumptions conv_lookup_old_refuted.

(** The lazily advanced BFS of the convergence map (advance_to / pop_duplicates
    over the traversal queue, any tie-break between locations of equal
    max_cut) answers every sequence of region queries like the arrival map
    computed up front, which is what [braid_L1] uses. *)
Theorem lazy_bfs_refines : lazy_bfs_refines_stmt.
Proof. exact lazy_bfs_refines_proof. Qed.
Check lazy_bfs_refines :
  forall (g : graph) (hs : list N) (d : N) (tie : N -> N -> bool) (xs : list N),
    wf_graph g -> incl hs (ids g) -> (forall h, In h hs -> cdom g d h) ->
    (forall x, In x xs -> (exists h, In h hs /\ anc g x h) /\ (max_cut g d < max_cut g x)%N) ->
    lazy_run g (max_cut g d) tie (length g) (bfs_init hs) xs = eager_run (conv_init g (max_cut g d) hs) xs.
Print Assumptions lazy_bfs_refines.

(** The function the correspondence run evaluates (tabulated max_cut / jump) is the model. *)
From Aranya Require Import proofs.BraidFast.
Theorem braid_fast_eq : braid_fast_eq_stmt.
Proof. exact braid_fast_eq_proof. Qed.
Check braid_fast_eq : forall (g : graph) (hs : list N), braid_fast g hs = braid_L1 g hs.
Print Assumptions braid_fast_eq.
