(** C02 — every command is applied once, after its ancestors; merges never evaluated. *)
From Aranya Require Import base.Tactics model.Dag model.Braid
  proofs.BraidDag proofs.BraidSpec proofs.BraidIterProofs proofs.BraidMain gen.GenBraid proofs.BraidPins.

Theorem braid_exactly_once : braid_exactly_once_stmt.
Proof. exact braid_exactly_once_proof. Qed.
Check braid_exactly_once :
  forall (g : graph) (hs : list N) (base : N) (order : list N),
    wf_graph g -> single_root g -> hs <> [] -> incl hs (ids g) ->
    braid_L1 g hs = BOk base order ->
    NoDup order
    /\ (exists h, In h hs /\ anc g base h)
    /\ (forall c, In c order ->
          is_merge_id g c = false /\ (exists h, In h hs /\ anc g c h) /\ ~ anc g c base)
    /\ (forall x h, In h hs -> anc g x h -> is_merge_id g x = false -> In x order \/ anc g x base)
    /\ (forall a c, In a order -> In c order -> anc g a c -> a <> c -> before a c order).
Print Assumptions braid_exactly_once.

Theorem braid_total : braid_total_stmt.
Proof. exact braid_total_proof. Qed.
Check braid_total :
  forall (g : graph) (hs : list N),
    wf_graph g -> single_root g -> hs <> [] -> incl hs (ids g) -> braid_L1 g hs <> BBug.
Print Assumptions braid_total.

Theorem braid_iter_rev : braid_iter_rev_stmt.
Proof. exact braid_iter_rev_proof. Qed.
Check braid_iter_rev :
  forall (B : nat) (xs : list N), 1 <= B ->
    br_iter B (fold_left (br_push B) xs br_empty) = rev xs.
Print Assumptions braid_iter_rev.

(** ... in particular at the block size found in the source today. *)
Theorem braid_iter_rev_generated : braid_iter_rev_generated_stmt.
Proof. exact braid_iter_rev_generated_proof. Qed.
Check braid_iter_rev_generated :
  forall xs : list N,
    br_iter (N.to_nat braid_block_entries) (fold_left (br_push (N.to_nat braid_block_entries)) xs br_empty) = rev xs.
Print Assumptions braid_iter_rev_generated.

(** The branches the model transcribes are still the ones in the source. *)
Theorem braid_shapes_generated : braid_shapes_generated_stmt.
Proof. exact braid_shapes_generated_proof. Qed.
Check braid_shapes_generated :
  strand_key_is_priority_id = true /\ strand_ord_reversed = true /\ strand_heap_is_binary_heap = true
  /\ cutoff_is_le_lca = true /\ heads_seeded_through_convergence = true /\ merge_skipped_by_prior = true
  /\ lone_is_len_one = true /\ second_finalize_refused = true
  /\ bfs_inserts_count_ge_2 = true /\ bfs_cutoff_is_le_lca = true /\ consume_decrements_above_one = true.
Print Assumptions braid_shapes_generated.

(** The unrepaired braid (F7): a command applied on top of a state that contains it. *)
Theorem braid_comparable_heads_refuted : braid_comparable_heads_refuted_stmt.
Proof. exact braid_comparable_heads_refuted_proof. Qed.
Check braid_comparable_heads_refuted :
  exists (g : graph) (hs : list N) (base : N) (order : list N),
    wf_graph g /\ single_root g /\ hs <> [] /\ incl hs (ids g)
    /\ braid_unrepaired g hs = BOk base order
    /\ exists c, In c order /\ anc g c base.
Print Assumptions braid_comparable_heads_refuted.
