(** C45 — key stores behave as maps. *)
From Coq Require Import String.
From Aranya Require Import base.Tactics gen.GenKeyStore model.KeyStore proofs.KeyStoreProofs.
Local Open Scope N_scope.

Theorem keystore_refines_map : keystore_refines_map_stmt.
Proof. exact keystore_refines_map_proof. Qed.
Check keystore_refines_map :
  forall (key : Type) (enc : key -> bytes) (dec : bytes -> option key),
    (forall k, dec (enc k) = Some k) ->
    forall (debug : bool) (ops : list (op key)),
      let '(m, want) := spec_run key (fun _ => None) ops in
      (let '(s, got) := fs_run key enc dec rewinds dirty_first debug (fs_init debug) ops in
       got = want /\ (forall i, lookup (files s) i = option_map enc (m i)))
      /\ (let '(s, got) := mem_run key enc dec [] ops in
          got = want /\ (forall i, lookup s i = option_map enc (m i))).
Print Assumptions keystore_refines_map.

(** The system-call skeleton the model transcribes, as regenerated from the source. *)
Theorem ks_skeleton : rewinds = true /\ dirty_first = false
  /\ ks_fs_vacant_insert_steps = ["cbor::into_writer"; "self.fd.fsync"; "self.dirty=true"]%string
  /\ ks_fs_vacant_insert_propagates = ["cbor::into_writer(&key,&self.fd)?"; "self.fd.fsync()?"]%string
  /\ ks_mem_vacant_insert = ["self.entry.insert"; "StoredKey::new"]%string
  /\ ks_fs_occupied_get = ["self.fd.rewind"; "cbor::from_reader"]%string
  /\ ks_fs_occupied_remove = ["fs::unlinkat"; "AtFlags::empty"; "self.get"]%string
  /\ ks_fs_vacant_drop_guard = "!self.dirty"%string
  /\ ks_fs_excl_create_flags = ["CREATE"; "EXCL"; "RDWR"; "CLOEXEC"]%string.
Proof. pose proof ks_skeleton_pinned. pose proof rewinds_true. pose proof dirty_first_false. tauto. Qed.
Check ks_skeleton : rewinds = true /\ dirty_first = false
  /\ ks_fs_vacant_insert_steps = ["cbor::into_writer"; "self.fd.fsync"; "self.dirty=true"]%string
  /\ ks_fs_vacant_insert_propagates = ["cbor::into_writer(&key,&self.fd)?"; "self.fd.fsync()?"]%string
  /\ ks_mem_vacant_insert = ["self.entry.insert"; "StoredKey::new"]%string
  /\ ks_fs_occupied_get = ["self.fd.rewind"; "cbor::from_reader"]%string
  /\ ks_fs_occupied_remove = ["fs::unlinkat"; "AtFlags::empty"; "self.get"]%string
  /\ ks_fs_vacant_drop_guard = "!self.dirty"%string
  /\ ks_fs_excl_create_flags = ["CREATE"; "EXCL"; "RDWR"; "CLOEXEC"]%string.
Print Assumptions ks_skeleton.

(** F6 (repaired in /repo): reading at the descriptor's current offset. *)
Theorem keystore_orig_refuted : keystore_orig_refuted_stmt.
Proof. exact keystore_orig_refuted_proof. Qed.
Check keystore_orig_refuted :
  forall (key : Type) (enc : key -> bytes) (dec : bytes -> option key) (k : key),
    (forall k, dec (enc k) = Some k) -> dec [] = None ->
    exists ops,
      snd (fs_run key enc dec false false true (fs_init true) ops) <> snd (spec_run key (fun _ => None) ops)
      /\ exists ops',
        snd (fs_run key enc dec false false true (fs_init true) ops')
        = [ObVacant key true; ObOccupied key [KOk key k] (Some (KErr key)); ObGet key (Some None)].
Print Assumptions keystore_orig_refuted.

(** Marking the entry dirty before the write makes a failed insert leave its file behind. *)
Theorem keystore_dirty_first_refuted : keystore_dirty_first_refuted_stmt.
Proof. exact keystore_dirty_first_refuted_proof. Qed.
Check keystore_dirty_first_refuted :
  forall (key : Type) (enc : key -> bytes) (dec : bytes -> option key) (p : bytes),
    exists ops,
      snd (fs_run key enc dec true true true (fs_init true) ops) <> snd (spec_run key (fun _ => None) ops)
      /\ snd (fs_run key enc dec true true true (fs_init true) ops)
         = [ObVacantFailed key; ObOccupied key [] None].
Print Assumptions keystore_dirty_first_refuted.
