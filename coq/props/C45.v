(** C45 — key stores behave as maps. *)
From Coq Require Import String.
From Aranya Require Import base.Tactics gen.GenKeyStore model.KeyStore proofs.KeyStoreProofs.
Local Open Scope N_scope.

Theorem keystore_refines_map : keystore_refines_map_stmt.
Proof. exact keystore_refines_map_proof. Qed.
Check keystore_refines_map :
  forall (key : Type) (enc : key -> bytes) (dec : bytes -> option key),
    (forall k, dec (enc k) = Some k) ->
    forall (debug : bool) (ops : list (op key)),
      let '(m, want) := spec_run key (fun _ => None) ops in
      (let '(s, got) := fs_run key enc dec rewinds debug (fs_init debug) ops in
       got = want /\ (forall i, lookup (files s) i = option_map enc (m i)))
      /\ (let '(s, got) := mem_run key enc dec [] ops in
          got = want /\ (forall i, lookup s i = option_map enc (m i))).
Print Assumptions keystore_refines_map.

(** The system-call skeleton the model transcribes, as regenerated from the source. *)
Theorem ks_skeleton : rewinds = true
  /\ ks_fs_occupied_get = ["self.fd.rewind"; "cbor::from_reader"]%string
  /\ ks_fs_occupied_remove = ["fs::unlinkat"; "AtFlags::empty"; "self.get"]%string
  /\ ks_fs_vacant_drop_guard = "!self.dirty"%string
  /\ ks_fs_excl_create_flags = ["CREATE"; "EXCL"; "RDWR"; "CLOEXEC"]%string.
Proof. pose proof ks_skeleton_pinned. pose proof rewinds_true. tauto. Qed.
Check ks_skeleton : rewinds = true
  /\ ks_fs_occupied_get = ["self.fd.rewind"; "cbor::from_reader"]%string
  /\ ks_fs_occupied_remove = ["fs::unlinkat"; "AtFlags::empty"; "self.get"]%string
  /\ ks_fs_vacant_drop_guard = "!self.dirty"%string
  /\ ks_fs_excl_create_flags = ["CREATE"; "EXCL"; "RDWR"; "CLOEXEC"]%string.
Print Assumptions ks_skeleton.

(** F6 (repaired in /repo): reading at the descriptor's current offset. *)
Theorem keystore_orig_refuted : keystore_orig_refuted_stmt.
Proof. exact keystore_orig_refuted_proof. Qed.
Check keystore_orig_refuted :
  forall (key : Type) (enc : key -> bytes) (dec : bytes -> option key) (k : key),
    (forall k, dec (enc k) = Some k) -> dec [] = None ->
    exists ops,
      snd (fs_run key enc dec false true (fs_init true) ops) <> snd (spec_run key (fun _ => None) ops)
      /\ exists ops',
        snd (fs_run key enc dec false true (fs_init true) ops')
        = [ObVacant key true; ObOccupied key [KOk key k] (Some (KErr key)); ObGet key (Some None)].
Print Assumptions keystore_orig_refuted.
