(** C31 — the policy compiler CLI honours validation.

    [cli w] runs the decision skeleton that the translator extracts from the
    current main.rs ([GenCli.main_steps]); the value of [validate(&module)] is the
    model of validate.rs's loop ([Cli.validate], over the extracted
    [GenCli.validate_*] summary) applied to the per-label trace results. *)
From Aranya Require Import base.Tactics model.CliSyntax gen.GenCli model.Cli proofs.CliProofs.

Theorem cli_decision : cli_decision_stmt.
Proof. exact cli_decision_proof. Qed.
Check cli_decision :
  forall w : world,
  let o := cli w in
  (st o = Exited ExitSuccess ->
     w_read_ok w = true /\ w_parse_ok w = true /\ w_compile_ok w = true
     /\ (w_no_validate w = true \/ Forall (fun t => t = TrOk 0) (w_traces w)))
  /\ (created o = true ->
     (w_read_ok w = true /\ w_parse_ok w = true /\ w_compile_ok w = true
      /\ (w_no_validate w = true \/ Forall (fun t => t = TrOk 0) (w_traces w)))
     /\ w_stub_ffi w = false)
  /\ (written o = true -> created o = true /\ st o = Exited ExitSuccess)
  /\ (w_read_ok w = true -> w_parse_ok w = true -> w_compile_ok w = true ->
      w_no_validate w = false -> ~ Forall (fun t => t = TrOk 0) (w_traces w) ->
      st o = Exited ExitFailure /\ created o = false).
Print Assumptions cli_decision.

Theorem cli_accepts : cli_accepts_stmt.
Proof. exact cli_accepts_proof. Qed.
Check cli_accepts :
  forall w : world,
  (w_read_ok w = true /\ w_parse_ok w = true /\ w_compile_ok w = true
   /\ (w_no_validate w = true \/ Forall (fun t => t = TrOk 0) (w_traces w))) ->
  let o := cli w in
  (w_stub_ffi w = true -> st o = Exited ExitSuccess /\ created o = false)
  /\ (w_stub_ffi w = false -> w_create_ok w = true -> w_write_ok w = true ->
      st o = Exited ExitSuccess /\ created o = true /\ written o = true)
  /\ st o <> Exited ExitFailure.
Print Assumptions cli_accepts.

Theorem cli_rejects : cli_rejects_stmt.
Proof. exact cli_rejects_proof. Qed.
Check cli_rejects :
  forall w : world,
  w_read_ok w = true -> (w_parse_ok w = false \/ w_compile_ok w = false) ->
  st (cli w) = Exited ExitFailure /\ created (cli w) = false /\ written (cli w) = false.
Print Assumptions cli_rejects.

(** What [validate] returns, for every list of per-label trace results. *)
Theorem validate_returns_failed : validate_returns_failed_stmt.
Proof. exact validate_returns_failed_proof. Qed.
Check validate_returns_failed : forall ts : list trace, validate ts = negb (forallb trace_clean ts).
Print Assumptions validate_returns_failed.
