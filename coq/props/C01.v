(** C01 — replicas holding the same commands converge *)
From Aranya Require Import base.Tactics model.Dag model.Txn proofs.TxnGraph proofs.TxnInv proofs.TxnProps proofs.TxnExamples.
From Coq Require Import Sorted.

Theorem convergence : forall facts fempty eval has_policy merge_id facts_effs braid libc gid,
  convergence_stmt facts fempty eval has_policy merge_id facts_effs braid libc gid.
Proof. exact convergence_proof. Qed.
Check convergence :
  forall (facts : Type) (fempty : facts) (eval : cmd -> facts -> outcome facts) (has_policy : cmd -> bool)
         (merge_id : N -> N -> N) (facts_effs : facts -> list eff)
         (braid : list (wcmd facts) -> list N -> bres facts) (libc : bool) (gid : N),
  forall ops1 ops2,
  (rclash facts) ((run facts fempty eval has_policy merge_id facts_effs braid libc gid) r0 ops1) = false -> (rclash facts) ((run facts fempty eval has_policy merge_id facts_effs braid libc gid) r0 ops2) = false ->
  forall s1 s2, rstore ((run facts fempty eval has_policy merge_id facts_effs braid libc gid) r0 ops1) = Some s1 -> rstore ((run facts fempty eval has_policy merge_id facts_effs braid libc gid) r0 ops2) = Some s2 ->
  (compatible facts) s1 s2 ->            
  (same_committed facts) s1 s2 ->        
  sheads s1 = sheads s2 /\ scache s1 = scache s2 /\ (hello_head facts merge_id) s1 = (hello_head facts merge_id) s2
  /\ (forall x, (committed facts) s1 x -> wlookup (sW s1) x = wlookup (sW s2) x).
Print Assumptions convergence.
