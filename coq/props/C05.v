(** C05 — concurrent finalize commands are always detected. *)
From Aranya Require Import base.Tactics model.Dag model.Braid
  proofs.BraidDag proofs.BraidMain proofs.BraidFin.

Theorem parallel_finalize_iff : parallel_finalize_iff_stmt.
Proof. exact parallel_finalize_iff_proof. Qed.
Check parallel_finalize_iff :
  forall (g : graph) (hs : list N),
    wf_graph g -> single_root g -> init_prio_ok g -> admissible g -> hs <> [] -> incl hs (ids g) ->
    (braid_L1 g hs = BParFin <->
     exists f1 f2, is_fin g f1 = true /\ is_fin g f2 = true
       /\ (exists h, In h hs /\ anc g f1 h) /\ (exists h, In h hs /\ anc g f2 h)
       /\ ~ anc g f1 f2 /\ ~ anc g f2 f1).
Print Assumptions parallel_finalize_iff.

Theorem ordered_finalize_never_fails : ordered_finalize_never_fails_stmt.
Proof. exact ordered_finalize_never_fails_proof. Qed.
Check ordered_finalize_never_fails :
  forall (g : graph) (hs : list N),
    wf_graph g -> single_root g -> hs <> [] -> incl hs (ids g) ->
    (forall f1 f2 h1 h2, is_fin g f1 = true -> is_fin g f2 = true -> In h1 hs -> In h2 hs ->
        anc g f1 h1 -> anc g f2 h2 -> anc g f1 f2 \/ anc g f2 f1) ->
    braid_L1 g hs <> BParFin.
Print Assumptions ordered_finalize_never_fails.

(** The function the correspondence run evaluates (tabulated max_cut / jump) is the model. *)
From Aranya Require Import proofs.BraidFast.
Theorem braid_fast_eq : braid_fast_eq_stmt.
Proof. exact braid_fast_eq_proof. Qed.
Check braid_fast_eq : forall (g : graph) (hs : list N), braid_fast g hs = braid_L1 g hs.
Print Assumptions braid_fast_eq.
