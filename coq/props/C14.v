(** C14 — sessions overlay their own writes on committed facts. *)
From Aranya Require Import base.Tactics base.ListLex base.SortedAssoc model.Facts model.FactsWorld model.Session
     proofs.FactsWorldProofs
     proofs.FactsMaps proofs.FactsIndex proofs.SessionMerge proofs.SessionProofs proofs.C14Proofs
     gen.GenFacts.

Theorem session_overlay : forall maxd, session_overlay_stmt maxd.
Proof. exact session_overlay_proof. Qed.
Check session_overlay :
  forall (maxd : N) (st : store) (base : N) (g : flat) (cs : list (list sop * bool)),
  wf_store maxd st ->          (* any well-formed store (C12: every reachable store is) *)
  iden st base g ->            (* the committed fact cache denotes the flat map g *)
  exists s, run_calls st (s_new base) cs = Ok s /\
    ((forall n k, s_query st s n k = Ok (fupds g (committed_writes cs) n k)) /\
     (forall n p, exists l, s_query_prefix st s n p = Ok (map Ok l) /\
                            sorted_listing (fupds g (committed_writes cs)) n p l)) /\
    forall ops, outs_ok (fupds g (committed_writes cs)) ops (snd (s_script st s ops)).
Print Assumptions session_overlay.

Theorem query_iterator_sorted_overlay : query_iterator_merge_stmt.
Proof. exact query_iterator_merge_proof. Qed.
Check query_iterator_sorted_overlay :
  forall (prior : list fact) (fm : fmap) (p : keys),
  sorted kcmp prior -> sorted kcmp fm ->
  let cur := pi_new fm p in
  let bound := S (S (length prior + length (pi_range cur))) in
  exists l, qi_collect bound bound (qi_new (map Ok prior) cur) = map Ok l /\
            sorted kcmp l /\
            forall k, sget kcmp k l =
                      match (if is_prefix bcmp p k then sget kcmp k fm else None) with
                      | Some (Some v) => Some v
                      | Some None => None
                      | None => sget kcmp k prior
                      end.
Print Assumptions query_iterator_sorted_overlay.

(** A failed action / receive leaves the session exactly as it was. *)
Theorem failed_call_unchanged :
  forall st s ops, session_inv s -> fst (s_call st s ops false) = Ok s.
Proof. exact failed_call_exact. Qed.
Check failed_call_unchanged :
  forall (st : store) (s : session) (ops : list sop), session_inv s -> fst (s_call st s ops false) = Ok s.
Print Assumptions failed_call_unchanged.

(** No session operation changes the client's store, heads or fact cache. *)
Theorem session_frame : forall c s ops ok, fst (fst (session_call c s ops ok)) = c.
Proof. exact session_call_frame. Qed.
Check session_frame :
  forall (c : client) (s : session) (ops : list sop) (ok : bool), fst (fst (session_call c s ops ok)) = c.
Print Assumptions session_frame.

(** C12 + C14: a session opened on the fact index of any segment of any reachable store. *)
Theorem session_on_reachable_store : session_on_reachable_store_stmt.
Proof. exact session_on_reachable_store_proof. Qed.
Check session_on_reachable_store :
  forall (maxd : N), (2 <= maxd)%N ->
  forall (ops : list op), ops_ok sworld0 ops ->
  forall s sg, nth_error (w_segs (mrun maxd ops)) s = Some sg ->
  exists ss, nth_error (sw_segs (srun ops)) s = Some ss /\
    forall cs : list (list sop * bool),
    let st := w_store (mrun maxd ops) in
    exists sess, run_calls st (s_new (sg_facts sg)) cs = Ok sess /\
                 session_answers st sess (fupds (sseg_head ss) (committed_writes cs)).
Print Assumptions session_on_reachable_store.
