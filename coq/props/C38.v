(** C38 — AFC channel keys agree only for matching parameters. *)
From Coq Require Import String.
From Aranya Require Import base.Tactics gen.GenCrypto model.TupleHash model.CryptoFrames model.CryptoSym
  proofs.TupleHashProofs proofs.CryptoSymProofs.
Local Open Scope N_scope.

Theorem uni_keys_agree_iff : uni_keys_agree_iff_stmt.
Proof. exact uni_keys_agree_iff_proof. Qed.
Check uni_keys_agree_iff :
  forall (oids : list bytes) (SK PK SS KEY : Type) pub dh KemKdf (KeySched : bool -> SS -> bytes -> KEY),
    @ideal_hpke SK PK SS KEY pub dh KemKdf KeySched ->
    let from_author := uni_from_author_secret oids SK PK SS pub dh KEY KemKdf KeySched in
    let from_peer := uni_from_peer_encap oids SK PK SS pub dh KEY KemKdf KeySched in
    let secrets_new := uni_secrets_new oids SK PK SS pub dh KEY KemKdf KeySched in
    (forall root a b p p' enc b' apk' k1 k2,
       uni_wf p -> uni_wf p' ->
       from_author root a (pub b) p = Some k1 -> from_peer enc b' apk' p' = Some k2 ->
       (k1 = k2 <-> enc = pub root /\ b' = b /\ apk' = pub a /\ p' = p))
    /\ (forall root a b p, u_seal_id p <> u_open_id p ->
          exists enc k, secrets_new root a (pub b) p = Some (root, enc)
                        /\ from_author root a (pub b) p = Some k /\ from_peer enc b (pub a) p = Some k)
    /\ (forall root a bpk enc b apk p, u_seal_id p = u_open_id p ->
          secrets_new root a bpk p = None /\ from_author root a bpk p = None /\ from_peer enc b apk p = None)
    /\ (forall d parent open_id label parent' seal_id' label' p p',
          handler_created d parent open_id label = Some p ->
          handler_received d parent' seal_id' label' = Some p' ->
          u_seal_id p = d /\ u_open_id p <> d /\ u_open_id p' = d /\ u_seal_id p' <> d /\ p <> p').
Print Assumptions uni_keys_agree_iff.

Theorem fixed_concat_injective : fixed_concat_injective_stmt.
Proof. exact fixed_concat_injective_proof. Qed.
Check fixed_concat_injective :
  forall xs ys : list bytes,
    Forall2 (fun x y => length x = length y) xs ys -> concat xs = concat ys -> xs = ys.
Print Assumptions fixed_concat_injective.

Theorem c38_sites :
  site_uni_info = ("AfcUniKey-v1", "", ["parent_cmd_id=parent_cmd_id"; "seal_id=seal_id"; "open_id=open_id"; "label_id=label_id"])%string
  /\ handler_uni_channel_created_guard = ("self.device_id == effect.open_id", "AuthorMustBeSealer")%string
  /\ handler_uni_channel_received_guard = ("effect.seal_id == self.device_id", "AuthorMustBeSealer")%string
  /\ handler_uni_channel_created_variant = "SealOnly"%string
  /\ handler_uni_channel_received_variant = "OpenOnly"%string
  /\ uni_same_id_guards = ["ch.seal_id == ch.open_id"; "ch.seal_id == ch.open_id"; "ch.seal_id == ch.open_id"]%string.
Proof. pose proof sites_pinned. pose proof handler_pinned. tauto. Qed.
Check c38_sites :
  site_uni_info = ("AfcUniKey-v1", "", ["parent_cmd_id=parent_cmd_id"; "seal_id=seal_id"; "open_id=open_id"; "label_id=label_id"])%string
  /\ handler_uni_channel_created_guard = ("self.device_id == effect.open_id", "AuthorMustBeSealer")%string
  /\ handler_uni_channel_received_guard = ("effect.seal_id == self.device_id", "AuthorMustBeSealer")%string
  /\ handler_uni_channel_created_variant = "SealOnly"%string
  /\ handler_uni_channel_received_variant = "OpenOnly"%string
  /\ uni_same_id_guards = ["ch.seal_id == ch.open_id"; "ch.seal_id == ch.open_id"; "ch.seal_id == ch.open_id"]%string.
Print Assumptions c38_sites.
