(** C07 — actions are atomic *)
From Aranya Require Import base.Tactics model.Dag model.Txn proofs.TxnGraph proofs.TxnInv proofs.TxnProps proofs.TxnExamples.
From Coq Require Import Sorted.

Theorem action_atomic : forall facts fempty eval has_policy merge_id facts_effs braid libc gid,
  action_atomic_stmt facts fempty eval has_policy merge_id facts_effs braid libc gid.
Proof. exact action_atomic_proof. Qed.
Check action_atomic :
  forall (facts : Type) (fempty : facts) (eval : cmd -> facts -> outcome facts) (has_policy : cmd -> bool)
         (merge_id : N -> N -> N) (facts_effs : facts -> list eff)
         (braid : list (wcmd facts) -> list N -> bres facts) (libc : bool) (gid : N),
  forall ops a, (rclash facts) ((run facts fempty eval has_policy merge_id facts_effs braid libc gid) r0 (ops ++ [Action a])) = false ->
  forall s, rstore ((run facts fempty eval has_policy merge_id facts_effs braid libc gid) r0 ops) = Some s ->
  let '(r', l, x) := (step facts fempty eval has_policy merge_id facts_effs braid libc gid) ((run facts fempty eval has_policy merge_id facts_effs braid libc gid) r0 ops) (Action a) in
  exists s', rstore r' = Some s' /\ rtxs r' = rtxs ((run facts fempty eval has_policy merge_id facts_effs braid libc gid) r0 ops) /\
  ((x = ROk
    
    /\ (exists pc pcs, rev (acmds a) = pc :: pcs
        /\ sheads s' = [pid pc]
        /\ (exists wh, wlookup (sW s') (pid pc) = Some wh /\ scache s' = wfacts wh))
    /\ sncommit s' = (sncommit s + 1)%N /\ (sstamp s < sstamp s')%N
    
    /\ (forall h, In h (sheads s) -> forall hd, In hd (sheads s') -> anc (sg (sW s')) h hd)
    
    /\ (forall y, (committed facts) s y -> (committed facts) s' y)
    /\ (forall y, (committed facts) s' y -> (committed facts) s y \/ (is_merge_id merge_id) y \/ In y (map pid (acmds a)))
    
    /\ (exists m, l = SBegin :: m ++ [SCommit] /\ forall e, In e m -> exists z, e = SConsume z))
   \/ (x <> ROk
       
       /\ sheads s' = sheads s /\ scache s' = scache s /\ sstamp s' = sstamp s
       /\ sncommit s' = sncommit s /\ (forall y, (committed facts) s' y <-> (committed facts) s y)
       /\ ~ In SCommit l)).
Print Assumptions action_atomic.
