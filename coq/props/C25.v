(** C25 — the VM never panics on any bytecode. *)
From Aranya Require Import base.Tactics model.VmBase gen.GenVm gen.GenVmPanics model.Vm proofs.VmTotal.
Local Open Scope N_scope.

(** One step, any machine / run state / oracle, either build profile; the run-state invariant is kept. *)
Theorem step_total : step_total_stmt.
Proof. exact step_total_proof. Qed.
Check step_total :
  forall (St : Type) (dbg : bool) (io : MachineIO St) (m : Machine) (rs : RunState St),
  (len (progmem m) <= usize_max
   /\ Forall (fun i => match i with I_FactCount limit => (limit <= i64_max)%Z | _ => True end) (progmem m)
   /\ match codemap m with Some cm => len (cm_text cm) < usize_max | None => True end) ->
  (len (rs_stack rs) <= STACK_SIZE /\ Forall (fun x => x < usize_max) (rs_call_state rs)) ->
  match step dbg io m rs with
  | Panic _ => False
  | Executing rs' | Exited _ rs' | Errored _ rs' =>
    len (rs_stack rs') <= STACK_SIZE /\ Forall (fun x => x < usize_max) (rs_call_state rs')
  end.
Print Assumptions step_total.

(** With debug assertions off, no hypothesis on the program or the run state at all. *)
Theorem step_total_release : step_total_release_stmt.
Proof. exact step_total_release_proof. Qed.
Check step_total_release :
  forall (St : Type) (io : MachineIO St) (m : Machine) (rs : RunState St) (s : psite),
  match codemap m with Some cm => len (cm_text cm) < usize_max | None => True end ->
  step false io m rs <> Panic s.
Print Assumptions step_total_release.

(** [RunState::run], any fuel. *)
Theorem run_total : run_total_stmt.
Proof. exact run_total_proof. Qed.
Check run_total :
  forall (St : Type) (dbg : bool) (io : MachineIO St) (m : Machine) (fuel : nat) (rs : RunState St),
  machine_repr m -> rs_wf rs ->
  match run dbg io m fuel rs with
  | RunPanic _ => False
  | RunExited _ rs' | RunErrored _ rs' | RunOutOfFuel rs' => rs_wf rs'
  end.
Print Assumptions run_total.

Theorem run_total_release : run_total_release_stmt.
Proof. exact run_total_release_proof. Qed.
Check run_total_release :
  forall (St : Type) (io : MachineIO St) (m : Machine) (fuel : nat) (rs : RunState St) (s : psite),
  cm_ok m -> run false io m fuel rs <> RunPanic s.
Print Assumptions run_total_release.

(** The public entry points with any arguments, from any representable run state. *)
Theorem calls_total : calls_total_stmt.
Proof. exact calls_total_proof. Qed.
Check calls_total :
  forall (St : Type) (dbg : bool) (io : MachineIO St) (m : Machine) (fuel : nat) (rs : RunState St),
  machine_repr m -> rs_wf rs ->
  (forall name args, run_ok (call_action dbg io m fuel name args rs))
  /\ (forall this_data envelope, run_ok (call_command_policy dbg io m fuel this_data envelope rs))
  /\ (forall this_data payload, run_ok (call_seal dbg io m fuel this_data payload rs))
  /\ (forall this_data payload envelope, run_ok (call_open dbg io m fuel this_data payload envelope rs)).
Print Assumptions calls_total.

(** Loading any module ([Machine::from_module]) and running it from [RunState::new]. *)
Theorem module_run_total : module_run_total_stmt.
Proof. exact module_run_total_proof. Qed.
Check module_run_total :
  forall (St : Type) (dbg : bool) (io : MachineIO St) (md : ModuleV0) (s : St) (ctx : CommandContext)
         (fuel : nat),
  module_repr md ->
  match run dbg io (from_module md) fuel (new_run_state s ctx) with
  | RunPanic _ => False
  | RunExited _ rs' | RunErrored _ rs' | RunOutOfFuel rs' => rs_wf rs'
  end.
Print Assumptions module_run_total.

(** Every panic-capable site the translator finds in machine.rs, stack.rs, scope.rs, data.rs,
    error.rs, io.rs, context.rs, codemap.rs and serialize.rs is accounted for: a Panic branch of the
    model with its guard transcribed, or an explicit entry saying why the call cannot panic. *)
Theorem ledger_complete : ledger_complete_stmt.
Proof. exact ledger_complete_proof. Qed.
Check ledger_complete : forall s : site, In s vm_sites -> exists d : disposition, In (s, d) ledger.
Print Assumptions ledger_complete.
