(** C23 — untaken operands and branches are never evaluated.

    [Qx cs has_sp lo hi xlo xhi] holds of every state a step is taken from: the state is not
    above the frame [cs], and when it is in that frame its pc lies in [lo, hi) and NOT in
    [xlo, xhi), the code range of the operand / branch / arm that is not taken.  The final
    state (result value, I/O state) is written without reference to the untaken part. *)
From Aranya Require Import base.Tactics model.VmBase gen.GenVm model.Vm model.Lang model.Typing
  model.Compile model.CompileDirect proofs.SimBase proofs.CompileSim proofs.CompileCorrect proofs.CompileMachine.
Local Open Scope N_scope.
Local Open Scope string_scope.

Theorem untaken_not_executed : untaken_not_executed_stmt.
Proof. exact untaken_not_executed_proof. Qed.
Check untaken_not_executed :
  forall (St : Type) (dbg : bool) (lio : lang_io St) (p : policy) (is_debug : bool),
         layout_check p is_debug = true ->
         globals_ok p = true ->
         let m := machine_of p is_debug in
         forall (n : nat) (cs : list N) (outer : scope_t) (base : list Value)
           (qi : list (Fact * list query_item)) (has_sp : bool),
         (forall (a b : expr) (en : env) (sg : list Value) (pc : N) (w w1 : world St),
          fr_expr a = true ->
          at_pc m pc (d_expr p is_debug (label_addr (labels m)) "" false pc (EAnd a b)) ->
          eval_expr lio p is_debug (call_fun lio p is_debug n) (call_fin lio p is_debug n) no_recall ER_Normal
            en w a = OVal (V_Bool false) w1 ->
          let mid := pc + sz_expr p is_debug a + 3 in
          mruno dbg (vm_io_of lio p) m
            (Qx cs has_sp pc (pc + sz_expr p is_debug (EAnd a b)) mid (mid + sz_expr p is_debug b))
            (st cs outer base qi en sg pc w)
            (MTo (st cs outer base qi en (V_Bool false :: sg) (pc + sz_expr p is_debug (EAnd a b)) w1))) /\
         (forall (a b : expr) (en : env) (sg : list Value) (pc : N) (w w1 : world St),
          fr_expr a = true ->
          at_pc m pc (d_expr p is_debug (label_addr (labels m)) "" false pc (EOr a b)) ->
          eval_expr lio p is_debug (call_fun lio p is_debug n) (call_fin lio p is_debug n) no_recall ER_Normal
            en w a = OVal (V_Bool true) w1 ->
          let pb := pc + sz_expr p is_debug a + 1 in
          mruno dbg (vm_io_of lio p) m
            (Qx cs has_sp pc (pc + sz_expr p is_debug (EOr a b)) pb (pb + sz_expr p is_debug b))
            (st cs outer base qi en sg pc w)
            (MTo (st cs outer base qi en (V_Bool true :: sg) (pc + sz_expr p is_debug (EOr a b)) w1))) /\
         (forall (a b : expr) (en : env) (sg : list Value) (pc : N) (w w1 : world St) (x : Value),
          fr_expr a = true ->
          at_pc m pc (d_expr p is_debug (label_addr (labels m)) "" false pc (ECoalesce a b)) ->
          eval_expr lio p is_debug (call_fun lio p is_debug n) (call_fin lio p is_debug n) no_recall ER_Normal
            en w a = OVal (V_Option (Some x)) w1 ->
          let pb := pc + sz_expr p is_debug a + 4 in
          mruno dbg (vm_io_of lio p) m
            (Qx cs has_sp pc (pc + sz_expr p is_debug (ECoalesce a b)) pb (pb + sz_expr p is_debug b))
            (st cs outer base qi en sg pc w)
            (MTo (st cs outer base qi en (x :: sg) (pc + sz_expr p is_debug (ECoalesce a b)) w1))) /\
         (forall (c t f : expr) (en : env) (sg : list Value) (pc : N) (w w1 : world St),
          fr_expr c = true ->
          fr_expr t = true ->
          at_pc m pc (d_expr p is_debug (label_addr (labels m)) "" false pc (EIf c t f)) ->
          eval_expr lio p is_debug (call_fun lio p is_debug n) (call_fin lio p is_debug n) no_recall ER_Normal
            en w c = OVal (V_Bool true) w1 ->
          let pf := pc + sz_expr p is_debug c + 1 in
          sim_out dbg lio p m cs outer base qi has_sp
            (Qx cs has_sp pc (pc + sz_expr p is_debug (EIf c t f)) pf (pf + sz_expr p is_debug f))
            (st cs outer base qi en sg pc w)
            (eval_expr lio p is_debug (call_fun lio p is_debug n) (call_fin lio p is_debug n) no_recall
               ER_Normal en w1 t)
            (fun (v : Value) (w' : world St) =>
             st cs outer base qi en (v :: sg) (pc + sz_expr p is_debug (EIf c t f)) w')) /\
         (forall (c t f : expr) (en : env) (sg : list Value) (pc : N) (w w1 : world St),
          fr_expr c = true ->
          fr_expr f = true ->
          at_pc m pc (d_expr p is_debug (label_addr (labels m)) "" false pc (EIf c t f)) ->
          eval_expr lio p is_debug (call_fun lio p is_debug n) (call_fin lio p is_debug n) no_recall ER_Normal
            en w c = OVal (V_Bool false) w1 ->
          let pt := pc + sz_expr p is_debug c + 1 + sz_expr p is_debug f + 1 in
          sim_out dbg lio p m cs outer base qi has_sp
            (Qx cs has_sp pc (pc + sz_expr p is_debug (EIf c t f)) pt (pt + sz_expr p is_debug t))
            (st cs outer base qi en sg pc w)
            (eval_expr lio p is_debug (call_fun lio p is_debug n) (call_fin lio p is_debug n) no_recall
               ER_Normal en w1 f)
            (fun (v : Value) (w' : world St) =>
             st cs outer base qi en (v :: sg) (pc + sz_expr p is_debug (EIf c t f)) w')) /\
         (forall (e : expr) (arms : earms) (en : env) (sg : list Value) (pc : N) (w : world St) 
            (v : Value) (w1 : world St) (k j : nat),
          fr_expr e = true ->
          fr_earms arms = true ->
          at_pc m pc (d_expr p is_debug (label_addr (labels m)) "" false pc (EMatch e arms)) ->
          eval_expr lio p is_debug (call_fun lio p is_debug n) (call_fin lio p is_debug n) no_recall ER_Normal
            en w e = OVal v w1 ->
          first_match p (earms_patterns arms) v = Some (Some k) ->
          j <> k ->
          (j < Datatypes.length (earms_patterns arms))%nat ->
          let base_pc := pc + sz_expr p is_debug e + len (d_patterns p (earms_patterns arms) []) in
          let xlo := nth j (earm_addrs p is_debug arms base_pc) 0 in
          sim_out dbg lio p m cs outer base qi has_sp
            (Qx cs has_sp pc (pc + sz_expr p is_debug (EMatch e arms)) xlo
               (xlo + nth j (earm_sizes p is_debug arms) 0)) (st cs outer base qi en sg pc w)
            (eval_earms lio p is_debug (call_fun lio p is_debug n) (call_fin lio p is_debug n) no_recall
               ER_Normal en w1 v arms)
            (fun (r : Value) (w' : world St) =>
             st cs outer base qi en (r :: sg) (pc + sz_expr p is_debug (EMatch e arms)) w')) /\
         (forall (e : expr) (arms : sarms) (en : env) (sg : list Value) (pc : N) (w : world St) 
            (v : Value) (w1 : world St) (k j : nat),
          fr_expr e = true ->
          fr_sarms arms = true ->
          at_pc m pc (d_stmt p is_debug (label_addr (labels m)) "" false pc (SMatch e arms)) ->
          eval_expr lio p is_debug (call_fun lio p is_debug n) (call_fin lio p is_debug n) no_recall ER_Normal
            en w e = OVal v w1 ->
          first_match p (sarms_patterns arms) v = Some (Some k) ->
          j <> k ->
          (j < Datatypes.length (sarms_patterns arms))%nat ->
          let base_pc := pc + sz_expr p is_debug e + len (d_patterns p (sarms_patterns arms) []) in
          let xlo := nth j (sarm_addrs p is_debug arms base_pc) 0 in
          sim_out dbg lio p m cs outer base qi has_sp
            (Qx cs has_sp pc (pc + sz_stmt p is_debug (SMatch e arms)) xlo
               (xlo + nth j (sarm_sizes p is_debug arms) 0)) (st cs outer base qi en sg pc w)
            (eval_sarms lio p is_debug (call_fun lio p is_debug n) (call_fin lio p is_debug n) no_recall
               ER_Normal en w1 v arms)
            (fun (en' : env) (w' : world St) =>
             st cs outer base qi en' sg (pc + sz_stmt p is_debug (SMatch e arms)) w')) /\
         (forall (c : expr) (ss : stmts) (bs : branches) (en : env) (sg : list Value) 
            (pc endl : N) (w w1 : world St),
          fr_expr c = true ->
          fr_stmts ss = true ->
          at_pc m pc (d_branches p is_debug (label_addr (labels m)) "" false pc endl (BCons c ss bs)) ->
          eval_expr lio p is_debug (call_fun lio p is_debug n) (call_fin lio p is_debug n) no_recall ER_Normal
            en w c = OVal (V_Bool true) w1 ->
          let next := pc + sz_expr p is_debug c + 2 + 1 + sz_stmts p is_debug ss + 1 + 1 in
          sim_out dbg lio p m cs outer base qi has_sp
            (Qx cs has_sp pc (pc + sz_branches p is_debug (BCons c ss bs)) next
               (next + sz_branches p is_debug bs)) (st cs outer base qi en sg pc w)
            (eval_stmts lio p is_debug (call_fun lio p is_debug n) (call_fin lio p is_debug n) no_recall
               ER_Normal (env_push en) w1 ss)
            (fun (_ : env) (w' : world St) => st cs outer base qi en sg endl w')) /\
         (forall (c : expr) (ss : stmts) (bs : branches) (en : env) (sg : list Value) 
            (pc endl : N) (w w1 : world St),
          fr_expr c = true ->
          fr_branches bs = true ->
          at_pc m pc (d_branches p is_debug (label_addr (labels m)) "" false pc endl (BCons c ss bs)) ->
          eval_expr lio p is_debug (call_fun lio p is_debug n) (call_fin lio p is_debug n) no_recall ER_Normal
            en w c = OVal (V_Bool false) w1 ->
          let pb := pc + sz_expr p is_debug c + 2 in
          sim_out dbg lio p m cs outer base qi has_sp
            (Qx cs has_sp pc (pc + sz_branches p is_debug (BCons c ss bs)) pb
               (pb + 1 + sz_stmts p is_debug ss + 1 + 1)) (st cs outer base qi en sg pc w)
            (eval_branches lio p is_debug (call_fun lio p is_debug n) (call_fin lio p is_debug n) no_recall
               ER_Normal en w1 bs)
            (fun (r : option env) (w' : world St) =>
             match r with
             | Some _ => st cs outer base qi en sg endl w'
             | None => st cs outer base qi en sg (pc + sz_branches p is_debug (BCons c ss bs)) w'
             end)).
Print Assumptions untaken_not_executed.
