(** C41 — AFC channel removal takes effect for later operations.
    Shared-memory state: every schedule of the interleaving model of
    [model/Shm.v]; in-memory state: every schedule of [model/MemAfc.v]. *)
From Aranya Require Import base.Tactics base.Sched model.Shm model.MemAfc
  proofs.ShmLists proofs.ShmSteps proofs.ShmProofs proofs.ShmReaders proofs.ShmC41 proofs.MemProofs.

Theorem removal_returns_clean : removal_returns_clean_stmt.
Proof. exact removal_returns_clean_proof. Qed.
Check removal_returns_clean :
  forall (cap smax : N) (wp : list wop) (rps : list (list rop)) (sched : list nat) op r rest,
  let g := runs sched (init cap smax wp rps) in
  wlog (wt g) = (op, r) :: rest -> writer_idle (wt g) ->
  rpost op (chans (sA (sh g))) /\ rpost op (chans (sB (sh g))).
Print Assumptions removal_returns_clean.

Theorem removed_is_gone : removed_is_gone_stmt.
Proof. exact removed_is_gone_proof. Qed.
Check removed_is_gone :
  forall (cap smax : N) (wp : list wop) (rps : list (list rop)) (s1 s2 : list nat) (id : N),
  let g1 := runs s1 (init cap smax wp rps) in
  let g2 := runs s2 g1 in
  nowrap g2 ->
  gone id g1 ->
  gone id g2
  /\ forall i r1 r2, nth_error (rts g1) i = Some r1 -> nth_error (rts g2) i = Some r2 ->
     exists new, rlog r2 = new ++ rlog r1
       /\ forall op res, In (op, res) new -> targets (rctxs r2) op id -> failing op res.
Print Assumptions removed_is_gone.

Theorem untouched_keep_succeeding : untouched_keep_succeeding_stmt.
Proof. exact untouched_keep_succeeding_proof. Qed.
Check untouched_keep_succeeding :
  forall (cap smax : N) (wp : list wop) (rps : list (list rop)) (sched : list nat) i r op rest res cs ch,
  let g := runs sched (init cap smax wp rps) in
  nth_error (rts g) i = Some r -> rprog r = op :: rest ->
  rfin (seqmax g) (sh g) r op res cs ->
  In ch (chans (sA (sh g))) -> In ch (chans (sB (sh g))) ->
  match op with
  | RSeal c md =>
      forall x k, nth_error (rctxs r) c = Some x -> xdir x = DSeal -> xcache x = Some k -> xid x = cid ch ->
      res = RSealed c (fst (sealf (seqmax g) md (kseq k))) (ckey ch) (clabel ch)
  | ROpen c key label valid =>
      forall x k, nth_error (rctxs r) c = Some x -> xdir x = DOpen -> xcache x = Some k -> xid x = cid ch ->
      res = ROpened c (open_ok (ckey ch) (clabel ch) key label valid) (clabel ch)
  | RSetup d id => id = cid ch -> cdir ch = d -> res = RCtx (length (rctxs r))
  | RExists id => id = cid ch -> res = RBool true
  end.
Print Assumptions untouched_keep_succeeding.

Theorem mem_removed_is_gone : mem_removed_is_gone_stmt.
Proof. exact mem_removed_is_gone_proof. Qed.
Check mem_removed_is_gone :
  forall (smax : N) (wp : list mop) (cps : list (list cop)) (s1 s2 : list nat) (id : N),
  let g1 := mruns s1 (minit smax wp cps) in
  let g2 := mruns s2 g1 in
  mgone id g1 ->
  mgone id g2
  /\ forall i t1 t2, nth_error (mcs g1) i = Some t1 -> nth_error (mcs g2) i = Some t2 ->
     exists new, clog t2 = new ++ clog t1
       /\ forall op res, In (op, res) new -> mtargets (cloans t2) op id -> mfailing op res.
Print Assumptions mem_removed_is_gone.
