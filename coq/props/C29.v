(** C29 — fact queries in policies match a fact-store model. *)
From Aranya Require Import base.Tactics base.ListLex base.SortedAssoc gen.GenKeyEnc
  model.KeyEnc model.FactOps proofs.KeyEncProofs proofs.FactOpsProofs proofs.FactOpsPins.

Theorem ser_key_injective : ser_key_injective_stmt.
Proof. exact ser_key_injective_proof. Qed.
Check ser_key_injective :
  forall (utf8 : bytes -> bool) (a b : fkey),
  wf_keyb utf8 a = true -> wf_keyb utf8 b = true -> ser_key a = ser_key b -> a = b.
Print Assumptions ser_key_injective.

Theorem deser_ser_key : deser_ser_key_stmt.
Proof. exact deser_ser_key_proof. Qed.
Check deser_ser_key :
  forall (utf8 : bytes -> bool) (k : fkey), wf_keyb utf8 k = true -> deser_key utf8 (ser_key k) = Some k.
Print Assumptions deser_ser_key.

Theorem key_order_preserved : key_order_preserved_stmt.
Proof. exact key_order_preserved_proof. Qed.
Check key_order_preserved :
  (forall a b, in_i64 a -> in_i64 b ->
     ((a < b)%Z <-> lex_lt (be64 (N.lxor (to_u64 a) flip_mask)) (be64 (N.lxor (to_u64 b) flip_mask))))
  /\ (forall z, in_i64 z -> N.lxor (to_u64 z) flip_mask = Z.to_N (z + two63))
  /\ (forall i a b, in_i64 a -> in_i64 b -> bcmp (ser_key (i, HInt a)) (ser_key (i, HInt b)) = Z.compare a b)
  /\ (forall i a b, bcmp (ser_key (i, HBool a)) (ser_key (i, HBool b)) = Bool.compare a b)
  /\ (forall i a b, bcmp (ser_key (i, HString a)) (ser_key (i, HString b)) = bcmp a b)
  /\ (forall i a b, bcmp (ser_key (i, HId a)) (ser_key (i, HId b)) = bcmp a b)
  /\ (forall i n m a b, in_i64 a -> in_i64 b ->
        bcmp (ser_key (i, HEnum n a)) (ser_key (i, HEnum m b)) = match Z.compare a b with Eq => bcmp n m | c => c end)
  /\ (forall utf8 i a b, wf_hvalb utf8 a = true -> wf_hvalb utf8 b = true ->
        bcmp (ser_key (i, a)) (ser_key (i, b)) = hval_cmp a b)
  /\ (forall utf8 names a b,
        Forall (fun v => wf_hvalb utf8 v = true) a -> Forall (fun v => wf_hvalb utf8 v = true) b ->
        (length a <= length names)%nat -> (length b <= length names)%nat ->
        kcmp (ser_keys (mk_keys names a)) (ser_keys (mk_keys names b)) = tcmp a b).
Print Assumptions key_order_preserved.

Theorem prefix_respected : prefix_respected_stmt.
Proof. exact prefix_respected_proof. Qed.
Check prefix_respected :
  forall (utf8 : bytes -> bool) (names : list bytes) (p k : list hval),
  Forall (fun v => wf_hvalb utf8 v = true) p -> Forall (fun v => wf_hvalb utf8 v = true) k ->
  (length p <= length names)%nat -> (length k <= length names)%nat ->
  (is_prefix bcmp (ser_keys (mk_keys names p)) (ser_keys (mk_keys names k)) = true
   <-> exists rest, k = p ++ rest).
Print Assumptions prefix_respected.

Theorem spec_rows_meaning : spec_rows_meaning_stmt.
Proof. exact spec_rows_meaning_proof. Qed.
Check spec_rows_meaning :
  forall (sp : sstore) (l : lit),
  (forall e, In e (spec_rows sp l) <->
      In e sp /\ (exists rest, fst e = l_keys l ++ rest)
      /\ (forall n v, In (n, v) (l_vals l) -> exists v', lookup n (snd e) = Some v' /\ value_eqb (snd v') v = true))
  /\ (sorted tcmp sp -> sorted tcmp (spec_rows sp l))
  /\ spec_rows sp l = filter (fun e => is_prefix hval_cmp (l_keys l) (fst e) && vals_match (l_vals l) (snd e)) sp.
Print Assumptions spec_rows_meaning.

Theorem vm_fact_ops_refine : vm_fact_ops_refine_stmt.
Proof. exact vm_fact_ops_refine_proof. Qed.
Check vm_fact_ops_refine :
  forall (utf8 : bytes -> bool) (St VB : Type) st_insert st_delete st_prefix
         (ser_vals : list fval -> VB) (deser_vals : VB -> option (list fval)) flat,
  storage_is_flat_map st_insert st_delete st_prefix flat ->
  (forall vs, deser_vals (ser_vals vs) = Some vs) ->
  forall s, schema_okb utf8 s = true ->
  forall sp st, R utf8 St VB ser_vals flat s sp st ->
  forall o, op_okb utf8 s o = true ->
    let vm := vm_step utf8 St VB st_insert st_delete st_prefix ser_vals deser_vals s st o in
    let spec := spec_step s sp o in
    fst vm = fst spec
    /\ R utf8 St VB ser_vals flat s (snd spec) (snd vm)
    /\ (forall n', n' <> s_name s -> flat (snd vm) n' = flat st n').
Print Assumptions vm_fact_ops_refine.

Theorem vm_fact_history_refine : vm_fact_history_refine_stmt.
Proof. exact vm_fact_history_refine_proof. Qed.
Check vm_fact_history_refine :
  forall (utf8 : bytes -> bool) (St VB : Type) st_insert st_delete st_prefix
         (ser_vals : list fval -> VB) (deser_vals : VB -> option (list fval)) flat,
  storage_is_flat_map st_insert st_delete st_prefix flat ->
  (forall vs, deser_vals (ser_vals vs) = Some vs) ->
  forall s, schema_okb utf8 s = true ->
  forall os, Forall (fun o => op_okb utf8 s o = true) os ->
  forall sp st, R utf8 St VB ser_vals flat s sp st ->
    let vm := vm_run utf8 St VB st_insert st_delete st_prefix ser_vals deser_vals s st os in
    let spec := spec_run s sp os in
    fst vm = fst spec /\ R utf8 St VB ser_vals flat s (snd spec) (snd vm).
Print Assumptions vm_fact_history_refine.

(** The storage component is inhabited (the sorted association list C12 proves linear storage to be). *)
Theorem flat_store_is_instance : forall VB, storage_is_flat_map (l_insert VB) (l_delete VB) (l_prefix VB) (l_flat VB).
Proof. exact lstore_flat_map. Qed.
Check flat_store_is_instance : forall VB, storage_is_flat_map (l_insert VB) (l_delete VB) (l_prefix VB) (l_flat VB).
Print Assumptions flat_store_is_instance.
