(** C44 — channel loans are exclusive and freed exactly once.
    All theorems quantify over every number [n] of client threads and every
    schedule [sched] (any length, any choice of operations allowed by Rust's
    ownership rules) of the interleaving model [model/BiArc.v] of
    [lender.rs]'s [BiArc]/[Lender]/[Loan]. *)
From Coq Require Import String.
From Aranya Require Import base.Tactics base.Interleave gen.GenConc model.BiArc proofs.BiArcProofs.

Theorem at_most_two_handles : at_most_two_handles_stmt.
Proof. exact at_most_two_handles_proof. Qed.
Check at_most_two_handles :
  forall (n : nat) (sched : list bevent),
  handles (brun sched (binit n)) <= 2.
Print Assumptions at_most_two_handles.

Theorem lend_exclusive : lend_exclusive_stmt.
Proof. exact lend_exclusive_proof. Qed.
Check lend_exclusive :
  forall (n : nat) (sched : list bevent),
  let g := brun sched (binit n) in
  n_loans g <= 1
  /\ forall (t : nat) (l : blocal) (o : bop),
     at_ g t l -> bpc_of l = BLend -> n_loans g = 1 ->
     let g' := exec btid bstep g (BEv t o) in
     at_ g' t (BL BIdle (loans l) 2) /\ n_loans g' = 1.
Print Assumptions lend_exclusive.

Theorem revoked_after_lender_drop : revoked_after_lender_drop_stmt.
Proof. exact revoked_after_lender_drop_proof. Qed.
Check revoked_after_lender_drop :
  forall (n : nat) (sched : list bevent),
  let g := brun sched (binit n) in
  llive (sh g) = false ->
  state (sh g) = false
  /\ (forall sched', llive (sh (brun sched' g)) = false)
  /\ (forall (t : nat) (l : blocal) (o : bop),
      at_ g t l -> bpc_of l = BGet ->
      at_ (exec btid bstep g (BEv t o)) t (BL BIdle (loans l) 4))
  /\ (forall (t : nat) (l : blocal) (o : bop),
      at_ g t l -> bpc_of l = BGetRef ->
      at_ (exec btid bstep g (BEv t o)) t (BL BIdle (loans l) 9)).
Print Assumptions revoked_after_lender_drop.

Theorem freed_exactly_once : freed_exactly_once_stmt.
Proof. exact freed_exactly_once_proof. Qed.
Check freed_exactly_once :
  forall (n : nat) (sched : list bevent),
  let g := brun sched (binit n) in
  freed (sh g) <= 1
  /\ uaf (sh g) = false
  /\ (1 <= handles g -> freed (sh g) = 0)
  /\ (forall t l, at_ g t l -> busy (bpc_of l) -> freed (sh g) = 0)
  /\ (quiescent g -> freed (sh g) = 1).
Print Assumptions freed_exactly_once.

(** Model assumption made checkable: every public accessor of [Loan] goes through the
    conditional getter (regenerated from lender.rs on every run). *)
Theorem lender_accessors_conditional : lender_accessors_stmt.
Proof. exact lender_accessors_proof. Qed.
Check lender_accessors_conditional :
  lender_accessors =
  [("Lender", "pub new", "");
   ("Lender", "pub lend", "try_clone");
   ("Lender", "pub shared", "get_unconditional");
   ("Loan", "pub get_ref", "get_if_shared");
   ("Loan", "pub get_mut", "get_if_shared")]%string.
Print Assumptions lender_accessors_conditional.
