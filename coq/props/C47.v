(** C47 — C string output never overflows its buffer. *)
From Aranya Require Import base.Tactics model.CStr proofs.CStrProofs.

Theorem write_c_str_spec : write_c_str_spec_stmt.
Proof. exact write_c_str_spec_proof. Qed.
Check write_c_str_spec :
  forall (off : nat) (n : N) (m : list N) (frags : list (list N)),
  off + N.to_nat n <= length m ->
  (total frags < usize_max)%N ->
  let '(m', nw', ok) := write_c_str off n m frags in
  length m' = length m
  /\ (forall j, j < off \/ off + N.to_nat n <= j -> nth_error m' j = nth_error m j)
  /\ nw' = (total frags + 1)%N
  /\ ok = (total frags + 1 <=? n)%N
  /\ (ok = true ->
      (forall k, k < length (concat frags) -> nth_error m' (off + k) = nth_error (concat frags) k)
      /\ nth_error m' (off + length (concat frags)) = Some 0%N).
Print Assumptions write_c_str_spec.

Theorem write_c_str_frame : write_c_str_frame_stmt.
Proof. exact write_c_str_frame_proof. Qed.
Check write_c_str_frame :
  forall (off : nat) (n : N) (m : list N) (frags : list (list N)),
  off + N.to_nat n <= length m ->
  (n <= usize_max)%N ->
  let '(m', _, _) := write_c_str off n m frags in
  length m' = length m
  /\ forall j, j < off \/ off + N.to_nat n <= j -> nth_error m' j = nth_error m j.
Print Assumptions write_c_str_frame.

(** The two-call idiom: a call succeeds exactly when its buffer is at least
    the reported size, and a retry on any buffer of exactly the reported size
    succeeds, writes the whole text plus NUL and touches nothing else. *)
Theorem write_c_str_retry : write_c_str_retry_stmt.
Proof. exact write_c_str_retry_proof. Qed.
Check write_c_str_retry :
  forall (off : nat) (n : N) (m : list N) (frags : list (list N)) (off2 : nat) (m2 : list N),
  off + N.to_nat n <= length m ->
  (total frags < usize_max)%N ->
  let '(_, nw1, ok1) := write_c_str off n m frags in
  (ok1 = true <-> (nw1 <= n)%N)
  /\ (off2 + N.to_nat nw1 <= length m2 ->
      let '(m2', nw2, ok2) := write_c_str off2 nw1 m2 frags in
      ok2 = true /\ nw2 = nw1
      /\ (forall k, k < length (concat frags) -> nth_error m2' (off2 + k) = nth_error (concat frags) k)
      /\ nth_error m2' (off2 + length (concat frags)) = Some 0%N
      /\ length m2' = length m2
      /\ (forall j, j < off2 \/ off2 + N.to_nat nw1 <= j -> nth_error m2' j = nth_error m2 j)).
Print Assumptions write_c_str_retry.
