(** C47 — C string output never overflows its buffer. *)
From Aranya Require Import base.Tactics model.CStr proofs.CStrProofs.

Theorem write_c_str_spec : write_c_str_spec_stmt.
Proof. exact write_c_str_spec_proof. Qed.
Check write_c_str_spec :
  forall (off : nat) (n : N) (m : list N) (frags : list (list N)),
  off + N.to_nat n <= length m ->
  (total frags < usize_max)%N ->
  let '(m', nw', ok) := write_c_str off n m frags in
  length m' = length m
  /\ (forall j, j < off \/ off + N.to_nat n <= j -> nth_error m' j = nth_error m j)
  /\ nw' = (total frags + 1)%N
  /\ ok = (total frags + 1 <=? n)%N
  /\ (ok = true ->
      (forall k, k < length (concat frags) -> nth_error m' (off + k) = nth_error (concat frags) k)
      /\ nth_error m' (off + length (concat frags)) = Some 0%N).
Print Assumptions write_c_str_spec.

Theorem write_c_str_frame : write_c_str_frame_stmt.
Proof. exact write_c_str_frame_proof. Qed.
Check write_c_str_frame :
  forall (off : nat) (n : N) (m : list N) (frags : list (list N)),
  off + N.to_nat n <= length m ->
  (n <= usize_max)%N ->
  let '(m', _, _) := write_c_str off n m frags in
  length m' = length m
  /\ forall j, j < off \/ off + N.to_nat n <= j -> nth_error m' j = nth_error m j.
Print Assumptions write_c_str_frame.
