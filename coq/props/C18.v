(** C18 — sync message handling never panics. *)
From Aranya Require Import base.Tactics gen.GenSync model.Dag model.TravQueue model.Wire model.SyncStore model.SyncResp model.SyncReq
  proofs.SyncWireProofs proofs.SyncLedger.
From Coq Require Import Sorting.Sorted.
Local Open Scope N_scope.

(** Decoding and processing ANY byte string: the requester's [receive]
    (decode + [get_sync_commands]) and any interleaving of received byte
    strings and polls at a responder (decode + [receive] + [poll], buffers of
    any size, any well-formed local store) end in Ok or Err — never a panic,
    never [Bug] (a panic under debug assertions), never fuel exhaustion. *)
Theorem sync_decode_total : sync_decode_total_stmt.
Proof. exact sync_decode_total_proof. Qed.
Check sync_decode_total :
  (forall (dbg : bool) (q : requester) (bytes : list N), q_next q < usize_max -> clean (snd (receive dbg q bytes)))
  /\
  (forall (dbg : bool) (p : provider) (ops : list rop),
     (forall g st, get_storage p g = ROk st -> wf_store st) ->
     N.of_nat (length ops) < u64_max ->
     Forall rout_clean (rrun dbg p responder_new ops)).
Print Assumptions sync_decode_total.

(** Accepted commands are sliced out of the bytes that follow the message:
    consecutive ranges, each inside the received bytes, lengths as claimed. *)
Theorem slices_in_bounds : slices_in_bounds_stmt.
Proof. exact slices_in_bounds_proof. Qed.
Check slices_in_bounds :
  forall (dbg : bool) (q : requester) (bytes : list N) (q' : requester) (cs : list rcmd),
  receive dbg q bytes = (q', ROk (Some cs)) ->
  exists m rest, dec_resp bytes = DOk m rest /\
    ranges_ok (N.of_nat (length rest)) 0 cs /\
    match m with SyncResponse _ _ ms => map rc_meta cs = ms | _ => False end.
Print Assumptions slices_in_bounds.

(** Commands are accepted only from a response of the requester's own session
    carrying exactly the next expected index. *)
Theorem accepts_only_own_session_in_order : accepts_only_own_session_in_order_stmt.
Proof. exact accepts_only_own_session_in_order_proof. Qed.
Check accepts_only_own_session_in_order :
  forall (dbg : bool) (q : requester) (m : resp_msg) (rlen : N) (q' : requester) (cs : list rcmd),
  get_sync_commands dbg q m rlen = (q', ROk (Some cs)) ->
  exists idx ms, m = SyncResponse (q_sid q) idx ms /\ idx = q_next q /\
    (q_state q = QStart \/ q_state q = QWaiting) /\
    q_next q' = q_next q + 1 /\ q_state q' = QWaiting /\ q_sid q' = q_sid q.
Print Assumptions accepts_only_own_session_in_order.

(** Every panic-capable site the translator finds in the non-test code of
    sync/{mod,requester,responder,wire}.rs is accounted for by the model. *)
Theorem ledger_complete : ledger_complete_stmt.
Proof. exact ledger_complete_proof. Qed.
Check ledger_complete :
  forallb (fun s => existsb (fun a => site_eqb s (fst a)) accounted) sites_sync = true.
Print Assumptions ledger_complete.

(** Whole sessions: over ANY sequence of received byte strings the session id
    never changes, the expected index never decreases, and the indexes at
    which responses were accepted are strictly increasing — a response is
    never accepted twice, replayed, or out of sequence. *)
Theorem session_indexes_increase : session_indexes_increase_stmt.
Proof. exact session_indexes_increase_proof. Qed.
Check session_indexes_increase :
  forall (dbg : bool) (bs : list (list N)) (q qf : requester) (acc : list N),
  recv_all dbg q bs = (qf, acc) ->
  q_sid qf = q_sid q /\ q_next q <= q_next qf /\
  StronglySorted N.lt acc /\ Forall (fun i => q_next q <= i < q_next qf) acc.
Print Assumptions session_indexes_increase.
