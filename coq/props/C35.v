(** C35 — replicas accept only authentic commands. *)
From Aranya Require Import base.Tactics gen.GenEnvelope model.Envelope proofs.EnvelopeProofs proofs.EnvelopePins.

Theorem replica_accepts_authentic_only : replica_accepts_authentic_only_stmt.
Proof. exact replica_accepts_authentic_only_proof. Qed.
Check replica_accepts_authentic_only :
  forall (F E : Type) kinds struct_decodes open_key verify_cmd policy_eval (empty_facts : F) signed,
  cmd_sig_binds verify_cmd signed ->
  let deliver := deliver F E kinds struct_decodes open_key verify_cmd policy_eval empty_facts in
  forall (g : tok) (r : replica F E) (c : wcmd),
  (forall r', deliver g r c = (r', Accepted) ->
     authentic F open_key signed (facts_seen F E empty_facts r) c
     /\ In (c_id c, max_cut_of c) (r_cmds r'))
  /\ (forall r' o, deliver g r c = (r', o) -> o <> Accepted -> r' = r)
  /\ (forall c' r1 r2, deliver g r c = (r1, Accepted) ->
        (option_map w_sig (c_data c) = option_map w_sig (c_data c') \/ c_id c = c_id c') ->
        presented F open_key (facts_seen F E empty_facts r) c <> presented F open_key (facts_seen F E empty_facts r) c' ->
        deliver g r c' <> (r2, Accepted)).
Print Assumptions replica_accepts_authentic_only.

Theorem in_trx_reject_unchanged : in_trx_reject_unchanged_stmt.
Proof. exact in_trx_reject_unchanged_proof. Qed.
Check in_trx_reject_unchanged :
  forall (F E : Type) kinds struct_decodes open_key verify_cmd policy_eval head (r r' : replica F E) c o,
  deliver_in_trx F E kinds struct_decodes open_key verify_cmd policy_eval false head r c = (r', o) ->
  o <> Accepted -> r' = r.
Print Assumptions in_trx_reject_unchanged.
