(** C34 — command signatures bind command, name, parent and author. *)
From Coq Require Import String.
From Aranya Require Import base.Tactics gen.GenCrypto model.TupleHash model.CryptoFrames model.CryptoSym
  proofs.TupleHashProofs proofs.CryptoSymProofs.
Local Open Scope N_scope.

Theorem cmd_sig_binds : cmd_sig_binds_stmt.
Proof. exact cmd_sig_binds_proof. Qed.
Check cmd_sig_binds :
  forall (oids : list bytes) (H : bytes -> bytes) (SK PK SIG : Type) (pub : SK -> PK)
         (pk_bytes : PK -> bytes) (sig_bytes : SIG -> bytes) (Sign : SK -> bytes -> SIG)
         (Verify : PK -> bytes -> SIG -> bool),
    (forall a b, H a = H b -> a = b) ->
    ideal_sig SK PK SIG pub pk_bytes sig_bytes Sign Verify ->
    let sign_cmd := sign_cmd oids H SK PK SIG pub pk_bytes sig_bytes Sign in
    let verify_cmd := verify_cmd oids H PK SIG pk_bytes sig_bytes Verify in
    let ffi_verify := ffi_verify oids H PK SIG pk_bytes sig_bytes Verify in
    (forall k c, verify_cmd (pub k) c (fst (sign_cmd k c)) = Some (snd (sign_cmd k c)))
    /\ (forall k c p c' id', verify_cmd p c' (fst (sign_cmd k c)) = Some id' ->
          p = pub k /\ c' = c /\ id' = snd (sign_cmd k c))
    /\ (forall k c s' id', verify_cmd (pub k) c s' = Some id' ->
          s' = fst (sign_cmd k c) /\ id' = snd (sign_cmd k c))
    /\ (forall p c claimed s, ffi_verify p c claimed s = true <-> verify_cmd p c s = Some claimed)
    /\ (forall k c k' c', snd (sign_cmd k c) = snd (sign_cmd k' c') -> k = k' /\ c = c').
Print Assumptions cmd_sig_binds.

(** Bytes level: the TupleHash framing determines the tuple of byte strings. *)
Theorem tuple_input_injective : tuple_input_injective_stmt.
Proof. exact tuple_input_injective_proof. Qed.
Check tuple_input_injective : forall xs ys : list bytes, tuple_input xs = tuple_input ys -> xs = ys.
Print Assumptions tuple_input_injective.

(** The call sites the framings are generated from. *)
Theorem c34_sites :
  site_cmd_digest = ("SignPolicyCommand-v1", "", ["author"; "name"; "parent_id"; "data"])%string
  /\ site_cmd_id = ("PolicyCommandId-v1", "", ["cmd"; "sig.raw_sig()"])%string
  /\ site_sk_id = ("$context", "", ["::core::borrow::Borrow::borrow(&pk)"])%string
  /\ calls_sign_cmd = ["cmd.digest"; "self.id"; "Signature"; "self.sk.sign"; "policy::cmd_id"]%string
  /\ calls_verify_cmd = ["cmd.digest"; "self.id"; "self.pk.verify"; "policy::cmd_id"]%string
  /\ ffi_verify_accept_condition = "bool::from(id.ct_eq(&command_id))"%string.
Proof. pose proof sites_pinned. tauto. Qed.
Check c34_sites :
  site_cmd_digest = ("SignPolicyCommand-v1", "", ["author"; "name"; "parent_id"; "data"])%string
  /\ site_cmd_id = ("PolicyCommandId-v1", "", ["cmd"; "sig.raw_sig()"])%string
  /\ site_sk_id = ("$context", "", ["::core::borrow::Borrow::borrow(&pk)"])%string
  /\ calls_sign_cmd = ["cmd.digest"; "self.id"; "Signature"; "self.sk.sign"; "policy::cmd_id"]%string
  /\ calls_verify_cmd = ["cmd.digest"; "self.id"; "self.pk.verify"; "policy::cmd_id"]%string
  /\ ffi_verify_accept_condition = "bool::from(id.ct_eq(&command_id))"%string.
Print Assumptions c34_sites.
