(** C08 — transactions are isolated and history only grows *)
From Aranya Require Import base.Tactics model.Dag model.Txn proofs.TxnGraph proofs.TxnInv proofs.TxnProps proofs.TxnExamples.
From Coq Require Import Sorted.

Theorem commit_isolated : forall facts fempty eval has_policy merge_id facts_effs braid libc gid,
  commit_isolated_stmt facts fempty eval has_policy merge_id facts_effs braid libc gid.
Proof. exact commit_isolated_proof. Qed.
Check commit_isolated :
  forall (facts : Type) (fempty : facts) (eval : cmd -> facts -> outcome facts) (has_policy : cmd -> bool)
         (merge_id : N -> N -> N) (facts_effs : facts -> list eff)
         (braid : list (wcmd facts) -> list N -> bres facts) (libc : bool) (gid : N),
  
  (forall ops1 ops2, (rclash facts) ((run facts fempty eval has_policy merge_id facts_effs braid libc gid) r0 (ops1 ++ ops2)) = false ->
     forall x, (rcommitted facts) ((run facts fempty eval has_policy merge_id facts_effs braid libc gid) r0 ops1) x -> (rcommitted facts) ((run facts fempty eval has_policy merge_id facts_effs braid libc gid) r0 (ops1 ++ ops2)) x)
  
  /\ (forall ops k, (rclash facts) ((run facts fempty eval has_policy merge_id facts_effs braid libc gid) r0 (ops ++ [Commit k])) = false ->
      forall s t, rstore ((run facts fempty eval has_policy merge_id facts_effs braid libc gid) r0 ops) = Some s -> tx_get (rtxs ((run facts fempty eval has_policy merge_id facts_effs braid libc gid) r0 ops)) k = Some t ->
      let '(r', l, x) := (step facts fempty eval has_policy merge_id facts_effs braid libc gid) ((run facts fempty eval has_policy merge_id facts_effs braid libc gid) r0 ops) (Commit k) in
      exists s', rstore r' = Some s' /\
        ((x = ROkB true /\ tstamp t = Some (sstamp s) /\ sncommit s' = (sncommit s + 1)%N /\ (sstamp s < sstamp s')%N
          /\ (forall y, (committed facts) s' y <-> (committed facts) s y \/ In y (tadded t)))
         \/ (x <> ROkB true /\ sheads s' = sheads s /\ scache s' = scache s /\ sstamp s' = sstamp s
             /\ sncommit s' = sncommit s /\ (forall y, (committed facts) s' y <-> (committed facts) s y)))
        /\ (x = RErr EConcurrentTransaction <-> (tstamp t <> None /\ tseen t <> sncommit s))
        /\ (x = RErr EConcurrentTransaction -> s' = s)
        /\ (x = ROkB false -> tstamp t = None /\ s' = s))
  
  /\ (forall ops o, (rclash facts) ((run facts fempty eval has_policy merge_id facts_effs braid libc gid) r0 (ops ++ [o])) = false ->
      forall s, rstore ((run facts fempty eval has_policy merge_id facts_effs braid libc gid) r0 ops) = Some s ->
      let '(r', l, x) := (step facts fempty eval has_policy merge_id facts_effs braid libc gid) ((run facts fempty eval has_policy merge_id facts_effs braid libc gid) r0 ops) o in
      exists s', rstore r' = Some s'
        /\ sncommit s' = (sncommit s + (if op_committed o x then 1 else 0))%N
        /\ (if op_committed o x then (sstamp s < sstamp s')%N else sstamp s' = sstamp s))
  /\ (forall s t, tstamp t = None -> tseen (capture s t) = sncommit s /\ tstamp (capture s t) = Some (sstamp s)).
Print Assumptions commit_isolated.
