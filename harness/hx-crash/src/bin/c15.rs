//! C15 implementation-side runner: records the write trace of real workloads on the
//! libc-backed linear storage (hook h2: `verif_trace` in storage/linear/libc/imp.rs),
//! materialises crash images from the recorded trace and reopens them with the real
//! open path.
//!
//! stdin, one request per line:
//!   RUN <wid> api <op>,<op>,...       a<len>.<seed> | c<nheads>.<fc> | r
//!   RUN <wid> client <op>,<op>,...    i<nonce> | s<k>.<v> | d<k> | n<nonce> | x<parent>.<k>.<v>.<prio>[+x...] | r
//!   IMG <wid> <prefix> <spec> <cont:0|1>
//!   DROP <wid>
//! stdout: for RUN a block `TRACE <wid> <n>` / event lines / `END`; for IMG one `R ...` line.
use std::{
    cell::Cell,
    collections::{BTreeMap, BTreeSet},
    fs,
    io::{self, BufRead, Write as _},
    os::unix::fs::FileExt,
    panic::{self, AssertUnwindSafe},
    path::{Path, PathBuf},
};

use aranya_runtime::{
    Address, ClientState, CmdId, Command, GraphId, HeadSet, Location, LocatedAddress, MaxCut,
    MemSpill, Prior, Priority, Query, RuntimeBuffers, Segment, SegmentIndex, Storage,
    StorageProvider,
    linear::{
        LinearStorageProvider,
        io::{FactCacheOffset, IoManager, Read, Write},
        libc::{FileManager, verif_trace as vt},
    },
    testing::{
        hash_for_testing_only,
        protocol::{TestActions, TestPolicyStore, TestSink, WireBasic, WireProtocol},
    },
};
use serde::{Deserialize, Serialize};

// ---------------------------------------------------------------- raw records

/// A record whose serialisation is exactly its bytes (a tuple of `u8`s).
struct Raw(Vec<u8>);
impl Serialize for Raw {
    fn serialize<S: serde::Serializer>(&self, s: S) -> Result<S::Ok, S::Error> {
        use serde::ser::SerializeTuple;
        let mut t = s.serialize_tuple(self.0.len())?;
        for b in &self.0 {
            t.serialize_element(b)?;
        }
        t.end()
    }
}
thread_local! { static RAW_LEN: Cell<usize> = const { Cell::new(0) }; }
impl<'de> Deserialize<'de> for Raw {
    fn deserialize<D: serde::Deserializer<'de>>(d: D) -> Result<Self, D::Error> {
        struct V(usize);
        impl<'de> serde::de::Visitor<'de> for V {
            type Value = Raw;
            fn expecting(&self, f: &mut std::fmt::Formatter<'_>) -> std::fmt::Result {
                write!(f, "{} raw bytes", self.0)
            }
            fn visit_seq<A: serde::de::SeqAccess<'de>>(self, mut a: A) -> Result<Raw, A::Error> {
                let mut v = Vec::with_capacity(self.0);
                for _ in 0..self.0 {
                    match a.next_element::<u8>()? {
                        Some(b) => v.push(b),
                        None => return Err(serde::de::Error::custom("short")),
                    }
                }
                Ok(Raw(v))
            }
        }
        let n = RAW_LEN.with(|c| c.get());
        d.deserialize_tuple(n, V(n))
    }
}

fn hex(b: &[u8]) -> String {
    let mut s = String::with_capacity(b.len() * 2);
    for x in b {
        s.push_str(&format!("{x:02x}"));
    }
    if s.is_empty() { "-".into() } else { s }
}
fn poly(b: &[u8], mut h: u32) -> u32 {
    for x in b {
        h = h.wrapping_mul(131).wrapping_add(*x as u32);
    }
    h
}
/// Rolling hash of a write; writes longer than 4096 bytes are hashed on their first and last 64 bytes.
fn phash(b: &[u8]) -> u32 {
    if b.len() > 4096 { poly(&b[b.len() - 64..], poly(&b[..64], 0)) } else { poly(b, 0) }
}
fn fnv(s: &[u8]) -> u64 {
    let mut h: u64 = 0xcbf29ce484222325;
    for b in s {
        h ^= *b as u64;
        h = h.wrapping_mul(0x100000001b3);
    }
    h
}
/// Payload bytes of an api append: pseudo-random for small, constant fill for large.
fn payload(len: usize, seed: u64) -> Vec<u8> {
    if len > 4096 {
        return vec![(seed & 0xff) as u8; len];
    }
    let mut s = seed.wrapping_mul(6364136223846793005).wrapping_add(1442695040888963407);
    (0..len)
        .map(|_| {
            s = s.wrapping_mul(6364136223846793005).wrapping_add(1442695040888963407);
            (s >> 33) as u8
        })
        .collect()
}
fn api_heads(n: u64, commit_no: u64) -> HeadSet {
    let mut hs = HeadSet::default();
    for i in 0..n {
        let mut id = [0u8; 32];
        id[0] = (i + 1) as u8;
        id[1] = commit_no as u8;
        id[31] = 0x5a;
        hs.push(LocatedAddress {
            id: CmdId::from_bytes(id),
            segment: SegmentIndex::new(i.wrapping_mul(1000).wrapping_add(commit_no)),
            max_cut: MaxCut::new(commit_no),
        });
    }
    hs
}

// ---------------------------------------------------------------- trace

#[derive(Clone)]
enum Ev {
    P { file: usize, off: i64, data: Vec<u8> },
    D(usize),
    S(usize),
    F { file: usize, mode: i32, off: i64, len: i64 },
    M(u64, String),
}
fn take_events(out: &mut Vec<Ev>) {
    for e in vt::drain() {
        out.push(match e.op {
            vt::Op::Pwrite { off, data } => Ev::P { file: e.file, off, data },
            vt::Op::Fdatasync => Ev::D(e.file),
            vt::Op::Fsync => Ev::S(e.file),
            vt::Op::Fallocate { mode, off, len } => Ev::F { file: e.file, mode, off, len },
            vt::Op::Mark(t) => Ev::M(t, String::new()),
        });
    }
}

#[derive(Clone, Copy, PartialEq)]
enum Kind {
    Api,
    Client,
}
struct Workload {
    kind: Kind,
    graph: GraphId,
    trace: Vec<Ev>,
    /// api kind: (offset, payload) of every record appended, in order.
    recs: Vec<(u64, Vec<u8>)>,
    /// cache for incremental image construction: (events applied, durable image)
    cache: Option<(usize, Image)>,
}

// ---------------------------------------------------------------- images

#[derive(Clone, Default)]
struct Image {
    size: u64,
    /// non-overlapping written extents: start -> bytes
    ext: BTreeMap<u64, Vec<u8>>,
}
impl Image {
    fn write(&mut self, off: u64, data: &[u8]) {
        if data.is_empty() {
            return;
        }
        let end = off + data.len() as u64;
        // collect overlapping/adjacent extents and merge
        let mut start = off;
        let mut stop = end;
        let keys: Vec<u64> = self
            .ext
            .range(..=end)
            .filter(|(k, v)| **k + v.len() as u64 >= off)
            .map(|(k, _)| *k)
            .collect();
        let mut parts = Vec::new();
        for k in keys {
            let v = self.ext.remove(&k).unwrap();
            start = start.min(k);
            stop = stop.max(k + v.len() as u64);
            parts.push((k, v));
        }
        let mut buf = vec![0u8; (stop - start) as usize];
        for (k, v) in parts {
            buf[(k - start) as usize..(k - start) as usize + v.len()].copy_from_slice(&v);
        }
        buf[(off - start) as usize..(end - start) as usize].copy_from_slice(data);
        self.ext.insert(start, buf);
        if end > self.size {
            self.size = end;
        }
    }
    fn write_masked(&mut self, off: u64, data: &[u8], keep: &dyn Fn(usize) -> bool) {
        let mut i = 0;
        while i < data.len() {
            if keep(i) {
                let mut j = i;
                while j < data.len() && keep(j) {
                    j += 1;
                }
                self.write(off + i as u64, &data[i..j]);
                i = j;
            } else {
                i += 1;
            }
        }
    }
    fn extend(&mut self, size: u64) {
        if size > self.size {
            self.size = size;
        }
    }
    fn read(&self, off: u64, len: usize) -> Option<Vec<u8>> {
        if off + len as u64 > self.size {
            return None;
        }
        let mut out = vec![0u8; len];
        for (k, v) in self.ext.range(..off + len as u64) {
            let ke = *k + v.len() as u64;
            if ke <= off {
                continue;
            }
            let s = off.max(*k);
            let e = ke.min(off + len as u64);
            out[(s - off) as usize..(e - off) as usize]
                .copy_from_slice(&v[(s - *k) as usize..(e - *k) as usize]);
        }
        Some(out)
    }
    fn materialise(&self, path: &Path) -> io::Result<()> {
        let f = fs::File::create(path)?;
        f.set_len(self.size)?;
        for (k, v) in &self.ext {
            f.write_all_at(v, *k)?;
        }
        Ok(())
    }
}

/// Applies `ev` fully (as the page cache sees it).
fn apply_full(img: &mut Image, ev: &Ev) {
    match ev {
        Ev::P { off, data, .. } => img.write(*off as u64, data),
        Ev::F { off, len, .. } => img.extend((*off + *len) as u64),
        _ => {}
    }
}

fn parse_hex_mask(s: &str) -> Vec<u8> {
    // big-endian hex integer; bit i (little-endian numbering) = chunk i kept
    let s = if s.len() % 2 == 1 { format!("0{s}") } else { s.to_string() };
    let mut v: Vec<u8> = (0..s.len() / 2)
        .map(|i| u8::from_str_radix(&s[2 * i..2 * i + 2], 16).unwrap())
        .collect();
    v.reverse();
    v
}

/// Durable image after the first `n` events of the trace, plus the pending events.
fn crash_image(w: &mut Workload, n: usize, spec: &str) -> Result<Image, String> {
    let n = n.min(w.trace.len());
    // last barrier at or before n
    let mut last_sync = 0;
    for (i, e) in w.trace[..n].iter().enumerate() {
        if matches!(e, Ev::D(_) | Ev::S(_)) {
            last_sync = i + 1;
        }
    }
    let (mut done, mut img) = match w.cache.take() {
        Some((d, im)) if d <= last_sync => (d, im),
        _ => (0, Image::default()),
    };
    while done < last_sync {
        apply_full(&mut img, &w.trace[done]);
        done += 1;
    }
    w.cache = Some((done, img.clone()));
    let pending: Vec<&Ev> = w.trace[last_sync..n]
        .iter()
        .filter(|e| matches!(e, Ev::P { .. } | Ev::F { .. }))
        .collect();
    let toks: Vec<&str> = match spec {
        "K" => vec!["k"; pending.len()],
        "D" => vec!["d"; pending.len()],
        s => s.split(',').collect(),
    };
    if toks.len() != pending.len() {
        return Err(format!("spec has {} tokens for {} pending ops", toks.len(), pending.len()));
    }
    for (e, t) in pending.iter().zip(toks) {
        match (e, t) {
            (_, "d") => {}
            (e, "k") => apply_full(&mut img, e),
            (Ev::F { .. }, t) if t.starts_with('z') => {
                let sz: u64 = t[1..].parse().map_err(|_| "bad z")?;
                img.extend(sz);
            }
            (Ev::P { off, data, .. }, t) if t.starts_with('g') => {
                let (g, m) = t[1..].split_once(':').ok_or("bad g")?;
                let g: u64 = g.parse().map_err(|_| "bad g")?;
                let mask = parse_hex_mask(m);
                let off = *off as u64;
                let first = off / g;
                let keep = |i: usize| {
                    let c = ((off + i as u64) / g - first) as usize;
                    mask.get(c / 8).is_some_and(|b| (b >> (c % 8)) & 1 == 1)
                };
                img.write_masked(off, data, &keep);
            }
            (Ev::P { off, data, .. }, t) if t.starts_with('p') || t.starts_with('s') => {
                // p<G>:<n> = the first n G-aligned chunks reached the disk; s<G>:<n> = all but the first n
                let (g, c) = t[1..].split_once(':').ok_or("bad p/s")?;
                let g: u64 = g.parse().map_err(|_| "bad g")?;
                let c: u64 = c.parse().map_err(|_| "bad cut")?;
                let off = *off as u64;
                let first = off / g;
                let pre = t.starts_with('p');
                let keep = |i: usize| {
                    let ch = (off + i as u64) / g - first;
                    if pre { ch < c } else { ch >= c }
                };
                img.write_masked(off, data, &keep);
            }
            (_, t) => return Err(format!("bad spec token {t}")),
        }
    }
    Ok(img)
}

// ---------------------------------------------------------------- client workloads

type SP = LinearStorageProvider<FileManager>;
type Client = ClientState<TestPolicyStore, SP>;

struct RawCmd {
    id: CmdId,
    parent: Address,
    prio: u32,
    data: Vec<u8>,
}
impl Command for RawCmd {
    fn priority(&self) -> Priority {
        Priority::Basic(self.prio)
    }
    fn id(&self) -> CmdId {
        self.id
    }
    fn parent(&self) -> Prior<Address> {
        Prior::Single(self.parent)
    }
    fn policy(&self) -> Option<&[u8]> {
        None
    }
    fn bytes(&self) -> &[u8] {
        &self.data
    }
}

fn new_client(dir: &Path) -> Result<Client, String> {
    let fm = FileManager::new(dir).map_err(|e| format!("fm:{e:?}"))?;
    Ok(ClientState::new(TestPolicyStore::new(), LinearStorageProvider::new(fm)))
}
fn sink() -> TestSink {
    let mut s = TestSink::new();
    s.ignore_expectations(true);
    s
}

/// Canonical digest of everything reachable from the heads of a storage.
fn walk<S: Storage>(st: &S) -> Result<String, String> {
    let mut txt = String::new();
    let heads = st.get_heads().map_err(|e| format!("heads:{e:?}"))?.clone();
    let mut todo: Vec<Location> = Vec::new();
    for h in heads.iter() {
        txt.push_str(&format!("H {} {} {}\n", h.id, h.segment.get(), h.max_cut.get()));
        todo.push(Location::new(h.segment, h.max_cut));
    }
    let mut seen: BTreeSet<u64> = BTreeSet::new();
    let (mut nseg, mut ncmd, mut nfact) = (0u64, 0u64, 0u64);
    let mut segtxt: BTreeMap<u64, String> = BTreeMap::new();
    while let Some(loc) = todo.pop() {
        if !seen.insert(loc.segment.get()) {
            continue;
        }
        let seg = st.get_segment(loc).map_err(|e| format!("segment@{}:{e:?}", loc.segment.get()))?;
        nseg += 1;
        let mut t = format!(
            "S {} policy={:?} prior={:?} first={:?} skip={:?}\n",
            seg.index().get(),
            seg.policy(),
            seg.prior(),
            seg.first_location(),
            seg.skip_list()
        );
        for c in seg.get_from(seg.first_location()) {
            ncmd += 1;
            t.push_str(&format!(
                " C {} {:?} {:?} {:016x}\n",
                c.id(),
                c.priority(),
                c.parent(),
                fnv(c.bytes())
            ));
        }
        let facts = seg.facts().map_err(|e| format!("facts@{}:{e:?}", loc.segment.get()))?;
        for f in facts.query_prefix("payload", &[]).map_err(|e| format!("query:{e:?}"))? {
            let f = f.map_err(|e| format!("fact:{e:?}"))?;
            nfact += 1;
            t.push_str(&format!(" F {:?} {:?}\n", f.key, f.value));
        }
        match seg.prior() {
            Prior::None => {}
            Prior::Single(p) => todo.push(p),
            Prior::Merge(a, b) => {
                todo.push(a);
                todo.push(b);
            }
        }
        for s in seg.skip_list() {
            todo.push(*s);
        }
        segtxt.insert(loc.segment.get(), t);
    }
    for (_, t) in segtxt {
        txt.push_str(&t);
    }
    let fc = st.fact_cache().map_err(|e| format!("fact_cache:{e:?}"))?;
    for f in fc.query_prefix("payload", &[]).map_err(|e| format!("fcquery:{e:?}"))? {
        let f = f.map_err(|e| format!("fcfact:{e:?}"))?;
        txt.push_str(&format!("K {:?} {:?}\n", f.key, f.value));
    }
    Ok(format!("{:016x}:{}:{}:{}", fnv(txt.as_bytes()), nseg, ncmd, nfact))
}

fn run_client(dir: &Path, ops: &[&str], w: &mut Workload) -> Result<(), String> {
    let mut client = new_client(dir)?;
    let mut bufs = RuntimeBuffers::new();
    let mut known: Vec<Address> = Vec::new();
    let mut graph: Option<GraphId> = None;
    for (i, op) in ops.iter().enumerate() {
        let (c, rest) = op.split_at(1);
        let nums = |s: &str| -> Vec<u64> { s.split('.').filter(|x| !x.is_empty()).map(|x| x.parse().unwrap()).collect() };
        match c {
            "i" => {
                let a = nums(rest);
                let g = client
                    .new_graph(&0u64.to_be_bytes(), TestActions::Init(a[0]), &mut sink())
                    .map_err(|e| format!("new_graph:{e:?}"))?;
                graph = Some(g);
                w.graph = g;
                known.push(client.head_address(g).map_err(|e| format!("head:{e:?}"))?);
            }
            "s" | "d" | "n" => {
                let a = nums(rest);
                let g = graph.ok_or("no graph")?;
                let act = match c {
                    "s" => TestActions::SetValue(a[0], a[1]),
                    "d" => TestActions::DeleteValue(a[0], 0),
                    _ => TestActions::NoOp(a[0], 0),
                };
                client
                    .action(g, &mut sink(), act, &mut bufs, MemSpill::new)
                    .map_err(|e| format!("action:{e:?}"))?;
                known.push(client.head_address(g).map_err(|e| format!("head:{e:?}"))?);
            }
            "x" => {
                let g = graph.ok_or("no graph")?;
                let mut cmds = Vec::new();
                for part in op.split('+') {
                    let a = nums(&part[1..]);
                    let parent = *known.get(a[0] as usize).ok_or("bad parent index")?;
                    let msg = WireProtocol::Basic(WireBasic { parent, prority: a[3] as u32, payload: (a[1], a[2]) });
                    let data = postcard::to_allocvec(&msg).map_err(|e| format!("{e:?}"))?;
                    let id = hash_for_testing_only(&data);
                    let mc = parent.max_cut.get() + 1;
                    known.push(Address { id, max_cut: MaxCut::new(mc) });
                    cmds.push(RawCmd { id, parent, prio: a[3] as u32, data });
                }
                let mut trx = client.transaction(g);
                client
                    .add_commands(&mut trx, &mut sink(), &cmds, &mut bufs, MemSpill::new)
                    .map_err(|e| format!("add_commands:{e:?}"))?;
                client
                    .commit(trx, &mut sink(), &mut bufs, MemSpill::new)
                    .map_err(|e| format!("commit:{e:?}"))?;
            }
            "r" => {
                drop(client);
                client = new_client(dir)?;
                bufs = RuntimeBuffers::new();
            }
            _ => return Err(format!("bad op {op}")),
        }
        take_events(&mut w.trace);
        let dig = match graph {
            Some(g) => match client.provider().get_storage(g) {
                Ok(st) => walk(st).unwrap_or_else(|e| format!("walkerr:{e}")),
                Err(e) => format!("nostorage:{e:?}"),
            },
            None => "-".into(),
        };
        w.trace.push(Ev::M(i as u64, dig));
    }
    Ok(())
}

// ---------------------------------------------------------------- api workloads

fn api_graph() -> GraphId {
    GraphId::transmute(CmdId::from_bytes([7u8; 32]))
}

fn run_api(dir: &Path, ops: &[&str], w: &mut Workload, oplog: &mut Vec<String>) -> Result<(), String> {
    let mut fm = FileManager::new(dir).map_err(|e| format!("fm:{e:?}"))?;
    let g = api_graph();
    w.graph = g;
    let mut writer = fm.create(g).map_err(|e| format!("create:{e:?}"))?;
    let mut commit_no = 0u64;
    for (i, op) in ops.iter().enumerate() {
        let (c, rest) = op.split_at(1);
        let a: Vec<u64> = rest.split('.').filter(|x| !x.is_empty()).map(|x| x.parse().unwrap()).collect();
        match c {
            "a" => {
                let p = payload(a[0] as usize, a[1]);
                let mut at = 0u64;
                let r = writer.append(|off| {
                    at = off;
                    Raw(p.clone())
                });
                match r {
                    Ok(_) => {
                        oplog.push(format!("O a {} {} {} {}", at, p.len(), phash(&p), if p.len() <= 4096 { hex(&p) } else { format!("fill:{}", p[0]) }));
                        w.recs.push((at, p));
                    }
                    Err(e) => oplog.push(format!("O aerr {e:?}")),
                }
            }
            "c" => {
                commit_no += 1;
                let hs = api_heads(a[0], commit_no);
                let hb = postcard::to_allocvec(&hs).map_err(|e| format!("{e:?}"))?;
                match writer.commit(&hs, FactCacheOffset::new(a[1])) {
                    Ok(()) => {
                        let ho = writer.heads_offset().map(|h| format!("{h:?}")).unwrap_or_default();
                        let ho: String = ho.chars().filter(|c| c.is_ascii_digit()).collect();
                        oplog.push(format!("O c {} {} {}", hex(&hb), a[1], ho));
                        w.recs.push((ho.parse().unwrap_or(0), hb));
                    }
                    Err(e) => oplog.push(format!("O cerr {e:?}")),
                }
            }
            "r" => {
                drop(writer);
                writer = fm.open(g).map_err(|e| format!("open:{e:?}"))?.ok_or("vanished")?;
                oplog.push("O r".into());
            }
            _ => return Err(format!("bad op {op}")),
        }
        take_events(&mut w.trace);
        w.trace.push(Ev::M(i as u64, String::new()));
    }
    Ok(())
}

// ---------------------------------------------------------------- reopening an image

struct Opened {
    line: String,
}

fn heads_tag(hs: &HeadSet) -> String {
    let b = postcard::to_allocvec(hs).unwrap_or_default();
    format!("{:016x}", fnv(&b))
}

fn reopen(tmp: &Path, w: &Workload, img: &Image, cont: bool) -> Opened {
    let dir = tmp.join("img");
    let _ = fs::remove_dir_all(&dir);
    fs::create_dir_all(&dir).unwrap();
    let file = dir.join(format!("{}", w.graph));
    if let Err(e) = img.materialise(&file) {
        return Opened { line: format!("R ioerr {e:?}") };
    }
    let mut line = String::from("R ");
    let res = panic::catch_unwind(AssertUnwindSafe(|| -> String {
        let mut out = String::new();
        let mut fm = match FileManager::new(&dir) {
            Ok(f) => f,
            Err(e) => return format!("fmerr:{e:?}"),
        };
        let writer = match fm.open(w.graph) {
            Err(e) => return format!("open=err:{e:?}").replace(' ', "_"),
            Ok(None) => return "open=nofile".into(),
            Ok(Some(wr)) => wr,
        };
        let ho = writer.heads_offset().map(|h| format!("{h:?}")).unwrap_or_else(|e| format!("E{e:?}"));
        let ho: String = ho.chars().filter(|c| c.is_ascii_digit()).collect();
        let fc = writer.fact_cache().map(|f| f.get().to_string()).unwrap_or_else(|e| format!("E{e:?}"));
        // `buggy`'s `assume` panics under debug assertions (e.g. a head-set offset above i64::MAX
        // in a crafted root): report that as a value, it is not part of what `open` returned.
        let heads = match panic::catch_unwind(AssertUnwindSafe(|| writer.heads())) {
            Ok(Ok(h)) => heads_tag(&h),
            Ok(Err(e)) => format!("E{e:?}"),
            Err(_) => "Epanic".to_string(),
        };
        // the recovered writer's private state, read off its `Debug` output:
        // generation, write frontier, allocation end, next root slot
        let dbg = format!("{writer:?}");
        let field = |name: &str| -> String {
            match dbg.find(name) {
                Some(i) => dbg[i + name.len()..]
                    .chars()
                    .skip_while(|c| *c == ' ')
                    .take_while(|c| c.is_ascii_digit() || *c == '-')
                    .collect(),
                None => String::new(),
            }
        };
        out.push_str(&format!(
            "open=ok ho={ho} fc={fc} heads={heads} gen={} free={} ae={} nr={}",
            field("generation:"),
            field("free_offset:"),
            field("alloc_end:"),
            field("next_root:")
        ));
        match w.kind {
            Kind::Api => {
                let rd = writer.readonly();
                let mut bits = String::new();
                for (off, p) in &w.recs {
                    RAW_LEN.with(|c| c.set(p.len()));
                    // a record whose length prefix is not the expected one was overwritten (or never
                    // reached the disk): do not ask the reader to allocate a garbage length for it
                    let pre_ok = img.read(*off, 4).is_some_and(|l| l == (p.len() as u32).to_be_bytes());
                    let ok = pre_ok
                        && match rd.fetch::<Raw>(*off) {
                            Ok(r) => r.0 == *p,
                            Err(_) => false,
                        };
                    bits.push(if ok { '1' } else { '0' });
                }
                out.push_str(&format!(" recs={}", if bits.is_empty() { "-".into() } else { bits }));
                drop(writer);
            }
            Kind::Client => {
                drop(writer);
                drop(fm);
                let dig = match new_client(&dir) {
                    Ok(mut cl) => match cl.provider().get_storage(w.graph) {
                        Ok(st) => walk(st).unwrap_or_else(|e| format!("walkerr:{e}")),
                        Err(e) => format!("storageerr:{e:?}"),
                    },
                    Err(e) => format!("clienterr:{e}"),
                };
                out.push_str(&format!(" walk={}", dig.replace(' ', "_")));
            }
        }
        if cont {
            out.push(' ');
            out.push_str(&continuation(&dir, w, img, &ho, &heads));
        }
        out
    }));
    match res {
        Ok(s) => line.push_str(&s),
        Err(_) => line.push_str("panic"),
    }
    let _ = fs::remove_dir_all(&dir);
    Opened { line }
}

/// Continue on the recovered writer: one append and one commit, recording the trace;
/// then tear that commit's writes in a fixed family of ways and reopen each.
fn continuation(dir: &Path, w: &Workload, img: &Image, old_ho: &str, old_heads: &str) -> String {
    let mut fm = match FileManager::new(dir) {
        Ok(f) => f,
        Err(e) => return format!("cont=fmerr:{e:?}"),
    };
    let mut writer = match fm.open(w.graph) {
        Ok(Some(wr)) => wr,
        _ => return "cont=openerr".into(),
    };
    let new_heads = api_heads(2, 0xEE);
    vt::drain();
    vt::enable(true);
    let r1 = writer.append(|_| Raw(vec![0xC5; 5])).map(|_| ());
    let r2 = writer.commit(&new_heads, FactCacheOffset::new(7));
    vt::enable(false);
    let mut tr = Vec::new();
    take_events(&mut tr);
    drop(writer);
    if r1.is_err() || r2.is_err() {
        return format!("cont=operr:{r1:?}:{r2:?}").replace(' ', "_");
    }
    let kinds: String = tr
        .iter()
        .map(|e| match e {
            Ev::P { off, .. } if *off < 12288 => 'R',
            Ev::P { .. } => 'P',
            Ev::D(_) => 'D',
            Ev::S(_) => 'S',
            Ev::F { .. } => 'F',
            Ev::M(..) => 'M',
        })
        .collect();
    let new_tag = heads_tag(&new_heads);
    let mut outs = Vec::new();
    let dir2 = dir.parent().unwrap().join("img2");
    for j in 0..=tr.len() {
        let mut last_sync = 0;
        for (i, e) in tr[..j].iter().enumerate() {
            if matches!(e, Ev::D(_) | Ev::S(_)) {
                last_sync = i + 1;
            }
        }
        let mut base = img.clone();
        for e in &tr[..last_sync] {
            apply_full(&mut base, e);
        }
        let pend: Vec<&Ev> = tr[last_sync..j].iter().filter(|e| matches!(e, Ev::P { .. } | Ev::F { .. })).collect();
        // variants: 0 all dropped, 1 all kept, 2 only last kept, 3 all but last kept, 4 every write torn in half (first half), 5 (second half)
        let nvar = if pend.is_empty() { 1 } else { 6 };
        for v in 0..nvar {
            let mut im = base.clone();
            for (pi, e) in pend.iter().enumerate() {
                let last = pi + 1 == pend.len();
                match v {
                    0 => {}
                    1 => apply_full(&mut im, e),
                    2 => {
                        if last {
                            apply_full(&mut im, e)
                        }
                    }
                    3 => {
                        if !last {
                            apply_full(&mut im, e)
                        }
                    }
                    _ => {
                        if let Ev::P { off, data, .. } = e {
                            let h = data.len() / 2;
                            if v == 4 {
                                im.write(*off as u64, &data[..h]);
                            } else {
                                im.write(*off as u64 + h as u64, &data[h..]);
                            }
                        }
                    }
                }
            }
            let _ = fs::remove_dir_all(&dir2);
            fs::create_dir_all(&dir2).unwrap();
            let f2 = dir2.join(format!("{}", w.graph));
            if im.materialise(&f2).is_err() {
                outs.push(format!("{j}:{v}:i"));
                continue;
            }
            let oc = panic::catch_unwind(AssertUnwindSafe(|| {
                let mut fm2 = match FileManager::new(&dir2) {
                    Ok(f) => f,
                    Err(_) => return 'i',
                };
                match fm2.open(w.graph) {
                    Ok(Some(wr)) => {
                        let ho = wr.heads_offset().map(|h| format!("{h:?}")).unwrap_or_default();
                        let ho: String = ho.chars().filter(|c| c.is_ascii_digit()).collect();
                        match wr.heads() {
                            Ok(h) => {
                                let t = heads_tag(&h);
                                if t == new_tag {
                                    'n'
                                } else if t == old_heads && ho == old_ho {
                                    'o'
                                } else {
                                    'x'
                                }
                            }
                            Err(_) => 'u',
                        }
                    }
                    Ok(None) => 'f',
                    Err(_) => 'e',
                }
            }))
            .unwrap_or('p');
            outs.push(format!("{j}:{v}:{oc}"));
        }
    }
    let _ = fs::remove_dir_all(&dir2);
    let detail: Vec<String> = tr
        .iter()
        .filter_map(|e| match e {
            Ev::P { off, data, .. } => Some(format!("{off}:{}", hex(data))),
            _ => None,
        })
        .collect();
    format!("cont={kinds};{};{}", detail.join("/"), outs.join(","))
}

// ---------------------------------------------------------------- main

fn main() {
    let tmp = PathBuf::from(std::env::args().nth(1).expect("usage: c15 <tmpdir>"));
    fs::create_dir_all(&tmp).unwrap();
    let stdin = io::stdin();
    let out = io::stdout();
    let mut out = io::BufWriter::new(out.lock());
    let mut wls: BTreeMap<String, Workload> = BTreeMap::new();
    // silence panic messages (buggy's `assume` panics under debug assertions)
    panic::set_hook(Box::new(|_| {}));
    for line in stdin.lock().lines() {
        let line = line.unwrap();
        let mut it = line.split_whitespace();
        match it.next() {
            Some("RUN") => {
                let wid = it.next().unwrap().to_string();
                let kind = if it.next().unwrap() == "api" { Kind::Api } else { Kind::Client };
                let opss = it.next().unwrap_or("").to_string();
                let ops: Vec<&str> = opss.split(',').filter(|s| !s.is_empty()).collect();
                let dir = tmp.join(format!("run-{wid}"));
                let _ = fs::remove_dir_all(&dir);
                fs::create_dir_all(&dir).unwrap();
                let mut w = Workload { kind, graph: api_graph(), trace: Vec::new(), recs: Vec::new(), cache: None };
                let mut oplog = Vec::new();
                vt::drain();
                vt::enable(true);
                let r = panic::catch_unwind(AssertUnwindSafe(|| match kind {
                    Kind::Api => run_api(&dir, &ops, &mut w, &mut oplog),
                    Kind::Client => run_client(&dir, &ops, &mut w),
                }));
                vt::enable(false);
                take_events(&mut w.trace);
                let status = match r {
                    Ok(Ok(())) => "ok".to_string(),
                    Ok(Err(e)) => format!("err:{}", e.replace(' ', "_")),
                    Err(_) => "panic".into(),
                };
                // final on-disk file, for the cross-check "trace replay == file"
                let fpath = dir.join(format!("{}", w.graph));
                let mut full = Image::default();
                for e in &w.trace {
                    apply_full(&mut full, e);
                }
                let same = match fs::read(&fpath) {
                    Ok(bytes) => {
                        bytes.len() as u64 == full.size && full.read(0, bytes.len()).is_some_and(|b| b == bytes)
                    }
                    Err(_) => false,
                };
                writeln!(out, "TRACE {wid} {} {status} replay_equals_file={}", w.trace.len(), same as u8).unwrap();
                let files: Vec<usize> = {
                    let mut v = Vec::new();
                    for e in &w.trace {
                        let f = match e {
                            Ev::P { file, .. } | Ev::F { file, .. } => *file,
                            Ev::D(f) | Ev::S(f) => *f,
                            Ev::M(..) => continue,
                        };
                        if !v.contains(&f) {
                            v.push(f);
                        }
                    }
                    v
                };
                let fid = |f: &usize| files.iter().position(|x| x == f).unwrap();
                for e in &w.trace {
                    match e {
                        Ev::P { file, off, data } => writeln!(
                            out,
                            "P {} {} {} {} {}",
                            fid(file),
                            off,
                            data.len(),
                            phash(data),
                            if data.len() <= 4096 { hex(data) } else { format!("fill:{}", if data.iter().all(|b| *b == data[0]) { data[0] as i32 } else { -1 }) }
                        ),
                        Ev::D(f) => writeln!(out, "D {}", fid(f)),
                        Ev::S(f) => writeln!(out, "S {}", fid(f)),
                        Ev::F { file, mode, off, len } => writeln!(out, "F {} {} {} {}", fid(file), mode, off, len),
                        Ev::M(t, d) => writeln!(out, "M {} {}", t, if d.is_empty() { "-" } else { d }),
                    }
                    .unwrap();
                }
                for l in &oplog {
                    writeln!(out, "{l}").unwrap();
                }
                writeln!(out, "END").unwrap();
                let _ = fs::remove_dir_all(&dir);
                wls.insert(wid, w);
            }
            Some("IMG") => {
                let wid = it.next().unwrap();
                let n: usize = it.next().unwrap().parse().unwrap();
                let spec = it.next().unwrap();
                let cont = it.next().unwrap_or("0") == "1";
                let Some(w) = wls.get_mut(wid) else {
                    writeln!(out, "R nowl").unwrap();
                    continue;
                };
                match crash_image(w, n, spec) {
                    Ok(img) => {
                        let o = reopen(&tmp, w, &img, cont);
                        writeln!(out, "{} size={}", o.line, img.size).unwrap();
                    }
                    Err(e) => writeln!(out, "R specerr:{}", e.replace(' ', "_")).unwrap(),
                }
            }
            Some("RAW") => {
                // RAW <size> <hex slot A> <hex slot B>: an image given by its size and the bytes at the two root slots
                let size: u64 = it.next().unwrap().parse().unwrap();
                let unhex = |s: &str| -> Vec<u8> {
                    if s == "-" { return Vec::new(); }
                    (0..s.len() / 2).map(|i| u8::from_str_radix(&s[2 * i..2 * i + 2], 16).unwrap()).collect()
                };
                let a = unhex(it.next().unwrap_or("-"));
                let b = unhex(it.next().unwrap_or("-"));
                let mut img = Image::default();
                let clip = |off: u64, d: &[u8]| -> Vec<u8> {
                    if off >= size { Vec::new() } else { d[..d.len().min((size - off) as usize)].to_vec() }
                };
                img.write(4096, &clip(4096, &a));
                img.write(8192, &clip(8192, &b));
                img.size = size;
                let w = Workload { kind: Kind::Api, graph: api_graph(), trace: Vec::new(), recs: Vec::new(), cache: None };
                let o = reopen(&tmp, &w, &img, false);
                writeln!(out, "{} size={}", o.line, img.size).unwrap();
            }
            Some("DROP") => {
                wls.remove(it.next().unwrap_or(""));
                writeln!(out, "OK").unwrap();
            }
            _ => writeln!(out, "?").unwrap(),
        }
        out.flush().unwrap();
    }
    let _ = fs::remove_dir_all(&tmp);
}
