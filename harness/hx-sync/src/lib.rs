//! Implementation-side runner for the sync properties (C16–C19).
//!
//! A *world* is a set of real `ClientState`s (memory or libc linear storage)
//! sharing one graph, built with a small deterministic policy defined here
//! (commands carry a nonce, a priority and padding; no facts).  A script (one
//! op per line on stdin) creates commands by actions, runs real
//! `SyncRequester`/`SyncResponder` sessions message by message, dumps the
//! real segment layout through the public `Storage`/`Segment` traits, and
//! prints one canonical line per observable event.  Nothing here decides a
//! property; the check (checks/C1x.py) compares these lines with the Coq
//! model and with its own oracles.
#![allow(clippy::all)]

use std::{
    collections::{BTreeMap, BTreeSet},
    fmt::Write as _,
    panic::{self, AssertUnwindSafe},
};

use aranya_runtime::{
    Address, ClientError, ClientState, CmdId, Command, CommandExt, FactPerspective, GraphId,
    Location, MaxCut, MemSpill, MergeIds, PeerCache, Perspective, Policy, PolicyError, PolicyId,
    PolicyStore, Prior, Priority, RuntimeBuffers, Segment, SegmentIndex, Sink, Storage,
    StorageError, StorageProvider, SyncError, SyncIncoming, SyncRequester, SyncResponder,
    TraversalBuffer,
    policy::{ActionPlacement, CommandPlacement},
    storage::linear::{LinearStorageProvider, libc::FileManager, testing::MemStorageProvider},
    testing::hash_for_testing_only,
};
use serde::{Deserialize, Serialize};

// ---------------------------------------------------------------- policy

pub struct HxStore {
    policy: HxPolicy,
}
impl HxStore {
    pub fn new() -> Self {
        Self { policy: HxPolicy }
    }
}
pub struct HxPolicy;

#[derive(Clone, Debug)]
pub struct HxCmd {
    id: CmdId,
    prio: Priority,
    parent: Prior<Address>,
    policy: Option<Vec<u8>>,
    data: Vec<u8>,
}
impl Command for HxCmd {
    fn priority(&self) -> Priority {
        self.prio.clone()
    }
    fn id(&self) -> CmdId {
        self.id
    }
    fn parent(&self) -> Prior<Address> {
        self.parent
    }
    fn policy(&self) -> Option<&[u8]> {
        self.policy.as_deref()
    }
    fn bytes(&self) -> &[u8] {
        &self.data
    }
}

pub enum HxAction {
    Init { nonce: u64, policy_len: usize },
    Basic { nonce: u64, pad: usize, prio: u32 },
}

fn put_addr(v: &mut Vec<u8>, a: Address) {
    v.extend_from_slice(a.id.as_bytes());
    v.extend_from_slice(&a.max_cut.get().to_be_bytes());
}

impl HxPolicy {
    fn build(tag: u8, parent: Prior<Address>, nonce: u64, prio: Priority, pad: usize, policy: Option<Vec<u8>>) -> HxCmd {
        let mut data = vec![tag];
        match parent {
            Prior::None => {}
            Prior::Single(a) => put_addr(&mut data, a),
            Prior::Merge(a, b) => {
                put_addr(&mut data, a);
                put_addr(&mut data, b);
            }
        }
        data.extend_from_slice(&nonce.to_be_bytes());
        data.resize(data.len() + pad, 0x5a);
        let id = hash_for_testing_only(&data);
        HxCmd { id, prio, parent, policy, data }
    }
}

impl PolicyStore for HxStore {
    type Policy = HxPolicy;
    type Effect = ();
    fn add_policy(&mut self, _policy: &[u8]) -> Result<PolicyId, PolicyError> {
        Ok(PolicyId::new(0))
    }
    fn get_policy(&self, _id: PolicyId) -> Result<&Self::Policy, PolicyError> {
        Ok(&self.policy)
    }
}

impl Policy for HxPolicy {
    type Action<'a> = HxAction;
    type Effect = ();
    type Command<'a> = HxCmd;

    fn serial(&self) -> u32 {
        0
    }
    fn call_rule(
        &self,
        _command: &impl Command,
        _facts: &mut impl FactPerspective,
        _sink: &mut impl Sink<()>,
        _placement: CommandPlacement,
    ) -> Result<(), PolicyError> {
        Ok(())
    }
    fn call_action(
        &self,
        action: HxAction,
        facts: &mut impl Perspective,
        _sink: &mut impl Sink<()>,
        _placement: ActionPlacement,
    ) -> Result<(), PolicyError> {
        let cmd = match action {
            HxAction::Init { nonce, policy_len } => {
                HxPolicy::build(0, Prior::None, nonce, Priority::Init, 0, Some(vec![0u8; policy_len.max(1)]))
            }
            HxAction::Basic { nonce, pad, prio } => {
                let parent = match facts.head_address()? {
                    Prior::Single(a) => a,
                    _ => return Err(PolicyError::InternalError),
                };
                HxPolicy::build(1, Prior::Single(parent), nonce, Priority::Basic(prio), pad, None)
            }
        };
        facts.add_command(&cmd).map_err(|_| PolicyError::Write)?;
        Ok(())
    }
    fn merge<'a>(&self, _target: &'a mut [u8], ids: MergeIds) -> Result<HxCmd, PolicyError> {
        let (l, r): (Address, Address) = ids.into();
        Ok(HxPolicy::build(2, Prior::Merge(l, r), 0, Priority::Merge, 0, None))
    }
}

pub struct NoSink;
impl Sink<()> for NoSink {
    fn begin(&mut self) {}
    fn consume(&mut self, _: ()) {}
    fn rollback(&mut self) {}
    fn commit(&mut self) {}
}

// ---------------------------------------------------------------- printing helpers

pub fn hex(b: &[u8]) -> String {
    let mut s = String::with_capacity(b.len() * 2);
    for x in b {
        write!(s, "{x:02x}").unwrap();
    }
    s
}
pub fn unhex(s: &str) -> Vec<u8> {
    (0..s.len() / 2).map(|i| u8::from_str_radix(&s[2 * i..2 * i + 2], 16).unwrap_or(0)).collect()
}
pub fn idx(id: CmdId) -> String {
    hex(id.as_bytes())
}
fn addr_s(a: Address) -> String {
    format!("{}@{}", idx(a.id), a.max_cut.get())
}
fn prior_addr_s(p: Prior<Address>) -> String {
    match p {
        Prior::None => "-".into(),
        Prior::Single(a) => addr_s(a),
        Prior::Merge(a, b) => format!("{}+{}", addr_s(a), addr_s(b)),
    }
}
fn loc_s(l: Location) -> String {
    format!("{}.{}", l.segment.get(), l.max_cut.get())
}
fn prio_s(p: &Priority) -> String {
    match p {
        Priority::Merge => "M".into(),
        Priority::Basic(n) => format!("B{n}"),
        Priority::Finalize => "F".into(),
        Priority::Init => "I".into(),
    }
}

pub fn storage_err(e: &StorageError) -> String {
    match e {
        StorageError::StorageExists => "StorageExists".into(),
        StorageError::NoSuchStorage => "NoSuchStorage".into(),
        StorageError::NotInitialized => "NotInitialized".into(),
        StorageError::SegmentOutOfBounds(_) => "SegmentOutOfBounds".into(),
        StorageError::CommandOutOfBounds(_) => "CommandOutOfBounds".into(),
        StorageError::IoError => "IoError".into(),
        StorageError::Bug(_) => "Bug".into(),
        other => format!("{other:?}").split(['(', ' ']).next().unwrap_or("Other").to_string(),
    }
}
pub fn sync_err(e: &SyncError) -> String {
    match e {
        SyncError::SessionMismatch => "SessionMismatch".into(),
        SyncError::MissingSyncResponse => "MissingSyncResponse".into(),
        SyncError::SessionState => "SessionState".into(),
        SyncError::NotReady => "NotReady".into(),
        SyncError::CommandOverflow => "CommandOverflow".into(),
        SyncError::BufferTooSmall => "BufferTooSmall".into(),
        SyncError::MalformedResponse => "MalformedResponse".into(),
        SyncError::UnsupportedRequest => "UnsupportedRequest".into(),
        SyncError::Storage(s) => format!("Storage:{}", storage_err(s)),
        SyncError::Serialize(_) => "Serialize".into(),
        SyncError::Bug(_) => "Bug".into(),
        _ => "Other".into(),
    }
}
pub fn client_err(e: &ClientError) -> String {
    match e {
        ClientError::NoSuchParent(id) => format!("NoSuchParent:{}", idx(*id)),
        ClientError::PolicyError(_) => "PolicyError".into(),
        ClientError::StorageError(s) => format!("Storage:{}", storage_err(s)),
        ClientError::InitError => "InitError".into(),
        ClientError::ParallelFinalize => "ParallelFinalize".into(),
        ClientError::ConcurrentTransaction => "ConcurrentTransaction".into(),
        ClientError::Bug(_) => "Bug".into(),
        _ => "Other".into(),
    }
}

// ---------------------------------------------------------------- mirror of the wire types (decoding only)

#[derive(Serialize, Deserialize, Debug, Clone)]
pub struct MMeta {
    pub id: CmdId,
    pub priority: Priority,
    pub parent: Prior<Address>,
    pub policy_length: u32,
    pub length: u32,
}
#[derive(Serialize, Deserialize, Debug, Clone)]
pub enum MResp {
    SyncResponse { session_id: u128, response_index: u64, commands: Vec<MMeta> },
    SyncEnd { session_id: u128, max_index: u64, remaining: bool },
    Offer { session_id: u128, head: CmdId },
    EndSession { session_id: u128 },
}
#[derive(Serialize, Deserialize, Debug, Clone)]
pub enum MReq {
    SyncRequest { session_id: u128, graph_id: GraphId, max_bytes: u64, commands: Vec<Address> },
    RequestMissing { session_id: u128, indexes: Vec<u64> },
    SyncResume { session_id: u128, response_index: u64, max_bytes: u64 },
    EndSession { session_id: u128 },
}
#[derive(Serialize, Deserialize, Debug, Clone)]
pub enum MType {
    Poll { request: MReq },
    Subscribe { remain_open: u64, max_bytes: u64, commands: Vec<Address>, graph_id: GraphId },
    Unsubscribe { graph_id: GraphId },
    Push { message: MResp, graph_id: GraphId },
    Hello(MHello),
}
#[derive(Serialize, Deserialize, Debug, Clone)]
pub enum MHello {
    Subscribe { graph_id: GraphId, graph_change_delay: core::time::Duration, duration: core::time::Duration, schedule_delay: core::time::Duration },
    Unsubscribe { graph_id: GraphId },
    Hello { graph_id: GraphId, head: Address },
}

pub fn resp_summary(bytes: &[u8]) -> String {
    match postcard::take_from_bytes::<MResp>(bytes) {
        Err(_) => "msg undecodable".into(),
        Ok((m, rest)) => match m {
            MResp::SyncResponse { session_id, response_index, commands } => {
                let cmds: Vec<String> = commands
                    .iter()
                    .map(|c| format!("{}:{}:{}:{}:{}", idx(c.id), prio_s(&c.priority), prior_addr_s(c.parent), c.policy_length, c.length))
                    .collect();
                format!("msg resp sid={} idx={} hdr={} data={} cmds={}", session_id, response_index, bytes.len() - rest.len(), rest.len(), if cmds.is_empty() { "-".into() } else { cmds.join(",") })
            }
            MResp::SyncEnd { session_id, max_index, remaining } => {
                format!("msg end sid={} max={} remaining={}", session_id, max_index, remaining as u8)
            }
            MResp::Offer { session_id, .. } => format!("msg offer sid={}", session_id),
            MResp::EndSession { session_id } => format!("msg endsession sid={}", session_id),
        },
    }
}

// ---------------------------------------------------------------- world

pub trait Backend {
    type SP: StorageProvider;
    fn provider(&mut self, client: usize) -> Self::SP;
}
pub struct MemBackend;
impl Backend for MemBackend {
    type SP = MemStorageProvider;
    fn provider(&mut self, _c: usize) -> Self::SP {
        MemStorageProvider::default()
    }
}
pub struct LibcBackend {
    pub root: std::path::PathBuf,
    pub n: usize,
}
impl Backend for LibcBackend {
    type SP = LinearStorageProvider<FileManager>;
    fn provider(&mut self, c: usize) -> Self::SP {
        self.n += 1;
        let d = self.root.join(format!("w{}-c{}", self.n, c));
        std::fs::create_dir_all(&d).unwrap();
        LinearStorageProvider::new(FileManager::new(&d).unwrap())
    }
}

pub struct World<SP: StorageProvider> {
    pub clients: Vec<ClientState<HxStore, SP>>,
    pub graph: Option<GraphId>,
    /// caches[(a, b)] = what client a believes peer b holds
    pub caches: BTreeMap<(usize, usize), PeerCache>,
    pub bufs: Box<RuntimeBuffers<SP::Segment>>,
}

pub const BIG: usize = 2 * aranya_runtime::MAX_SYNC_MESSAGE_SIZE;

fn kv<'a>(toks: &'a [&'a str], key: &str) -> Option<&'a str> {
    toks.iter().find_map(|t| t.strip_prefix(key).and_then(|r| r.strip_prefix('=')))
}

impl<SP: StorageProvider> World<SP> {
    pub fn new(clients: Vec<ClientState<HxStore, SP>>) -> Self {
        Self { clients, graph: None, caches: BTreeMap::new(), bufs: Box::new(RuntimeBuffers::new()) }
    }

    pub fn dump(&mut self, c: usize) -> String {
        let Some(g) = self.graph else { return "nograph".into() };
        let storage = match self.clients[c].provider().get_storage(g) {
            Ok(s) => s,
            Err(e) => return format!("nostorage:{}", storage_err(&e)),
        };
        dump_storage(&*storage)
    }

    pub fn cache_s(&self, a: usize, b: usize) -> String {
        match self.caches.get(&(a, b)) {
            None => "-".into(),
            Some(c) => {
                let v: Vec<String> = c.heads().iter().map(|h| format!("{}@{}@{}", idx(h.id), h.segment.get(), h.max_cut.get())).collect();
                if v.is_empty() { "-".into() } else { v.join(",") }
            }
        }
    }

    /// `sess <req> <resp> sid=<n> [cache=fresh|keep] [bufs=a,b/c/...] [maxpolls=n] [single=1] [commit=0|1] [uh=0|1] [flush=0|1]`
    pub fn session(&mut self, toks: &[&str], out: &mut Vec<String>) {
        let a: usize = toks[1].parse().unwrap();
        let b: usize = toks[2].parse().unwrap();
        let sid: u128 = kv(toks, "sid").unwrap_or("7").parse().unwrap();
        let fresh = kv(toks, "cache").unwrap_or("keep") == "fresh";
        let maxpolls: usize = kv(toks, "maxpolls").unwrap_or("1000").parse().unwrap();
        let do_commit = kv(toks, "commit").unwrap_or("1") == "1";
        let do_uh = kv(toks, "uh").unwrap_or("1") == "1";
        let bufs: Vec<Vec<usize>> = match kv(toks, "bufs") {
            None | Some("") => vec![],
            Some(s) => s.split('/').map(|p| p.split(',').filter(|x| !x.is_empty()).map(|x| x.parse().unwrap()).collect()).collect(),
        };
        let g = self.graph.expect("graph");
        if fresh {
            self.caches.remove(&(a, b));
            self.caches.remove(&(b, a));
        }
        let mut req_cache = self.caches.remove(&(a, b)).unwrap_or_default();
        let mut resp_cache = self.caches.remove(&(b, a)).unwrap_or_default();
        // the two clients, mutably
        out.push(format!("cache_before req={} resp={}", {
            let v: Vec<String> = req_cache.heads().iter().map(|h| format!("{}@{}@{}", idx(h.id), h.segment.get(), h.max_cut.get())).collect();
            if v.is_empty() { "-".to_string() } else { v.join(",") }
        }, {
            let v: Vec<String> = resp_cache.heads().iter().map(|h| format!("{}@{}@{}", idx(h.id), h.segment.get(), h.max_cut.get())).collect();
            if v.is_empty() { "-".to_string() } else { v.join(",") }
        }));
        let (ca, cb) = if a < b {
            let (l, r) = self.clients.split_at_mut(b);
            (&mut l[a], &mut r[0])
        } else {
            let (l, r) = self.clients.split_at_mut(a);
            (&mut r[0], &mut l[b])
        };
        let bufsrt = &mut *self.bufs;
        let mut requester = SyncRequester::new_session_id(g, sid);
        // new_session_id starts in Waiting (push receiver); a polling requester is created with `new`
        let mut requester = {
            let _ = &mut requester;
            SyncRequester::new(g, FixedRng(sid))
        };
        let mut responder = SyncResponder::new();
        let mut buffer = vec![0u8; BIG];
        let r = requester.poll(&mut buffer, ca.provider(), &req_cache.session_heads(), &mut bufsrt.traversal.primary);
        let len = match r {
            Ok((len, sent)) => {
                let sample = match postcard::from_bytes::<MType>(&buffer[..len]) {
                    Ok(MType::Poll { request: MReq::SyncRequest { session_id, commands, max_bytes, .. } }) => {
                        let v: Vec<String> = commands.iter().map(|x| addr_s(*x)).collect();
                        format!("sid={} max_bytes={} sample={}", session_id, max_bytes, if v.is_empty() { "-".into() } else { v.join(",") })
                    }
                    _ => "undecodable".into(),
                };
                out.push(format!("req ok len={} sent={} {}", len, sent, sample));
                len
            }
            Err(e) => {
                out.push(format!("req err {}", sync_err(&e)));
                self.caches.insert((a, b), req_cache);
                self.caches.insert((b, a), resp_cache);
                return;
            }
        };
        match SyncIncoming::decode(&buffer[..len]) {
            Ok(SyncIncoming::Poll(p)) => match responder.receive(p) {
                Ok(()) => out.push("rrecv ok".into()),
                Err(e) => out.push(format!("rrecv err {}", sync_err(&e))),
            },
            Ok(_) => out.push("rrecv notpoll".into()),
            Err(e) => out.push(format!("rrecv decodeerr {}", sync_err(&e))),
        }
        let mut trx = ca.transaction(g);
        let mut sink = NoSink;
        let mut received: Vec<Address> = Vec::new();
        let mut slot = 0usize;
        let mut failed = false;
        while responder.ready() && slot < maxpolls {
            let sizes: Vec<usize> = bufs.get(slot).cloned().unwrap_or_default();
            slot += 1;
            let mut got: Option<usize> = None;
            for sz in sizes.into_iter().chain(std::iter::once(BIG)) {
                let sz = sz.min(BIG);
                for x in buffer[..sz].iter_mut() {
                    *x = 0xee;
                }
                match responder.poll(&mut buffer[..sz], cb.provider(), &mut resp_cache, &mut bufsrt.traversal) {
                    Ok(n) => {
                        out.push(format!("poll buf={} ok {}", sz, n));
                        got = Some(n);
                        break;
                    }
                    Err(e) => {
                        let k = sync_err(&e);
                        out.push(format!("poll buf={} err {}", sz, k));
                        if k != "BufferTooSmall" && k != "Serialize" {
                            break;
                        }
                        if !responder.ready() {
                            break;
                        }
                    }
                }
            }
            let Some(n) = got else {
                if !responder.ready() {
                    break;
                }
                // a non-buffer error with the responder still ready: keep polling (next slot)
                continue;
            };
            if n == 0 {
                out.push("msg empty".into());
                break;
            }
            out.push(resp_summary(&buffer[..n]));
            match requester.receive(&buffer[..n]) {
                Ok(Some(cmds)) => {
                    out.push(format!("rcv ok some {}", cmds.len()));
                    match ca.add_commands(&mut trx, &mut sink, &cmds, bufsrt, MemSpill::new) {
                        Ok(k) => out.push(format!("add ok {}", k)),
                        Err(e) => {
                            out.push(format!("add err {}", client_err(&e)));
                            failed = true;
                        }
                    }
                    received.extend(cmds.iter().filter_map(|c| c.address().ok()));
                    if failed {
                        break;
                    }
                }
                Ok(None) => {
                    out.push("rcv ok none".into());
                }
                Err(e) => {
                    out.push(format!("rcv err {}", sync_err(&e)));
                    break;
                }
            }
        }
        out.push(format!("polls done ready={} reqready={}", responder.ready() as u8, requester.ready() as u8));
        if do_commit && !failed {
            match ca.commit(trx, &mut sink, bufsrt, MemSpill::new) {
                Ok(bv) => out.push(format!("commit ok {}", bv as u8)),
                Err(e) => out.push(format!("commit err {}", client_err(&e))),
            }
            if do_uh {
                match ca.update_heads(g, received.iter().copied(), &mut req_cache, &mut bufsrt.traversal.primary) {
                    Ok(()) => out.push("uh ok".into()),
                    Err(e) => out.push(format!("uh err {}", client_err(&e))),
                }
            }
        } else {
            drop(trx);
            out.push("commit skipped".into());
        }
        self.caches.insert((a, b), req_cache);
        self.caches.insert((b, a), resp_cache);
        out.push(format!("caches req={} resp={}", self.cache_s(a, b), self.cache_s(b, a)));
    }
}

/// A `Csprng` that yields the session id's bytes: sessions are reproducible.
#[derive(Clone, Copy)]
pub struct FixedRng(pub u128);
impl aranya_crypto::Csprng for FixedRng {
    fn fill_bytes(&self, dst: &mut [u8]) {
        let b = self.0.to_le_bytes();
        for (i, d) in dst.iter_mut().enumerate() {
            *d = b[i % 16];
        }
    }
}

pub fn dump_storage<S: Storage>(storage: &S) -> String {
    let heads = match storage.get_heads() {
        Ok(h) => h.clone(),
        Err(e) => return format!("noheads:{}", storage_err(&e)),
    };
    let hs: Vec<String> = heads.iter().map(|h| format!("{}@{}@{}", idx(h.id), h.segment.get(), h.max_cut.get())).collect();
    let mut seen: BTreeSet<u64> = BTreeSet::new();
    let mut todo: Vec<Location> = heads.iter().map(|h| h.location()).collect();
    let mut segs: BTreeMap<u64, String> = BTreeMap::new();
    while let Some(l) = todo.pop() {
        if !seen.insert(l.segment.get()) {
            continue;
        }
        let seg = match storage.get_segment(l) {
            Ok(s) => s,
            Err(e) => {
                segs.insert(l.segment.get(), format!("{}|ERR:{}", l.segment.get(), storage_err(&e)));
                continue;
            }
        };
        let first = seg.shortest_max_cut();
        let prior: Vec<Location> = seg.prior().into_iter().collect();
        let skip: Vec<Location> = seg.skip_list().to_vec();
        let cmds: Vec<String> = seg
            .get_from(seg.first_location())
            .iter()
            .map(|c| format!("{}:{}:{}:{}:{}", idx(c.id()), prio_s(&c.priority()), prior_addr_s(c.parent()), c.policy().map(|p| p.len() as i64).unwrap_or(-1), c.bytes().len()))
            .collect();
        let f = |v: &Vec<Location>| if v.is_empty() { "-".to_string() } else { v.iter().map(|x| loc_s(*x)).collect::<Vec<_>>().join(",") };
        segs.insert(
            l.segment.get(),
            format!("{}|{}|{}|{}|{}|{}", seg.index().get(), first.get(), seg.longest_max_cut().map(|m| m.get() as i64).unwrap_or(-1), f(&prior), f(&skip), cmds.join(",")),
        );
        todo.extend(prior);
        todo.extend(skip);
    }
    format!("heads={} segs={}", if hs.is_empty() { "-".into() } else { hs.join(",") }, segs.values().cloned().collect::<Vec<_>>().join(";"))
}

/// every stored command as an owned command, in ascending (segment, max_cut) order (parents first)
pub fn collect_commands<S: Storage>(storage: &S) -> Vec<HxCmd> {
    let heads = storage.get_heads().expect("heads").clone();
    let mut seen: BTreeSet<u64> = BTreeSet::new();
    let mut todo: Vec<Location> = heads.iter().map(|h| h.location()).collect();
    let mut segs: BTreeMap<u64, Vec<HxCmd>> = BTreeMap::new();
    while let Some(l) = todo.pop() {
        if !seen.insert(l.segment.get()) {
            continue;
        }
        let seg = storage.get_segment(l).expect("segment");
        let cmds: Vec<HxCmd> = seg
            .get_from(seg.first_location())
            .iter()
            .map(|c| HxCmd { id: c.id(), prio: c.priority(), parent: c.parent(), policy: c.policy().map(|p| p.to_vec()), data: c.bytes().to_vec() })
            .collect();
        segs.insert(l.segment.get(), cmds);
        todo.extend(seg.prior().into_iter());
        todo.extend(seg.skip_list().iter().copied());
    }
    segs.into_values().flatten().collect()
}

// ---------------------------------------------------------------- script interpreter

pub fn run_script<B: Backend>(backend: &mut B, lines: &mut dyn Iterator<Item = String>, emit: &mut dyn FnMut(String)) {
    let mut world: Option<World<B::SP>> = None;
    for line in lines {
        let toks: Vec<&str> = line.split_whitespace().collect();
        if toks.is_empty() {
            continue;
        }
        let res = panic::catch_unwind(AssertUnwindSafe(|| {
            let mut out: Vec<String> = Vec::new();
            match toks[0] {
                "world" => {
                    let k: usize = toks[1].parse().unwrap();
                    let cl = (0..k).map(|c| ClientState::new(HxStore::new(), backend.provider(c))).collect();
                    world = Some(World::new(cl));
                    out.push(format!("world {}", k));
                }
                "init" => {
                    let w = world.as_mut().unwrap();
                    let c: usize = toks[1].parse().unwrap();
                    let nonce: u64 = toks[2].parse().unwrap();
                    let plen: usize = toks.get(3).map(|x| x.parse().unwrap()).unwrap_or(8);
                    match w.clients[c].new_graph(&[0u8], HxAction::Init { nonce, policy_len: plen }, &mut NoSink) {
                        Ok(g) => {
                            w.graph = Some(g);
                            out.push(format!("init ok {}", hex(g.as_bytes())));
                        }
                        Err(e) => out.push(format!("init err {}", client_err(&e))),
                    }
                }
                "act" => {
                    let w = world.as_mut().unwrap();
                    let c: usize = toks[1].parse().unwrap();
                    let nonce: u64 = toks[2].parse().unwrap();
                    let pad: usize = toks.get(3).map(|x| x.parse().unwrap()).unwrap_or(0);
                    let prio: u32 = toks.get(4).map(|x| x.parse().unwrap()).unwrap_or(0);
                    let g = w.graph.unwrap();
                    let bufs = &mut *w.bufs;
                    match w.clients[c].action(g, &mut NoSink, HxAction::Basic { nonce, pad, prio }, bufs, MemSpill::new) {
                        Ok(()) => out.push("act ok".into()),
                        Err(e) => out.push(format!("act err {}", client_err(&e))),
                    }
                }
                "dump" => {
                    let w = world.as_mut().unwrap();
                    let c: usize = toks[1].parse().unwrap();
                    let d = w.dump(c);
                    out.push(format!("dump {} {}", c, d));
                }
                "sess" => {
                    let w = world.as_mut().unwrap();
                    w.session(&toks, &mut out);
                    out.push("sess done".into());
                }
                "conv" => {
                    // conv <a> <b> <maxrounds> [session opts]: alternate sessions a<-b, b<-a until both deliver nothing
                    let w = world.as_mut().unwrap();
                    let a = toks[1];
                    let b = toks[2];
                    let maxr: usize = toks[3].parse().unwrap();
                    let mut sid: u128 = kv(&toks, "sid").unwrap_or("1000").parse().unwrap();
                    let extra: Vec<&str> = toks[4..].iter().copied().filter(|t| !t.starts_with("sid=")).collect();
                    let mut rounds = 0;
                    for _ in 0..maxr {
                        rounds += 1;
                        let mut quiet = true;
                        for (x, y) in [(a, b), (b, a)] {
                            let xi: usize = x.parse().unwrap();
                            let yi: usize = y.parse().unwrap();
                            out.push(format!("dump {} {}", yi, w.dump(yi)));
                            out.push(format!("dump {} {}", xi, w.dump(xi)));
                            sid += 1;
                            let sids = format!("sid={}", sid);
                            let mut t: Vec<&str> = vec!["sess", x, y, &sids];
                            t.extend(extra.iter().copied());
                            let before = out.len();
                            w.session(&t, &mut out);
                            out.push("sess done".into());
                            if out[before..].iter().any(|l| l.starts_with("msg resp")) {
                                quiet = false;
                            }
                        }
                        if quiet {
                            break;
                        }
                    }
                    let ai: usize = a.parse().unwrap();
                    let bi: usize = b.parse().unwrap();
                    out.push(format!("dump {} {}", ai, w.dump(ai)));
                    out.push(format!("dump {} {}", bi, w.dump(bi)));
                    out.push(format!("conv done rounds={}", rounds));
                }
                "forget" => {
                    // forget <a> <b>: drop both peer caches of the pair
                    let w = world.as_mut().unwrap();
                    let a: usize = toks[1].parse().unwrap();
                    let b: usize = toks[2].parse().unwrap();
                    w.caches.remove(&(a, b));
                    w.caches.remove(&(b, a));
                    out.push("forget ok".into());
                }
                "remove" => {
                    // remove <client>: ClientState::remove_graph; the runner's peer caches of that client are dropped too
                    let w = world.as_mut().unwrap();
                    let c: usize = toks[1].parse().unwrap();
                    let g = w.graph.unwrap();
                    w.caches.retain(|k, _| k.0 != c && k.1 != c);
                    match w.clients[c].remove_graph(g) {
                        Ok(()) => out.push("remove ok".into()),
                        Err(e) => out.push(format!("remove err {}", client_err(&e))),
                    }
                }
                "warm" => {
                    // warm <client>: compute (and print) the client's hello head now
                    let w = world.as_mut().unwrap();
                    let c: usize = toks[1].parse().unwrap();
                    let g = w.graph.unwrap();
                    match w.clients[c].hello_head(g) {
                        Ok(a) => out.push(format!("warm {}", addr_s(a))),
                        Err(e) => out.push(format!("warm err:{}", client_err(&e))),
                    }
                }
                "feed" => {
                    // feed <dst> <src>: every command stored at <src>, parents first, added to <dst> in ONE
                    // transaction (a linear run of new commands lands in a single segment)
                    let w = world.as_mut().unwrap();
                    let d: usize = toks[1].parse().unwrap();
                    let s: usize = toks[2].parse().unwrap();
                    let g = w.graph.unwrap();
                    // feed <dst> <src> [heads=i,j,...]: with `heads`, only the listed heads of <src> (indexes into its
                    // head list sorted by id) and everything that is not a head
                    let cmds: Vec<HxCmd> = {
                        let storage = w.clients[s].provider().get_storage(g).expect("feed: source storage");
                        let all = collect_commands(&*storage);
                        match kv(&toks, "heads") {
                            None => all,
                            Some(sel) => {
                                let mut hs: Vec<CmdId> = storage.get_heads().expect("heads").iter().map(|h| h.id).collect();
                                hs.sort_by(|a, b| a.as_bytes().cmp(b.as_bytes()));
                                let keep: BTreeSet<usize> = sel.split(',').filter(|x| !x.is_empty()).map(|x| x.parse().unwrap()).collect();
                                let drop: Vec<CmdId> = hs.iter().enumerate().filter(|(i, _)| !keep.contains(i)).map(|(_, h)| *h).collect();
                                all.into_iter().filter(|c| !drop.contains(&c.id)).collect()
                            }
                        }
                    };
                    let bufs = &mut *w.bufs;
                    let mut trx = w.clients[d].transaction(g);
                    let mut sink = NoSink;
                    let mut added = 0usize;
                    let mut err: Option<String> = None;
                    for chunk in cmds.chunks(90) {
                        match w.clients[d].add_commands(&mut trx, &mut sink, chunk, bufs, MemSpill::new) {
                            Ok(k) => added += k,
                            Err(e) => {
                                err = Some(client_err(&e));
                                break;
                            }
                        }
                    }
                    match err {
                        Some(e) => out.push(format!("feed err {}", e)),
                        None => match w.clients[d].commit(trx, &mut sink, bufs, MemSpill::new) {
                            Ok(_) => out.push(format!("feed ok {} of {}", added, cmds.len())),
                            Err(e) => out.push(format!("feed commit err {}", client_err(&e))),
                        },
                    }
                }
                "hello" => {
                    // hello <advertiser> <receiver>: advertiser's hello_head, receiver's decision
                    let w = world.as_mut().unwrap();
                    let p: usize = toks[1].parse().unwrap();
                    let r: usize = toks[2].parse().unwrap();
                    let g = w.graph.unwrap();
                    let hp = w.clients[p].hello_head(g);
                    let hr = w.clients[r].hello_head(g);
                    let f = |x: &Result<Address, ClientError>| match x {
                        Ok(a) => addr_s(*a),
                        Err(e) => format!("err:{}", client_err(e)),
                    };
                    let mut tb = TraversalBuffer::new();
                    let dec = match &hp {
                        Ok(a) => match w.clients[r].should_sync_on_hello(g, *a, &mut tb) {
                            Ok(bv) => format!("{}", bv as u8),
                            Err(e) => format!("err:{}", client_err(&e)),
                        },
                        Err(_) => "na".into(),
                    };
                    out.push(format!("hello adv={} own={} should_sync={}", f(&hp), f(&hr), dec));
                }
                "hello_addr" => {
                    // hello_addr <receiver> <idhex> <max_cut>: decision on an arbitrary address
                    let w = world.as_mut().unwrap();
                    let r: usize = toks[1].parse().unwrap();
                    let mut idb = [0u8; 32];
                    idb.copy_from_slice(&unhex(toks[2])[..32]);
                    let a = Address { id: CmdId::from_bytes(idb), max_cut: MaxCut::new(toks[3].parse().unwrap()) };
                    let g = w.graph.unwrap();
                    let mut tb = TraversalBuffer::new();
                    let own = w.clients[r].hello_head(g);
                    let dec = match w.clients[r].should_sync_on_hello(g, a, &mut tb) {
                        Ok(bv) => format!("{}", bv as u8),
                        Err(e) => format!("err:{}", client_err(&e)),
                    };
                    out.push(format!("hello_addr own={} should_sync={}", match &own { Ok(x) => addr_s(*x), Err(e) => format!("err:{}", client_err(e)) }, dec));
                }
                "merge_id" => {
                    // merge_id <idhex>@<mc> <idhex>@<mc>: the policy's merge command address for two addresses
                    let pa = |s: &str| {
                        let (i, m) = s.split_once('@').unwrap();
                        let mut idb = [0u8; 32];
                        idb.copy_from_slice(&unhex(i)[..32]);
                        Address { id: CmdId::from_bytes(idb), max_cut: MaxCut::new(m.parse().unwrap()) }
                    };
                    let (x, y) = (pa(toks[1]), pa(toks[2]));
                    match MergeIds::new(x, y) {
                        None => out.push("merge_id same".into()),
                        Some(ids) => {
                            let mut buf = [0u8; 8];
                            let c = HxPolicy.merge(&mut buf, ids).unwrap();
                            out.push(format!("merge_id {}", addr_s(c.address().unwrap())));
                        }
                    }
                }
                "end" => out.push("end".into()),
                other => out.push(format!("unknown op {}", other)),
            }
            out
        }));
        match res {
            Ok(out) => {
                for o in out {
                    emit(o);
                }
            }
            Err(_) => emit(format!("panic in {}", toks[0])),
        }
    }
}

pub fn segment_index(n: u64) -> SegmentIndex {
    SegmentIndex::new(n)
}

/// Shared `main` of the script-driven bins: `<bin> [mem|libc <dir>]`, script on stdin, events on stdout.
pub fn main_script() {
    use std::io::{BufRead, Write};
    let args: Vec<String> = std::env::args().collect();
    panic::set_hook(Box::new(|_| {}));
    let stdin = std::io::stdin();
    let mut lines = stdin.lock().lines().map(|l| l.unwrap());
    let stdout = std::io::stdout();
    let mut o = std::io::BufWriter::new(stdout.lock());
    let mut emit = |s: String| {
        writeln!(o, "{s}").unwrap();
    };
    if args.get(1).map(|s| s.as_str()) == Some("libc") {
        let root = std::path::PathBuf::from(args.get(2).expect("dir"));
        let mut b = LibcBackend { root, n: 0 };
        run_script(&mut b, &mut lines, &mut emit);
    } else {
        run_script(&mut MemBackend, &mut lines, &mut emit);
    }
}
