//! C18 implementation-side runner: arbitrary bytes through the real decoders and state machines.
//!
//! stdin, one case per line:
//!   `setup <n>`                       build the responder-side world: one client, init + n actions; prints its dump
//!   `decode <hex>`                    SyncIncoming::decode
//!   `subres <hex>`                    SubscribeResponse::decode
//!   `reqrecv <sid> <mode> <k> <hex>`  SyncRequester::receive; mode = start (after a real poll) | waiting (new_session_id);
//!                                     k = number of well-formed empty responses (indexes 0..k-1) fed first
//!   `push <sid> <hex>`                SyncIncoming::decode, then receive_push on a new_session_id requester
//!   `resp <tlen> <hex> [<hex> ...]`   fresh SyncResponder: for each message decode + receive (if Poll) then one poll
//!                                     into a tlen-byte target
//! stdout: one canonical line per case; a panic anywhere prints `panic`.
use std::io::{BufRead, Write};
use std::panic::{self, AssertUnwindSafe};

use aranya_runtime::{
    ClientState, Command, GraphId, PeerCache, StorageProvider, SyncIncoming, SyncRequester, SyncResponder,
    SubscribeResponse, TraversalBuffer, TraversalBuffers,
    storage::linear::testing::MemStorageProvider,
};
use hx_sync::*;

fn resp_bytes(sid: u128, idx: u64) -> Vec<u8> {
    postcard::to_allocvec(&MResp::SyncResponse { session_id: sid, response_index: idx, commands: vec![] }).unwrap()
}

fn main() {
    panic::set_hook(Box::new(|_| {}));
    let stdin = std::io::stdin();
    let stdout = std::io::stdout();
    let mut o = std::io::BufWriter::new(stdout.lock());
    let mut world: Option<(ClientState<HxStore, MemStorageProvider>, GraphId)> = None;
    for line in stdin.lock().lines() {
        let line = line.unwrap();
        let t: Vec<&str> = line.split_whitespace().collect();
        if t.is_empty() {
            continue;
        }
        let res = panic::catch_unwind(AssertUnwindSafe(|| -> String {
            match t[0] {
                "setup" => {
                    let n: usize = t[1].parse().unwrap();
                    let mut c = ClientState::new(HxStore::new(), MemStorageProvider::default());
                    let g = c.new_graph(&[0u8], HxAction::Init { nonce: 1, policy_len: 8 }, &mut NoSink).unwrap();
                    let mut bufs = Box::new(aranya_runtime::RuntimeBuffers::new());
                    for i in 0..n {
                        c.action(g, &mut NoSink, HxAction::Basic { nonce: 100 + i as u64, pad: (i % 7) * 3, prio: (i % 3) as u32 }, &mut bufs, aranya_runtime::MemSpill::new).unwrap();
                    }
                    let d = dump_storage(&*c.provider().get_storage(g).unwrap());
                    world = Some((c, g));
                    format!("setup graph={} dump 0 {}", hex(g.as_bytes()), d)
                }
                "decode" => {
                    let b = unhex(t.get(1).copied().unwrap_or(""));
                    match SyncIncoming::decode(&b) {
                        Ok(SyncIncoming::Poll(p)) => format!("ok poll sid={}", p.session_id()),
                        Ok(SyncIncoming::Subscribe(s)) => format!("ok subscribe n={} max_bytes={} remain={}", s.heads().as_slice().len(), s.max_bytes(), s.remain_open().as_secs()),
                        Ok(SyncIncoming::Unsubscribe(_)) => "ok unsubscribe".into(),
                        Ok(SyncIncoming::Push(p)) => format!("ok push sid={}", p.session_id()),
                        Ok(SyncIncoming::Hello(h)) => match h {
                            aranya_runtime::SyncHello::Subscribe(_) => "ok hello subscribe".into(),
                            aranya_runtime::SyncHello::Unsubscribe(_) => "ok hello unsubscribe".into(),
                            aranya_runtime::SyncHello::Hello(n) => format!("ok hello hello mc={}", n.head().max_cut.get()),
                        },
                        Err(e) => format!("err {}", sync_err(&e)),
                    }
                }
                "subres" => {
                    let b = unhex(t.get(1).copied().unwrap_or(""));
                    match SubscribeResponse::decode(&b) {
                        Ok(SubscribeResponse::Success) => "ok success".into(),
                        Ok(SubscribeResponse::TooManySubscriptions) => "ok toomany".into(),
                        Err(e) => format!("err {}", sync_err(&e)),
                    }
                }
                "reqrecv" | "push" => {
                    let sid: u128 = t[1].parse().unwrap();
                    let g = GraphId::default();
                    let (mut rq, k, b) = if t[0] == "push" {
                        (SyncRequester::new_session_id(g, sid), 0usize, unhex(t.get(2).copied().unwrap_or("")))
                    } else {
                        let k: usize = t[3].parse().unwrap();
                        let rq = if t[2] == "start" {
                            let mut rq = SyncRequester::new(g, FixedRng(sid));
                            let mut prov = MemStorageProvider::default();
                            let mut buf = vec![0u8; 4096];
                            let cache = PeerCache::new();
                            rq.poll(&mut buf, &mut prov, &cache.session_heads(), &mut TraversalBuffer::new()).unwrap();
                            rq
                        } else {
                            SyncRequester::new_session_id(g, sid)
                        };
                        (rq, k, unhex(t.get(4).copied().unwrap_or("")))
                    };
                    for i in 0..k {
                        let m = resp_bytes(sid, i as u64);
                        let _ = rq.receive(&m);
                    }
                    let base = b.as_ptr() as usize;
                    let r = if t[0] == "push" {
                        match SyncIncoming::decode(&b) {
                            Ok(SyncIncoming::Push(p)) => rq.receive_push(p),
                            Ok(_) => return "notpush".into(),
                            Err(e) => return format!("err decode {}", sync_err(&e)),
                        }
                    } else {
                        rq.receive(&b)
                    };
                    let s = match r {
                        Ok(Some(cmds)) => {
                            let v: Vec<String> = cmds
                                .iter()
                                .map(|c| {
                                    let p = match c.policy() {
                                        Some(p) => format!("{}+{}", p.as_ptr() as usize - base, p.len()),
                                        None => "-".into(),
                                    };
                                    let d = c.bytes();
                                    // a zero-length slice of an empty input may dangle; report offset 0 then
                                    let off = (d.as_ptr() as usize).wrapping_sub(base);
                                    format!("{}/{}+{}", p, if d.is_empty() && off > b.len() { 0 } else { off }, d.len())
                                })
                                .collect();
                            format!("ok some {} {}", cmds.len(), if v.is_empty() { "-".into() } else { v.join(",") })
                        }
                        Ok(None) => "ok none".into(),
                        Err(e) => format!("err {}", sync_err(&e)),
                    };
                    format!("{} ready={}", s, rq.ready() as u8)
                }
                "resp" => {
                    let tlen: usize = t[1].parse().unwrap();
                    let (c, _g) = world.as_mut().expect("setup first");
                    let mut r = SyncResponder::new();
                    let mut cache = PeerCache::new();
                    let mut tb = TraversalBuffers::new();
                    let mut target = vec![0u8; tlen];
                    let mut out = Vec::new();
                    for h in &t[2..] {
                        let b = unhex(h);
                        let rc = match SyncIncoming::decode(&b) {
                            Ok(SyncIncoming::Poll(p)) => match r.receive(p) {
                                Ok(()) => "recv:ok".to_string(),
                                Err(e) => format!("recv:err:{}", sync_err(&e)),
                            },
                            Ok(_) => "recv:notpoll".into(),
                            Err(e) => format!("recv:decode:{}", sync_err(&e)),
                        };
                        let pl = match r.poll(&mut target, c.provider(), &mut cache, &mut tb) {
                            Ok(n) => format!("poll:ok:{}:{}", n, resp_summary(&target[..n]).replace(' ', "_")),
                            Err(e) => format!("poll:err:{}", sync_err(&e)),
                        };
                        out.push(format!("{} {} ready={}", rc, pl, r.ready() as u8));
                    }
                    out.join(" | ")
                }
                other => format!("unknown {}", other),
            }
        }));
        match res {
            Ok(s) => writeln!(o, "{s}").unwrap(),
            Err(_) => writeln!(o, "panic").unwrap(),
        }
    }
}
