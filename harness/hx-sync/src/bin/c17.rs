//! C17/C16/C19 implementation-side runner: world script on stdin (see hx_sync::run_script).
fn main() {
    hx_sync::main_script();
}
