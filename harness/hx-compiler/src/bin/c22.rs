//! c22 runner: see hx_compiler::process_line for the line protocol.
fn main() { hx_compiler::main_loop() }
