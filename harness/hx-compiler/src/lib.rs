//! Shared pieces of the compiler-unit runners (C22/C23/C24/C30):
//! ASCII value codec, instruction printer, logging MachineIO with an in-memory
//! fact store + failure injection, and the test FFI module schema.
use std::{cell::RefCell, collections::BTreeMap, fmt::Write as _};

use aranya_crypto::{BaseId, policy::CmdId};
use aranya_policy_ast::{Identifier, Text};
use aranya_policy_module::{
    ConstValue, ExitReason, Instruction, Label, LabelType, Meta, Module, ModuleData, Target, WrapType,
    ffi::{Arg, Func, ModuleSchema, Type},
};
use aranya_policy_vm::{
    CommandContext, FactKey, FactKeyList, FactValue, FactValueList, HashableValue, KVPair, MachineError,
    MachineErrorType, MachineIO, MachineIOError, Stack, Struct, Value,
};

pub fn unhex(s: &str) -> Vec<u8> {
    (0..s.len() / 2).map(|i| u8::from_str_radix(&s[2 * i..2 * i + 2], 16).unwrap()).collect()
}
pub fn hex(b: &[u8]) -> String {
    let mut s = String::new();
    for x in b {
        write!(s, "{x:02x}").unwrap();
    }
    s
}
pub fn ident(s: &str) -> Identifier {
    s.parse().unwrap_or_else(|_| panic!("bad identifier {s:?}"))
}

// ---------------------------------------------------------------- values
pub fn show_value(v: &Value) -> String {
    match v {
        Value::Unit => "U".into(),
        Value::Int(n) => format!("I{n}"),
        Value::Bool(b) => format!("B{}", *b as u8),
        Value::String(t) => format!("S{}", hex(t.as_str().as_bytes())),
        Value::Bytes(b) => format!("Y{}", hex(b)),
        Value::Id(i) => format!("D{}", hex(i.as_bytes())),
        Value::Enum(n, k) => format!("E{n}.{k}"),
        Value::Identifier(i) => format!("Q{i}"),
        Value::Option(None) => "N".into(),
        Value::Option(Some(x)) => format!("O({})", show_value(x)),
        Value::Result(Ok(x)) => format!("K({})", show_value(x)),
        Value::Result(Err(x)) => format!("R({})", show_value(x)),
        Value::Struct(s) => show_struct(s),
        Value::Fact(f) => {
            let ks: Vec<String> = f.keys.iter().map(|k| format!("{}={}", k.identifier, show_hv(&k.value))).collect();
            let vs: Vec<String> = f.values.iter().map(|k| format!("{}={}", k.identifier, show_value(&k.value))).collect();
            format!("F{}[{}]{{{}}}", f.name, ks.join(","), vs.join(","))
        }
    }
}
pub fn show_struct(s: &Struct) -> String {
    let fs: Vec<String> = s.fields.iter().map(|(k, v)| format!("{k}={}", show_value(v))).collect();
    format!("T{}{{{}}}", s.name, fs.join(","))
}
pub fn show_hv(v: &HashableValue) -> String {
    match v {
        HashableValue::Int(n) => format!("I{n}"),
        HashableValue::Bool(b) => format!("B{}", *b as u8),
        HashableValue::String(t) => format!("S{}", hex(t.as_str().as_bytes())),
        HashableValue::Id(i) => format!("D{}", hex(i.as_bytes())),
        HashableValue::Enum(n, k) => format!("E{n}.{k}"),
    }
}
pub fn show_const(v: &ConstValue) -> String {
    show_value(&Value::from(v.clone()))
}

pub struct P<'a> {
    s: &'a [u8],
    i: usize,
}
impl<'a> P<'a> {
    pub fn new(s: &'a str) -> Self {
        P { s: s.as_bytes(), i: 0 }
    }
    fn take_while(&mut self, f: impl Fn(u8) -> bool) -> &'a str {
        let st = self.i;
        while self.i < self.s.len() && f(self.s[self.i]) {
            self.i += 1;
        }
        std::str::from_utf8(&self.s[st..self.i]).unwrap()
    }
    fn eat(&mut self, c: u8) {
        assert_eq!(self.s[self.i], c, "expected {} at {}", c as char, self.i);
        self.i += 1;
    }
    pub fn value(&mut self) -> Value {
        let c = self.s[self.i];
        self.i += 1;
        match c {
            b'U' => Value::Unit,
            b'I' => Value::Int(self.take_while(|c| c == b'-' || c.is_ascii_digit()).parse().unwrap()),
            b'B' => Value::Bool(self.take_while(|c| c.is_ascii_digit()) == "1"),
            b'S' => {
                let h = self.take_while(|c| c.is_ascii_hexdigit());
                Value::String(Text::try_from(String::from_utf8(unhex(h)).unwrap()).unwrap())
            }
            b'Y' => Value::Bytes(unhex(self.take_while(|c| c.is_ascii_hexdigit()))),
            b'D' => {
                let b = unhex(self.take_while(|c| c.is_ascii_hexdigit()));
                let mut a = [0u8; 32];
                a[..b.len().min(32)].copy_from_slice(&b[..b.len().min(32)]);
                Value::Id(BaseId::from_bytes(a))
            }
            b'E' => {
                let n = self.take_while(|c| c.is_ascii_alphanumeric() || c == b'_');
                self.eat(b'.');
                let k = self.take_while(|c| c == b'-' || c.is_ascii_digit()).parse().unwrap();
                Value::Enum(ident(n), k)
            }
            b'N' => Value::Option(None),
            b'O' | b'K' | b'R' => {
                self.eat(b'(');
                let v = self.value();
                self.eat(b')');
                match c {
                    b'O' => Value::Option(Some(Box::new(v))),
                    b'K' => Value::Result(Ok(Box::new(v))),
                    _ => Value::Result(Err(Box::new(v))),
                }
            }
            b'T' => {
                let n = self.take_while(|c| c.is_ascii_alphanumeric() || c == b'_');
                self.eat(b'{');
                let mut fields = BTreeMap::new();
                while self.s[self.i] != b'}' {
                    let f = self.take_while(|c| c.is_ascii_alphanumeric() || c == b'_');
                    self.eat(b'=');
                    let v = self.value();
                    fields.insert(ident(f), v);
                    if self.s[self.i] == b',' {
                        self.i += 1;
                    }
                }
                self.eat(b'}');
                Value::Struct(Struct { name: ident(n), fields })
            }
            _ => panic!("bad value tag {}", c as char),
        }
    }
}
pub fn parse_value(s: &str) -> Value {
    P::new(s).value()
}

// ---------------------------------------------------------------- instructions
fn show_target(t: &Target) -> String {
    match t {
        Target::Resolved(n) => format!("{n}"),
        Target::Unresolved(l) => format!("?{}:{}", show_ltype(&l.ltype), l.name),
    }
}
pub fn show_ltype(t: &LabelType) -> &'static str {
    match t {
        LabelType::Action => "action",
        LabelType::CommandPolicy => "policy",
        LabelType::CommandRecall => "recall",
        LabelType::CommandSeal => "seal",
        LabelType::CommandOpen => "open",
        LabelType::Temporary => "temp",
        LabelType::Function => "fn",
    }
}
fn show_wrap(w: &WrapType) -> &'static str {
    match w {
        WrapType::Ok => "ok",
        WrapType::Err => "err",
        WrapType::Some => "some",
    }
}
pub fn show_exit(r: &ExitReason) -> &'static str {
    match r {
        ExitReason::Normal => "normal",
        ExitReason::Yield => "yield",
        ExitReason::Check => "check",
        ExitReason::Panic => "panic",
    }
}
/// One token per instruction: `Name` or `Name:arg[:arg]`.
pub fn show_instr(i: &Instruction) -> String {
    use Instruction::*;
    match i {
        Const(v) => format!("Const:{}", show_const(v)),
        Identifier(n) => format!("Identifier:{n}"),
        Def(n) => format!("Def:{n}"),
        Get(n) => format!("Get:{n}"),
        Dup => "Dup".into(),
        Pop => "Pop".into(),
        Block => "Block".into(),
        End => "End".into(),
        Jump(t) => format!("Jump:{}", show_target(t)),
        Branch(t) => format!("Branch:{}", show_target(t)),
        Next => "Next".into(),
        Last => "Last".into(),
        Call(t) => format!("Call:{}", show_target(t)),
        Recall(t) => format!("Recall:{}", show_target(t)),
        ExtCall(m, p) => format!("ExtCall:{m}:{p}"),
        Return => "Return".into(),
        Exit(r) => format!("Exit:{}", show_exit(r)),
        Add => "Add".into(),
        Sub => "Sub".into(),
        SaturatingAdd => "SaturatingAdd".into(),
        SaturatingSub => "SaturatingSub".into(),
        Not => "Not".into(),
        Gt => "Gt".into(),
        Lt => "Lt".into(),
        Eq => "Eq".into(),
        FactNew(n) => format!("FactNew:{n}"),
        FactKeySet(n) => format!("FactKeySet:{n}"),
        FactValueSet(n) => format!("FactValueSet:{n}"),
        StructNew(n) => format!("StructNew:{n}"),
        StructSet(n) => format!("StructSet:{n}"),
        StructGet(n) => format!("StructGet:{n}"),
        MStructSet(n) => format!("MStructSet:{n}"),
        MStructGet(n) => format!("MStructGet:{n}"),
        Cast(n) => format!("Cast:{n}"),
        Wrap(w) => format!("Wrap:{}", show_wrap(w)),
        Is(w) => format!("Is:{}", show_wrap(w)),
        Unwrap(w) => format!("Unwrap:{}", show_wrap(w)),
        Publish => "Publish".into(),
        Create => "Create".into(),
        Delete => "Delete".into(),
        Update => "Update".into(),
        Emit => "Emit".into(),
        Query => "Query".into(),
        FactCount(n) => format!("FactCount:{n}"),
        QueryStart => "QueryStart".into(),
        QueryNext(n) => format!("QueryNext:{n}"),
        Serialize => "Serialize".into(),
        Deserialize => "Deserialize".into(),
        SaveSP => "SaveSP".into(),
        RestoreSP => "RestoreSP".into(),
        Meta(self::Meta::Finish(b)) => format!("Meta:finish:{}", *b as u8),
        Meta(self::Meta::FFI(m, f)) => format!("Meta:ffi:{m}:{f}"),
    }
}
/// `instr instr ...|ltype:name=addr ...`
pub fn show_module(m: &Module) -> String {
    let ModuleData::V0(d) = &m.data;
    let is: Vec<String> = d.progmem.iter().map(show_instr).collect();
    let ls: Vec<String> = d.labels.iter().map(|(l, a)| format!("{}:{}={}", show_ltype(&l.ltype), l.name, a)).collect();
    format!("{}|{}", is.join(" "), ls.join(" "))
}

pub fn err_class(e: &MachineErrorType) -> String {
    use MachineErrorType::*;
    match e {
        StackUnderflow => "StackUnderflow".into(),
        StackOverflow => "StackOverflow".into(),
        AlreadyDefined(_) => "AlreadyDefined".into(),
        NotDefined(_) => "NotDefined".into(),
        InvalidType { .. } => "InvalidType".into(),
        InvalidStructMember(_) => "InvalidStructMember".into(),
        InvalidFact(_) => "InvalidFact".into(),
        InvalidSchema(_) => "InvalidSchema".into(),
        UnresolvedTarget(_) => "UnresolvedTarget".into(),
        InvalidAddress(_) => "InvalidAddress".into(),
        BadState(_) => "BadState".into(),
        IntegerOverflow => "IntegerOverflow".into(),
        InvalidInstruction => "InvalidInstruction".into(),
        CallStack => "CallStack".into(),
        IO(_) => "IO".into(),
        FfiModuleNotDefined(_) => "FfiModuleNotDefined".into(),
        FfiProcedureNotDefined(..) => "FfiProcedureNotDefined".into(),
        ContextMismatch => "ContextMismatch".into(),
        other => {
            let s = format!("{other:?}");
            s.split(|c: char| !c.is_ascii_alphanumeric()).next().unwrap_or("Other").to_string()
        }
    }
}

// ---------------------------------------------------------------- FFI module `t`
pub const FFI_ARGS_INT: &[Arg<'static>] = &[Arg { name: aranya_policy_ast::ident!("x"), vtype: Type::Int }];
pub const FFI_ARGS_BOOL: &[Arg<'static>] = &[Arg { name: aranya_policy_ast::ident!("x"), vtype: Type::Bool }];
pub const FFI_FUNCS: &[Func<'static>] = &[
    Func { name: aranya_policy_ast::ident!("log_int"), args: FFI_ARGS_INT, return_type: Type::Int },
    Func { name: aranya_policy_ast::ident!("log_bool"), args: FFI_ARGS_BOOL, return_type: Type::Bool },
];
pub fn ffi_schema() -> [ModuleSchema<'static>; 1] {
    [ModuleSchema { name: aranya_policy_ast::ident!("t"), functions: FFI_FUNCS, structs: &[], enums: &[] }]
}

// ---------------------------------------------------------------- logging IO
#[derive(Default)]
pub struct LogIo {
    pub facts: BTreeMap<(Identifier, FactKeyList), FactValueList>,
    /// every IO event in order: `ins`, `del`, `eff`, `qry`, `ffi`
    pub log: RefCell<Vec<String>>,
    /// number of IO calls seen so far (query + writes + ffi)
    pub calls: RefCell<u64>,
    /// fail the n-th IO call (1-based); 0 = never
    pub fail_at: u64,
}
impl LogIo {
    fn tick(&self) -> bool {
        let mut c = self.calls.borrow_mut();
        *c += 1;
        self.fail_at != 0 && *c == self.fail_at
    }
    pub fn writes(&self) -> Vec<String> {
        self.log.borrow().iter().filter(|l| l.starts_with("ins") || l.starts_with("del") || l.starts_with("eff")).cloned().collect()
    }
}
fn show_keys(k: &[FactKey]) -> String {
    k.iter().map(|k| format!("{}={}", k.identifier, show_hv(&k.value))).collect::<Vec<_>>().join(",")
}
fn show_vals(k: &[FactValue]) -> String {
    k.iter().map(|k| format!("{}={}", k.identifier, show_value(&k.value))).collect::<Vec<_>>().join(",")
}
impl<S: Stack> MachineIO<S> for LogIo {
    type QueryIterator = std::vec::IntoIter<Result<(FactKeyList, FactValueList), MachineIOError>>;
    fn fact_insert(&mut self, name: Identifier, key: impl IntoIterator<Item = FactKey>, value: impl IntoIterator<Item = FactValue>) -> Result<(), MachineIOError> {
        let key: Vec<_> = key.into_iter().collect();
        let value: Vec<_> = value.into_iter().collect();
        if self.tick() {
            self.log.borrow_mut().push("fail:ins".into());
            return Err(MachineIOError::Internal);
        }
        if self.facts.contains_key(&(name.clone(), key.clone())) {
            self.log.borrow_mut().push("exists:ins".into());
            return Err(MachineIOError::FactExists);
        }
        self.log.borrow_mut().push(format!("ins:{}[{}]{{{}}}", name, show_keys(&key), show_vals(&value)));
        self.facts.insert((name, key), value);
        Ok(())
    }
    fn fact_delete(&mut self, name: Identifier, key: impl IntoIterator<Item = FactKey>) -> Result<(), MachineIOError> {
        let key: Vec<_> = key.into_iter().collect();
        if self.tick() {
            self.log.borrow_mut().push("fail:del".into());
            return Err(MachineIOError::Internal);
        }
        if self.facts.remove(&(name.clone(), key.clone())).is_none() {
            self.log.borrow_mut().push("notfound:del".into());
            return Err(MachineIOError::FactNotFound);
        }
        self.log.borrow_mut().push(format!("del:{}[{}]", name, show_keys(&key)));
        Ok(())
    }
    fn fact_query(&self, name: Identifier, key: impl IntoIterator<Item = FactKey>) -> Result<Self::QueryIterator, MachineIOError> {
        let key: Vec<_> = key.into_iter().collect();
        if self.tick() {
            self.log.borrow_mut().push("fail:qry".into());
            return Err(MachineIOError::Internal);
        }
        self.log.borrow_mut().push(format!("qry:{}[{}]", name, show_keys(&key)));
        let out: Vec<_> = self
            .facts
            .iter()
            .filter(|((n, k), _)| *n == name && k.len() >= key.len() && k[..key.len()] == key[..])
            .map(|((_, k), v)| Ok((k.clone(), v.clone())))
            .collect();
        Ok(out.into_iter())
    }
    fn effect(&mut self, name: Identifier, fields: impl IntoIterator<Item = KVPair>, _command: CmdId, recalled: bool) {
        let mut fs: Vec<String> = fields.into_iter().map(|kv| format!("{}={}", kv.key(), show_value(kv.value()))).collect();
        fs.sort();
        self.log.borrow_mut().push(format!("eff:{}{{{}}}:{}", name, fs.join(","), recalled as u8));
    }
    fn call(&self, module: usize, procedure: usize, stack: &mut S, _ctx: &CommandContext) -> Result<(), MachineError> {
        let v = stack.pop_value().map_err(MachineError::new)?;
        if self.tick() {
            self.log.borrow_mut().push("fail:ffi".into());
            return Err(MachineError::new(MachineErrorType::IO(MachineIOError::Internal)));
        }
        self.log.borrow_mut().push(format!("ffi:{}:{}:{}", module, procedure, show_value(&v)));
        stack.push_value(v).map_err(MachineError::new)?;
        Ok(())
    }
}

pub fn label(kind: &str, name: &str) -> Label {
    let lt = match kind {
        "fn" => LabelType::Function,
        "action" => LabelType::Action,
        "policy" => LabelType::CommandPolicy,
        "recall" => LabelType::CommandRecall,
        "seal" => LabelType::CommandSeal,
        "open" => LabelType::CommandOpen,
        _ => panic!("bad label kind"),
    };
    Label::new(ident(name), lt)
}

// ---------------------------------------------------------------- runner protocol
use aranya_policy_ast::Version;
use aranya_policy_compiler::Compiler;
use aranya_policy_lang::lang::parse_policy_str;
use aranya_policy_vm::{ActionContext, Machine, PolicyContext};

pub fn compile_err_class(msg: &str) -> &'static str {
    let first = msg.lines().next().unwrap_or("");
    let t = first.trim_start_matches("error: ").trim_start_matches("error:").trim();
    let table: &[(&str, &str)] = &[
        ("statement not allowed", "InvalidStatement"),
        ("invalid statement", "InvalidStatement"),
        ("invalid expression", "InvalidExpression"),
        ("invalid type", "InvalidType"),
        ("pure function not allowed", "InvalidCallColor"),
        ("finish function not allowed", "InvalidCallColor"),
        ("bad argument", "BadArgument"),
        ("a thing being referenced", "NotDefined"),
        ("the name `", "AlreadyDefined"),
        ("duplicate match patterns", "DuplicateMatchPatterns"),
        ("fact literal does not match", "InvalidFactLiteral"),
        ("missing return statement", "NoReturn"),
        ("Missing default pattern", "MissingDefaultPattern"),
        ("unreachable match arm", "UnreachableMatchArm"),
        ("redundant literal pattern", "RedundantMatchArm"),
        ("invalid cast", "InvalidCast"),
        ("invalid substruct", "InvalidSubstruct"),
        ("struct composition type mismatch", "StructCompositionTypeMismatch"),
        ("A struct literal has all", "NoOpStructComp"),
        ("bug:", "Bug"),
        ("unknown error", "Unknown"),
    ];
    for (p, c) in table {
        if t.starts_with(p) {
            return c;
        }
    }
    if t.contains("found with debug mode disabled") {
        return "DebugModeRequired";
    }
    if t.contains("must be a subset of struct") {
        return "SourceStructNotSubsetOfBase";
    }
    if t.contains("have at least 1 field with the same name") {
        return "DuplicateSourceFields";
    }
    if t.contains("return") {
        return "InvalidReturn";
    }
    "Other"
}

pub enum Compiled {
    ParseErr(String),
    CompileErr(&'static str, String),
    Ok(Module),
}
pub fn compile_text(text: &str) -> Compiled {
    let policy = match parse_policy_str(text, Version::V2) {
        Ok(p) => p,
        Err(e) => return Compiled::ParseErr(e.to_string().lines().next().unwrap_or("").to_string()),
    };
    let schema = ffi_schema();
    match Compiler::new(&policy).ffi_modules(&schema).debug(true).compile() {
        Ok(m) => Compiled::Ok(m),
        Err(e) => {
            let s = e.to_string();
            Compiled::CompileErr(compile_err_class(&s), s.lines().next().unwrap_or("").to_string())
        }
    }
}

fn run_entry(module: Module, kind: &str, name: &str, fail_at: u64, args: Vec<Value>, facts: Vec<(String, Vec<(String, Value)>, Vec<(String, Value)>)>) -> String {
    let machine = match Machine::from_module(module) {
        Ok(m) => m,
        Err(_) => return "err:FromModule|-|0|".into(),
    };
    let mut io = LogIo { fail_at, ..Default::default() };
    for (n, k, v) in facts {
        let keys: FactKeyList = k.into_iter().map(|(i, v)| FactKey::new(ident(&i), v.try_into().unwrap())).collect();
        let vals: FactValueList = v.into_iter().map(|(i, v)| FactValue::new(ident(&i), v)).collect();
        io.facts.insert((ident(&n), keys), vals);
    }
    let nm = ident(name);
    let ctx = match kind {
        "policy" => CommandContext::Policy(PolicyContext {
            name: nm.clone(),
            id: CmdId::default(),
            author: Default::default(),
            version: BaseId::default(),
        }),
        _ => CommandContext::Action(ActionContext { name: nm.clone(), head_id: CmdId::default() }),
    };
    let (res, top, depth) = {
        let mut rs = machine.create_run_state(&mut io, ctx);
        let res = match kind {
            "fn" => {
                let r = rs.set_pc_by_label(&label("fn", name));
                match r {
                    Err(e) => Err(e),
                    Ok(()) => {
                        let mut bad = None;
                        for a in args {
                            if let Err(e) = rs.stack.push_value(a) {
                                bad = Some(MachineError::new(e));
                            }
                        }
                        match bad {
                            Some(e) => Err(e),
                            None => rs.run(),
                        }
                    }
                }
            }
            "action" => rs.call_action(nm.clone(), args),
            "policy" => {
                let mut it = args.into_iter();
                let this = match it.next() {
                    Some(Value::Struct(s)) => s,
                    _ => panic!("policy entry needs this struct"),
                };
                let env = match it.next() {
                    Some(Value::Struct(s)) => s,
                    _ => Struct { name: ident("Envelope"), fields: BTreeMap::new() },
                };
                rs.call_command_policy(this, env)
            }
            _ => panic!("bad entry kind"),
        };
        let depth = rs.stack.len();
        let top = rs.stack.as_slice().last().cloned();
        (res, top, depth)
    };
    let exit = match &res {
        Ok(r) => show_exit(r).to_string(),
        Err(e) => format!("err:{}", err_class(&e.err_type)),
    };
    let topv = top.map(|v| show_value(&v)).unwrap_or_else(|| "-".into());
    format!("{}|{}|{}|{}", exit, topv, depth, io.log.borrow().join(";"))
}

/// Line protocol (fields separated by single spaces):
///   `C <hex policy>`                                  -> `ok <module>` | `err <Class>` | `parse-err`
///   `R <hex policy> <kind> <name> <fail_at> <args|-> [facts]`  -> `<exit>|<top of stack|->|<stack depth>|<io log>`
///     args: values separated by `,` at top level are NOT used; args are separated by `;`
///     facts: `name[k=v,..]{k=v,..}` entries separated by `;` given as a Struct-like pair `Tname{..}` `Tname{..}` joined with `/`
pub fn process_line(line: &str) -> String {
    let mut it = line.split(' ');
    let mode = it.next().unwrap_or("");
    let text = String::from_utf8(unhex(it.next().unwrap_or(""))).unwrap();
    match mode {
        "C" => match compile_text(&text) {
            Compiled::ParseErr(_) => "parse-err".into(),
            Compiled::CompileErr(c, _) => format!("err {c}"),
            Compiled::Ok(m) => format!("ok {}", show_module(&m)),
        },
        "R" => {
            let kind = it.next().unwrap();
            let name = it.next().unwrap();
            let fail_at: u64 = it.next().unwrap().parse().unwrap();
            let args_s = it.next().unwrap_or("-");
            let args: Vec<Value> = if args_s == "-" { vec![] } else { args_s.split(';').map(parse_value).collect() };
            let mut facts = vec![];
            if let Some(fs) = it.next() {
                if fs != "-" {
                    for ent in fs.split(';') {
                        let (k, v) = ent.split_once('/').unwrap();
                        let (Value::Struct(ks), Value::Struct(vs)) = (parse_value(k), parse_value(v)) else { panic!("bad fact") };
                        facts.push((ks.name.to_string(), ks.fields.into_iter().map(|(a, b)| (a.to_string(), b)).collect(), vs.fields.into_iter().map(|(a, b)| (a.to_string(), b)).collect()));
                    }
                }
            }
            match compile_text(&text) {
                Compiled::ParseErr(m) => format!("parse-err|{}|0|", m.replace('|', "/")),
                Compiled::CompileErr(c, m) => format!("compile-err:{c}|{}|0|", m.replace('|', "/")),
                Compiled::Ok(m) => run_entry(m, kind, name, fail_at, args, facts),
            }
        }
        _ => "bad-mode".into(),
    }
}

pub fn main_loop() {
    use std::io::{BufRead, Write};
    std::panic::set_hook(Box::new(|_| {}));
    let stdin = std::io::stdin();
    let out = std::io::stdout();
    let mut out = out.lock();
    for line in stdin.lock().lines() {
        let line = line.unwrap();
        let r = std::panic::catch_unwind(|| process_line(&line));
        match r {
            Ok(s) => writeln!(out, "{s}").unwrap(),
            Err(_) => writeln!(out, "panic").unwrap(),
        }
    }
}
