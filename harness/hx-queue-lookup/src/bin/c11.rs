//! C11 / C20 implementation-side runner: graphs are built through the real
//! storage API (`StorageProvider` / `Storage` / `Perspective`), queries go to the
//! real `get_location`, `get_location_from`, `is_ancestor`, `PeerCache::add_command`.
//!
//! stdin: one case per line:  `<backend> <op> <op> ...`   backend = `mem` | `libc`
//!   commands are named by creation ordinal 0,1,2,...; segments by creation ordinal.
//!   id:ORD:K          the command with ordinal ORD gets id number K (default ORD+1); must precede its creation
//!   I:N               init segment with N commands (new_perspective / new_storage)
//!   S:P:N             linear segment of N commands on top of command P (get_linear_perspective / write)
//!   M:L:R:N           merge segment: merge command with parents L,R (+ N-1 more commands); LCA by the
//!                     same backward walk as `braiding::lca_pair` (new_merge_perspective / write)
//!   H:A,B,...         commit_heads({A,B,...})
//!   Hf:A,B,...        commit_heads({A,B,...}) while the backend's `Write::commit` fails (injected
//!                     I/O error): must return Err and change nothing the queries can see
//!   g:X  G:K:MC       get_location(address of X) / get_location(Address{id K, max_cut MC})
//!   f:S:X  F:S:K:MC   get_location_from(location of S, ...)
//!   a:X:Y             is_ancestor(location of X, location of Y)
//!   B:SEG:MC:Y        is_ancestor(Location{segment #SEG, max_cut MC}, location of Y)
//!   *g                get_location for every command;   *a:Y  is_ancestor(X, Y) for every command X
//!   pc                new PeerCache;  pa:X / pA:K:MC  add_command; every pa/pA prints the cache afterwards
//! stdout: one line per case, `;`-separated records:
//!   seg IDX PRIOR MC IDS SKIP LCA      (creation order; locations are `MC.IDX`, lists `,`-joined, `-` empty)
//!   cmd LOC,LOC,...                    (location of every command by ordinal)
//!   q ANSWER                           (one per query op, in order)
use std::io::{self, BufRead, Write as _};
use std::panic;

use std::{cell::Cell, rc::Rc};

use aranya_runtime::{
    Address, CmdId, Command, GraphId, HeadSet, LocatedAddress, Location, MaxCut, PeerCache, Perspective as _,
    PolicyId, Prior, Priority, Segment as _, Storage, StorageError, StorageProvider, TraversalBuffer,
    storage::{
        HeadSetOffset,
        linear::{self, LinearStorageProvider, libc::FileManager, testing::Manager},
    },
};

/// Switchable I/O fault: while set, the backend's `Write::commit` fails.
#[derive(Clone, Default)]
struct Fault(Rc<Cell<bool>>);
struct FManager<M> {
    inner: M,
    f: Fault,
}
struct FWriter<W> {
    inner: W,
    f: Fault,
}
impl<M: linear::IoManager> linear::IoManager for FManager<M> {
    type Writer = FWriter<M::Writer>;
    fn create(&mut self, id: GraphId) -> Result<Self::Writer, StorageError> {
        Ok(FWriter { inner: self.inner.create(id)?, f: self.f.clone() })
    }
    fn open(&mut self, id: GraphId) -> Result<Option<Self::Writer>, StorageError> {
        Ok(self.inner.open(id)?.map(|w| FWriter { inner: w, f: self.f.clone() }))
    }
    fn remove(&mut self, id: GraphId) -> Result<(), StorageError> {
        self.inner.remove(id)
    }
    fn list(&mut self) -> Result<impl Iterator<Item = Result<GraphId, StorageError>>, StorageError> {
        self.inner.list()
    }
}
impl<W: linear::Write> linear::Write for FWriter<W> {
    type ReadOnly = W::ReadOnly;
    fn readonly(&self) -> Self::ReadOnly {
        self.inner.readonly()
    }
    fn heads(&self) -> Result<HeadSet, StorageError> {
        self.inner.heads()
    }
    fn heads_offset(&self) -> Result<HeadSetOffset, StorageError> {
        self.inner.heads_offset()
    }
    fn fact_cache(&self) -> Result<linear::FactCacheOffset, StorageError> {
        self.inner.fact_cache()
    }
    fn append<F, T>(&mut self, builder: F) -> Result<T, StorageError>
    where
        F: FnOnce(u64) -> T,
        T: serde::Serialize,
    {
        self.inner.append(builder)
    }
    fn commit(&mut self, heads: &HeadSet, fact_cache: linear::FactCacheOffset) -> Result<(), StorageError> {
        if self.f.0.get() {
            return Err(StorageError::IoError);
        }
        self.inner.commit(heads, fact_cache)
    }
}

struct Cmd {
    id: CmdId,
    parent: Prior<Address>,
}
impl Command for Cmd {
    fn priority(&self) -> Priority {
        match self.parent {
            Prior::None => Priority::Init,
            Prior::Single(_) => Priority::Basic(0),
            Prior::Merge(_, _) => Priority::Merge,
        }
    }
    fn id(&self) -> CmdId {
        self.id
    }
    fn parent(&self) -> Prior<Address> {
        self.parent
    }
    fn policy(&self) -> Option<&[u8]> {
        match self.parent {
            Prior::None => Some(b""),
            _ => None,
        }
    }
    fn bytes(&self) -> &[u8] {
        b"x"
    }
}

fn id_of(k: u64) -> CmdId {
    let mut b = [0u8; 32];
    b[24..].copy_from_slice(&k.to_be_bytes());
    // spread so that ids are not trivially ordered by creation
    b[0] = (k.wrapping_mul(0x9E37_79B9) >> 3) as u8;
    CmdId::from_bytes(b)
}
fn id_num(id: CmdId) -> u64 {
    let b = id.as_bytes();
    u64::from_be_bytes(b[24..32].try_into().unwrap())
}
fn l2s(l: Location) -> String {
    format!("{}.{}", l.max_cut.get(), l.segment.get())
}
fn ol2s(l: Option<Location>) -> String {
    l.map(l2s).unwrap_or_else(|| "-".into())
}
fn join<T: ToString>(v: impl IntoIterator<Item = T>) -> String {
    let s: Vec<String> = v.into_iter().map(|x| x.to_string()).collect();
    if s.is_empty() { "-".into() } else { s.join(",") }
}

#[derive(Clone, Copy)]
struct CmdInfo {
    addr: Address,
    loc: Location,
}

/// Mirror of `client::braiding::lca_pair` on the public Segment API.
fn lca_pair<S: Storage>(st: &S, mut left: Location, mut right: Location) -> Location {
    let mut lseg = st.get_segment(left).unwrap();
    let mut rseg = st.get_segment(right).unwrap();
    while left != right {
        let (loc, seg) = if left.max_cut > right.max_cut { (&mut left, &mut lseg) } else { (&mut right, &mut rseg) };
        match seg.previous(*loc) {
            Some(p) => *loc = p,
            None => {
                *loc = match seg.prior() {
                    Prior::None => panic!("Prior::None before LCA"),
                    Prior::Single(s) => s,
                    Prior::Merge(_, _) => *seg.skip_list().last().expect("merge skip list ends with LCA"),
                };
                *seg = st.get_segment(*loc).unwrap();
            }
        }
    }
    left
}

struct World {
    cmds: Vec<CmdInfo>,
    segs: Vec<(Location, Option<Location>)>, // (head location of the segment, lca)
    idmap: std::collections::BTreeMap<u64, u64>,
    out: Vec<String>,
}
impl World {
    fn next_id(&self) -> CmdId {
        let ord = self.cmds.len() as u64;
        id_of(*self.idmap.get(&ord).unwrap_or(&(ord + 1)))
    }
}

fn add_chain<P: aranya_runtime::Perspective>(w: &mut World, p: &mut P, first_parent: Prior<Address>, n: usize) -> Vec<Address> {
    let mut parent = first_parent;
    let mut addrs = vec![];
    for k in 0..n {
        // ordinal of this command = cmds.len() + k
        let ord = (w.cmds.len() + k) as u64;
        let id = id_of(*w.idmap.get(&ord).unwrap_or(&(ord + 1)));
        let c = Cmd { id, parent };
        p.add_command(&c).expect("add_command");
        let mc = match parent {
            Prior::None => 0,
            Prior::Single(a) => a.max_cut.get() + 1,
            Prior::Merge(a, b) => a.max_cut.get().max(b.max_cut.get()) + 1,
        };
        let a = Address { id, max_cut: MaxCut::new(mc) };
        addrs.push(a);
        parent = Prior::Single(a);
    }
    addrs
}

fn record_segment<S: Storage>(w: &mut World, seg: &S::Segment, addrs: &[Address], lca: Option<Location>) {
    let idx = seg.index();
    for a in addrs {
        w.cmds.push(CmdInfo { addr: *a, loc: Location::new(idx, a.max_cut) });
    }
    w.segs.push((seg.head_location().unwrap(), lca));
}

fn dump_segments<S: Storage>(st: &S, w: &World) -> Vec<String> {
    let mut v = vec![];
    for (head, lca) in &w.segs {
        let seg = st.get_segment(*head).unwrap();
        let prior = match seg.prior() {
            Prior::None => "n".to_string(),
            Prior::Single(p) => format!("s{}", l2s(p)),
            Prior::Merge(a, b) => format!("m{}+{}", l2s(a), l2s(b)),
        };
        let first = seg.shortest_max_cut().get();
        let last = seg.longest_max_cut().unwrap().get();
        let mut ids = vec![];
        for mc in first..=last {
            let c = seg.get_command(Location::new(seg.index(), MaxCut::new(mc))).expect("command in range");
            ids.push(id_num(c.id()));
        }
        v.push(format!(
            "seg {} {} {} {} {} {}",
            seg.index().get(),
            prior,
            first,
            join(ids),
            join(seg.skip_list().iter().map(|l| l2s(*l))),
            ol2s(*lca)
        ));
    }
    v
}

fn cache_str(pc: &PeerCache) -> String {
    join(pc.heads().iter().map(|h| format!("{}@{}.{}", id_num(h.id), h.max_cut.get(), h.segment.get())))
}

fn run_case<SP: StorageProvider>(sp: &mut SP, fault: &Fault, ops: &[&str]) -> String {
    let mut w = World { cmds: vec![], segs: vec![], idmap: Default::default(), out: vec![] };
    let mut graph = None;
    let mut buf = TraversalBuffer::new();
    let mut pc = PeerCache::new();
    for op in ops {
        let f: Vec<&str> = op.split(':').collect();
        let n = |i: usize| -> u64 { f[i].parse().unwrap() };
        match f[0] {
            "id" => {
                w.idmap.insert(n(1), n(2));
            }
            "I" => {
                let mut p = sp.new_perspective(PolicyId::new(0));
                let addrs = add_chain(&mut w, &mut p, Prior::None, n(1) as usize);
                let (gid, st) = sp.new_storage(p).expect("new_storage");
                graph = Some(gid);
                let head = *st.get_heads().unwrap().as_slice().first().unwrap();
                let seg = st.get_segment(head.location()).unwrap();
                record_segment::<SP::Storage>(&mut w, &seg, &addrs, None);
            }
            _ => {
                let st = sp.get_storage(graph.expect("init first")).expect("get_storage");
                match f[0] {
                    "S" => {
                        let parent = w.cmds[n(1) as usize];
                        let mut p = st.get_linear_perspective(parent.loc).expect("linear perspective");
                        let addrs = add_chain(&mut w, &mut p, Prior::Single(parent.addr), n(2) as usize);
                        let seg = st.write(p).expect("write");
                        record_segment::<SP::Storage>(&mut w, &seg, &addrs, None);
                    }
                    "M" => {
                        let l = w.cmds[n(1) as usize];
                        let r = w.cmds[n(2) as usize];
                        let lca = lca_pair(&*st, l.loc, r.loc);
                        let fp = st.get_fact_perspective(lca).expect("fact perspective");
                        let braid = st.write_facts(fp).expect("write_facts");
                        let mut p = st
                            .new_merge_perspective(l.loc, r.loc, lca, PolicyId::new(0), braid)
                            .expect("merge perspective");
                        let addrs = add_chain(&mut w, &mut p, Prior::Merge(l.addr, r.addr), n(3) as usize);
                        let seg = st.write(p).expect("write");
                        record_segment::<SP::Storage>(&mut w, &seg, &addrs, Some(lca));
                    }
                    "H" | "Hf" => {
                        let mut hs = HeadSet::default();
                        for t in f[1].split(',') {
                            let c = w.cmds[t.parse::<usize>().unwrap()];
                            hs.push(LocatedAddress { id: c.addr.id, segment: c.loc.segment, max_cut: c.addr.max_cut });
                        }
                        let fc = st.fact_cache().expect("fact_cache");
                        if f[0] == "Hf" {
                            fault.0.set(true);
                            let r = st.commit_heads(hs, fc);
                            fault.0.set(false);
                            assert!(r.is_err(), "Hf: commit_heads succeeded although the backend commit failed");
                        } else {
                            st.commit_heads(hs, fc).expect("commit_heads");
                        }
                    }
                    "g" | "G" | "f" | "F" => {
                        let (start, rest) = if f[0] == "f" || f[0] == "F" { (Some(w.cmds[n(1) as usize].loc), 2) } else { (None, 1) };
                        let addr = if f[0] == "g" || f[0] == "f" {
                            w.cmds[n(rest) as usize].addr
                        } else {
                            Address { id: id_of(n(rest)), max_cut: MaxCut::new(n(rest + 1)) }
                        };
                        let r = match start {
                            Some(s) => st.get_location_from(s, addr, &mut buf),
                            None => st.get_location(addr, &mut buf),
                        };
                        w.out.push(match r {
                            Ok(l) => format!("q {}", ol2s(l)),
                            Err(_) => "q E".into(),
                        });
                    }
                    "a" | "B" => {
                        let (search, start) = if f[0] == "a" {
                            (w.cmds[n(1) as usize].loc, w.cmds[n(2) as usize].loc)
                        } else {
                            let seg_idx = w.segs[n(1) as usize].0.segment;
                            (Location::new(seg_idx, MaxCut::new(n(2))), w.cmds[n(3) as usize].loc)
                        };
                        w.out.push(match st.is_ancestor(search, start, &mut buf) {
                            Ok(b) => format!("q {}", b as u8),
                            Err(_) => "q E".into(),
                        });
                    }
                    "*g" => {
                        let mut v = vec![];
                        for c in &w.cmds {
                            v.push(match st.get_location(c.addr, &mut buf) {
                                Ok(l) => ol2s(l),
                                Err(_) => "E".into(),
                            });
                        }
                        w.out.push(format!("q {}", v.join(",")));
                    }
                    "*a" => {
                        let y = w.cmds[n(1) as usize].loc;
                        let mut v = String::new();
                        for c in &w.cmds {
                            v.push(match st.is_ancestor(c.loc, y, &mut buf) {
                                Ok(true) => '1',
                                Ok(false) => '0',
                                Err(_) => 'E',
                            });
                        }
                        w.out.push(format!("q {v}"));
                    }
                    "pc" => {
                        pc = PeerCache::new();
                    }
                    "pa" | "pA" => {
                        let addr = if f[0] == "pa" {
                            w.cmds[n(1) as usize].addr
                        } else {
                            Address { id: id_of(n(1)), max_cut: MaxCut::new(n(2)) }
                        };
                        let r = pc.add_command(&*st, addr, &mut buf);
                        w.out.push(match r {
                            Ok(()) => format!("q {}", cache_str(&pc)),
                            Err(_) => "q E".into(),
                        });
                    }
                    other => panic!("bad op {other}"),
                }
            }
        }
    }
    let mut rec = vec![];
    if let Some(g) = graph {
        let st = sp.get_storage(g).unwrap();
        rec.extend(dump_segments(&*st, &w));
        rec.push(format!("heads {}", join(st.get_heads().unwrap().iter().map(|h| format!("{}@{}.{}", id_num(h.id), h.max_cut.get(), h.segment.get())))));
    }
    rec.push(format!("cmd {}", join(w.cmds.iter().map(|c| l2s(c.loc)))));
    rec.extend(w.out);
    rec.join(";")
}

fn main() {
    panic::set_hook(Box::new(|_| {}));
    let stdin = io::stdin();
    let out = io::stdout();
    let mut out = io::BufWriter::new(out.lock());
    let base = std::env::temp_dir().join(format!("hx-queue-lookup-{}", std::process::id()));
    let mut case_no = 0u64;
    for line in stdin.lock().lines() {
        let line = line.unwrap();
        let toks: Vec<&str> = line.split_whitespace().collect();
        case_no += 1;
        if toks.is_empty() {
            writeln!(out).unwrap();
            continue;
        }
        let res = panic::catch_unwind(panic::AssertUnwindSafe(|| match toks[0] {
            "mem" => {
                let fault = Fault::default();
                let mut sp = LinearStorageProvider::new(FManager { inner: Manager::new(), f: fault.clone() });
                run_case(&mut sp, &fault, &toks[1..])
            }
            "libc" => {
                let dir = base.join(case_no.to_string());
                std::fs::create_dir_all(&dir).unwrap();
                let r = {
                    let fault = Fault::default();
                    let mut sp = LinearStorageProvider::new(FManager { inner: FileManager::new(&dir).expect("FileManager"), f: fault.clone() });
                    run_case(&mut sp, &fault, &toks[1..])
                };
                let _ = std::fs::remove_dir_all(&dir);
                r
            }
            other => panic!("bad backend {other}"),
        }));
        match res {
            Ok(s) => writeln!(out, "{s}").unwrap(),
            Err(e) => {
                let msg = e.downcast_ref::<String>().cloned().or_else(|| e.downcast_ref::<&str>().map(|s| s.to_string())).unwrap_or_default();
                writeln!(out, "panic {}", msg.replace(['\n', ';'], " ")).unwrap()
            }
        }
    }
    let _ = std::fs::remove_dir_all(&base);
}
