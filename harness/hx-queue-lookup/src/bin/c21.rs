//! C21 implementation-side runner: the real `TraversalQueue`.
//!
//! stdin: one op sequence per line, tokens separated by blanks
//!   p:MC:SEG  push            c:MC:SEG:B push_covered   d:MC:SEG push_duplicate
//!   o pop     O pop_covered   k peek     D pop_duplicates   a all_covered
//!   A:T drain_above   u:SEG:COV:LONGEST cover_up_to   X drain_all   e is_empty   z clear
//! A line starting with `!` prints only the last op's result.
//! stdout per line: for each op `OUT@STATE`
//!   OUT   `-` | `b0`/`b1` | `l.` / `l.MC.SEG` | `v.` / `v.MC.SEG.B` | `n.` / `n.MC.SEG.CNT`
//!         | `L.` followed by `MC.SEG` joined with `,` | `bug` | `err` | `panic`
//!   STATE `PARTITION|MC.SEG,MC.SEG,...`   (read from the derived `Debug` of the queue)
use std::io::{self, BufRead, Write};
use std::panic;

use aranya_runtime::{Location, MaxCut, SegmentIndex, StorageError, TraversalQueue};

fn loc(mc: u64, seg: u64) -> Location {
    Location::new(SegmentIndex::new(seg), MaxCut::new(mc))
}
fn l2s(l: &Location) -> String {
    format!("{}.{}", l.max_cut.get(), l.segment.get())
}
/// The private fields, via `#[derive(Debug)]`: every integer in print order is
/// mc, seg, mc, seg, ..., partition.
fn state(q: &TraversalQueue) -> String {
    let d = format!("{q:?}");
    // guard: the field names the parser relies on
    let ie = d.find("entries").expect("Debug: entries");
    let ip = d.find("partition").expect("Debug: partition");
    assert!(ie < ip, "Debug field order changed");
    let nums = |s: &str| -> Vec<u64> {
        let mut v = vec![];
        let mut cur = String::new();
        let mut prev_alpha = false;
        for ch in s.chars() {
            if ch.is_ascii_digit() && !(cur.is_empty() && prev_alpha) {
                cur.push(ch);
            } else {
                if !cur.is_empty() {
                    v.push(cur.parse().unwrap());
                    cur.clear();
                }
                prev_alpha = ch.is_ascii_alphanumeric() || ch == '_';
            }
        }
        if !cur.is_empty() {
            v.push(cur.parse().unwrap());
        }
        v
    };
    let es = nums(&d[ie..ip]);
    let p = nums(&d[ip..]);
    assert!(es.len() % 2 == 0 && p.len() == 1, "Debug shape changed: {d}");
    // field order inside Location as printed
    let inner = &d[ie..ip];
    let mc_first = match (inner.find("max_cut"), inner.find("segment")) {
        (Some(a), Some(b)) => a < b,
        _ => true,
    };
    let items: Vec<String> = es
        .chunks(2)
        .map(|c| if mc_first { format!("{}.{}", c[0], c[1]) } else { format!("{}.{}", c[1], c[0]) })
        .collect();
    format!("{}|{}", p[0], items.join(","))
}

fn err(e: StorageError) -> String {
    match e {
        StorageError::Bug(_) => "bug".into(),
        _ => "err".into(),
    }
}

fn apply(q: &mut TraversalQueue, tok: &str) -> String {
    let f: Vec<&str> = tok.split(':').collect();
    let n = |i: usize| -> u64 { f[i].parse().unwrap() };
    let unit = |r: Result<(), StorageError>| match r {
        Ok(()) => "-".to_string(),
        Err(e) => err(e),
    };
    match f[0] {
        "p" => unit(q.push(loc(n(1), n(2)))),
        "c" => unit(q.push_covered(loc(n(1), n(2)), n(3) != 0)),
        "d" => unit(q.push_duplicate(loc(n(1), n(2)))),
        "o" => match q.pop() {
            Ok(None) => "l.".into(),
            Ok(Some(l)) => format!("l.{}", l2s(&l)),
            Err(e) => err(e),
        },
        "O" => match q.pop_covered() {
            Ok(None) => "v.".into(),
            Ok(Some((l, c))) => format!("v.{}.{}", l2s(&l), c as u8),
            Err(e) => err(e),
        },
        "k" => match q.peek() {
            None => "l.".into(),
            Some(l) => format!("l.{}", l2s(l)),
        },
        "D" => match q.pop_duplicates() {
            Ok(None) => "n.".into(),
            Ok(Some((l, c))) => format!("n.{}.{}", l2s(&l), c),
            Err(e) => err(e),
        },
        "a" => format!("b{}", q.all_covered() as u8),
        "e" => format!("b{}", q.is_empty() as u8),
        "z" => {
            q.clear();
            "-".into()
        }
        "A" => {
            let mut got = vec![];
            match q.drain_above(MaxCut::new(n(1)), |l| got.push(l2s(&l))) {
                Ok(()) => format!("L.{}", got.join(",")),
                Err(e) => err(e),
            }
        }
        "u" => unit(q.cover_up_to(SegmentIndex::new(n(1)), MaxCut::new(n(2)), MaxCut::new(n(3)))),
        "X" => {
            let mut got = vec![];
            q.drain_all(|l| got.push(l2s(&l)));
            format!("L.{}", got.join(","))
        }
        other => panic!("bad op {other}"),
    }
}

fn main() {
    panic::set_hook(Box::new(|_| {}));
    let stdin = io::stdin();
    let out = io::stdout();
    let mut out = io::BufWriter::new(out.lock());
    for line in stdin.lock().lines() {
        let line = line.unwrap();
        let (last_only, body) = match line.strip_prefix('!') {
            Some(r) => (true, r),
            None => (false, line.as_str()),
        };
        let toks: Vec<&str> = body.split_whitespace().collect();
        let mut q = TraversalQueue::new();
        let mut res: Vec<String> = vec![];
        let mut dead = false;
        for t in &toks {
            if dead {
                res.push("dead@".into());
                continue;
            }
            let r = panic::catch_unwind(panic::AssertUnwindSafe(|| {
                let o = apply(&mut q, t);
                format!("{}@{}", o, state(&q))
            }));
            match r {
                Ok(s) => res.push(s),
                Err(_) => {
                    dead = true;
                    res.push("panic@".into());
                }
            }
        }
        if last_only {
            writeln!(out, "{}", res.last().cloned().unwrap_or_default()).unwrap();
        } else {
            writeln!(out, "{}", res.join(" ")).unwrap();
        }
    }
}
