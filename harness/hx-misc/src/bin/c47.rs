//! C47 implementation-side runner: real `write_c_str` over guarded memory.
//! stdin: one case per line  `<n> <guard> <frag-hex>,<frag-hex>,...` ("-" = empty fragment)
//! stdout per case: `<ok:0|1|bug> <nw> <memory hex>`
use std::{fmt, io::{self, BufRead, Write}, mem::MaybeUninit, panic};
use std::ffi::c_char;

struct Frags(Vec<String>);
impl fmt::Display for Frags {
    fn fmt(&self, f: &mut fmt::Formatter<'_>) -> fmt::Result {
        for s in &self.0 { f.write_str(s)?; }
        Ok(())
    }
}
fn unhex(s: &str) -> Vec<u8> {
    (0..s.len() / 2).map(|i| u8::from_str_radix(&s[2 * i..2 * i + 2], 16).unwrap()).collect()
}
fn main() {
    let stdin = io::stdin();
    let out = io::stdout();
    let mut out = out.lock();
    for line in stdin.lock().lines() {
        let line = line.unwrap();
        let mut it = line.split_whitespace();
        let n: usize = it.next().unwrap().parse().unwrap();
        let guard: usize = it.next().unwrap().parse().unwrap();
        let frags: Vec<String> = it.next().unwrap_or("").split(',').filter(|s| !s.is_empty())
            .map(|s| if s == "-" { String::new() } else { String::from_utf8(unhex(s)).unwrap() }).collect();
        // memory = guard bytes (0xA5) + window (0x5A) + guard bytes (0xA5)
        let mut mem = vec![0xA5u8; guard + n + guard];
        for b in &mut mem[guard..guard + n] { *b = 0x5A; }
        let mut nw: usize = 0xdeadbeef;
        let src = Frags(frags);
        let res = panic::catch_unwind(panic::AssertUnwindSafe(|| {
            let win = &mut mem[guard..guard + n];
            // SAFETY: u8 and MaybeUninit<c_char> have the same layout (as the crate's own test does).
            let dst = unsafe { &mut *(win as *mut [u8] as *mut [MaybeUninit<c_char>]) };
            aranya_capi_core::write_c_str(dst, &src, &mut nw)
        }));
        let tag = match res {
            Ok(Ok(())) => "1".to_string(),
            Ok(Err(aranya_capi_core::WriteCStrError::BufferTooSmall)) => "0".to_string(),
            Ok(Err(_)) => "bug".to_string(),
            Err(_) => "panic".to_string(),
        };
        let hex: String = mem.iter().map(|b| format!("{b:02x}")).collect();
        writeln!(out, "{tag} {nw} {hex}").unwrap();
    }
}
