//! Tracking allocator: records the allocations and frees made by threads that
//! switched tracking on, and *quarantines* freed tracked blocks (they are
//! poisoned with 0xDD and never handed back to the system), so that a double
//! free or a read after free in a broken implementation is observed instead of
//! corrupting the harness.
use std::{
    alloc::{GlobalAlloc, Layout, System},
    cell::Cell,
    sync::atomic::{AtomicUsize, Ordering},
};

pub struct Tracking;

const CAP: usize = 8192;

struct Entry {
    ptr: AtomicUsize,
    size: AtomicUsize,
    frees: AtomicUsize,
}

#[allow(clippy::declare_interior_mutable_const)]
const EMPTY: Entry = Entry { ptr: AtomicUsize::new(0), size: AtomicUsize::new(0), frees: AtomicUsize::new(0) };
static TABLE: [Entry; CAP] = [EMPTY; CAP];
static COUNT: AtomicUsize = AtomicUsize::new(0);

thread_local! {
    static TRACK: Cell<bool> = const { Cell::new(false) };
}

fn tracking() -> bool {
    TRACK.try_with(|t| t.get()).unwrap_or(false)
}

/// Switches tracking on or off for the calling thread.
pub fn set_tracking(on: bool) {
    let _ = TRACK.try_with(|t| t.set(on));
}

/// Forgets all recorded entries (quarantined blocks stay allocated).
pub fn reset() {
    COUNT.store(0, Ordering::SeqCst);
}

/// Number of entries recorded so far.
pub fn mark() -> usize {
    COUNT.load(Ordering::SeqCst).min(CAP)
}

/// (pointer, size, number of frees) of the entries recorded since `from`.
pub fn entries_since(from: usize) -> Vec<(usize, usize, usize)> {
    let n = mark();
    (from..n)
        .map(|i| {
            (
                TABLE[i].ptr.load(Ordering::SeqCst),
                TABLE[i].size.load(Ordering::SeqCst),
                TABLE[i].frees.load(Ordering::SeqCst),
            )
        })
        .collect()
}

/// How often the tracked block at `ptr` has been freed (None: not tracked).
pub fn frees_of(ptr: usize) -> Option<usize> {
    let n = mark();
    (0..n).rev().find(|&i| TABLE[i].ptr.load(Ordering::SeqCst) == ptr).map(|i| TABLE[i].frees.load(Ordering::SeqCst))
}

unsafe impl GlobalAlloc for Tracking {
    unsafe fn alloc(&self, layout: Layout) -> *mut u8 {
        let p = unsafe { System.alloc(layout) };
        if !p.is_null() && tracking() {
            let i = COUNT.fetch_add(1, Ordering::SeqCst);
            if i < CAP {
                TABLE[i].ptr.store(p as usize, Ordering::SeqCst);
                TABLE[i].size.store(layout.size(), Ordering::SeqCst);
                TABLE[i].frees.store(0, Ordering::SeqCst);
            }
        }
        p
    }

    unsafe fn dealloc(&self, ptr: *mut u8, layout: Layout) {
        if tracking() {
            let n = mark();
            for i in (0..n).rev() {
                if TABLE[i].ptr.load(Ordering::SeqCst) == ptr as usize {
                    let before = TABLE[i].frees.fetch_add(1, Ordering::SeqCst);
                    if before == 0 {
                        // poison, keep the block (quarantine)
                        unsafe { std::ptr::write_bytes(ptr, 0xDD, layout.size()) };
                    }
                    return;
                }
            }
        }
        unsafe { System.dealloc(ptr, layout) }
    }

    unsafe fn realloc(&self, ptr: *mut u8, layout: Layout, new_size: usize) -> *mut u8 {
        if tracking() {
            // keep it simple: allocate-copy-free through the tracked paths
            let new_layout = unsafe { Layout::from_size_align_unchecked(new_size, layout.align()) };
            let np = unsafe { self.alloc(new_layout) };
            if !np.is_null() {
                unsafe { std::ptr::copy_nonoverlapping(ptr, np, layout.size().min(new_size)) };
                unsafe { self.dealloc(ptr, layout) };
            }
            np
        } else {
            unsafe { System.realloc(ptr, layout, new_size) }
        }
    }
}
