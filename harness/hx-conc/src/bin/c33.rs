//! C33 implementation-side runner: the real heap-shared `Text` (ArcStr) of
//! aranya-policy-text driven one atomic operation at a time.
//!
//! stdin, one case per line:
//!   `ex  <nthreads> <ev> <ev> ...`     explicit prefix, then a clean-up suffix until quiescence
//!   `rnd <nthreads> <seed> <len>`      random enabled operations for `len` events, then clean-up
//! events: `<t><op>` with op = c (clone) r (read) d (drop) g (give to the pool) t (take from the pool).
//! Thread 0 starts with the handle returned by the constructor.
//!
//! stdout per case: `<digest> <final obs> <flags> <stats> <executed events>`
//! flags: ok | dfree | uaf | early | leak | badval | rcmismatch | panic | hang
//! stats: events:clones:reads:drops:last_drops:gives:takes:max_handles
use std::{
    cell::UnsafeCell,
    io::{self, BufRead, Write},
    sync::{
        Arc,
        atomic::{AtomicU64, AtomicUsize, Ordering},
    },
};

use aranya_policy_text::Text;
use hx_conc::{Rng, Sched, Status, alloc_track, hash_step, install_hooks, pack, yield_point};

#[global_allocator]
static ALLOC: alloc_track::Tracking = alloc_track::Tracking;

const SITE_IDLE: u32 = 40;
const SITE_READ: u32 = 42;
const CONTENT: &str = "shared heap text: longer than the inline capacity of Repr";
const MAX_HANDLES: usize = 24;

#[derive(Clone, Copy, PartialEq, Eq, Debug)]
enum Op {
    Clone = 0,
    Read = 1,
    Drop = 2,
    Give = 3,
    Take = 4,
    Exit = 5,
}
impl Op {
    fn letter(self) -> char {
        ['c', 'r', 'd', 'g', 't', 'x'][self as usize]
    }
    fn parse(c: char) -> Option<Op> {
        Some(match c {
            'c' => Op::Clone,
            'r' => Op::Read,
            'd' => Op::Drop,
            'g' => Op::Give,
            't' => Op::Take,
            _ => return None,
        })
    }
    fn from(n: usize) -> Op {
        [Op::Clone, Op::Read, Op::Drop, Op::Give, Op::Take, Op::Exit][n]
    }
}

struct World {
    pool: UnsafeCell<Vec<Text>>,
    first: UnsafeCell<Option<Text>>,
    mailbox: Vec<AtomicUsize>,
    held_pub: Vec<AtomicUsize>,
    bad: AtomicU64, // bit 0: bad content, bit 1: access after free
    block: AtomicUsize,
}
// SAFETY: exactly one logical thread (or the controller) runs at a time.
unsafe impl Sync for World {}

fn freed_now(w: &World) -> usize {
    alloc_track::frees_of(w.block.load(Ordering::SeqCst)).unwrap_or(0)
}

/// The reference count as stored at the start of the (repr(C)) allocation.
fn strong_now(w: &World) -> usize {
    let p = w.block.load(Ordering::SeqCst) as *const AtomicUsize;
    // SAFETY: the tracking allocator never returns tracked blocks to the system (quarantine).
    unsafe { (*p).load(Ordering::SeqCst) }
}

fn thread_body(w: Arc<World>, me: usize) {
    alloc_track::set_tracking(true);
    let mut texts: Vec<Text> = Vec::with_capacity(64);
    if me == 0 {
        // SAFETY: single running thread.
        texts.push(unsafe { (*w.first.get()).take().expect("first handle") });
    }
    w.held_pub[me].store(texts.len(), Ordering::SeqCst);
    loop {
        yield_point(SITE_IDLE);
        let op = Op::from(w.mailbox[me].load(Ordering::SeqCst));
        match op {
            Op::Exit => break,
            Op::Clone => {
                let c = texts.last().expect("owns a handle").clone();
                texts.push(c);
            }
            Op::Read => {
                yield_point(SITE_READ);
                let t = texts.last().expect("owns a handle");
                if freed_now(&w) > 0 {
                    w.bad.fetch_or(2, Ordering::SeqCst);
                }
                if t.as_str() != CONTENT {
                    w.bad.fetch_or(1, Ordering::SeqCst);
                }
            }
            Op::Drop => {
                let t = texts.pop().expect("owns a handle");
                drop(t);
            }
            Op::Give => {
                let t = texts.pop().expect("owns a handle");
                // SAFETY: single running thread.
                unsafe { (*w.pool.get()).push(t) };
            }
            Op::Take => {
                // SAFETY: single running thread.
                let t = unsafe { (*w.pool.get()).pop().expect("pool not empty") };
                texts.push(t);
            }
        }
        w.held_pub[me].store(texts.len(), Ordering::SeqCst);
    }
    std::mem::forget(texts);
    alloc_track::set_tracking(false);
}

fn site_digit(s: Status) -> u128 {
    match s {
        Status::Parked(SITE_IDLE) => 8,
        Status::Parked(SITE_READ) => 10,
        Status::Parked(x) if (30..=33).contains(&x) => (x - 10) as u128,
        other => other.code() as u128,
    }
}

struct Outcome {
    digest: u128,
    final_obs: u128,
    flags: Vec<&'static str>,
    stats: [usize; 8],
    events: Vec<(usize, Op)>,
    trace: Vec<Vec<u128>>,
}

enum Source {
    Explicit(Vec<(usize, Op)>),
    Rnd { rng: Rng, len: usize },
}

fn run_case(n: usize, mut src: Source, want_trace: bool) -> Outcome {
    alloc_track::reset();
    let mark = alloc_track::mark();
    alloc_track::set_tracking(true);
    let first: Text = CONTENT.parse().expect("valid text");
    alloc_track::set_tracking(false);
    let ents = alloc_track::entries_since(mark);
    let block = ents.iter().rev().find(|e| e.2 == 0 && e.1 >= 8 + CONTENT.len()).map(|e| e.0).unwrap_or(0);
    assert!(block != 0, "heap block of the text not found");
    let w = Arc::new(World {
        pool: UnsafeCell::new(Vec::with_capacity(64)),
        first: UnsafeCell::new(Some(first)),
        mailbox: (0..n).map(|_| AtomicUsize::new(0)).collect(),
        held_pub: (0..n).map(|_| AtomicUsize::new(0)).collect(),
        bad: AtomicU64::new(0),
        block: AtomicUsize::new(block),
    });
    let s = Sched::new(n);
    let mut handles = Vec::new();
    for t in 0..n {
        let w2 = w.clone();
        handles.push(s.spawn(t, move || thread_body(w2, t)));
    }
    let mut hang = false;
    for t in 0..n {
        if !s.advance(t, 0) {
            hang = true;
        }
    }
    let mut flags: Vec<&'static str> = Vec::new();
    let flag = |f: &'static str, flags: &mut Vec<&'static str>| {
        if !flags.contains(&f) {
            flags.push(f);
        }
    };
    // handles that have not executed their fetch_sub
    let mut held_live: Vec<usize> = vec![0; n];
    held_live[0] = 1;
    let mut pool_n = 0usize;
    let observe = |w: &World, s: &Sched, pool_n: usize| -> Vec<u128> {
        let st = s.statuses();
        let fr = freed_now(w);
        let mut d: Vec<u128> = vec![fr as u128, if fr == 0 { strong_now(w) as u128 } else { 0 }, pool_n as u128];
        for (t, x) in st.iter().enumerate() {
            let idle = *x == Status::Parked(SITE_IDLE);
            d.push(site_digit(*x));
            d.push(if idle { w.held_pub[t].load(Ordering::SeqCst) as u128 } else { 0 });
        }
        d
    };
    let mut h: u128 = 7;
    let mut events: Vec<(usize, Op)> = Vec::new();
    let mut trace = Vec::new();
    let mut stats = [0usize; 8];
    let mut pos = 0usize;
    let mut final_obs = pack(&observe(&w, &s, pool_n));
    let mut cleanup_rounds = 0usize;
    loop {
        if hang {
            break;
        }
        let st = s.statuses();
        if st.iter().any(|x| x.finished()) {
            break;
        }
        let idle = |t: usize| st[t] == Status::Parked(SITE_IDLE);
        let enabled = |t: usize, op: Op, hl: &Vec<usize>, pool_n: usize| -> bool {
            if !idle(t) {
                return true;
            }
            match op {
                Op::Clone | Op::Read | Op::Drop | Op::Give => hl[t] >= 1,
                Op::Take => pool_n >= 1,
                Op::Exit => false,
            }
        };
        let total: usize = held_live.iter().sum::<usize>() + pool_n;
        let ev: Option<(usize, Op)> = match &mut src {
            Source::Explicit(evs) if pos < evs.len() => {
                pos += 1;
                Some(evs[pos - 1])
            }
            Source::Rnd { rng, len } if events.len() < *len => {
                let mut cands: Vec<(usize, Op)> = Vec::new();
                for t in 0..n {
                    if !idle(t) {
                        cands.push((t, Op::Read));
                        cands.push((t, Op::Read));
                        continue;
                    }
                    for op in [Op::Clone, Op::Clone, Op::Read, Op::Drop, Op::Give, Op::Take] {
                        if op == Op::Clone && total >= MAX_HANDLES {
                            continue;
                        }
                        if enabled(t, op, &held_live, pool_n) || rng.below(12) == 0 {
                            cands.push((t, op));
                        }
                    }
                }
                if cands.is_empty() { None } else { Some(cands[rng.below(cands.len() as u64) as usize]) }
            }
            _ => None,
        };
        let ev = match ev {
            Some(e) => e,
            None => {
                cleanup_rounds += 1;
                if cleanup_rounds > 400 {
                    flag("hang", &mut flags);
                    break;
                }
                if let Some(t) = (0..n).find(|&t| !idle(t)) {
                    (t, Op::Read)
                } else if let Some(t) = (0..n).find(|&t| held_live[t] >= 1) {
                    (t, Op::Drop)
                } else if pool_n >= 1 {
                    (0, Op::Take)
                } else {
                    break;
                }
            }
        };
        let (t, op) = ev;
        // a clone beyond the harness capacity would overflow the observation digits: never generated
        if t < n && enabled(t, op, &held_live, pool_n) {
            let before = st[t];
            if before == Status::Parked(SITE_IDLE) {
                w.mailbox[t].store(op as usize, Ordering::SeqCst);
            }
            if !s.advance(t, 0) {
                hang = true;
            }
            let after = s.status(t);
            match before {
                Status::Parked(SITE_IDLE) => match op {
                    Op::Give => {
                        held_live[t] -= 1;
                        pool_n += 1;
                        stats[5] += 1;
                    }
                    Op::Take => {
                        held_live[t] += 1;
                        pool_n -= 1;
                        stats[6] += 1;
                    }
                    _ => {}
                },
                Status::Parked(30) => {
                    if after != Status::Panicked {
                        held_live[t] += 1;
                    }
                    stats[1] += 1;
                }
                Status::Parked(SITE_READ) => stats[2] += 1,
                Status::Parked(31) => {
                    held_live[t] -= 1;
                    stats[3] += 1;
                    if after == Status::Parked(32) {
                        stats[4] += 1;
                    }
                }
                _ => {}
            }
        }
        events.push(ev);
        stats[0] += 1;
        let fr = freed_now(&w);
        let nh = held_live.iter().sum::<usize>() + pool_n;
        stats[7] = stats[7].max(nh);
        if fr > 1 {
            flag("dfree", &mut flags);
        }
        if fr >= 1 && nh >= 1 {
            flag("early", &mut flags);
        }
        if fr == 0 && strong_now(&w) != nh {
            flag("rcmismatch", &mut flags);
        }
        let d = observe(&w, &s, pool_n);
        let o = pack(&d);
        h = hash_step(h, o);
        final_obs = o;
        if want_trace {
            trace.push(d);
        }
    }
    let st = s.statuses();
    if hang {
        flag("hang", &mut flags);
    }
    if st.iter().any(|x| *x == Status::Panicked) {
        flag("panic", &mut flags);
    }
    let bad = w.bad.load(Ordering::SeqCst);
    if bad & 1 != 0 {
        flag("badval", &mut flags);
    }
    if bad & 2 != 0 {
        flag("uaf", &mut flags);
    }
    let quiescent = !hang && st.iter().all(|x| *x == Status::Parked(SITE_IDLE)) && pool_n == 0 && held_live.iter().all(|&x| x == 0);
    if quiescent && freed_now(&w) == 0 {
        flag("leak", &mut flags);
    }
    if !hang {
        for t in 0..n {
            if s.status(t) == Status::Parked(SITE_IDLE) {
                w.mailbox[t].store(Op::Exit as usize, Ordering::SeqCst);
                s.advance(t, 0);
            }
        }
    }
    s.kill();
    if !hang {
        for hd in handles {
            let _ = hd.join();
        }
    }
    // SAFETY: all logical threads are gone.
    unsafe {
        for t in (*w.pool.get()).drain(..) {
            std::mem::forget(t);
        }
    }
    if flags.is_empty() {
        flags.push("ok");
    }
    Outcome { digest: h, final_obs, flags, stats, events, trace }
}

/// Free-running threads: clone / read / drop with no scheduling control.
fn stress(threads: usize, iters: usize) -> String {
    alloc_track::reset();
    let mark = alloc_track::mark();
    alloc_track::set_tracking(true);
    let first: Text = CONTENT.parse().expect("valid text");
    alloc_track::set_tracking(false);
    let ents = alloc_track::entries_since(mark);
    let block = ents.iter().rev().find(|e| e.2 == 0 && e.1 >= 8 + CONTENT.len()).map(|e| e.0).unwrap_or(0);
    let bad = Arc::new(AtomicU64::new(0));
    let mut hs = Vec::new();
    for i in 0..threads {
        let mine = first.clone();
        let bad = bad.clone();
        hs.push(std::thread::spawn(move || {
            alloc_track::set_tracking(true);
            let mut v: Vec<Text> = Vec::with_capacity(16);
            v.push(mine);
            let mut rng = Rng(i as u64 * 77 + 5);
            for _ in 0..iters {
                match rng.below(3) {
                    0 if v.len() < 12 => {
                        let c = v[rng.below(v.len() as u64) as usize].clone();
                        v.push(c);
                    }
                    1 if v.len() > 1 => {
                        let k = rng.below(v.len() as u64) as usize;
                        drop(v.swap_remove(k));
                    }
                    _ => {
                        if v[0].as_str() != CONTENT {
                            bad.fetch_or(1, Ordering::SeqCst);
                        }
                    }
                }
            }
            drop(v);
            alloc_track::set_tracking(false);
        }));
    }
    for h in hs {
        if h.join().is_err() {
            return "stress panic".to_string();
        }
    }
    let mid = alloc_track::frees_of(block).unwrap_or(0);
    alloc_track::set_tracking(true);
    drop(first);
    alloc_track::set_tracking(false);
    let end = alloc_track::frees_of(block).unwrap_or(0);
    if bad.load(Ordering::SeqCst) != 0 {
        "stress badval".to_string()
    } else if mid != 0 {
        format!("stress early {mid}")
    } else if end != 1 {
        format!("stress freed {end}")
    } else {
        "stress ok".to_string()
    }
}

fn main() {
    let want_trace = std::env::args().any(|a| a == "--trace");
    install_hooks();
    let stdin = io::stdin();
    let out = io::stdout();
    let mut out = out.lock();
    for line in stdin.lock().lines() {
        let line = line.unwrap();
        let mut it = line.split_whitespace();
        let kind = match it.next() {
            Some(k) => k,
            None => continue,
        };
        let n: usize = it.next().unwrap().parse().unwrap();
        let src = match kind {
            "stress" => {
                let iters: usize = it.next().unwrap().parse().unwrap();
                writeln!(out, "{}", stress(n, iters)).unwrap();
                continue;
            }
            "ex" => Source::Explicit(
                it.filter_map(|tok| {
                    let (a, b) = tok.split_at(tok.len() - 1);
                    Some((a.parse().ok()?, Op::parse(b.chars().next()?)?))
                })
                .collect(),
            ),
            "rnd" => {
                let seed: u64 = it.next().unwrap().parse().unwrap();
                let len: usize = it.next().unwrap().parse().unwrap();
                Source::Rnd { rng: Rng(seed), len }
            }
            _ => panic!("bad case kind"),
        };
        let o = run_case(n, src, want_trace);
        let evs: Vec<String> = o.events.iter().map(|(t, op)| format!("{t}{}", op.letter())).collect();
        let st: Vec<String> = o.stats.iter().map(|x| x.to_string()).collect();
        writeln!(out, "{} {} {} {} {}", o.digest, o.final_obs, o.flags.join(","), st.join(":"), evs.join(" ")).unwrap();
        if want_trace {
            for d in &o.trace {
                let ds: Vec<String> = d.iter().map(|x| x.to_string()).collect();
                writeln!(out, "# {}", ds.join(" ")).unwrap();
            }
        }
        if o.flags.contains(&"hang") {
            out.flush().unwrap();
            std::process::exit(3);
        }
    }
}
