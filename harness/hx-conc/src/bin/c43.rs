//! C43 implementation-side runner: the real `Mutex` of aranya-fast-channels
//! (Linux futex path) driven step by step along a schedule.
//!
//! stdin, one case per line:
//!   `ex  <iters,iters,..> <maxsteps> <ev> <ev> ...`   explicit prefix, then round-robin completion
//!   `pct <iters,iters,..> <maxsteps> <seed> <depth> <spur_permille> <horizon>`   PCT-style random schedule
//!        (random thread priorities, `depth` priority-change points among the first `horizon` steps)
//!   `rnd <iters,iters,..> <maxsteps> <seed> <spur_permille> <len>`   uniformly random runnable thread for `len` events
//!   `stress <threads> <iters>`   real OS threads, real futex system calls, no scheduling control
//!        (prints `stress <ok|excl|baddata|timeout> <count>`)
//!   `twomap <rounds>`   one shared-memory region mapped twice; a thread holds the lock through one
//!        mapping, another really sleeps in futex_wait through the other mapping (real system calls,
//!        no shim), the holder unlocks, the sleeper must acquire within 5 s; roles alternate
//!        (prints `twomap <ok|timeout|setup-failed> ...`)
//! events: `r<t>.<c>` run thread t (c = which sleeper a futex_wake picks), `s<t>` spurious wake-up of t.
//!
//! stdout per case:
//!   `<digest> <final obs> <flags> <stats> <executed events>`
//! flags = comma list of: ok | excl(two holders) | stuck | panic | incomplete | baddata | badkey | hang
//! stats = steps:sleeps:wakes:spurious:casfail:maxholders
//! With `--trace` the per-step observation digits are printed on extra lines starting with `#`.
use std::{
    io::{self, BufRead, Write},
    sync::Arc,
};

use aranya_fast_channels::verif_hook::VerifMutex;
use hx_conc::{Ev, Rng, Sched, Status, hash_step, install_hooks, pack, yield_point};

const SITE_CRIT_READ: u32 = 13;
const SITE_CRIT_WRITE: u32 = 14;
const SITE_UNLOCK_SWAP: u32 = 8;
const SITE_CASLOCK_UNLOCK: u32 = 11;

struct Outcome {
    digest: u128,
    final_obs: u128,
    flags: Vec<&'static str>,
    stats: String,
    events: Vec<Ev>,
    trace: Vec<Vec<u128>>,
}

fn observe(m: &VerifMutex<u64>, s: &Sched) -> (Vec<u128>, usize, Vec<Status>) {
    let st = s.statuses();
    let ws = s.waitset();
    // SAFETY: no logical thread is running while the controller observes.
    let data = unsafe { m.peek() };
    let mut d: Vec<u128> = vec![data as u128, m.key() as u128, ws.len() as u128];
    d.extend(ws.iter().map(|&w| w as u128));
    d.extend(st.iter().map(|x| x.code() as u128));
    let holders = st
        .iter()
        .filter(|x| matches!(x, Status::Parked(SITE_CRIT_READ) | Status::Parked(SITE_CRIT_WRITE) | Status::Parked(SITE_UNLOCK_SWAP) | Status::Parked(SITE_CASLOCK_UNLOCK)))
        .count();
    (d, holders, st)
}

enum Source {
    Explicit(Vec<Ev>),
    Pct { rng: Rng, prio: Vec<u64>, changes: Vec<usize>, spur: u64, horizon: usize },
    Rnd { rng: Rng, spur: u64, len: usize },
}

fn run_case(iters: &[usize], maxsteps: usize, mut src: Source, want_trace: bool) -> Outcome {
    let n = iters.len();
    let m = Arc::new(VerifMutex::new(0u64));
    let s = Sched::new(n);
    let mut handles = Vec::new();
    for (t, &k) in iters.iter().enumerate() {
        let m = m.clone();
        handles.push(s.spawn(t, move || {
            for _ in 0..k {
                let mut g = m.lock();
                yield_point(SITE_CRIT_READ);
                let v = *g;
                yield_point(SITE_CRIT_WRITE);
                *g = v + 1;
                drop(g);
            }
        }));
    }
    let mut flags: Vec<&'static str> = Vec::new();
    let mut hang = false;
    // bring every thread to its first yield point
    for t in 0..n {
        if !s.advance(t, 0) {
            hang = true;
        }
    }
    let mut h: u128 = 7;
    let mut events: Vec<Ev> = Vec::new();
    let mut trace = Vec::new();
    let (mut steps, mut sleeps, mut wakes, mut spurious, mut casfail, mut maxholders) = (0usize, 0usize, 0usize, 0usize, 0usize, 0usize);
    let mut explicit_pos = 0usize;
    let mut rr = 0usize;
    let mut final_obs = 0u128;
    let mut stuck = false;
    loop {
        if hang {
            break;
        }
        let (d0, _, st) = observe(&m, &s);
        if events.is_empty() {
            final_obs = pack(&d0);
        }
        if st.iter().all(|x| x.finished()) {
            break;
        }
        if !st.iter().any(|x| x.runnable()) {
            stuck = true;
            break;
        }
        if events.len() >= maxsteps {
            flags.push("incomplete");
            break;
        }
        // choose the next event
        let ev = match &mut src {
            Source::Explicit(evs) if explicit_pos < evs.len() => {
                explicit_pos += 1;
                evs[explicit_pos - 1]
            }
            Source::Rnd { rng, spur, len } if events.len() < *len => {
                let sleepers: Vec<usize> = (0..n).filter(|&t| st[t] == Status::Sleeping).collect();
                if !sleepers.is_empty() && rng.below(1000) < *spur {
                    Ev::Spur(sleepers[rng.below(sleepers.len() as u64) as usize])
                } else {
                    let run: Vec<usize> = (0..n).filter(|&t| st[t].runnable()).collect();
                    Ev::Run(run[rng.below(run.len() as u64) as usize], rng.below(4) as usize)
                }
            }
            Source::Pct { rng, prio, changes, spur, horizon } if events.len() < 4 * *horizon => {
                let sleepers: Vec<usize> = (0..n).filter(|&t| st[t] == Status::Sleeping).collect();
                if !sleepers.is_empty() && rng.below(1000) < *spur {
                    Ev::Spur(sleepers[rng.below(sleepers.len() as u64) as usize])
                } else {
                    let t = (0..n).filter(|&t| st[t].runnable()).max_by_key(|&t| prio[t]).unwrap();
                    if changes.contains(&events.len()) {
                        let low = prio.iter().copied().min().unwrap();
                        prio[t] = low.saturating_sub(1);
                    }
                    Ev::Run(t, rng.below(4) as usize)
                }
            }
            _ => {
                // round-robin completion over runnable threads
                let mut t = rr % n;
                while !st[t].runnable() {
                    t = (t + 1) % n;
                }
                rr = t + 1;
                Ev::Run(t, 0)
            }
        };
        // execute it (disabled events are skipped, exactly like the model's `exec`)
        match ev {
            Ev::Run(t, c) => {
                if t < n && st[t].runnable() {
                    let before = st[t];
                    if !s.advance(t, c) {
                        hang = true;
                    }
                    steps += 1;
                    let after = s.status(t);
                    if after == Status::Sleeping {
                        sleeps += 1;
                    }
                    if before == Status::Parked(9) {
                        wakes += 1;
                    }
                    if (before == Status::Parked(1) && after == Status::Parked(2)) || (before == Status::Parked(3) && after == Status::Parked(4)) {
                        casfail += 1;
                    }
                }
            }
            Ev::Spur(t) => {
                if s.spurious(t) {
                    spurious += 1;
                }
            }
        }
        events.push(ev);
        let (d, holders, _) = observe(&m, &s);
        maxholders = maxholders.max(holders);
        let o = pack(&d);
        h = hash_step(h, o);
        final_obs = o;
        if want_trace {
            trace.push(d);
        }
    }
    let st = s.statuses();
    if hang {
        flags.push("hang");
    }
    if stuck {
        flags.push("stuck");
    }
    if maxholders > 1 {
        flags.push("excl");
    }
    if st.iter().any(|x| *x == Status::Panicked) {
        flags.push("panic");
    }
    let all_done = st.iter().all(|x| *x == Status::Done);
    if all_done && !hang {
        // SAFETY: every logical thread has finished.
        let data = unsafe { m.peek() };
        if data != iters.iter().sum::<usize>() as u64 {
            flags.push("baddata");
        }
        if m.key() != 0 || !s.waitset().is_empty() {
            flags.push("badkey");
        }
    }
    // release whatever is still blocked
    s.kill();
    if !hang {
        for hd in handles {
            let _ = hd.join();
        }
    }
    if flags.is_empty() {
        flags.push("ok");
    }
    Outcome {
        digest: h,
        final_obs,
        flags,
        stats: format!("{steps}:{sleeps}:{wakes}:{spurious}:{casfail}:{maxholders}"),
        events,
        trace,
    }
}

/// The mutex lives in shared memory that every mapping places at a different
/// virtual address: a wake issued through one mapping must reach a waiter that
/// sleeps through another one (process-shared futex).  Real futex system calls.
fn twomap(rounds: usize) -> String {
    use std::sync::atomic::{AtomicBool, Ordering};
    use std::sync::mpsc;
    use std::time::{Duration, Instant};
    type M = VerifMutex<u64>;
    assert!(std::mem::size_of::<M>() == 16 && std::mem::align_of::<M>() == 8);
    // SAFETY: plain libc calls; the region is 4096 zero bytes = an unlocked Mutex<u64> holding 0.
    let (p1, p2) = unsafe {
        let fd = libc::memfd_create(c"hx-conc-twomap".as_ptr(), 0);
        if fd < 0 || libc::ftruncate(fd, 4096) != 0 {
            return "twomap setup-failed memfd".to_string();
        }
        let a = libc::mmap(std::ptr::null_mut(), 4096, libc::PROT_READ | libc::PROT_WRITE, libc::MAP_SHARED, fd, 0);
        let b = libc::mmap(std::ptr::null_mut(), 4096, libc::PROT_READ | libc::PROT_WRITE, libc::MAP_SHARED, fd, 0);
        if a == libc::MAP_FAILED || b == libc::MAP_FAILED || a == b {
            return "twomap setup-failed mmap".to_string();
        }
        (a as usize, b as usize)
    };
    // SAFETY: both pointers map the same zero-initialised, suitably aligned, never unmapped region.
    let maps: [&'static M; 2] = unsafe { [&*(p1 as *const M), &*(p2 as *const M)] };
    let mut really_slept = 0usize;
    for round in 0..rounds {
        let (holder, waiter) = (maps[round % 2], maps[(round + 1) % 2]);
        let g = holder.lock();
        let (tx_tid, rx_tid) = mpsc::channel();
        let (tx_done, rx_done) = mpsc::channel();
        let acquired = Arc::new(AtomicBool::new(false));
        let acq2 = acquired.clone();
        std::thread::spawn(move || {
            // SAFETY: gettid has no preconditions.
            let _ = tx_tid.send(unsafe { libc::syscall(libc::SYS_gettid) });
            let mut w = waiter.lock();
            acq2.store(true, Ordering::SeqCst);
            *w += 1;
            drop(w);
            let _ = tx_done.send(());
        });
        let tid = rx_tid.recv().unwrap_or(0);
        // wait until the waiter is really asleep in the kernel (futex_wait), at most 2 s
        let t0 = Instant::now();
        let mut asleep = false;
        while t0.elapsed() < Duration::from_secs(2) {
            std::thread::sleep(Duration::from_millis(5));
            let wchan = std::fs::read_to_string(format!("/proc/self/task/{tid}/wchan")).unwrap_or_default();
            let stat = std::fs::read_to_string(format!("/proc/self/task/{tid}/stat")).unwrap_or_default();
            let state = stat.rsplit(')').next().and_then(|r| r.split_whitespace().next()).unwrap_or("?").to_string();
            if wchan.contains("futex") || (state == "S" && holder.key() == 2 && t0.elapsed() > Duration::from_millis(50)) {
                asleep = true;
                break;
            }
        }
        if acquired.load(Ordering::SeqCst) {
            return format!("twomap excl round={round} (the waiter acquired while the lock was held through the other mapping)");
        }
        if asleep {
            really_slept += 1;
        }
        drop(g); // unlock through the holder's mapping: swap + futex_wake on *its* address
        if rx_done.recv_timeout(Duration::from_secs(5)).is_err() {
            return format!(
                "twomap timeout round={round} holder_mapping={} waiter_mapping={} waiter_asleep={asleep} key={} (waiter never woken after unlock)",
                round % 2, (round + 1) % 2, holder.key()
            );
        }
    }
    let total = *maps[0].lock();
    if total != rounds as u64 {
        return format!("twomap baddata {total}");
    }
    format!("twomap ok rounds={rounds} really_asleep={really_slept}")
}

/// Free-running threads on the real futex: what the interleaving model cannot exhibit.
fn stress(threads: usize, iters: usize) -> String {
    use std::sync::atomic::{AtomicBool, AtomicU32, Ordering};
    use std::sync::mpsc;
    let m = Arc::new(VerifMutex::new(0u64));
    let occ = Arc::new(AtomicU32::new(0));
    let bad = Arc::new(AtomicBool::new(false));
    let (tx, rx) = mpsc::channel();
    for _ in 0..threads {
        let (m, occ, bad, tx) = (m.clone(), occ.clone(), bad.clone(), tx.clone());
        std::thread::spawn(move || {
            for i in 0..iters {
                let mut g = m.lock();
                if occ.fetch_add(1, Ordering::SeqCst) != 0 {
                    bad.store(true, Ordering::SeqCst);
                }
                let v = *g;
                if i % 64 == 0 {
                    std::thread::yield_now();
                }
                *g = std::hint::black_box(v) + 1;
                occ.fetch_sub(1, Ordering::SeqCst);
                drop(g);
            }
            let _ = tx.send(());
        });
    }
    let mut done = 0;
    while done < threads {
        match rx.recv_timeout(std::time::Duration::from_secs(20)) {
            Ok(()) => done += 1,
            Err(_) => return format!("stress timeout {done}"),
        }
    }
    let total = *m.lock();
    if bad.load(Ordering::SeqCst) {
        format!("stress excl {total}")
    } else if total != (threads * iters) as u64 {
        format!("stress baddata {total}")
    } else {
        format!("stress ok {total}")
    }
}

fn main() {
    let want_trace = std::env::args().any(|a| a == "--trace");
    install_hooks();
    let stdin = io::stdin();
    let out = io::stdout();
    let mut out = out.lock();
    for line in stdin.lock().lines() {
        let line = line.unwrap();
        let mut it = line.split_whitespace();
        let kind = match it.next() {
            Some(k) => k,
            None => continue,
        };
        if kind == "twomap" {
            let rounds: usize = it.next().unwrap().parse().unwrap();
            writeln!(out, "{}", twomap(rounds)).unwrap();
            out.flush().unwrap();
            continue;
        }
        if kind == "stress" {
            let th: usize = it.next().unwrap().parse().unwrap();
            let k: usize = it.next().unwrap().parse().unwrap();
            writeln!(out, "{}", stress(th, k)).unwrap();
            continue;
        }
        let iters: Vec<usize> = it.next().unwrap().split(',').map(|x| x.parse().unwrap()).collect();
        let maxsteps: usize = it.next().unwrap().parse().unwrap();
        let n = iters.len();
        let src = match kind {
            "ex" => Source::Explicit(it.filter_map(Ev::parse).collect()),
            "pct" => {
                let seed: u64 = it.next().unwrap().parse().unwrap();
                let depth: usize = it.next().unwrap().parse().unwrap();
                let spur: u64 = it.next().unwrap().parse().unwrap();
                let horizon: usize = it.next().unwrap().parse().unwrap();
                let mut rng = Rng(seed);
                let mut prio: Vec<u64> = (0..n as u64).map(|i| 1000 + i).collect();
                for i in (1..n).rev() {
                    let j = rng.below(i as u64 + 1) as usize;
                    prio.swap(i, j);
                }
                let changes: Vec<usize> = (0..depth).map(|_| rng.below(horizon.max(1) as u64) as usize).collect();
                Source::Pct { rng, prio, changes, spur, horizon }
            }
            "rnd" => {
                let seed: u64 = it.next().unwrap().parse().unwrap();
                let spur: u64 = it.next().unwrap().parse().unwrap();
                let len: usize = it.next().unwrap().parse().unwrap();
                Source::Rnd { rng: Rng(seed), spur, len }
            }
            _ => panic!("bad case kind"),
        };
        let o = run_case(&iters, maxsteps, src, want_trace);
        let evs: Vec<String> = o.events.iter().map(|e| e.show()).collect();
        writeln!(out, "{} {} {} {} {}", o.digest, o.final_obs, o.flags.join(","), o.stats, evs.join(" ")).unwrap();
        if want_trace {
            for d in &o.trace {
                let ds: Vec<String> = d.iter().map(|x| x.to_string()).collect();
                writeln!(out, "# {}", ds.join(" ")).unwrap();
            }
        }
        if o.flags.contains(&"hang") {
            // a logical thread no longer yields: the process state is unusable
            out.flush().unwrap();
            std::process::exit(3);
        }
    }
}
