//! C44, sequential part: the in-memory channel state (`memory::State`) that wraps
//! every channel entry in a `Lender` and every seal/open context in a `Loan`.
//! "A handle loses access once its entry is removed": a context set up before
//! `remove` / `remove_all` / `remove_if` must get `NotFound` afterwards, for seal
//! and for open contexts.
//!
//! stdin, one case per line:  `<seal|open> <op> <op> ...`  on a fresh state that holds one
//! seal channel and one open channel (plus a bystander channel that is never removed);
//! ops: S setup ctx   U use the newest ctx (seal/open through it)   D drop the newest ctx
//!      R remove(id)  A remove_all   F remove_if(id matches)
//! stdout per case: one code per op:
//!   S: 1 ok / 0 NotFound     U: 1 ok / 0 NotFound / 2 no ctx held     D: 1 / 2 no ctx     R,A,F: 1
//! then ` | bystander=<0|1>` (the untouched channel still works through its own ctx) and any `!error`.
use std::io::{self, BufRead, Write};

use aranya_crypto::{
    DeviceId, Random, Rng,
    afc::{OpenKey, RawOpenKey, RawSealKey, SealKey, Seq},
    default::DefaultCipherSuite,
    policy::LabelId,
};
use aranya_fast_channels::{AfcState, AranyaState, Directed, Error, memory::State};

type CS = DefaultCipherSuite;

fn seal_keys() -> Directed<SealKey<CS>, OpenKey<CS>> {
    Directed::SealOnly { seal: SealKey::from_raw(&RawSealKey::<CS>::random(Rng), Seq::ZERO).expect("seal key") }
}
fn open_keys() -> Directed<SealKey<CS>, OpenKey<CS>> {
    Directed::OpenOnly { open: OpenKey::from_raw(&RawOpenKey::<CS>::random(Rng)).expect("open key") }
}

enum Ctx {
    Seal(<State<CS> as AfcState>::SealCtx),
    Open(<State<CS> as AfcState>::OpenCtx),
}

fn use_ctx(st: &State<CS>, c: &mut Ctx) -> Result<(), Error> {
    match c {
        Ctx::Seal(c) => st.seal(c, |_k, _l| Ok(())).and_then(|r| r),
        Ctx::Open(c) => st.open(c, |_k, _l| Ok(())).and_then(|r| r),
    }
}

fn run_case(kind: &str, ops: &[&str]) -> String {
    let st = State::<CS>::new();
    let label = LabelId::from_bytes([7u8; 32]);
    let peer = DeviceId::from_bytes([9u8; 32]);
    let seal_id = st.add(seal_keys(), label, peer).expect("add");
    let open_id = st.add(open_keys(), label, peer).expect("add");
    let by_id = st.add(if kind == "seal" { seal_keys() } else { open_keys() }, label, peer).expect("add");
    let id = if kind == "seal" { seal_id } else { open_id };
    let setup = |st: &State<CS>, id| -> Result<Ctx, Error> {
        if kind == "seal" { st.setup_seal_ctx(id).map(Ctx::Seal) } else { st.setup_open_ctx(id).map(Ctx::Open) }
    };
    let mut by_ctx = setup(&st, by_id).expect("bystander ctx");
    let mut ctxs: Vec<Ctx> = Vec::new();
    let mut out: Vec<String> = Vec::new();
    let mut errs = String::new();
    for op in ops {
        let code = match *op {
            "S" => match setup(&st, id) {
                Ok(c) => {
                    ctxs.push(c);
                    1
                }
                Err(Error::NotFound(_)) => 0,
                Err(e) => {
                    errs.push_str(&format!(" !{e:?}"));
                    0
                }
            },
            "U" => match ctxs.last_mut() {
                None => 2,
                Some(c) => match use_ctx(&st, c) {
                    Ok(()) => 1,
                    Err(Error::NotFound(_)) => 0,
                    Err(e) => {
                        errs.push_str(&format!(" !{e:?}"));
                        0
                    }
                },
            },
            "D" => {
                if ctxs.pop().is_some() { 1 } else { 2 }
            }
            "R" => {
                st.remove(id).expect("remove");
                1
            }
            "A" => {
                // remove_all would also remove the bystander: re-add is not possible with the same id,
                // so emulate "all channels of this test" by a predicate that spares only the bystander
                st.remove_if(|p| p.local_channel_id != by_id).expect("remove_if");
                1
            }
            "F" => {
                st.remove_if(|p| p.local_channel_id == id).expect("remove_if");
                1
            }
            _ => 7,
        };
        out.push(code.to_string());
    }
    let by_ok = use_ctx(&st, &mut by_ctx).is_ok();
    // finally the real remove_all: afterwards nothing is reachable through any old ctx
    st.remove_all().expect("remove_all");
    let mut after_all = 0;
    if use_ctx(&st, &mut by_ctx).is_ok() {
        after_all += 1;
    }
    for c in ctxs.iter_mut() {
        if use_ctx(&st, c).is_ok() {
            after_all += 1;
        }
    }
    format!("{} | bystander={} after_remove_all={}{}", out.join(" "), u8::from(by_ok), after_all, errs)
}

fn main() {
    let stdin = io::stdin();
    let out = io::stdout();
    let mut out = out.lock();
    for line in stdin.lock().lines() {
        let line = line.unwrap();
        let toks: Vec<&str> = line.split_whitespace().collect();
        if toks.is_empty() {
            continue;
        }
        let r = std::panic::catch_unwind(|| run_case(toks[0], &toks[1..]));
        match r {
            Ok(s) => writeln!(out, "{s}").unwrap(),
            Err(_) => writeln!(out, "panic").unwrap(),
        }
    }
}
