//! C44 implementation-side runner: the real `Lender`/`Loan` (two-handle arc)
//! of aranya-fast-channels driven one atomic operation at a time.
//!
//! stdin, one case per line:
//!   `ex  <nthreads> <ev> <ev> ...`        explicit prefix, then a clean-up suffix until quiescence
//!   `rnd <nthreads> <seed> <len>`         random enabled operations for `len` events, then clean-up
//! events: `<t><op>` with op = l (lend) s (shared) g (get_mut) e (get_ref) d (drop loan) D (drop lender).
//! An event lets thread t take its next step; the op is only used when t is idle.
//!
//! stdout per case: `<digest> <final obs> <flags> <stats> <executed events>`
//! flags: ok | dfree | uaf | excl | twoloans | revoked | early | leak | badval | panic | hang
//! stats: events:lend_some:lend_none:get_some:get_none:drop_freed:drop_kept:shared
use std::{
    cell::UnsafeCell,
    io::{self, BufRead, Write},
    sync::{
        Arc,
        atomic::{AtomicU64, AtomicUsize, Ordering},
    },
};

use aranya_fast_channels::memory::verif_lender::{Lender, Loan};
use hx_conc::{Rng, Sched, Status, alloc_track, hash_step, install_hooks, pack, yield_point};

#[global_allocator]
static ALLOC: alloc_track::Tracking = alloc_track::Tracking;

const SITE_IDLE: u32 = 40;
const SITE_ACCESS: u32 = 41;
const SITE_ACCESS_REF: u32 = 43;
const SHARED_VAL: u64 = 0x5A5A_0001;
const EXCL_VAL: u64 = 0x1000;

#[derive(Clone, Copy, PartialEq, Eq, Debug)]
enum Op {
    Lend = 0,
    Shared = 1,
    Get = 2,
    DropLoan = 3,
    DropLender = 4,
    GetRef = 5,
    Exit = 6,
}
impl Op {
    fn letter(self) -> char {
        match self {
            Op::Lend => 'l',
            Op::Shared => 's',
            Op::Get => 'g',
            Op::DropLoan => 'd',
            Op::DropLender => 'D',
            Op::GetRef => 'e',
            Op::Exit => 'x',
        }
    }
    fn parse(c: char) -> Option<Op> {
        Some(match c {
            'l' => Op::Lend,
            's' => Op::Shared,
            'g' => Op::Get,
            'd' => Op::DropLoan,
            'D' => Op::DropLender,
            'e' => Op::GetRef,
            _ => return None,
        })
    }
    fn from(n: usize) -> Op {
        [Op::Lend, Op::Shared, Op::Get, Op::DropLoan, Op::DropLender, Op::GetRef, Op::Exit][n]
    }
}

struct World {
    lender: UnsafeCell<Option<Lender<u64, u64>>>,
    mailbox: Vec<AtomicUsize>,
    loans_pub: Vec<AtomicUsize>,
    res_pub: Vec<AtomicUsize>,
    bad: AtomicU64, // bit 0: bad value read, bit 1: access after free
    block: AtomicUsize,
}
// SAFETY: exactly one logical thread (or the controller) runs at a time.
unsafe impl Sync for World {}

fn freed_now(w: &World) -> usize {
    alloc_track::frees_of(w.block.load(Ordering::SeqCst)).unwrap_or(0)
}

fn thread_body(w: Arc<World>, me: usize) {
    alloc_track::set_tracking(true);
    let mut loans: Vec<Loan<u64, u64>> = Vec::new();
    loop {
        yield_point(SITE_IDLE);
        let op = Op::from(w.mailbox[me].load(Ordering::SeqCst));
        let res = match op {
            Op::Exit => break,
            Op::Lend => {
                // SAFETY: the controller never drops the Lender while a borrow is in progress.
                let l = unsafe { (*w.lender.get()).as_ref().expect("lender owned") };
                match l.lend() {
                    Some(x) => {
                        loans.push(x);
                        1
                    }
                    None => 2,
                }
            }
            Op::Shared => {
                // SAFETY: as above.
                let l = unsafe { (*w.lender.get()).as_ref().expect("lender owned") };
                let v = *l.shared();
                if freed_now(&w) > 0 {
                    w.bad.fetch_or(2, Ordering::SeqCst);
                }
                if v != SHARED_VAL {
                    w.bad.fetch_or(1, Ordering::SeqCst);
                }
                7
            }
            Op::Get => {
                let loan = loans.last_mut().expect("owns a loan");
                match loan.get_mut() {
                    Some((s, x)) => {
                        yield_point(SITE_ACCESS);
                        if freed_now(&w) > 0 {
                            w.bad.fetch_or(2, Ordering::SeqCst);
                        }
                        if *s != SHARED_VAL || *x < EXCL_VAL || *x > EXCL_VAL + 1_000_000 {
                            w.bad.fetch_or(1, Ordering::SeqCst);
                        }
                        *x += 1;
                        3
                    }
                    None => 4,
                }
            }
            Op::GetRef => {
                let loan = loans.last().expect("owns a loan");
                match loan.get_ref() {
                    Some((s, x)) => {
                        yield_point(SITE_ACCESS_REF);
                        if freed_now(&w) > 0 {
                            w.bad.fetch_or(2, Ordering::SeqCst);
                        }
                        if *s != SHARED_VAL || *x < EXCL_VAL || *x > EXCL_VAL + 1_000_000 {
                            w.bad.fetch_or(1, Ordering::SeqCst);
                        }
                        8
                    }
                    None => 9,
                }
            }
            Op::DropLoan => {
                let loan = loans.pop().expect("owns a loan");
                let before = freed_now(&w);
                drop(loan);
                if freed_now(&w) > before { 5 } else { 6 }
            }
            Op::DropLender => {
                // SAFETY: the controller only dispatches this once, with no borrow in progress.
                let l = unsafe { (*w.lender.get()).take().expect("lender owned") };
                let before = freed_now(&w);
                drop(l);
                if freed_now(&w) > before { 5 } else { 6 }
            }
        };
        w.loans_pub[me].store(loans.len(), Ordering::SeqCst);
        w.res_pub[me].store(res, Ordering::SeqCst);
    }
    // anything still owned here is a harness error (the clean-up drops everything first)
    std::mem::forget(loans);
    alloc_track::set_tracking(false);
}

struct Ghost {
    lown: bool,
    llive: bool,
    borrows: usize,
}

fn site_digit(s: Status) -> u128 {
    match s {
        Status::Parked(SITE_IDLE) => 8,
        Status::Parked(SITE_ACCESS) => 9,
        Status::Parked(SITE_ACCESS_REF) => 11,
        other => other.code() as u128,
    }
}

struct Outcome {
    digest: u128,
    final_obs: u128,
    flags: Vec<&'static str>,
    stats: [usize; 8],
    events: Vec<(usize, Op)>,
    trace: Vec<Vec<u128>>,
}

enum Source {
    Explicit(Vec<(usize, Op)>),
    Rnd { rng: Rng, len: usize },
}

fn run_case(n: usize, mut src: Source, want_trace: bool) -> Outcome {
    alloc_track::reset();
    let mark = alloc_track::mark();
    alloc_track::set_tracking(true);
    let lender = Lender::new(SHARED_VAL, EXCL_VAL);
    alloc_track::set_tracking(false);
    let ents = alloc_track::entries_since(mark);
    let block = ents.last().map(|e| e.0).unwrap_or(0);
    let w = Arc::new(World {
        lender: UnsafeCell::new(Some(lender)),
        mailbox: (0..n).map(|_| AtomicUsize::new(0)).collect(),
        loans_pub: (0..n).map(|_| AtomicUsize::new(0)).collect(),
        res_pub: (0..n).map(|_| AtomicUsize::new(0)).collect(),
        bad: AtomicU64::new(0),
        block: AtomicUsize::new(block),
    });
    let s = Sched::new(n);
    let mut handles = Vec::new();
    for t in 0..n {
        let w2 = w.clone();
        handles.push(s.spawn(t, move || thread_body(w2, t)));
    }
    let mut hang = false;
    for t in 0..n {
        if !s.advance(t, 0) {
            hang = true;
        }
    }
    let mut g = Ghost { lown: true, llive: true, borrows: 0 };
    let mut flags: Vec<&'static str> = Vec::new();
    let mut flag = |f: &'static str, flags: &mut Vec<&'static str>| {
        if !flags.contains(&f) {
            flags.push(f);
        }
    };
    let observe = |w: &World, s: &Sched| -> Vec<u128> {
        let st = s.statuses();
        let mut d: Vec<u128> = vec![freed_now(w) as u128];
        for (t, x) in st.iter().enumerate() {
            let idle = *x == Status::Parked(SITE_IDLE);
            d.push(site_digit(*x));
            d.push(if idle { w.loans_pub[t].load(Ordering::SeqCst) as u128 } else { 0 });
            d.push(if idle { w.res_pub[t].load(Ordering::SeqCst) as u128 } else { 0 });
        }
        d
    };
    let mut h: u128 = 7;
    let mut events: Vec<(usize, Op)> = Vec::new();
    let mut trace = Vec::new();
    let mut stats = [0usize; 8];
    let mut pos = 0usize;
    let mut final_obs = pack(&observe(&w, &s));
    // loans each thread holds (handles that have not executed their drop swap)
    let mut loans_live: Vec<usize> = vec![0; n];
    let mut cleanup_rounds = 0usize;
    loop {
        if hang {
            break;
        }
        let st = s.statuses();
        if st.iter().any(|x| x.finished()) {
            break; // a logical thread panicked
        }
        let idle = |t: usize| st[t] == Status::Parked(SITE_IDLE);
        let enabled = |t: usize, op: Op, g: &Ghost, ll: &Vec<usize>| -> bool {
            if !idle(t) {
                return true;
            }
            match op {
                Op::Lend | Op::Shared => g.lown,
                Op::Get | Op::GetRef | Op::DropLoan => ll[t] >= 1,
                Op::DropLender => g.lown && g.borrows == 0,
                Op::Exit => false,
            }
        };
        // ---- choose the next event
        let ev: Option<(usize, Op)> = match &mut src {
            Source::Explicit(evs) if pos < evs.len() => {
                pos += 1;
                Some(evs[pos - 1])
            }
            Source::Rnd { rng, len } if events.len() < *len => {
                let mut cands: Vec<(usize, Op)> = Vec::new();
                for t in 0..n {
                    if !idle(t) {
                        // continuing an operation in progress is always possible; weight it
                        cands.push((t, Op::Get));
                        cands.push((t, Op::Get));
                        continue;
                    }
                    for op in [Op::Lend, Op::Shared, Op::Get, Op::GetRef, Op::DropLoan, Op::DropLender] {
                        if enabled(t, op, &g, &loans_live) || rng.below(10) == 0 {
                            // lender drop is rare so that runs stay interesting for a while
                            if op == Op::DropLender && rng.below(4) != 0 {
                                continue;
                            }
                            cands.push((t, op));
                        }
                    }
                }
                if cands.is_empty() { None } else { Some(cands[rng.below(cands.len() as u64) as usize]) }
            }
            _ => None,
        };
        let ev = match ev {
            Some(e) => e,
            None => {
                // ---- clean-up until quiescent
                cleanup_rounds += 1;
                if cleanup_rounds > 200 {
                    flag("hang", &mut flags);
                    break;
                }
                if let Some(t) = (0..n).find(|&t| !idle(t)) {
                    (t, Op::Get)
                } else if let Some(t) = (0..n).find(|&t| loans_live[t] >= 1) {
                    (t, Op::DropLoan)
                } else if g.lown {
                    (0, Op::DropLender)
                } else {
                    break;
                }
            }
        };
        // ---- execute it (disabled events are skipped like the model's `exec`)
        let (t, op) = ev;
        if t < n && enabled(t, op, &g, &loans_live) {
            let before = st[t];
            if before == Status::Parked(SITE_IDLE) {
                w.mailbox[t].store(op as usize, Ordering::SeqCst);
                match op {
                    Op::Lend | Op::Shared => g.borrows += 1,
                    Op::DropLender => g.lown = false,
                    _ => {}
                }
            }
            if !s.advance(t, 0) {
                hang = true;
            }
            let after = s.status(t);
            // ghost bookkeeping from what the thread just did (the operation in progress is
            // the one in the thread's mailbox; the site tells which step of it was executed)
            let cur = Op::from(w.mailbox[t].load(Ordering::SeqCst));
            match (cur, before) {
                (Op::Lend, Status::Parked(20)) => {
                    g.borrows -= 1;
                    let r = w.res_pub[t].load(Ordering::SeqCst);
                    if r == 1 {
                        loans_live[t] += 1;
                        stats[1] += 1;
                    } else {
                        stats[2] += 1;
                    }
                }
                (Op::Shared, Status::Parked(24)) => {
                    g.borrows -= 1;
                    stats[7] += 1;
                }
                // the load of an accessor of the Loan (whatever internal getter it uses)
                (Op::Get | Op::GetRef, Status::Parked(21) | Status::Parked(24)) => {
                    if after == Status::Parked(SITE_ACCESS) || after == Status::Parked(SITE_ACCESS_REF) {
                        stats[3] += 1;
                        if !g.llive {
                            flag("revoked", &mut flags);
                        }
                    } else {
                        stats[4] += 1;
                    }
                }
                (Op::DropLender, Status::Parked(22)) => {
                    g.llive = false;
                    if after == Status::Parked(23) {
                        stats[5] += 1;
                    } else {
                        stats[6] += 1;
                    }
                }
                (Op::DropLoan, Status::Parked(22)) => {
                    loans_live[t] -= 1;
                    if after == Status::Parked(23) {
                        stats[5] += 1;
                    } else {
                        stats[6] += 1;
                    }
                }
                _ => {}
            }
        }
        events.push(ev);
        stats[0] += 1;
        // ---- oracle on the state after the event
        let st2 = s.statuses();
        let fr = freed_now(&w);
        let nh = loans_live.iter().sum::<usize>() + usize::from(g.llive);
        if fr > 1 {
            flag("dfree", &mut flags);
        }
        if fr >= 1 && nh >= 1 {
            flag("early", &mut flags);
        }
        if st2.iter().filter(|x| **x == Status::Parked(SITE_ACCESS)).count() > 1 {
            flag("excl", &mut flags);
        }
        if loans_live.iter().sum::<usize>() > 1 {
            flag("twoloans", &mut flags);
        }
        let d = observe(&w, &s);
        let o = pack(&d);
        h = hash_step(h, o);
        final_obs = o;
        if want_trace {
            trace.push(d);
        }
    }
    let st = s.statuses();
    if hang {
        flag("hang", &mut flags);
    }
    if st.iter().any(|x| *x == Status::Panicked) {
        flag("panic", &mut flags);
    }
    let bad = w.bad.load(Ordering::SeqCst);
    if bad & 1 != 0 {
        flag("badval", &mut flags);
    }
    if bad & 2 != 0 {
        flag("uaf", &mut flags);
    }
    let quiescent = !hang && st.iter().all(|x| *x == Status::Parked(SITE_IDLE)) && !g.llive && loans_live.iter().all(|&x| x == 0);
    if quiescent && freed_now(&w) == 0 {
        flag("leak", &mut flags);
    }
    // let the threads exit
    if !hang {
        for t in 0..n {
            if s.status(t) == Status::Parked(SITE_IDLE) {
                w.mailbox[t].store(Op::Exit as usize, Ordering::SeqCst);
                s.advance(t, 0);
            }
        }
    }
    s.kill();
    if !hang {
        for hd in handles {
            let _ = hd.join();
        }
    }
    if flags.is_empty() {
        flags.push("ok");
    }
    Outcome { digest: h, final_obs, flags, stats, events, trace }
}

fn main() {
    let want_trace = std::env::args().any(|a| a == "--trace");
    install_hooks();
    let stdin = io::stdin();
    let out = io::stdout();
    let mut out = out.lock();
    for line in stdin.lock().lines() {
        let line = line.unwrap();
        let mut it = line.split_whitespace();
        let kind = match it.next() {
            Some(k) => k,
            None => continue,
        };
        let n: usize = it.next().unwrap().parse().unwrap();
        let src = match kind {
            "ex" => Source::Explicit(
                it.filter_map(|tok| {
                    let (a, b) = tok.split_at(tok.len() - 1);
                    Some((a.parse().ok()?, Op::parse(b.chars().next()?)?))
                })
                .collect(),
            ),
            "rnd" => {
                let seed: u64 = it.next().unwrap().parse().unwrap();
                let len: usize = it.next().unwrap().parse().unwrap();
                Source::Rnd { rng: Rng(seed), len }
            }
            _ => panic!("bad case kind"),
        };
        let o = run_case(n, src, want_trace);
        let evs: Vec<String> = o.events.iter().map(|(t, op)| format!("{t}{}", op.letter())).collect();
        let st: Vec<String> = o.stats.iter().map(|x| x.to_string()).collect();
        writeln!(out, "{} {} {} {} {}", o.digest, o.final_obs, o.flags.join(","), st.join(":"), evs.join(" ")).unwrap();
        if want_trace {
            for d in &o.trace {
                let ds: Vec<String> = d.iter().map(|x| x.to_string()).collect();
                writeln!(out, "# {}", ds.join(" ")).unwrap();
            }
        }
        if o.flags.contains(&"hang") {
            out.flush().unwrap();
            std::process::exit(3);
        }
    }
}
