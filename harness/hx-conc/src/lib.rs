//! Baton scheduler for schedule replay (DESIGN.md §2.3).
//!
//! Every logical thread runs on its own OS thread, but exactly one of them (or
//! the controller) runs at any time: a thread stops at every yield point (the
//! cfg-guarded hooks in /repo call [`yield_point`] before each atomic
//! operation) and continues only when the controller hands it the baton with
//! [`Sched::advance`].  `futex_wait` / `futex_wake` are replaced by a wait
//! queue inside the scheduler, so a sleeping thread is not schedulable until
//! it is woken (by a wake or by a spurious wake-up event of the schedule).
use std::{
    any::Any,
    cell::RefCell,
    panic::{self, AssertUnwindSafe},
    sync::{
        Arc, Condvar, Mutex,
        atomic::{AtomicU32, Ordering},
    },
    thread::{self, JoinHandle},
    time::Duration,
};

pub mod alloc_track;

pub const SITE_FUTEX_WAIT: u32 = 6;
pub const SITE_FUTEX_RET: u32 = 7;
pub const SITE_FUTEX_WAKE: u32 = 9;
pub const CODE_SLEEPING: u32 = 12;
pub const CODE_DONE: u32 = 15;
pub const CODE_PANICKED: u32 = 16;

#[derive(Clone, Copy, PartialEq, Eq, Debug)]
pub enum Status {
    Fresh,
    Parked(u32),
    Sleeping,
    Done,
    Panicked,
}

impl Status {
    pub fn code(self) -> u32 {
        match self {
            Status::Fresh => 0,
            Status::Parked(s) => s,
            Status::Sleeping => CODE_SLEEPING,
            Status::Done => CODE_DONE,
            Status::Panicked => CODE_PANICKED,
        }
    }
    pub fn runnable(self) -> bool {
        matches!(self, Status::Parked(_) | Status::Fresh)
    }
    pub fn finished(self) -> bool {
        matches!(self, Status::Done | Status::Panicked)
    }
}

struct Inner {
    turn: Option<usize>,
    status: Vec<Status>,
    waitset: Vec<usize>,
    choice: usize,
    killed: bool,
    panic_msg: Vec<Option<String>>,
}

pub struct Sched {
    m: Mutex<Inner>,
    cv: Condvar,
}

struct Killed;

thread_local! {
    static CTX: RefCell<Option<(usize, Arc<Sched>)>> = const { RefCell::new(None) };
}

fn ctx() -> Option<(usize, Arc<Sched>)> {
    CTX.with(|c| c.borrow().clone())
}

/// Called by the hooks (and by harness thread bodies) before each step.
pub fn yield_point(site: u32) {
    if let Some((me, s)) = ctx() {
        s.park(me, Status::Parked(site));
    }
}

fn hook_futex_wait(uaddr: &AtomicU32, val: u32) -> bool {
    match ctx() {
        None => false,
        Some((me, s)) => {
            s.futex_wait(me, uaddr, val);
            true
        }
    }
}

fn hook_futex_wake(_uaddr: &AtomicU32, _cnt: u32) -> bool {
    match ctx() {
        None => false,
        Some((me, s)) => {
            s.futex_wake(me);
            true
        }
    }
}

static AFC_HOOKS: aranya_fast_channels::verif_hook::Hooks = aranya_fast_channels::verif_hook::Hooks {
    yield_point,
    futex_wait: hook_futex_wait,
    futex_wake: hook_futex_wake,
};

/// Installs the hooks of both crates and silences panic messages.
pub fn install_hooks() {
    aranya_fast_channels::verif_hook::install(Some(&AFC_HOOKS));
    aranya_policy_text::verif_hook::install(Some(yield_point));
    panic::set_hook(Box::new(|_| {}));
}

impl Sched {
    pub fn new(n: usize) -> Arc<Self> {
        Arc::new(Sched {
            m: Mutex::new(Inner {
                turn: None,
                status: vec![Status::Fresh; n],
                waitset: Vec::new(),
                choice: 0,
                killed: false,
                panic_msg: vec![None; n],
            }),
            cv: Condvar::new(),
        })
    }

    /// Thread side: publish `st`, give the baton back, wait for the next turn.
    fn park(&self, me: usize, st: Status) {
        let mut g = self.m.lock().unwrap();
        if g.killed {
            drop(g);
            if thread::panicking() {
                return;
            }
            panic::resume_unwind(Box::new(Killed));
        }
        g.status[me] = st;
        g.turn = None;
        self.cv.notify_all();
        loop {
            if g.killed {
                drop(g);
                if thread::panicking() {
                    return;
                }
                panic::resume_unwind(Box::new(Killed));
            }
            if g.turn == Some(me) {
                return;
            }
            g = self.cv.wait(g).unwrap();
        }
    }

    fn wait_first_turn(&self, me: usize) {
        let mut g = self.m.lock().unwrap();
        loop {
            if g.killed {
                drop(g);
                panic::resume_unwind(Box::new(Killed));
            }
            if g.turn == Some(me) {
                return;
            }
            g = self.cv.wait(g).unwrap();
        }
    }

    fn finish(&self, me: usize, st: Status, msg: Option<String>) {
        let mut g = self.m.lock().unwrap();
        g.status[me] = st;
        g.panic_msg[me] = msg;
        if g.turn == Some(me) {
            g.turn = None;
        }
        self.cv.notify_all();
    }

    fn futex_wait(&self, me: usize, uaddr: &AtomicU32, val: u32) {
        self.park(me, Status::Parked(SITE_FUTEX_WAIT));
        if self.m.lock().unwrap().killed {
            return;
        }
        // our turn: the kernel's atomic compare-and-enqueue
        if uaddr.load(Ordering::SeqCst) != val {
            return;
        }
        self.m.lock().unwrap().waitset.push(me);
        // unschedulable until a wake (or a spurious wake-up) turns the status into Parked(FUTEX_RET)
        self.park(me, Status::Sleeping);
    }

    fn futex_wake(&self, me: usize) {
        self.park(me, Status::Parked(SITE_FUTEX_WAKE));
        let mut g = self.m.lock().unwrap();
        if g.killed || g.waitset.is_empty() {
            return;
        }
        let idx = g.choice % g.waitset.len();
        let w = g.waitset.remove(idx);
        g.status[w] = Status::Parked(SITE_FUTEX_RET);
    }

    /// Starts a logical thread; it does not run until first advanced.
    pub fn spawn<F: FnOnce() + Send + 'static>(self: &Arc<Self>, me: usize, f: F) -> JoinHandle<()> {
        let s = self.clone();
        thread::spawn(move || {
            CTX.with(|c| *c.borrow_mut() = Some((me, s.clone())));
            let r = panic::catch_unwind(AssertUnwindSafe(|| {
                s.wait_first_turn(me);
                f()
            }));
            CTX.with(|c| *c.borrow_mut() = None);
            let (st, msg) = match r {
                Ok(()) => (Status::Done, None),
                Err(e) => {
                    if e.is::<Killed>() {
                        (Status::Done, Some("killed".to_string()))
                    } else {
                        (Status::Panicked, Some(panic_text(&e)))
                    }
                }
            };
            s.finish(me, st, msg);
        })
    }

    /// Controller side: let thread `t` run up to its next yield point.
    /// Returns false if the thread did not come back within the timeout.
    pub fn advance(&self, t: usize, choice: usize) -> bool {
        let mut g = self.m.lock().unwrap();
        g.choice = choice;
        g.turn = Some(t);
        self.cv.notify_all();
        let mut waited = 0u32;
        while g.turn.is_some() {
            let (g2, to) = self.cv.wait_timeout(g, Duration::from_millis(500)).unwrap();
            g = g2;
            if to.timed_out() {
                waited += 1;
                if waited > 40 {
                    return false;
                }
            }
        }
        true
    }

    pub fn status(&self, t: usize) -> Status {
        self.m.lock().unwrap().status[t]
    }
    pub fn statuses(&self) -> Vec<Status> {
        self.m.lock().unwrap().status.clone()
    }
    pub fn waitset(&self) -> Vec<usize> {
        self.m.lock().unwrap().waitset.clone()
    }
    pub fn panic_msgs(&self) -> Vec<Option<String>> {
        self.m.lock().unwrap().panic_msg.clone()
    }

    /// A spurious wake-up of `t`; false if `t` is not asleep.
    pub fn spurious(&self, t: usize) -> bool {
        let mut g = self.m.lock().unwrap();
        if t < g.status.len() && g.status[t] == Status::Sleeping {
            g.waitset.retain(|&x| x != t);
            g.status[t] = Status::Parked(SITE_FUTEX_RET);
            true
        } else {
            false
        }
    }

    /// Unblocks every logical thread (they unwind) — used when a case is abandoned.
    pub fn kill(&self) {
        let mut g = self.m.lock().unwrap();
        g.killed = true;
        self.cv.notify_all();
    }
}

fn panic_text(e: &Box<dyn Any + Send>) -> String {
    if let Some(s) = e.downcast_ref::<&str>() {
        s.to_string()
    } else if let Some(s) = e.downcast_ref::<String>() {
        s.clone()
    } else {
        "panic".to_string()
    }
}

/// SplitMix64 (same generator as lib/vlib.py).
pub struct Rng(pub u64);
impl Rng {
    pub fn next(&mut self) -> u64 {
        self.0 = self.0.wrapping_add(0x9E3779B97F4A7C15);
        let mut z = self.0;
        z = (z ^ (z >> 30)).wrapping_mul(0xBF58476D1CE4E5B9);
        z = (z ^ (z >> 27)).wrapping_mul(0x94D049BB133111EB);
        z ^ (z >> 31)
    }
    pub fn below(&mut self, n: u64) -> u64 {
        if n == 0 { 0 } else { self.next() % n }
    }
}

pub const HASH_MOD: u128 = (1u128 << 61) - 1;
pub fn hash_step(h: u128, o: u128) -> u128 {
    (h * 1_000_003 + o + 1) % HASH_MOD
}
pub fn pack(ds: &[u128]) -> u128 {
    assert!(ds.len() <= 22, "observation too wide");
    ds.iter().fold(0u128, |a, d| a * 32 + d)
}

/// One schedule event.
#[derive(Clone, Copy, Debug, PartialEq, Eq)]
pub enum Ev {
    Run(usize, usize),
    Spur(usize),
}
impl Ev {
    pub fn parse(s: &str) -> Option<Ev> {
        let (k, rest) = s.split_at(1);
        match k {
            "r" => {
                let mut it = rest.split('.');
                let t = it.next()?.parse().ok()?;
                let c = it.next().map_or(Some(0), |x| x.parse().ok())?;
                Some(Ev::Run(t, c))
            }
            "s" => Some(Ev::Spur(rest.parse().ok()?)),
            _ => None,
        }
    }
    pub fn show(&self) -> String {
        match self {
            Ev::Run(t, c) => format!("r{t}.{c}"),
            Ev::Spur(t) => format!("s{t}"),
        }
    }
}
