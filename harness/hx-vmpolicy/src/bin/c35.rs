//! C35 implementation-side runner: REAL crypto-ffi / envelope-ffi / device-ffi / idam-ffi /
//! perspective-ffi modules, default crypto engine (seeded CSPRNG) + in-memory key store, a signing
//! policy (src/c35_policy.md), `ClientState` on linear memory storage.
//!
//! Device A creates the graph (Init registers A's key), registers device C's key (AddDevice),
//! A and C author AddNote commands.  The honest chain H is then delivered to fresh replicas B:
//! for every mutation spec a fresh B receives H[..k] (own transaction, committed), then the mutated
//! H[k] (own transaction), and finally the honest H[k..].
//!
//! stdin : `<seed> <spec>;<spec>;...`       spec = `<k>:<field>:<args..>` (see `mutate`)
//! stdout: `D ..|H ..|H ..|M <spec> ..|M ..` (one line per case)
use std::io::{self, BufRead, Write};
use std::panic;
use std::sync::atomic::{AtomicU64, Ordering};

use aranya_crypto::{
    Csprng, DeviceId, IdentityKey, KeyStoreExt as _, SigningKey, default::DefaultEngine, keystore::memstore::MemStore,
};
use aranya_policy_module::Module;
use aranya_policy_vm::{Machine, Value, ffi::FfiModule as _, ffi::ModuleSchema};
use aranya_runtime::{
    Address, ClientError, ClientState, CmdId, Command, CommandExt as _, FfiCallable, GraphId, MaxCut, MemSpill, Prior, Priority,
    RuntimeBuffers, VmAction, VmPolicy, VmProtocolData,
    storage::{Query as _, Segment as _, Storage as _, StorageProvider as _, linear::testing::MemStorageProvider},
};
use hx_vmpolicy::*;

const POLICY: &str = include_str!("../c35_policy.md");

/// SplitMix64 as the engine's CSPRNG: the whole run is a function of the seed.
struct SeedRng(AtomicU64);
impl Csprng for SeedRng {
    fn fill_bytes(&self, dst: &mut [u8]) {
        for chunk in dst.chunks_mut(8) {
            let s = self.0.fetch_add(0x9E3779B97F4A7C15, Ordering::Relaxed).wrapping_add(0x9E3779B97F4A7C15);
            let mut z = s;
            z = (z ^ (z >> 30)).wrapping_mul(0xBF58476D1CE4E5B9);
            z = (z ^ (z >> 27)).wrapping_mul(0x94D049BB133111EB);
            z ^= z >> 31;
            let b = z.to_le_bytes();
            chunk.copy_from_slice(&b[..chunk.len()]);
        }
    }
}
type Eng = DefaultEngine<SeedRng>;
type Cs = ClientState<OnePolicy<Eng>, MemStorageProvider>;

fn schemas() -> [ModuleSchema<'static>; 5] {
    [
        aranya_device_ffi::FfiDevice::SCHEMA,
        aranya_envelope_ffi::Ffi::SCHEMA,
        aranya_perspective_ffi::FfiPerspective::SCHEMA,
        aranya_crypto_ffi::Ffi::<MemStore>::SCHEMA,
        aranya_idam_ffi::Ffi::<MemStore>::SCHEMA,
    ]
}

struct Dev {
    cs: Cs,
    device_id: DeviceId,
    sign_pk: Vec<u8>,
    machine: Machine,
}

fn mk_device(module: &Module, seed: u64) -> Dev {
    let (eng, _) = Eng::from_entropy(SeedRng(AtomicU64::new(seed)));
    let mut store = MemStore::new();
    let device_id: DeviceId = store.insert_key(&eng, IdentityKey::<<Eng as aranya_crypto::Engine>::CS>::new(&eng)).expect("ident key");
    let sk = SigningKey::<<Eng as aranya_crypto::Engine>::CS>::new(&eng);
    let sign_pk = postcard::to_allocvec(&sk.public().expect("pk")).expect("encode pk");
    let _sign_id = store.insert_key(&eng, sk).expect("sign key");
    let machine = Machine::from_module(module.clone()).expect("module loads");
    let ffis: Vec<Box<dyn FfiCallable<Eng> + Send + 'static>> = vec![
        Box::from(aranya_device_ffi::FfiDevice::new(device_id)),
        Box::from(aranya_envelope_ffi::Ffi),
        Box::from(aranya_perspective_ffi::FfiPerspective),
        Box::from(aranya_crypto_ffi::Ffi::new(store.clone())),
        Box::from(aranya_idam_ffi::Ffi::new(store)),
    ];
    let policy = VmPolicy::new(machine.clone(), eng, ffis).expect("policy loads");
    Dev { cs: ClientState::new(OnePolicy(policy), MemStorageProvider::default()), device_id, sign_pk, machine }
}

#[derive(Clone, Debug)]
struct OwnedCmd {
    id: CmdId,
    priority: Priority,
    parent: Prior<Address>,
    policy: Option<Vec<u8>>,
    data: Vec<u8>,
}
impl Command for OwnedCmd {
    fn priority(&self) -> Priority {
        self.priority.clone()
    }
    fn id(&self) -> CmdId {
        self.id
    }
    fn parent(&self) -> Prior<Address> {
        self.parent
    }
    fn policy(&self) -> Option<&[u8]> {
        self.policy.as_deref()
    }
    fn bytes(&self) -> &[u8] {
        &self.data
    }
}

/// All commands of the (linear) graph, ancestor first.
fn extract(cs: &mut Cs, graph: GraphId, buffers: &mut RuntimeBuffers<<MemStorageProvider as aranya_runtime::StorageProvider>::Segment>) -> Vec<OwnedCmd> {
    let storage = cs.provider().get_storage(graph).expect("storage");
    let head = storage.get_head_address().expect("head");
    let mut loc = storage.get_location(head, &mut buffers.traversal.primary).expect("loc").expect("head located");
    let mut out: Vec<OwnedCmd> = Vec::new();
    loop {
        let seg = storage.get_segment(loc).expect("segment");
        let mut cmds: Vec<OwnedCmd> = seg
            .get_from(seg.first_location())
            .iter()
            .map(|c| OwnedCmd { id: c.id(), priority: c.priority(), parent: c.parent(), policy: c.policy().map(|p| p.to_vec()), data: c.bytes().to_vec() })
            .collect();
        cmds.reverse();
        out.extend(cmds);
        match seg.prior() {
            Prior::Single(p) => loc = p,
            Prior::None => break,
            Prior::Merge(..) => panic!("linear graph expected"),
        }
    }
    out.reverse();
    out
}

fn deliver(cs: &mut Cs, graph: GraphId, cmds: &[OwnedCmd], sink: &mut VecSink) -> (Result<usize, ClientError>, Result<bool, ClientError>) {
    let mut buffers = RuntimeBuffers::new();
    let mut trx = cs.transaction(graph);
    let r = cs.add_commands(&mut trx, sink, cmds, &mut buffers, MemSpill::new);
    let c = cs.commit(trx, sink, &mut buffers, MemSpill::new);
    (r, c)
}

fn snapshot(cs: &mut Cs, graph: GraphId) -> String {
    let Ok(storage) = cs.provider().get_storage(graph) else { return "nostorage".into() };
    let head = storage.get_head_address().map(|a| format!("{}@{}", hex(a.id.as_bytes()), a.max_cut)).unwrap_or_else(|e| format!("heads:{e:?}"));
    let idx = storage.fact_cache().expect("fact cache");
    let mut s = format!("head={head}");
    for name in ["DeviceSignKey", "Note"] {
        for f in idx.query_prefix(name, &[]).expect("query") {
            let f = f.expect("fact");
            let keys: Vec<String> = f.key.iter().map(|k| hex(k)).collect();
            s.push_str(&format!(",{name}[{}]={}", keys.join("."), hex(&f.value)));
        }
    }
    s
}

fn prio_str(p: &Priority) -> String {
    match p {
        Priority::Merge => "merge".into(),
        Priority::Basic(n) => format!("basic{n}"),
        Priority::Finalize => "finalize".into(),
        Priority::Init => "init".into(),
    }
}

/// The wire fields of a command, as the runtime will see them.
fn describe(c: &OwnedCmd, machine: &Machine) -> String {
    let parent = match c.parent {
        Prior::None => "none".to_string(),
        Prior::Single(a) => format!("{}@{}", hex(a.id.as_bytes()), a.max_cut),
        Prior::Merge(..) => "merge".into(),
    };
    let mut s = format!("id={} parent={} prio={} policy={}", hex(c.id.as_bytes()), parent, prio_str(&c.priority),
                        c.policy.as_ref().map(|p| hex(p)).unwrap_or_else(|| "-".into()));
    match postcard::from_bytes::<VmProtocolData<'_>>(&c.data) {
        Err(_) => s.push_str(" dec=0"),
        Ok(d) => {
            s.push_str(&format!(" dec=1 author={} kind={} payload={} sig={}", hex(d.author_id.as_bytes()), d.kind, hex(d.serialized_fields), hex(d.signature)));
            match machine.deserialize_struct(d.kind.clone(), d.serialized_fields) {
                Err(_) => s.push_str(" sdec=0"),
                Ok(st) => {
                    let fs: Vec<String> = st.fields.iter().map(|(k, v)| format!("{k}:{}", show_value(v))).collect();
                    s.push_str(&format!(" sdec=1 fields={}", if fs.is_empty() { "-".into() } else { fs.join(",") }));
                }
            }
        }
    }
    s
}

struct World {
    h: Vec<OwnedCmd>,
    graph: GraphId,
    dev_ids: [DeviceId; 3], // A, C, B
}

fn flip(v: &mut [u8], i: usize, x: u8) {
    if !v.is_empty() {
        let n = v.len();
        v[i % n] ^= if x == 0 { 1 } else { x };
    }
}

fn reencode(author: DeviceId, kind: &str, payload: &[u8], sig: &[u8]) -> Option<Vec<u8>> {
    let kind = kind.parse().ok()?;
    postcard::to_allocvec(&VmProtocolData { author_id: author, kind, serialized_fields: payload, signature: sig }).ok()
}

fn mutate(w: &World, spec: &str) -> Option<(usize, OwnedCmd)> {
    let p: Vec<&str> = spec.split(':').collect();
    let k: usize = p.first()?.parse().ok()?;
    let mut c = w.h.get(k)?.clone();
    let num = |i: usize| -> Option<usize> { p.get(i)?.parse().ok() };
    let field = *p.get(1)?;
    if field == "none" {
        return Some((k, c));
    }
    if field == "byte" {
        let (i, x) = (num(2)?, num(3)? as u8);
        flip(&mut c.data, i, x);
        return Some((k, c));
    }
    let d: VmProtocolData<'_> = postcard::from_bytes(&w.h[k].data).ok()?;
    let (mut author, mut kind, mut payload, mut sig) = (d.author_id, d.kind.to_string(), d.serialized_fields.to_vec(), d.signature.to_vec());
    let other = |j: usize| -> Option<VmProtocolData<'_>> { postcard::from_bytes(&w.h.get(j)?.data).ok() };
    match (field, *p.get(2)?) {
        ("author", "flip") => {
            let mut b = *author.as_array();
            flip(&mut b, num(3)?, num(4)? as u8);
            author = DeviceId::from_bytes(b);
        }
        ("author", "dev") => {
            author = match *p.get(3)? {
                "A" => w.dev_ids[0],
                "C" => w.dev_ids[1],
                "B" => w.dev_ids[2],
                _ => DeviceId::from_bytes([0u8; 32]),
            }
        }
        ("kind", name) => kind = name.to_string(),
        ("payload", "flip") => flip(&mut payload, num(3)?, num(4)? as u8),
        ("payload", "trunc") => {
            payload.pop();
        }
        ("payload", "append") => payload.push(num(3)? as u8),
        ("payload", "of") => payload = other(num(3)?)?.serialized_fields.to_vec(),
        ("sig", "flip") => flip(&mut sig, num(3)?, num(4)? as u8),
        ("sig", "trunc") => {
            sig.pop();
        }
        ("sig", "of") => sig = other(num(3)?)?.signature.to_vec(),
        ("id", "flip") => {
            let mut b = *c.id.as_array();
            flip(&mut b, num(3)?, num(4)? as u8);
            c.id = CmdId::from_bytes(b);
        }
        ("id", "of") => c.id = w.h.get(num(3)?)?.id,
        ("parent", "flip") => {
            if let Prior::Single(a) = c.parent {
                let mut b = *a.id.as_array();
                flip(&mut b, num(3)?, num(4)? as u8);
                c.parent = Prior::Single(Address { id: CmdId::from_bytes(b), max_cut: a.max_cut });
            } else {
                return None;
            }
        }
        ("parent", "of") => {
            let j = num(3)?;
            let t = w.h.get(j)?;
            c.parent = Prior::Single(Address { id: t.id, max_cut: MaxCut::new(j as u64) });
        }
        ("parent", "mc") => {
            if let Prior::Single(a) = c.parent {
                let delta: i64 = p.get(3)?.parse().ok()?;
                c.parent = Prior::Single(Address { id: a.id, max_cut: MaxCut::new((a.max_cut.get() as i64 + delta).max(0) as u64) });
            } else {
                return None;
            }
        }
        ("parent", "none") => c.parent = Prior::None,
        ("prio", "init") => c.priority = Priority::Init,
        ("prio", "finalize") => c.priority = Priority::Finalize,
        ("prio", "basic") => c.priority = Priority::Basic(num(3)? as u32),
        ("policy", "none") => c.policy = None,
        ("policy", "some") => c.policy = Some(unhex(p.get(3)?)?),
        _ => return None,
    }
    if matches!(field, "author" | "kind" | "payload" | "sig") {
        c.data = reencode(author, &kind, &payload, &sig)?;
    }
    Some((k, c))
}

fn result_class(r: &Result<usize, ClientError>) -> String {
    match r {
        Ok(n) => format!("ok{n}"),
        Err(ClientError::NoSuchParent(_)) => "err:noparent".into(),
        Err(ClientError::InitError) => "err:init".into(),
        Err(e) => format!("err:{}", client_err_class(e)),
    }
}

fn run_case(line: &str) -> String {
    let (seed, specs) = line.split_once(' ').unwrap_or((line, ""));
    let Ok(seed) = seed.parse::<u64>() else { return "bad-seed".into() };
    let module = match compile(POLICY, &schemas()) {
        Ok(m) => m,
        Err(e) => return format!("compile-error:{}", e.replace([' ', '\n', '|'], "_")),
    };
    let mut a = mk_device(&module, seed.wrapping_mul(3).wrapping_add(1));
    let mut c = mk_device(&module, seed.wrapping_mul(3).wrapping_add(2));
    let b_id = mk_device(&module, seed.wrapping_mul(3).wrapping_add(3)).device_id;
    let mut buffers = RuntimeBuffers::new();
    let mut sink = VecSink::default();
    let act = |name: &str, args: Vec<Value>| VmAction { name: name.parse().unwrap(), args: args.into() };

    // honest history
    let graph = match a.cs.new_graph(&[0u8], act("init", vec![Value::Int((seed % 1000) as i64 + 1), Value::Bytes(a.sign_pk.clone())]), &mut sink) {
        Ok(g) => g,
        Err(e) => return format!("honest-init-failed:{}", client_err_class(&e)),
    };
    let steps: Vec<(bool, &str, Vec<Value>)> = vec![
        (true, "add_device", vec![Value::Id(c.device_id.as_base()), Value::Bytes(c.sign_pk.clone())]),
        (true, "note", vec![Value::Int(1), Value::Int(10)]),
        (false, "note", vec![Value::Int(2), Value::Int(20)]),
        (true, "note", vec![Value::Int(3), Value::Int(30)]),
    ];
    for (by_a, name, args) in steps {
        // bring the acting device up to date, then act
        let (src, dst) = if by_a { (&mut c, &mut a) } else { (&mut a, &mut c) };
        if src.cs.provider().get_storage(graph).is_ok() {
            let cmds = extract(&mut src.cs, graph, &mut buffers);
            let (r, cm) = deliver(&mut dst.cs, graph, &cmds, &mut sink);
            if r.is_err() || cm.is_err() {
                return format!("honest-sync-failed:{}", result_class(&r));
            }
        }
        if let Err(e) = dst.cs.action(graph, &mut sink, act(name, args), &mut buffers, MemSpill::new) {
            return format!("honest-action-failed:{name}:{}", client_err_class(&e));
        }
    }
    sink.take();
    let h = extract(&mut a.cs, graph, &mut buffers);
    let w = World { h, graph, dev_ids: [a.device_id, c.device_id, b_id] };
    let mut out = vec![format!("D A={} C={} B={} pkA={} pkC={} graph={}", hex(a.device_id.as_bytes()), hex(c.device_id.as_bytes()),
                               hex(b_id.as_bytes()), hex(&a.sign_pk), hex(&c.sign_pk), hex(graph.as_bytes()))];
    for (j, cmd) in w.h.iter().enumerate() {
        out.push(format!("H {j} {}", describe(cmd, &a.machine)));
    }

    let mut refs: Vec<Option<(String, usize)>> = vec![None; w.h.len()];
    let full_want = {
        let mut fullref = mk_device(&module, 5);
        let _ = deliver(&mut fullref.cs, w.graph, &w.h, &mut VecSink::default());
        snapshot(&mut fullref.cs, w.graph)
    };
    for (mi, spec) in specs.split(';').filter(|s| !s.is_empty()).enumerate() {
        let (spec, batch) = match spec.strip_suffix("@batch") { Some(s) => (s, true), None => (spec, false) };
        let Some((k, m)) = mutate(&w, spec) else {
            out.push(format!("M {spec} bad-spec"));
            continue;
        };
        let one = panic::catch_unwind(panic::AssertUnwindSafe(|| -> String {
        let mut b = mk_device(&module, seed.wrapping_mul(7919).wrapping_add(100 + mi as u64));
        let mut sink = VecSink::default();
        let mut pre_ok = true;
        let (r, commit) = if batch {
            let mut cmds = w.h[..k].to_vec();
            cmds.push(m.clone());
            deliver(&mut b.cs, w.graph, &cmds, &mut sink)
        } else {
            if k > 0 {
                let (r0, c0) = deliver(&mut b.cs, w.graph, &w.h[..k], &mut sink);
                pre_ok = matches!(r0, Ok(n) if n == k) && c0.is_ok();
                sink.take();
            }
            deliver(&mut b.cs, w.graph, std::slice::from_ref(&m), &mut sink)
        };
        // reference replica: exactly the honest prefix (computed once per k)
        if refs[k].is_none() {
            let mut refb = mk_device(&module, 11);
            let mut rsink = VecSink::default();
            if k > 0 {
                let _ = deliver(&mut refb.cs, w.graph, &w.h[..k], &mut rsink);
            }
            refs[k] = Some((snapshot(&mut refb.cs, w.graph), rsink.take().len()));
        }
        let (want, prefix_effects) = refs[k].clone().unwrap();
        let got = snapshot(&mut b.cs, w.graph);
        let effs = sink.take();
        let new_effects = effs.len().saturating_sub(if batch { prefix_effects } else { 0 });
        let stored = m.address().map(|addr| b.cs.command_exists(w.graph, addr, &mut buffers.traversal.primary)).unwrap_or(false);
        // then the honest remainder must still be accepted
        let mut after = String::from("ok");
        let mut sink2 = VecSink::default();
        let (r2, c2) = deliver(&mut b.cs, w.graph, &w.h[k..], &mut sink2);
        if r2.is_err() || c2.is_err() {
            after = result_class(&r2);
        } else {
            let full = snapshot(&mut b.cs, w.graph);
            if full != full_want {
                after = "diverged".into();
            }
        }
        let notes = |s: &str| s.matches(",Note[").count();
        format!("M {spec}{} k={k} res={} commit={} pre={} same={} stored={} effects={} after={} facts={}/{} {}",
                         if batch { "@batch" } else { "" }, result_class(&r), if commit.is_ok() { "ok" } else { "err" }, pre_ok as u8,
                         (want == got) as u8, stored as u8, new_effects, after, notes(&got), notes(&want), describe(&m, &a.machine))
        }));
        match one {
            Ok(s) => out.push(s),
            // a panic while handling peer input: report it as the result, with the fields that caused it
            Err(_) => out.push(format!("M {spec}{} k={k} res=panic commit=err pre=1 same=1 stored=0 effects=0 after=ok facts=0/0 {}",
                                       if batch { "@batch" } else { "" }, describe(&m, &a.machine))),
        }
    }
    out.join("|")
}

fn main() {
    panic::set_hook(Box::new(|_| {}));
    let stdin = io::stdin();
    let out = io::stdout();
    let mut out = out.lock();
    for line in stdin.lock().lines() {
        let line = line.unwrap();
        let r = panic::catch_unwind(|| run_case(&line)).unwrap_or_else(|_| "panic".into());
        writeln!(out, "{r}").unwrap();
    }
}
