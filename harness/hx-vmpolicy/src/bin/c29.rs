//! C29 implementation-side runner: generated policy text goes through the REAL
//! compiler, VM, `VmPolicy`/`VmPolicyIO`, `ClientState` and linear storage
//! (memory backend).
//!
//! stdin: one case per line: `<policy-doc hex> <op>;<op>;...`
//!   op = `A:<action>(<val>,<val>,...)`  on-graph action (values: see lib.rs)
//!      | `D:<FactName>`                 dump the committed facts of that name
//!      | `S`                            open an ephemeral `Session` on the graph's current head
//!      | `E:<action>(<val>,...)`        ephemeral action in that session (`Session::action`)
//!      | `R`                            a second fresh session `receive`s every command the first one produced
//! stdout per case: results joined by `;`
//!   action: `ok[Effect{f=v,..}|Effect{..}]`  or `err:<class>`
//!   dump:   `dump[<keyhex>.<keyhex>=name=val,name=val|...]`  (serialised keys byte for byte,
//!           values decoded from postcard)
//!   `S`: `session` ; `R`: `recv[Effect{..}|..]` or `recv-err:<class>@<i>[..]`
use std::io::{self, BufRead, Write};
use std::panic;

use aranya_crypto::{DeviceId, Rng, default::DefaultEngine, id::IdExt as _};
use aranya_policy_vm::{FactValue, Machine, Value, ffi::FfiModule as _};
use aranya_runtime::{
    ClientState, MemSpill, RuntimeBuffers, VmAction, VmPolicy,
    storage::{Query as _, Storage as _, StorageProvider as _, linear::testing::MemStorageProvider},
    vm_policy::testing::TestFfiEnvelope,
};
use aranya_runtime::policy::Sink;
use hx_vmpolicy::*;

/// Collects the serialised session commands; `rollback` drops those of the failed action.
#[derive(Default)]
struct MsgSink {
    msgs: Vec<Box<[u8]>>,
    mark: usize,
}
impl<'b> Sink<&'b [u8]> for MsgSink {
    fn begin(&mut self) {}
    fn consume(&mut self, m: &'b [u8]) {
        self.msgs.push(m.into());
    }
    fn rollback(&mut self) {
        self.msgs.truncate(self.mark);
    }
    fn commit(&mut self) {}
}

fn parse_call(rest: &str) -> Option<(aranya_policy_vm::ast::Identifier, Vec<Value>)> {
    let (name, args) = rest.strip_suffix(')').and_then(|r| r.split_once('('))?;
    let args: Option<Vec<Value>> = args.split(',').filter(|a| !a.is_empty()).map(parse_value).collect();
    Some((name.parse().ok()?, args?))
}

fn run_case(line: &str) -> String {
    let Some((ph, ops)) = line.split_once(' ') else { return "bad-case".into() };
    let Some(doc) = unhex(ph).and_then(|b| String::from_utf8(b).ok()) else { return "bad-hex".into() };
    let module = match compile(&doc, &[TestFfiEnvelope::SCHEMA]) {
        Ok(m) => m,
        Err(e) => return format!("compile-error:{}", e.replace([' ', '\n', ';'], "_")),
    };
    let machine = Machine::from_module(module).expect("module loads");
    let (eng, _) = DefaultEngine::<Rng>::from_entropy(Rng);
    let policy = VmPolicy::new(machine, eng, vec![Box::from(TestFfiEnvelope { device: DeviceId::random(Rng) })])
        .expect("policy loads");
    let mut cs = ClientState::new(OnePolicy(policy), MemStorageProvider::default());
    let mut buffers = RuntimeBuffers::new();
    let mut sink = VecSink::default();
    let graph = match cs.new_graph(&[0u8], VmAction { name: "init".parse().unwrap(), args: [Value::Int(0)].as_slice().into() }, &mut sink) {
        Ok(g) => g,
        Err(e) => return format!("init-error:{}", client_err_class(&e)),
    };
    sink.take();
    let mut out = Vec::new();
    let mut session = None;
    let mut msgs = MsgSink::default();
    for op in ops.split(';').filter(|o| !o.is_empty()) {
        if op == "S" {
            session = cs.session(graph).ok();
            msgs = MsgSink::default();
            out.push(if session.is_some() { "session".into() } else { "session-error".to_string() });
        } else if let Some(rest) = op.strip_prefix("E:") {
            let (Some(sess), Some((name, args))) = (session.as_mut(), parse_call(rest)) else {
                out.push("bad-op".into());
                continue;
            };
            msgs.mark = msgs.msgs.len();
            let r = sess.action(&cs, &mut sink, &mut msgs, VmAction { name, args: args.into() });
            let effs = sink.take();
            match r {
                Ok(()) => out.push(format!("ok[{}]", effs.iter().map(show_effect).collect::<Vec<_>>().join("|"))),
                Err(e) => out.push(format!("err:{}{}", client_err_class(&e), if effs.is_empty() { "" } else { "+leaked-effects" })),
            }
        } else if op == "R" {
            let Ok(mut s2) = cs.session(graph) else {
                out.push("session-error".into());
                continue;
            };
            let mut failed = None;
            for (i, m) in msgs.msgs.iter().enumerate() {
                if let Err(e) = s2.receive(&cs, &mut sink, m) {
                    failed = Some(format!("recv-err:{}@{i}", client_err_class(&e)));
                    break;
                }
            }
            let effs = sink.take();
            out.push(format!("{}[{}]", failed.unwrap_or_else(|| "recv".into()), effs.iter().map(show_effect).collect::<Vec<_>>().join("|")));
        } else if let Some(name) = op.strip_prefix("D:") {
            let storage = cs.provider().get_storage(graph).expect("storage");
            let idx = storage.fact_cache().expect("fact cache");
            let mut rows = Vec::new();
            for f in idx.query_prefix(name, &[]).expect("query_prefix") {
                let f = f.expect("fact");
                let keys: Vec<String> = f.key.iter().map(|k| hex(k)).collect();
                let vals: Vec<FactValue> = postcard::from_bytes(&f.value).expect("value decodes");
                let vs: Vec<String> = vals.iter().map(|v| format!("{}={}", v.identifier, show_value(&v.value))).collect();
                rows.push(format!("{}={}", keys.join("."), vs.join(",")));
            }
            out.push(format!("dump[{}]", rows.join("|")));
        } else if let Some(rest) = op.strip_prefix("A:") {
            let Some((name, args)) = rest.strip_suffix(')').and_then(|r| r.split_once('(')) else {
                out.push("bad-op".into());
                continue;
            };
            let args: Option<Vec<Value>> = args.split(',').filter(|a| !a.is_empty()).map(parse_value).collect();
            let (Some(args), Ok(name)) = (args, name.parse()) else {
                out.push("bad-arg".into());
                continue;
            };
            let r = cs.action(graph, &mut sink, VmAction { name, args: args.into() }, &mut buffers, MemSpill::new);
            let effs = sink.take();
            match r {
                Ok(()) => out.push(format!("ok[{}]", effs.iter().map(show_effect).collect::<Vec<_>>().join("|"))),
                Err(e) => out.push(format!("err:{}{}", client_err_class(&e), if effs.is_empty() { "" } else { "+leaked-effects" })),
            }
        } else {
            out.push("bad-op".into());
        }
    }
    out.join(";")
}

fn main() {
    panic::set_hook(Box::new(|_| {}));
    let stdin = io::stdin();
    let out = io::stdout();
    let mut out = out.lock();
    for line in stdin.lock().lines() {
        let line = line.unwrap();
        let r = panic::catch_unwind(|| run_case(&line)).unwrap_or_else(|_| "panic".into());
        writeln!(out, "{r}").unwrap();
    }
}
