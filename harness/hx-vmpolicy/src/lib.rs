//! Shared pieces of the C29 / C35 runners: value text format, effect sink,
//! policy compilation, a one-policy `PolicyStore`.
use std::fmt::Write as _;

use aranya_policy_compiler::Compiler;
use aranya_policy_lang::lang::parse_policy_document;
use aranya_policy_module::{Module, ffi::ModuleSchema};
use aranya_policy_vm::{Value, ast::{Identifier, Text}};
use aranya_runtime::{
    VmEffect, VmPolicy,
    policy::{PolicyError, PolicyId, PolicyStore, Sink},
};

pub fn unhex(s: &str) -> Option<Vec<u8>> {
    if s.len() % 2 != 0 {
        return None;
    }
    (0..s.len() / 2).map(|i| u8::from_str_radix(s.get(2 * i..2 * i + 2)?, 16).ok()).collect()
}
pub fn hex(b: &[u8]) -> String {
    let mut s = String::with_capacity(b.len() * 2);
    for x in b {
        write!(s, "{x:02x}").unwrap();
    }
    s
}

/// `i<dec>` int, `b0|b1` bool, `s<hex>` string, `d<64 hex>` id, `e<Enum>:<int>` enum,
/// `x<hex>` bytes, `n` None, `o<val>` Some, `u` unit.
pub fn parse_value(s: &str) -> Option<Value> {
    let (t, r) = (s.get(..1)?, s.get(1..)?);
    Some(match t {
        "i" => Value::Int(r.parse().ok()?),
        "b" => Value::Bool(match r { "0" => false, "1" => true, _ => return None }),
        "s" => Value::String(String::from_utf8(unhex(r)?).ok()?.parse::<Text>().ok()?),
        "d" => {
            let b: [u8; 32] = unhex(r)?.try_into().ok()?;
            Value::Id(aranya_policy_vm::BaseId::from_bytes(b))
        }
        "e" => {
            let (n, v) = r.split_once(':')?;
            Value::Enum(n.parse::<Identifier>().ok()?, v.parse().ok()?)
        }
        "x" => Value::Bytes(unhex(r)?),
        "n" => Value::NONE,
        "o" => Value::Option(Some(Box::new(parse_value(r)?))),
        "u" => Value::Unit,
        _ => return None,
    })
}

pub fn show_value(v: &Value) -> String {
    match v {
        Value::Unit => "u".into(),
        Value::Int(i) => format!("i{i}"),
        Value::Bool(b) => format!("b{}", *b as u8),
        Value::String(t) => format!("s{}", hex(t.as_str().as_bytes())),
        Value::Bytes(b) => format!("x{}", hex(b)),
        Value::Id(id) => format!("d{}", hex(id.as_bytes())),
        Value::Enum(n, v) => format!("e{n}:{v}"),
        Value::Option(None) => "n".into(),
        Value::Option(Some(v)) => format!("o{}", show_value(v)),
        Value::Struct(s) => {
            let fs: Vec<String> = s.fields.iter().map(|(k, v)| format!("{k}={}", show_value(v))).collect();
            format!("S{}{{{}}}", s.name, fs.join(","))
        }
        other => format!("?{}", other.type_name()),
    }
}

pub fn show_effect(e: &VmEffect) -> String {
    let fs: Vec<String> = e.fields.iter().map(|kv| format!("{}={}", kv.key(), show_value(kv.value()))).collect();
    format!("{}{{{}}}", e.name, fs.join(","))
}

/// Collects effects; `rollback` discards what arrived since `begin`.
#[derive(Default)]
pub struct VecSink {
    pub committed: Vec<VmEffect>,
    pending: Vec<VmEffect>,
    pub rollbacks: usize,
}
impl VecSink {
    pub fn take(&mut self) -> Vec<VmEffect> {
        let mut v = std::mem::take(&mut self.committed);
        v.append(&mut self.pending);
        v
    }
    pub fn pending_len(&self) -> usize {
        self.pending.len()
    }
}
impl Sink<VmEffect> for VecSink {
    fn begin(&mut self) {}
    fn consume(&mut self, effect: VmEffect) {
        self.pending.push(effect);
    }
    fn rollback(&mut self) {
        self.rollbacks += 1;
        self.pending.clear();
    }
    fn commit(&mut self) {
        self.committed.append(&mut self.pending);
    }
}

pub fn compile(policy_doc: &str, ffi: &[ModuleSchema<'_>]) -> Result<Module, String> {
    let ast = parse_policy_document(policy_doc).map_err(|e| format!("parse: {e}"))?;
    Compiler::new(&ast).ffi_modules(ffi).compile().map_err(|e| format!("compile: {e}"))
}

pub struct OnePolicy<CE: aranya_crypto::Engine>(pub VmPolicy<CE>);
impl<CE: aranya_crypto::Engine> PolicyStore for OnePolicy<CE> {
    type Policy = VmPolicy<CE>;
    type Effect = VmEffect;
    fn add_policy(&mut self, policy: &[u8]) -> Result<PolicyId, PolicyError> {
        Ok(PolicyId::new(policy[0].into()))
    }
    fn get_policy(&self, _id: PolicyId) -> Result<&Self::Policy, PolicyError> {
        Ok(&self.0)
    }
}

pub fn client_err_class(e: &aranya_runtime::ClientError) -> String {
    use aranya_runtime::ClientError as C;
    match e {
        C::PolicyError(p) => format!("policy:{}", match p {
            PolicyError::Rejected => "rejected",
            PolicyError::Panic => "panic",
            PolicyError::InternalError => "internal",
            PolicyError::Read => "read",
            PolicyError::Write => "write",
            _ => "other",
        }),
        C::StorageError(s) => format!("storage:{s:?}"),
        C::Bug(_) => "bug".into(),
        other => format!("client:{other:?}").replace(' ', "_"),
    }
}
