//! C32 implementation-side runner: every public constructor and decoder of
//! `aranya_policy_text::{Text, Identifier}` and their Eq/Ord/Hash.
//!
//! stdin, one case per line (`-` = empty):
//!   `t <hex>`          the byte string through every `Text` constructor / decoder
//!   `i <hex>`          the byte string through every `Identifier` constructor / decoder
//!   `add <hex> <hex>`  `&a + &b` for two texts
//!   `cmp <hex> <hex>`  Eq / Ord / Hash / PartialEq<str> between all representations of two texts
//!   `lit`              the fixed `text!` / `ident!` literals
//! stdout: one line per case, `key=value` pairs; values are `ok:<content hex>`, `err:<kind>`, `na`, `panic`.
use std::{
    ffi::CString,
    hash::{Hash, Hasher},
    io::{self, BufRead, Write},
    panic,
    str::FromStr,
};

use aranya_policy_text::{Identifier, Text, ident, text};
use rkyv::rancor::Error as RErr;

fn unhex(s: &str) -> Vec<u8> {
    if s == "-" {
        return Vec::new();
    }
    (0..s.len() / 2)
        .map(|i| u8::from_str_radix(&s[2 * i..2 * i + 2], 16).unwrap())
        .collect()
}
fn hex(b: &[u8]) -> String {
    b.iter().map(|b| format!("{b:02x}")).collect()
}
fn ok(s: &str) -> String {
    format!("ok:{}", hex(s.as_bytes()))
}
fn guard<F: FnOnce() -> String>(f: F) -> String {
    panic::catch_unwind(panic::AssertUnwindSafe(f)).unwrap_or_else(|_| "panic".into())
}

/// `InvalidText` / `InvalidIdentifier` only expose `Display`.
fn text_err(e: &aranya_policy_text::InvalidText) -> String {
    let m = e.to_string();
    match m.strip_prefix("text contained nul byte at index ") {
        Some(i) => format!("err:nul:{i}"),
        None => format!("err:other:{}", hex(m.as_bytes())),
    }
}
fn ident_err(e: &aranya_policy_text::InvalidIdentifier) -> String {
    let m = e.to_string();
    if m == "identifier must not be empty" {
        "err:empty".into()
    } else if m == "identifier must start with alphabetic character" {
        "err:initial".into()
    } else if let Some(i) = m.strip_prefix("identifier contained invalid character at index ") {
        format!("err:trailing:{i}")
    } else {
        format!("err:other:{}", hex(m.as_bytes()))
    }
}
fn json_err(e: &serde_json::Error) -> String {
    let m = e.to_string();
    if m.starts_with("invalid value") {
        "err:value".into()
    } else if m.starts_with("invalid type") {
        "err:type".into()
    } else {
        "err:other".into()
    }
}
fn pc_err(e: postcard::Error) -> String {
    match e {
        postcard::Error::DeserializeBadUtf8 => "err:utf8".into(),
        postcard::Error::SerdeDeCustom => "err:value".into(),
        postcard::Error::DeserializeUnexpectedEnd => "err:end".into(),
        _ => "err:other".into(),
    }
}
fn varint(mut n: usize) -> Vec<u8> {
    let mut v = Vec::new();
    loop {
        if n < 128 {
            v.push(n as u8);
            return v;
        }
        v.push((n & 0x7f) as u8 | 0x80);
        n >>= 7;
    }
}

/// An rkyv archive of a `Text` whose string content has been overwritten with `b`.
/// `None` when the bytes would change the archived string's own framing (inline form:
/// 0xff is the terminator and a leading continuation byte selects the out-of-line form).
fn archive_with(b: &[u8]) -> Option<rkyv::util::AlignedVec> {
    let n = b.len();
    if n <= 8 && (b.contains(&0xff) || b.first().is_some_and(|c| c & 0xc0 == 0x80)) {
        return None;
    }
    let placeholder = "x".repeat(n);
    let t = Text::from_str(&placeholder).ok()?;
    let mut buf = rkyv::to_bytes::<RErr>(&t).ok()?;
    if n > 0 {
        let pos = buf.windows(n).position(|w| w == placeholder.as_bytes())?;
        buf[pos..pos + n].copy_from_slice(b);
    }
    Some(buf)
}

fn case_text(b: &[u8]) -> String {
    let mut out = Vec::new();
    let s = std::str::from_utf8(b).ok();
    let fs = match s {
        None => "na".to_string(),
        Some(s) => guard(|| match Text::from_str(s) {
            Ok(t) => ok(t.as_str()),
            Err(e) => text_err(&e),
        }),
    };
    out.push(format!("fs={fs}"));
    out.push(format!(
        "ts={}",
        match s {
            None => "na".to_string(),
            Some(s) => guard(|| match Text::try_from(s.to_string()) {
                Ok(t) => ok(t.as_str()),
                Err(e) => text_err(&e),
            }),
        }
    ));
    out.push(format!(
        "cstr={}",
        match CString::new(b.to_vec()) {
            Err(_) => "na".to_string(),
            Ok(c) => guard(|| match Text::try_from(c.as_c_str()) {
                Ok(t) => ok(t.as_str()),
                Err(_) => "err:utf8".into(),
            }),
        }
    ));
    out.push(format!(
        "js={}",
        match s {
            None => "na".to_string(),
            Some(s) => guard(|| {
                let j = serde_json::to_string(s).unwrap();
                match serde_json::from_str::<Text>(&j) {
                    Ok(t) => ok(t.as_str()),
                    Err(e) => json_err(&e),
                }
            }),
        }
    ));
    out.push(format!(
        "pc={}",
        guard(|| {
            let mut buf = varint(b.len());
            buf.extend_from_slice(b);
            match postcard::from_bytes::<Text>(&buf) {
                Ok(t) => ok(t.as_str()),
                Err(e) => pc_err(e),
            }
        })
    ));
    // rkyv: checked access, then the two ways of getting an owned value back
    match archive_with(b) {
        None => out.push("rka=na rkd=na rkf=na".into()),
        Some(buf) => {
            let acc = guard(|| match rkyv::access::<rkyv::Archived<Text>, RErr>(&buf) {
                Ok(a) => ok(a.as_str()),
                Err(_) => "err:check".into(),
            });
            let de = guard(|| match rkyv::access::<rkyv::Archived<Text>, RErr>(&buf) {
                Ok(a) => match rkyv::deserialize::<Text, RErr>(a) {
                    Ok(t) => ok(t.as_str()),
                    Err(_) => "err:de".into(),
                },
                Err(_) => "err:check".into(),
            });
            let fb = guard(|| match rkyv::from_bytes::<Text, RErr>(&buf) {
                Ok(t) => ok(t.as_str()),
                Err(_) => "err:check".into(),
            });
            out.push(format!("rka={acc} rkd={de} rkf={fb}"));
        }
    }
    // a value that was accepted survives its own serialisations, clones equal, Default is empty
    let rt = match s.and_then(|s| Text::from_str(s).ok()) {
        None => "na".to_string(),
        Some(t) => guard(|| {
            let j: Text = serde_json::from_str(&serde_json::to_string(&t).unwrap()).unwrap();
            let p: Text = postcard::from_bytes(&postcard::to_allocvec(&t).unwrap()).unwrap();
            let a = rkyv::to_bytes::<RErr>(&t).unwrap();
            let r: Text = rkyv::from_bytes::<Text, RErr>(&a).unwrap();
            let c = t.clone();
            let all = [&j, &p, &r, &c];
            let same = all.iter().all(|x| **x == t && x.as_str() == t.as_str());
            format!("{}", same as u8)
        }),
    };
    out.push(format!("rt={rt}"));
    out.join(" ")
}

fn case_ident(b: &[u8]) -> String {
    let mut out = Vec::new();
    let s = std::str::from_utf8(b).ok();
    let na = || "na".to_string();
    out.push(format!(
        "fs={}",
        s.map_or_else(na, |s| guard(|| match Identifier::from_str(s) {
            Ok(t) => ok(t.as_str()),
            Err(e) => ident_err(&e),
        }))
    ));
    out.push(format!(
        "ts={}",
        s.map_or_else(na, |s| guard(|| match Identifier::try_from(s.to_string()) {
            Ok(t) => ok(t.as_str()),
            Err(e) => ident_err(&e),
        }))
    ));
    // TryFrom<Text> (only texts exist to try), and back to Text
    out.push(format!(
        "tt={}",
        match s.and_then(|s| Text::from_str(s).ok()) {
            None => na(),
            Some(t) => guard(|| match Identifier::try_from(t) {
                Ok(i) => {
                    let back: Text = i.clone().into();
                    if back.as_str() == i.as_str() { ok(i.as_str()) } else { "err:back".into() }
                }
                Err(e) => ident_err(&e),
            }),
        }
    ));
    out.push(format!(
        "js={}",
        s.map_or_else(na, |s| guard(|| {
            let j = serde_json::to_string(s).unwrap();
            match serde_json::from_str::<Identifier>(&j) {
                Ok(t) => ok(t.as_str()),
                Err(e) => json_err(&e),
            }
        }))
    ));
    out.push(format!(
        "pc={}",
        guard(|| {
            let mut buf = varint(b.len());
            buf.extend_from_slice(b);
            match postcard::from_bytes::<Identifier>(&buf) {
                Ok(t) => ok(t.as_str()),
                Err(e) => pc_err(e),
            }
        })
    ));
    match archive_with(b) {
        None => out.push("rka=na rkm=na rkd=na rkf=na".into()),
        Some(buf) => {
            let acc = guard(|| match rkyv::access::<rkyv::Archived<Identifier>, RErr>(&buf) {
                Ok(a) => ok(a.as_str()),
                Err(_) => "err:check".into(),
            });
            let m = guard(|| match rkyv::access::<rkyv::Archived<Identifier>, RErr>(&buf) {
                Ok(a) => ok(a.deserialize().as_str()),
                Err(_) => "err:check".into(),
            });
            let de = guard(|| match rkyv::access::<rkyv::Archived<Identifier>, RErr>(&buf) {
                Ok(a) => match rkyv::deserialize::<Identifier, RErr>(a) {
                    Ok(t) => ok(t.as_str()),
                    Err(_) => "err:de".into(),
                },
                Err(_) => "err:check".into(),
            });
            let fb = guard(|| match rkyv::from_bytes::<Identifier, RErr>(&buf) {
                Ok(t) => ok(t.as_str()),
                Err(_) => "err:check".into(),
            });
            out.push(format!("rka={acc} rkm={m} rkd={de} rkf={fb}"));
        }
    }
    let rt = match s.and_then(|s| Identifier::from_str(s).ok()) {
        None => na(),
        Some(t) => guard(|| {
            let j: Identifier = serde_json::from_str(&serde_json::to_string(&t).unwrap()).unwrap();
            let p: Identifier = postcard::from_bytes(&postcard::to_allocvec(&t).unwrap()).unwrap();
            let a = rkyv::to_bytes::<RErr>(&t).unwrap();
            let r: Identifier = rkyv::from_bytes::<Identifier, RErr>(&a).unwrap();
            let c = t.clone();
            let all = [&j, &p, &r, &c];
            let same = all.iter().all(|x| **x == t && x.as_str() == t.as_str());
            format!("{}", same as u8)
        }),
    };
    out.push(format!("rt={rt}"));
    out.join(" ")
}

fn case_add(a: &[u8], b: &[u8]) -> String {
    let (Some(ta), Some(tb)) = (
        std::str::from_utf8(a).ok().and_then(|s| Text::from_str(s).ok()),
        std::str::from_utf8(b).ok().and_then(|s| Text::from_str(s).ok()),
    ) else {
        return "add=na".into();
    };
    let r = guard(|| {
        let c = &ta + &tb;
        ok(c.as_str())
    });
    // static + dynamic operands as well
    let r2 = guard(|| {
        let sa = static_text(ta.as_str());
        let c = &sa + &tb;
        ok(c.as_str())
    });
    format!("add={r} adds={r2}")
}

/// A `Repr::Static` value with run-time content (the content is valid text, which is the
/// function's safety contract).
fn static_text(s: &str) -> Text {
    let leaked: &'static str = Box::leak(s.to_string().into_boxed_str());
    // SAFETY: `s` came out of a valid `Text`.
    unsafe { Text::__from_literal(leaked) }
}
fn static_ident(s: &str) -> Identifier {
    let leaked: &'static str = Box::leak(s.to_string().into_boxed_str());
    // SAFETY: `s` came out of a valid `Identifier`.
    unsafe { Identifier::__from_literal(leaked) }
}

#[derive(Default)]
struct Rec(Vec<u8>);
impl Hasher for Rec {
    fn finish(&self) -> u64 {
        0
    }
    fn write(&mut self, b: &[u8]) {
        self.0.extend_from_slice(b);
    }
}
fn feed<T: Hash>(t: &T) -> Vec<u8> {
    let mut h = Rec::default();
    t.hash(&mut h);
    h.0
}
fn ord(o: std::cmp::Ordering) -> i8 {
    o as i8
}

fn case_cmp(a: &[u8], b: &[u8]) -> String {
    let (Some(sa), Some(sb)) = (std::str::from_utf8(a).ok(), std::str::from_utf8(b).ok()) else {
        return "cmp=na".into();
    };
    let (Ok(da), Ok(db)) = (Text::from_str(sa), Text::from_str(sb)) else {
        return "cmp=na".into();
    };
    guard(|| {
        // every way of storing the same content: inline/heap (from_str), static, deserialised, concatenated
        let reps = |s: &str, d: &Text| -> Vec<Text> {
            let mut v = vec![d.clone(), static_text(s)];
            v.push(postcard::from_bytes(&postcard::to_allocvec(d).unwrap()).unwrap());
            let cut = (0..=s.len()).rev().find(|i| s.is_char_boundary(*i) && *i <= s.len() / 2).unwrap_or(0);
            v.push(&Text::from_str(&s[..cut]).unwrap() + &static_text(&s[cut..]));
            if s.is_empty() {
                v.push(Text::new());
                v.push(Text::default());
            }
            v
        };
        let ra = reps(sa, &da);
        let rb = reps(sb, &db);
        let eq0 = da == db;
        let cmp0 = ord(da.cmp(&db));
        let fa = feed(&da);
        let fb = feed(&db);
        let mut consistent = true;
        for x in &ra {
            for y in &rb {
                consistent &= (x == y) == eq0;
                consistent &= ord(x.cmp(y)) == cmp0;
                consistent &= x.partial_cmp(y).map(ord) == Some(cmp0);
                consistent &= feed(x) == fa && feed(y) == fb;
                consistent &= x.const_eq(y) == eq0;
                consistent &= (*x == *sb) == eq0 && (*x == sb) == eq0;
            }
        }
        let mut s = format!("eq={} cmp={} feeda={} feedb={} consistent={}", eq0 as u8, cmp0, hex(&fa), hex(&fb), consistent as u8);
        // identifiers, when both are
        if let (Ok(ia), Ok(ib)) = (Identifier::from_str(sa), Identifier::from_str(sb)) {
            let ras = [ia.clone(), static_ident(sa), Identifier::try_from(static_text(sa)).unwrap()];
            let rbs = [ib.clone(), static_ident(sb), Identifier::try_from(static_text(sb)).unwrap()];
            let mut c = true;
            for x in &ras {
                for y in &rbs {
                    c &= (x == y) == eq0 && ord(x.cmp(y)) == cmp0 && feed(x) == fa && feed(y) == fb;
                    c &= x.const_eq(y) == eq0 && (*x == *sb) == eq0;
                }
            }
            s.push_str(&format!(" ident={}", c as u8));
        } else {
            s.push_str(" ident=na");
        }
        s
    })
}

fn case_lit() -> String {
    guard(|| {
        let t0 = text!();
        let t1 = text!("hello");
        let t2 = text!("a string literal that is longer than the inline capacity of Repr");
        let i1 = ident!("x");
        let i2 = ident!("an_identifier_longer_than_22_bytes_1234567890");
        format!(
            "lit={},{},{},{},{}",
            hex(t0.as_bytes()),
            hex(t1.as_bytes()),
            hex(t2.as_bytes()),
            hex(i1.as_str().as_bytes()),
            hex(i2.as_str().as_bytes())
        )
    })
}

fn main() {
    panic::set_hook(Box::new(|_| {}));
    let stdin = io::stdin();
    let out = io::stdout();
    let mut out = io::BufWriter::new(out.lock());
    for line in stdin.lock().lines() {
        let line = line.unwrap();
        let mut it = line.split_whitespace();
        let kind = it.next().unwrap_or("");
        let a = unhex(it.next().unwrap_or("-"));
        let b = unhex(it.next().unwrap_or("-"));
        let r = match kind {
            "t" => case_text(&a),
            "i" => case_ident(&a),
            "add" => case_add(&a, &b),
            "cmp" => case_cmp(&a, &b),
            "lit" => case_lit(),
            _ => "unknown".into(),
        };
        writeln!(out, "{kind} {r}").unwrap();
    }
}
