//! C46 implementation-side runner: the real `aranya_id::Id` text and serde code.
//!
//! stdin, one case per line:
//!   `id <hex32>`                 Display / FromStr / decode / serde_json / postcard round trips
//!   `str <hex>`                  `Id::decode(bytes)`; when UTF-8 also `FromStr`, the probe
//!                                deserializer (human readable) and serde_json
//!   `pc <hex>`                   `postcard::from_bytes::<BaseId>`
//!   `probe <hr> <s|b|q|u> <hex>` `Id::deserialize` driven by a minimal deserializer that
//!                                reports `is_human_readable() = hr` and hands the visitor a
//!                                str / byte slice / sequence of u8 / unit
//!   `json <hex>`                 `serde_json::from_slice::<BaseId>` on raw JSON text
//! stdout: one line per case, space separated `key=value`; values are
//!   `ok:<hex>` | `err:<kind>` | `panic` | `na`, strings are printed as hex.
use std::{
    fmt,
    io::{self, BufRead, Write},
    panic,
};

use aranya_id::BaseId;
use serde::{
    Deserialize,
    de::{self, DeserializeSeed, Deserializer, Expected, SeqAccess, Unexpected, Visitor},
};

aranya_id::custom_id! {
    /// A second tag, to exercise the generic code with a tag other than `BaseId`'s.
    pub struct HxId;
}

fn unhex(s: &str) -> Vec<u8> {
    (0..s.len() / 2)
        .map(|i| u8::from_str_radix(&s[2 * i..2 * i + 2], 16).unwrap())
        .collect()
}
fn hex(b: &[u8]) -> String {
    b.iter().map(|b| format!("{b:02x}")).collect()
}

// ---------------------------------------------------------------- probe deserializer

#[derive(Debug)]
enum PErr {
    Custom,
    InvalidType,
    InvalidValue,
    InvalidLength(usize),
}
impl fmt::Display for PErr {
    fn fmt(&self, f: &mut fmt::Formatter<'_>) -> fmt::Result {
        write!(f, "{self:?}")
    }
}
impl std::error::Error for PErr {}
impl de::Error for PErr {
    fn custom<T: fmt::Display>(_msg: T) -> Self {
        PErr::Custom
    }
    fn invalid_type(_: Unexpected<'_>, _: &dyn Expected) -> Self {
        PErr::InvalidType
    }
    fn invalid_value(_: Unexpected<'_>, _: &dyn Expected) -> Self {
        PErr::InvalidValue
    }
    fn invalid_length(len: usize, _: &dyn Expected) -> Self {
        PErr::InvalidLength(len)
    }
}

enum Payload {
    Str(String),
    Bytes(Vec<u8>),
    Seq(Vec<u8>),
    Unit,
}
struct Probe {
    hr: bool,
    p: Payload,
}
struct SeqProbe {
    items: Vec<u8>,
    pos: usize,
}
impl<'de> SeqAccess<'de> for SeqProbe {
    type Error = PErr;
    fn next_element_seed<T: DeserializeSeed<'de>>(&mut self, seed: T) -> Result<Option<T::Value>, PErr> {
        if self.pos >= self.items.len() {
            return Ok(None);
        }
        let b = self.items[self.pos];
        self.pos += 1;
        seed.deserialize(de::value::U8Deserializer::<PErr>::new(b)).map(Some)
    }
}
impl<'de> Deserializer<'de> for Probe {
    type Error = PErr;
    fn is_human_readable(&self) -> bool {
        self.hr
    }
    fn deserialize_any<V: Visitor<'de>>(self, v: V) -> Result<V::Value, PErr> {
        match self.p {
            Payload::Str(s) => v.visit_str(&s),
            Payload::Bytes(b) => v.visit_bytes(&b),
            Payload::Seq(items) => v.visit_seq(SeqProbe { items, pos: 0 }),
            Payload::Unit => v.visit_unit(),
        }
    }
    serde::forward_to_deserialize_any! {
        bool i8 i16 i32 i64 i128 u8 u16 u32 u64 u128 f32 f64 char str string
        bytes byte_buf option unit unit_struct newtype_struct seq tuple
        tuple_struct map struct enum identifier ignored_any
    }
}

fn perr(e: PErr) -> String {
    match e {
        PErr::Custom => "err:custom".into(),
        PErr::InvalidType => "err:type".into(),
        PErr::InvalidValue => "err:value".into(),
        PErr::InvalidLength(n) => format!("err:len:{n}"),
    }
}
fn json_err(e: &serde_json::Error) -> String {
    let m = e.to_string();
    if m.starts_with("invalid value") {
        "err:value".into()
    } else if m.starts_with("invalid type") {
        "err:type".into()
    } else if m.starts_with("invalid length") {
        "err:len".into()
    } else if e.is_syntax() || e.is_eof() {
        "err:syntax".into()
    } else {
        "err:custom".into()
    }
}
fn pc_err(e: postcard::Error) -> String {
    match e {
        postcard::Error::DeserializeUnexpectedEnd => "err:end".into(),
        postcard::Error::DeserializeBadVarint => "err:varint".into(),
        postcard::Error::SerdeDeCustom => "err:custom".into(),
        _ => "err:other".into(),
    }
}
fn okid(id: &BaseId) -> String {
    format!("ok:{}", hex(id.as_bytes()))
}
/// Classifies a `ParseIdError` through its `Display` text (the wrapped enum is private to aranya-id).
fn parse_err(e: &aranya_id::ParseIdError) -> String {
    if e.to_string() == "could not parse ID: bad input" {
        "err:bad".into()
    } else {
        "err:bug".into()
    }
}
fn guard<F: FnOnce() -> String>(f: F) -> String {
    panic::catch_unwind(panic::AssertUnwindSafe(f)).unwrap_or_else(|_| "panic".into())
}

fn case_id(arg: &str) -> String {
    let b = unhex(arg);
    let arr: [u8; 32] = b.as_slice().try_into().expect("id case needs 32 bytes");
    let id = BaseId::from_bytes(arr);
    let disp = guard(|| hex(id.to_string().as_bytes()));
    let text = id.to_string();
    let rt = guard(|| match text.parse::<BaseId>() {
        Ok(x) => okid(&x),
        Err(e) => parse_err(&e),
    });
    let dec = guard(|| match BaseId::decode(text.as_bytes()) {
        Ok(x) => okid(&x),
        Err(e) => parse_err(&e),
    });
    let json = guard(|| match serde_json::to_string(&id) {
        Ok(s) => hex(s.as_bytes()),
        Err(_) => "err".into(),
    });
    let jrt = guard(|| {
        let s = serde_json::to_string(&id).map_err(|_| ()).unwrap_or_default();
        match serde_json::from_str::<BaseId>(&s) {
            Ok(x) => okid(&x),
            Err(e) => json_err(&e),
        }
    });
    let pc = guard(|| match postcard::to_allocvec(&id) {
        Ok(v) => hex(&v),
        Err(_) => "err".into(),
    });
    let prt = guard(|| {
        let v = postcard::to_allocvec(&id).unwrap_or_default();
        match postcard::from_bytes::<BaseId>(&v) {
            Ok(x) => okid(&x),
            Err(e) => pc_err(e),
        }
    });
    // a differently tagged id goes through the same generic code
    let tagged = guard(|| {
        let t = HxId::from_bytes(arr);
        let s = t.to_string();
        let dbg = format!("{t:?}");
        let back = s.parse::<HxId>().map(|x| x.as_base() == id).unwrap_or(false);
        let pcv = postcard::to_allocvec(&t).unwrap_or_default();
        let back2 = postcard::from_bytes::<HxId>(&pcv).map(|x| x.as_base() == id).unwrap_or(false);
        format!("{}:{}:{}", hex(dbg.as_bytes()), back as u8, back2 as u8)
    });
    format!("disp={disp} rt={rt} dec={dec} json={json} jrt={jrt} pc={pc} prt={prt} tagged={tagged}")
}

fn case_str(arg: &str) -> String {
    let b = unhex(arg);
    let dec = guard(|| match BaseId::decode(&b) {
        Ok(x) => okid(&x),
        Err(e) => parse_err(&e),
    });
    let (fs, pr, js) = match std::str::from_utf8(&b) {
        Err(_) => ("na".to_string(), "na".to_string(), "na".to_string()),
        Ok(s) => (
            guard(|| match s.parse::<BaseId>() {
                Ok(x) => okid(&x),
                Err(e) => parse_err(&e),
            }),
            guard(|| match BaseId::deserialize(Probe { hr: true, p: Payload::Str(s.to_string()) }) {
                Ok(x) => okid(&x),
                Err(e) => perr(e),
            }),
            guard(|| {
                let j = serde_json::to_string(s).unwrap();
                match serde_json::from_str::<BaseId>(&j) {
                    Ok(x) => okid(&x),
                    Err(e) => json_err(&e),
                }
            }),
        ),
    };
    format!("dec={dec} fs={fs} probe={pr} js={js}")
}

fn case_pc(arg: &str) -> String {
    let b = unhex(arg);
    let r = guard(|| match postcard::from_bytes::<BaseId>(&b) {
        Ok(x) => okid(&x),
        Err(e) => pc_err(e),
    });
    format!("pc={r}")
}

fn case_probe(hr: &str, kind: &str, arg: &str) -> String {
    let b = unhex(arg);
    let p = match kind {
        "s" => Payload::Str(String::from_utf8(b).expect("probe s needs UTF-8")),
        "b" => Payload::Bytes(b),
        "q" => Payload::Seq(b),
        _ => Payload::Unit,
    };
    let r = guard(|| match BaseId::deserialize(Probe { hr: hr == "1", p }) {
        Ok(x) => okid(&x),
        Err(e) => perr(e),
    });
    format!("probe={r}")
}

fn case_json(arg: &str) -> String {
    let b = unhex(arg);
    let r = guard(|| match serde_json::from_slice::<BaseId>(&b) {
        Ok(x) => okid(&x),
        Err(e) => json_err(&e),
    });
    format!("json={r}")
}

fn main() {
    panic::set_hook(Box::new(|_| {}));
    let stdin = io::stdin();
    let out = io::stdout();
    let mut out = io::BufWriter::new(out.lock());
    for line in stdin.lock().lines() {
        let line = line.unwrap();
        let mut it = line.split_whitespace();
        let kind = it.next().unwrap_or("");
        let a1 = it.next().unwrap_or("");
        let a2 = it.next().unwrap_or("");
        let a3 = it.next().unwrap_or("");
        let a1 = if a1 == "-" { "" } else { a1 };
        let a3 = if a3 == "-" { "" } else { a3 };
        let r = match kind {
            "id" => case_id(a1),
            "str" => case_str(a1),
            "pc" => case_pc(a1),
            "probe" => case_probe(a1, a2, a3),
            "json" => case_json(a1),
            _ => "unknown".into(),
        };
        writeln!(out, "{kind} {r}").unwrap();
    }
}
