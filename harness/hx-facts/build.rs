//! Detects whether `Checkpoint` carries the count of pending fact writes (finding F12's repair),
//! so the runners build against trees with either shape of the struct.
use std::fs;
fn main() {
    let p = "/repo/crates/aranya-runtime/src/storage/mod.rs";
    println!("cargo:rerun-if-changed={p}");
    let src = fs::read_to_string(p).unwrap_or_default();
    if let Some(i) = src.find("pub struct Checkpoint") {
        let body = &src[i..];
        let end = body.find('}').unwrap_or(body.len());
        if body[..end].contains("pub pending") {
            println!("cargo:rustc-cfg=checkpoint_has_pending");
        }
    }
}
