//! C12 / C13 implementation-side runner: drives the REAL linear storage
//! (`LinearStorageProvider` over the in-memory `testing::Manager` or the libc
//! `FileManager`) through an op sequence and dumps every exact and prefix query
//! of the touched object after each step.
//!
//! stdin: one case per line: `<mem|file> <names> <keys> <prefixes> <op;op;...>`
//! ops (fields separated by `:`):
//!   N                 new_perspective
//!   I:h:name:key:val  insert        D:h:name:key  delete      A:h:id  add_command (child of head)
//!   F:h:n/k/v+n/k/!   checkpoint; writes (`!` = delete); revert
//!   K:h               checkpoint (kept in the list of handle h)   R:h:j  revert to j-th kept checkpoint
//!   C:h               new_storage   W:h  write
//!   O:s:i             get_linear_perspective at command i of segment s
//!   X:j:s             new_merge_perspective over written index j (parents: head of segment s, twice)
//!   T:s:i             get_fact_perspective
//!   i:f:name:key:val / d:f:name:key   insert / delete on fact perspective f
//!   w:f               write_facts
//! stdout: one line per case, steps separated by `|`; each step is `skip`, `err`, `panic`
//! or `<tag>,<extra>;<exact answers>;<prefix answers>`.
use std::{
    io::{self, BufRead, Write as _},
    panic,
};

use aranya_runtime::{
    Address, Checkpoint, GraphId, Location, Perspective, PolicyId, Prior, QueryMut, Revertable, Segment,
    Storage, StorageProvider,
    storage::linear::{LinearStorageProvider, libc::FileManager, testing::Manager},
};
use hx_facts::*;

struct PState<P> {
    p: P,
    initial: Prior<Address>,
    base: u64,
    cps: Vec<(usize, usize)>, // (index, pending) of kept checkpoints
}

struct World<SP: StorageProvider> {
    provider: SP,
    graph: Option<GraphId>,
    persps: Vec<Option<PState<SP::Perspective>>>,
    fps: Vec<Option<<SP::Storage as Storage>::FactPerspective>>,
    segs: Vec<SP::Segment>,
    idxs: Vec<Option<<SP::Storage as Storage>::FactIndex>>,
    mem: bool,
}

fn head_str<P: Perspective>(ps: &PState<P>) -> String {
    match ps.p.head_address() {
        Err(_) => "E".into(),
        Ok(h) => {
            if h == ps.initial {
                match h {
                    Prior::None => "n".into(),
                    Prior::Single(_) => "p".into(),
                    Prior::Merge(_, _) => "m".into(),
                }
            } else {
                match h {
                    Prior::Single(a) => format!("s{}.{}", id_num(a.id), a.max_cut.get() - ps.base),
                    _ => "?".into(),
                }
            }
        }
    }
}

impl<SP: StorageProvider> World<SP> {
    fn obs_persp(&self, u: &Universe, h: usize) -> String {
        let ps = self.persps[h].as_ref().unwrap();
        format!("P,{};{}", head_str(ps), u.dump(&ps.p))
    }
    fn push_persp(&mut self, u: &Universe, p: SP::Perspective) -> String {
        let initial = p.head_address().unwrap();
        let base = base_max_cut(&initial);
        self.persps.push(Some(PState { p, initial, base, cps: vec![] }));
        self.obs_persp(u, self.persps.len() - 1)
    }
    /// two usable copies of a fact index (the API hands them out by value only)
    fn dup_index(&mut self, j: usize) -> Option<<SP::Storage as Storage>::FactIndex> {
        let g = self.graph?;
        let idx = self.idxs.get_mut(j)?.take()?;
        let st = self.provider.get_storage(g).ok()?;
        let heads = st.get_heads().ok()?.clone();
        st.commit_heads(heads, idx).ok()?;
        self.idxs[j] = Some(st.fact_cache().ok()?);
        st.fact_cache().ok()
    }
    fn seg_done(&mut self, u: &Universe, seg: SP::Segment) -> String {
        let off = if self.mem { seg.index().get().to_string() } else { "-".into() };
        let s = match seg.facts() {
            Ok(ix) => format!("S,{};{}", off, u.dump(&ix)),
            Err(_) => "err".into(),
        };
        self.segs.push(seg);
        s
    }

    fn step(&mut self, u: &Universe, op: &str) -> String {
        let f: Vec<&str> = op.split(':').collect();
        let num = |i: usize| -> usize { f[i].parse().unwrap() };
        match f[0] {
            "N" => {
                let p = self.provider.new_perspective(PolicyId::new(0));
                self.push_persp(u, p)
            }
            "I" | "D" | "A" | "F" | "K" | "R" => {
                let h = num(1);
                let Some(Some(ps)) = self.persps.get_mut(h) else { return "skip".into() };
                match f[0] {
                    "I" => ps.p.insert(dec_name(f[2]), keys_of(&dec_key(f[3])), dec_val(f[4]).into()).unwrap(),
                    "D" => ps.p.delete(dec_name(f[2]), keys_of(&dec_key(f[3]))).unwrap(),
                    "A" => {
                        let parent = ps.p.head_address().unwrap();
                        let c = TestCmd { id: cmd_id(f[2].parse().unwrap()), parent };
                        if ps.p.add_command(&c).is_err() {
                            return "err".into();
                        }
                    }
                    "F" => {
                        let cp = ps.p.checkpoint();
                        if !f[2].is_empty() {
                            for w in f[2].split('+') {
                                let t: Vec<&str> = w.split('/').collect();
                                if t[2] == "!" {
                                    ps.p.delete(dec_name(t[0]), keys_of(&dec_key(t[1]))).unwrap();
                                } else {
                                    ps.p.insert(dec_name(t[0]), keys_of(&dec_key(t[1])), dec_val(t[2]).into()).unwrap();
                                }
                            }
                        }
                        if ps.p.revert(cp).is_err() {
                            return "err".into();
                        }
                    }
                    "K" => {
                        let cp = ps.p.checkpoint();
                        ps.cps.push(checkpoint_parts(&cp));
                    }
                    _ => {
                        let j = num(2);
                        let Some(&parts) = ps.cps.get(j) else { return "skip".into() };
                        if ps.p.revert(checkpoint_from(parts)).is_err() {
                            return "err".into();
                        }
                        ps.cps.truncate(j + 1);
                    }
                }
                self.obs_persp(u, h)
            }
            "C" => {
                let h = num(1);
                let Some(slot) = self.persps.get_mut(h) else { return "skip".into() };
                let Some(ps) = slot.take() else { return "skip".into() };
                if self.graph.is_some() {
                    return "skip".into();
                }
                match self.provider.new_storage(ps.p) {
                    Err(_) => "err".into(),
                    Ok((g, st)) => {
                        self.graph = Some(g);
                        let heads = st.get_heads().unwrap().clone();
                        let loc = heads.iter().next().unwrap().location();
                        let seg = st.get_segment(loc).unwrap();
                        self.seg_done(u, seg)
                    }
                }
            }
            "W" => {
                let h = num(1);
                let Some(g) = self.graph else { return "skip".into() };
                let Some(slot) = self.persps.get_mut(h) else { return "skip".into() };
                let Some(ps) = slot.take() else { return "skip".into() };
                let st = self.provider.get_storage(g).unwrap();
                match st.write(ps.p) {
                    Err(_) => "err".into(),
                    Ok(seg) => self.seg_done(u, seg),
                }
            }
            "O" | "T" => {
                let (s, i) = (num(1), num(2) as u64);
                let Some(g) = self.graph else { return "skip".into() };
                let Some(seg) = self.segs.get(s) else { return "skip".into() };
                let loc = Location::new(seg.index(), mc(seg.shortest_max_cut().get() + i));
                let st = self.provider.get_storage(g).unwrap();
                if f[0] == "O" {
                    match st.get_linear_perspective(loc) {
                        Err(_) => "err".into(),
                        Ok(p) => self.push_persp(u, p),
                    }
                } else {
                    match st.get_fact_perspective(loc) {
                        Err(_) => "err".into(),
                        Ok(fp) => {
                            let s = format!("F,;{}", u.dump(&fp));
                            self.fps.push(Some(fp));
                            s
                        }
                    }
                }
            }
            "X" => {
                let (j, s) = (num(1), num(2));
                let Some(g) = self.graph else { return "skip".into() };
                let Some(seg) = self.segs.get(s) else { return "skip".into() };
                let head = seg.head_location().unwrap();
                let first = seg.first_location();
                let pol = seg.policy();
                let Some(ix) = self.dup_index(j) else { return "skip".into() };
                let st = self.provider.get_storage(g).unwrap();
                match st.new_merge_perspective(head, head, first, pol, ix) {
                    Err(_) => "err".into(),
                    Ok(p) => self.push_persp(u, p),
                }
            }
            "i" | "d" => {
                let fi = num(1);
                let Some(Some(fp)) = self.fps.get_mut(fi) else { return "skip".into() };
                if f[0] == "i" {
                    fp.insert(dec_name(f[2]), keys_of(&dec_key(f[3])), dec_val(f[4]).into()).unwrap();
                } else {
                    fp.delete(dec_name(f[2]), keys_of(&dec_key(f[3]))).unwrap();
                }
                format!("F,;{}", u.dump(&*fp))
            }
            "w" => {
                let fi = num(1);
                let Some(g) = self.graph else { return "skip".into() };
                let Some(slot) = self.fps.get_mut(fi) else { return "skip".into() };
                let Some(fp) = slot.take() else { return "skip".into() };
                let st = self.provider.get_storage(g).unwrap();
                match st.write_facts(fp) {
                    Err(_) => "err".into(),
                    Ok(ix) => {
                        let s = format!("X,;{}", u.dump(&ix));
                        self.idxs.push(Some(ix));
                        s
                    }
                }
            }
            _ => "skip".into(),
        }
    }
}

#[cfg(checkpoint_has_pending)]
fn checkpoint_parts(c: &Checkpoint) -> (usize, usize) {
    (c.index, c.pending)
}
#[cfg(checkpoint_has_pending)]
fn checkpoint_from(p: (usize, usize)) -> Checkpoint {
    Checkpoint { index: p.0, pending: p.1 }
}
#[cfg(not(checkpoint_has_pending))]
fn checkpoint_parts(c: &Checkpoint) -> (usize, usize) {
    (c.index, 0)
}
#[cfg(not(checkpoint_has_pending))]
fn checkpoint_from(p: (usize, usize)) -> Checkpoint {
    Checkpoint { index: p.0 }
}

fn run_case<SP: StorageProvider>(provider: SP, mem: bool, u: &Universe, ops: &str) -> String {
    let mut w = World { provider, graph: None, persps: vec![], fps: vec![], segs: vec![], idxs: vec![], mem };
    let mut out = Vec::new();
    for op in ops.split(';').filter(|o| !o.is_empty()) {
        let r = panic::catch_unwind(panic::AssertUnwindSafe(|| w.step(u, op)));
        match r {
            Ok(s) => out.push(s),
            Err(_) => {
                out.push("panic".into());
                break;
            }
        }
    }
    out.join("|")
}

fn main() {
    panic::set_hook(Box::new(|_| {}));
    let stdin = io::stdin();
    let out = io::stdout();
    let mut out = out.lock();
    let scratch = std::env::temp_dir().join(format!("hx-facts-{}", std::process::id()));
    for (n, line) in stdin.lock().lines().enumerate() {
        let line = line.unwrap();
        let t: Vec<&str> = line.split_whitespace().collect();
        if t.len() < 5 {
            writeln!(out, "bad").unwrap();
            continue;
        }
        let u = Universe::parse(t[1], t[2], t[3]);
        let res = if t[0] == "file" {
            let dir = scratch.join(n.to_string());
            std::fs::create_dir_all(&dir).unwrap();
            let r = match FileManager::new(&dir) {
                Ok(m) => run_case(LinearStorageProvider::new(m), false, &u, t[4]),
                Err(_) => "nofile".to_string(),
            };
            let _ = std::fs::remove_dir_all(&dir);
            r
        } else {
            run_case(LinearStorageProvider::new(Manager::new()), true, &u, t[4])
        };
        writeln!(out, "{res}").unwrap();
    }
    let _ = std::fs::remove_dir_all(&scratch);
}
