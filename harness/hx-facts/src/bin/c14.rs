//! C14 (and the session half of C13) implementation-side runner: builds a committed
//! fact state through the real storage API, opens REAL `Session`s on a `ClientState`
//! and runs `Session::action` / `Session::receive` with a scripted policy.
//!
//! stdin: one case per line: `<mem|file> <names> <keys> <prefixes> <op;op;...>`
//! storage ops as in c12 (N, I, D, A, C, W, O, T, i, d, w) print `-`.
//!   G:s        commit_heads(head of segment s, that segment's fact index)
//!   g:s:j      commit_heads(head of segment s, written index j)
//!   S          ClientState::session
//!   a:q:ok:script   Session::action on session q; ok = 1 -> the policy succeeds, 0 -> it fails after the script
//!   r:q:ok:script   Session::receive (the script travels in the command bytes)
//! script: items separated by `+`: I/name/key/val  D/name/key  Q/name/key  P/name/prefix  U/id
//! output per step: `-`, `skip`, `err`, or for calls
//!   `<ok|fail>,<frame>;<seen &-separated>;<exact>;<prefix>`   (dump = full query dump after the call,
//!   taken by a read-only probe action; frame = `=` when heads and fact cache are unchanged by the call)
use std::{
    cell::RefCell,
    io::{self, BufRead, Write as _},
    panic,
};

use aranya_runtime::{
    ActionPlacement, Address, ClientState, Command, CommandPlacement, FactPerspective, GraphId, HeadSet,
    LocatedAddress, Location, MergeIds, Perspective, Policy, PolicyError, PolicyId, PolicyStore, Prior,
    Query, QueryMut, Segment, Session, Sink, Storage, StorageProvider,
    storage::linear::{LinearStorageProvider, libc::FileManager, testing::Manager},
};
use hx_facts::*;

thread_local! {
    static SEEN: RefCell<Vec<String>> = const { RefCell::new(Vec::new()) };
    static UNIVERSE: RefCell<Option<Universe>> = const { RefCell::new(None) };
}

struct Script {
    text: String,
    ok: bool,
}

struct ScriptPolicy;
struct ScriptStore;

impl PolicyStore for ScriptStore {
    type Policy = ScriptPolicy;
    type Effect = ();
    fn add_policy(&mut self, _policy: &[u8]) -> Result<PolicyId, PolicyError> {
        Ok(PolicyId::new(0))
    }
    fn get_policy(&self, _id: PolicyId) -> Result<&Self::Policy, PolicyError> {
        Ok(&ScriptPolicy)
    }
}

fn one_query<Q: Query>(q: &Q, name: &str, key: &[Vec<u8>]) -> String {
    match q.query(name, &bytes_of(key)) {
        Ok(Some(v)) => format!("Q{}", enc_val(&v)),
        Ok(None) => "Q-".into(),
        Err(_) => "QE".into(),
    }
}
fn one_prefix<Q: Query>(q: &Q, name: &str, p: &[Vec<u8>]) -> String {
    match q.query_prefix(name, &bytes_of(p)) {
        Err(_) => "PE".into(),
        Ok(it) => {
            let mut items = Vec::new();
            for r in it {
                match r {
                    Ok(f) => items.push(format!("{}={}", enc_key(&f.key), enc_val(&f.value))),
                    Err(_) => return "PE".into(),
                }
            }
            if items.is_empty() { "P-".into() } else { format!("P{}", items.join("+")) }
        }
    }
}

/// Runs the fact part of a script; publishing needs a `Perspective` and is handled by the caller.
fn run_item<F: FactPerspective>(facts: &mut F, item: &str) -> Result<Option<u64>, PolicyError> {
    let t: Vec<&str> = item.split('/').collect();
    match t[0] {
        "I" => facts.insert(dec_name(t[1]), keys_of(&dec_key(t[2])), dec_val(t[3]).into()).map_err(|_| PolicyError::Write)?,
        "D" => facts.delete(dec_name(t[1]), keys_of(&dec_key(t[2]))).map_err(|_| PolicyError::Write)?,
        "Q" => {
            let s = one_query(&*facts, &dec_name(t[1]), &dec_key(t[2]));
            SEEN.with(|v| v.borrow_mut().push(s));
        }
        "P" => {
            let s = one_prefix(&*facts, &dec_name(t[1]), &dec_key(t[2]));
            SEEN.with(|v| v.borrow_mut().push(s));
        }
        "U" => return Ok(Some(t[1].parse().unwrap())),
        "Z" => {
            // probe: the full dump
            let s = UNIVERSE.with(|u| u.borrow().as_ref().unwrap().dump(&*facts));
            SEEN.with(|v| v.borrow_mut().push(s));
        }
        _ => {}
    }
    Ok(None)
}

impl Policy for ScriptPolicy {
    type Action<'a> = &'a Script;
    type Effect = ();
    type Command<'a> = TestCmd;

    fn serial(&self) -> u32 {
        0
    }

    fn call_rule(
        &self,
        command: &impl Command,
        facts: &mut impl FactPerspective,
        _sink: &mut impl Sink<Self::Effect>,
        _placement: CommandPlacement,
    ) -> Result<(), PolicyError> {
        // received command: bytes = `<0|1>` + script text
        let text = String::from_utf8(command.bytes().to_vec()).unwrap();
        let (ok, script) = text.split_at(1);
        for item in script.split('+').filter(|s| !s.is_empty()) {
            run_item(facts, item)?;
        }
        if ok == "1" { Ok(()) } else { Err(PolicyError::Rejected) }
    }

    fn call_action(
        &self,
        action: Self::Action<'_>,
        facts: &mut impl Perspective,
        _sink: &mut impl Sink<Self::Effect>,
        _placement: ActionPlacement,
    ) -> Result<(), PolicyError> {
        for item in action.text.split('+').filter(|s| !s.is_empty()) {
            if let Some(id) = run_item(facts, item)? {
                let parent = facts.head_address()?;
                let c = PublishCmd { id: cmd_id(id), parent };
                facts.add_command(&c).map_err(|_| PolicyError::Write)?;
            }
        }
        if action.ok { Ok(()) } else { Err(PolicyError::Rejected) }
    }

    fn merge<'a>(&self, _target: &'a mut [u8], ids: MergeIds) -> Result<Self::Command<'a>, PolicyError> {
        let (l, r): (Address, Address) = ids.into();
        Ok(TestCmd { id: cmd_id(999_999), parent: Prior::Merge(l, r) })
    }
}

/// A command a session accepts: no policy, basic priority, the session's fake parent.
struct PublishCmd {
    id: aranya_runtime::CmdId,
    parent: Prior<Address>,
}
impl Command for PublishCmd {
    fn priority(&self) -> aranya_runtime::Priority {
        aranya_runtime::Priority::Basic(0)
    }
    fn id(&self) -> aranya_runtime::CmdId {
        self.id
    }
    fn parent(&self) -> Prior<Address> {
        self.parent
    }
    fn policy(&self) -> Option<&[u8]> {
        None
    }
    fn bytes(&self) -> &[u8] {
        b"pub"
    }
}

struct MsgSink(Vec<Vec<u8>>);
impl<'b> Sink<&'b [u8]> for MsgSink {
    fn begin(&mut self) {}
    fn consume(&mut self, e: &'b [u8]) {
        self.0.push(e.to_vec());
    }
    fn rollback(&mut self) {
        self.0.clear();
    }
    fn commit(&mut self) {}
}
struct UnitSink;
impl Sink<()> for UnitSink {
    fn begin(&mut self) {}
    fn consume(&mut self, _e: ()) {}
    fn rollback(&mut self) {}
    fn commit(&mut self) {}
}

struct World<SP: StorageProvider> {
    client: ClientState<ScriptStore, SP>,
    graph: Option<GraphId>,
    persps: Vec<Option<SP::Perspective>>,
    fps: Vec<Option<<SP::Storage as Storage>::FactPerspective>>,
    segs: Vec<SP::Segment>,
    idxs: Vec<Option<<SP::Storage as Storage>::FactIndex>>,
    sessions: Vec<Session<SP, ScriptStore>>,
}

impl<SP: StorageProvider> World<SP> {
    fn frame(&mut self, u: &Universe) -> String {
        let Some(g) = self.graph else { return "nograph".into() };
        let st = self.client.provider().get_storage(g).unwrap();
        let heads: Vec<String> = st.get_heads().unwrap().iter().map(|h| format!("{}@{}:{}", id_num(h.id), h.segment.get(), h.max_cut.get())).collect();
        let cache = match st.fact_cache() {
            Ok(ix) => u.dump(&ix),
            Err(_) => "E".into(),
        };
        format!("{}#{}", heads.join(","), cache)
    }

    fn dup_index(&mut self, j: usize, heads: HeadSet) -> Option<()> {
        // commit written index j as the fact cache, keeping a usable copy in the slot
        let g = self.graph?;
        let idx = self.idxs.get_mut(j)?.take()?;
        let st = self.client.provider().get_storage(g).ok()?;
        st.commit_heads(heads, idx).ok()?;
        self.idxs[j] = Some(st.fact_cache().ok()?);
        Some(())
    }

    fn step(&mut self, u: &Universe, op: &str) -> String {
        let f: Vec<&str> = op.split(':').collect();
        let num = |i: usize| -> usize { f[i].parse().unwrap() };
        match f[0] {
            "N" => {
                let p = self.client.provider().new_perspective(PolicyId::new(0));
                self.persps.push(Some(p));
                "-".into()
            }
            "I" | "D" | "A" => {
                let Some(Some(p)) = self.persps.get_mut(num(1)) else { return "skip".into() };
                match f[0] {
                    "I" => p.insert(dec_name(f[2]), keys_of(&dec_key(f[3])), dec_val(f[4]).into()).unwrap(),
                    "D" => p.delete(dec_name(f[2]), keys_of(&dec_key(f[3]))).unwrap(),
                    _ => {
                        let parent = p.head_address().unwrap();
                        let c = TestCmd { id: cmd_id(f[2].parse().unwrap()), parent };
                        if p.add_command(&c).is_err() {
                            return "err".into();
                        }
                    }
                }
                "-".into()
            }
            "C" => {
                let Some(slot) = self.persps.get_mut(num(1)) else { return "skip".into() };
                let Some(p) = slot.take() else { return "skip".into() };
                if self.graph.is_some() {
                    return "skip".into();
                }
                match self.client.provider().new_storage(p) {
                    Err(_) => "err".into(),
                    Ok((g, st)) => {
                        self.graph = Some(g);
                        let loc = st.get_heads().unwrap().iter().next().unwrap().location();
                        let seg = st.get_segment(loc).unwrap();
                        self.segs.push(seg);
                        "-".into()
                    }
                }
            }
            "W" => {
                let Some(g) = self.graph else { return "skip".into() };
                let Some(slot) = self.persps.get_mut(num(1)) else { return "skip".into() };
                let Some(p) = slot.take() else { return "skip".into() };
                let st = self.client.provider().get_storage(g).unwrap();
                match st.write(p) {
                    Err(_) => "err".into(),
                    Ok(seg) => {
                        self.segs.push(seg);
                        "-".into()
                    }
                }
            }
            "O" | "T" => {
                let (s, i) = (num(1), num(2) as u64);
                let Some(g) = self.graph else { return "skip".into() };
                let Some(seg) = self.segs.get(s) else { return "skip".into() };
                let loc = Location::new(seg.index(), mc(seg.shortest_max_cut().get() + i));
                let st = self.client.provider().get_storage(g).unwrap();
                if f[0] == "O" {
                    match st.get_linear_perspective(loc) {
                        Err(_) => "err".into(),
                        Ok(p) => {
                            self.persps.push(Some(p));
                            "-".into()
                        }
                    }
                } else {
                    match st.get_fact_perspective(loc) {
                        Err(_) => "err".into(),
                        Ok(fp) => {
                            self.fps.push(Some(fp));
                            "-".into()
                        }
                    }
                }
            }
            "i" | "d" => {
                let Some(Some(fp)) = self.fps.get_mut(num(1)) else { return "skip".into() };
                if f[0] == "i" {
                    fp.insert(dec_name(f[2]), keys_of(&dec_key(f[3])), dec_val(f[4]).into()).unwrap();
                } else {
                    fp.delete(dec_name(f[2]), keys_of(&dec_key(f[3]))).unwrap();
                }
                "-".into()
            }
            "w" => {
                let Some(g) = self.graph else { return "skip".into() };
                let Some(slot) = self.fps.get_mut(num(1)) else { return "skip".into() };
                let Some(fp) = slot.take() else { return "skip".into() };
                let st = self.client.provider().get_storage(g).unwrap();
                match st.write_facts(fp) {
                    Err(_) => "err".into(),
                    Ok(ix) => {
                        self.idxs.push(Some(ix));
                        "-".into()
                    }
                }
            }
            "G" | "g" => {
                let Some(g) = self.graph else { return "skip".into() };
                let Some(seg) = self.segs.get(num(1)) else { return "skip".into() };
                let head = LocatedAddress { id: seg.head_id(), segment: seg.index(), max_cut: seg.longest_max_cut().unwrap() };
                let heads = HeadSet::single(head);
                if f[0] == "G" {
                    let ix = seg.facts().unwrap();
                    let st = self.client.provider().get_storage(g).unwrap();
                    st.commit_heads(heads, ix).unwrap();
                    "-".into()
                } else if self.dup_index(num(2), heads).is_some() {
                    "-".into()
                } else {
                    "skip".into()
                }
            }
            "S" => {
                let Some(g) = self.graph else { return "skip".into() };
                match self.client.session(g) {
                    Ok(s) => {
                        self.sessions.push(s);
                        "-".into()
                    }
                    Err(_) => "err".into(),
                }
            }
            "a" | "r" => {
                let q = num(1);
                if q >= self.sessions.len() {
                    return "skip".into();
                }
                let ok = f[2] == "1";
                let script = f.get(3).copied().unwrap_or("");
                let before = self.frame(u);
                SEEN.with(|v| v.borrow_mut().clear());
                let res = if f[0] == "a" {
                    let sc = Script { text: script.to_string(), ok };
                    let mut ms = MsgSink(vec![]);
                    self.sessions[q].action(&self.client, &mut UnitSink, &mut ms, &sc).is_ok()
                } else {
                    let mut bytes = cmd_id(77).as_bytes().to_vec();
                    bytes.extend_from_slice(if ok { b"1" } else { b"0" });
                    bytes.extend_from_slice(script.as_bytes());
                    self.sessions[q].receive(&self.client, &mut UnitSink, &bytes).is_ok()
                };
                let seen: Vec<String> = SEEN.with(|v| v.borrow().clone());
                // read-only probe: the session's full observable fact state after the call
                SEEN.with(|v| v.borrow_mut().clear());
                let probe = Script { text: "Z".into(), ok: true };
                let mut ms = MsgSink(vec![]);
                let pres = self.sessions[q].action(&self.client, &mut UnitSink, &mut ms, &probe).is_ok();
                let dump = SEEN.with(|v| v.borrow().first().cloned()).unwrap_or_else(|| "E;E".into());
                let after = self.frame(u);
                let frame = if before == after { "=".to_string() } else { format!("CHANGED[{before}]->[{after}]") };
                if !pres {
                    return "err".into();
                }
                format!("{},{};{};{}", if res { "ok" } else { "fail" }, frame, seen.join("&"), dump)
            }
            _ => "skip".into(),
        }
    }
}

fn run_case<SP: StorageProvider>(provider: SP, u: &Universe, ops: &str) -> String {
    let mut w = World {
        client: ClientState::new(ScriptStore, provider),
        graph: None,
        persps: vec![],
        fps: vec![],
        segs: vec![],
        idxs: vec![],
        sessions: vec![],
    };
    let mut out = Vec::new();
    for op in ops.split(';').filter(|o| !o.is_empty()) {
        let r = panic::catch_unwind(panic::AssertUnwindSafe(|| w.step(u, op)));
        match r {
            Ok(s) => out.push(s),
            Err(_) => {
                out.push("panic".into());
                break;
            }
        }
    }
    out.join("|")
}

fn main() {
    panic::set_hook(Box::new(|_| {}));
    let stdin = io::stdin();
    let out = io::stdout();
    let mut out = out.lock();
    let scratch = std::env::temp_dir().join(format!("hx-facts14-{}", std::process::id()));
    for (n, line) in stdin.lock().lines().enumerate() {
        let line = line.unwrap();
        let t: Vec<&str> = line.split_whitespace().collect();
        if t.len() < 5 {
            writeln!(out, "bad").unwrap();
            continue;
        }
        UNIVERSE.with(|u| *u.borrow_mut() = Some(Universe::parse(t[1], t[2], t[3])));
        let u = Universe::parse(t[1], t[2], t[3]);
        let res = if t[0] == "file" {
            let dir = scratch.join(n.to_string());
            std::fs::create_dir_all(&dir).unwrap();
            let r = match FileManager::new(&dir) {
                Ok(m) => run_case(LinearStorageProvider::new(m), &u, t[4]),
                Err(_) => "nofile".to_string(),
            };
            let _ = std::fs::remove_dir_all(&dir);
            r
        } else {
            run_case(LinearStorageProvider::new(Manager::new()), &u, t[4])
        };
        writeln!(out, "{res}").unwrap();
    }
    let _ = std::fs::remove_dir_all(&scratch);
}
