//! Shared pieces of the fact-storage runners (C12, C13, C14): text encodings of
//! names / compound keys / values, a minimal `Command`, and query dumps.
use aranya_runtime::{Address, Bytes, CmdId, Command, Keys, MaxCut, Prior, Priority, Query};

pub fn unhex(s: &str) -> Vec<u8> {
    (0..s.len() / 2).map(|i| u8::from_str_radix(&s[2 * i..2 * i + 2], 16).unwrap()).collect()
}
pub fn hex(b: &[u8]) -> String {
    b.iter().map(|x| format!("{x:02x}")).collect()
}
/// value: `_` = empty byte string, otherwise hex
pub fn dec_val(s: &str) -> Vec<u8> {
    if s == "_" { vec![] } else { unhex(s) }
}
pub fn enc_val(b: &[u8]) -> String {
    if b.is_empty() { "_".into() } else { hex(b) }
}
/// name: `_` = empty string, otherwise hex of UTF-8
pub fn dec_name(s: &str) -> String {
    String::from_utf8(dec_val(s)).unwrap()
}
/// compound key: `~` = no components; components joined by `.`, `-` = empty component
pub fn dec_key(s: &str) -> Vec<Vec<u8>> {
    if s == "~" {
        return vec![];
    }
    s.split('.').map(|c| if c == "-" { vec![] } else { unhex(c) }).collect()
}
pub fn enc_key(k: &[Bytes]) -> String {
    if k.is_empty() {
        return "~".into();
    }
    k.iter().map(|c| if c.is_empty() { "-".to_string() } else { hex(c) }).collect::<Vec<_>>().join(".")
}
pub fn keys_of(k: &[Vec<u8>]) -> Keys {
    k.iter().map(|c| Bytes::from(c.as_slice())).collect()
}
pub fn bytes_of(k: &[Vec<u8>]) -> Vec<Bytes> {
    k.iter().map(|c| Bytes::from(c.as_slice())).collect()
}

pub fn cmd_id(n: u64) -> CmdId {
    let mut b = [0u8; 32];
    b[..8].copy_from_slice(&n.to_le_bytes());
    // keep ids away from the all-zero id
    b[31] = 0xC1;
    CmdId::from_bytes(b)
}
pub fn id_num(id: CmdId) -> u64 {
    let b = id.as_bytes();
    u64::from_le_bytes(b[..8].try_into().unwrap())
}

/// A command that is nothing but an id with a parent.
pub struct TestCmd {
    pub id: CmdId,
    pub parent: Prior<Address>,
}
impl Command for TestCmd {
    fn priority(&self) -> Priority {
        match self.parent {
            Prior::None => Priority::Init,
            Prior::Single(_) => Priority::Basic(0),
            Prior::Merge(_, _) => Priority::Merge,
        }
    }
    fn id(&self) -> CmdId {
        self.id
    }
    fn parent(&self) -> Prior<Address> {
        self.parent
    }
    fn policy(&self) -> Option<&[u8]> {
        match self.parent {
            Prior::None => Some(b""),
            _ => None,
        }
    }
    fn bytes(&self) -> &[u8] {
        b"x"
    }
}

/// What a perspective created with this head address starts counting max cuts from.
pub fn base_max_cut(head: &Prior<Address>) -> u64 {
    match head {
        Prior::None => 0,
        Prior::Single(a) => a.max_cut.get() + 1,
        Prior::Merge(l, r) => l.max_cut.get().max(r.max_cut.get()) + 1,
    }
}
pub fn fmt_head(head: &Prior<Address>, base: u64, fresh: bool) -> String {
    match head {
        Prior::None => "n".into(),
        Prior::Merge(_, _) => "m".into(),
        // the parent address the perspective was opened on is printed as `p`; commands added since as id.offset
        Prior::Single(a) => {
            if fresh {
                "p".into()
            } else {
                format!("s{}.{}", id_num(a.id), a.max_cut.get() - base)
            }
        }
    }
}

pub struct Universe {
    pub names: Vec<String>,
    pub keys: Vec<Vec<Vec<u8>>>,
    pub prefixes: Vec<Vec<Vec<u8>>>,
}
impl Universe {
    pub fn parse(names: &str, keys: &str, prefixes: &str) -> Self {
        Universe {
            names: names.split(',').map(dec_name).collect(),
            keys: keys.split(',').map(dec_key).collect(),
            prefixes: prefixes.split(',').map(dec_key).collect(),
        }
    }
    /// `e1,e2,...;p1/p2/...` — every exact query (names x keys) then every prefix query (names x prefixes).
    pub fn dump<Q: Query>(&self, q: &Q) -> String {
        let mut ex = Vec::new();
        for n in &self.names {
            for k in &self.keys {
                let kb = bytes_of(k);
                ex.push(match q.query(n, &kb) {
                    Ok(Some(v)) => enc_val(&v),
                    Ok(None) => "-".to_string(),
                    Err(_) => "E".to_string(),
                });
            }
        }
        let mut pf = Vec::new();
        for n in &self.names {
            for p in &self.prefixes {
                let pb = bytes_of(p);
                pf.push(match q.query_prefix(n, &pb) {
                    Err(_) => "E".to_string(),
                    Ok(it) => {
                        let mut items = Vec::new();
                        let mut bad = false;
                        for r in it {
                            match r {
                                Ok(f) => items.push(format!("{}={}", enc_key(&f.key), enc_val(&f.value))),
                                Err(_) => {
                                    bad = true;
                                    break;
                                }
                            }
                        }
                        if bad {
                            "E".to_string()
                        } else if items.is_empty() {
                            "-".to_string()
                        } else {
                            items.join("+")
                        }
                    }
                });
            }
        }
        format!("{};{}", ex.join(","), pf.join("/"))
    }
}

pub fn mc(n: u64) -> MaxCut {
    MaxCut::new(n)
}
