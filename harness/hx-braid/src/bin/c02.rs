//! hx-braid / c02: drives the REAL `aranya_runtime::ClientState` (add_commands / commit, i.e.
//! `add_merge`, `evaluate_braid`, `braid`, `last_common_ancestor`, `ConvergenceMap`,
//! `BraidResult`/`BraidIter`) with a deterministic sequence policy and reports, per operation,
//! the order in which the braid applied commands.  Shared by the checks C02, C03 and C05.
//!
//! stdin (ASCII):
//!   case <name> <mem|libc>
//!   c <id> <prio> <par> <data>   prio: m | b<n> | f | i     par: - | s<id> | m<l>,<r>
//!                                data: a (append id to the seq fact) | q (quiet: no fact)
//!                                      n<id> (reject if <id> is in seq, else append)
//!                                      p<id> (reject if <id> is NOT in seq, else append)
//!   o add <id,id,...>            one `add_commands` call (one batch)
//!   o flush                      `Transaction::flush`
//!   o commit                     `ClientState::commit` (a fresh transaction is opened afterwards)
//!   end
//! stdout: `case <name>` then one line per op:
//!   <res>|L=<log>|S=<bw>:<br>:<cw>:<cr>|h=<head ids>|seq=<ids>
//! log entries (comma separated): `b` sink.begin, `k` sink.commit, `r` sink.rollback,
//!   `O<id>` call_rule at origin, `B<id>` call_rule in braid; the first `B` after a `b` is
//!   preceded by `^<id.id...>` = the seq fact the braid started from (the stored state of the base).
//! S = spill traffic of this op: writes/reads of the braid-result spill and of the convergence spill.
use std::{
    cell::{Cell, RefCell},
    collections::BTreeMap,
    io::{self, BufRead, Write as _},
    panic::{self, AssertUnwindSafe},
    rc::Rc,
};

use aranya_runtime::{
    Address, ClientError, ClientState, CmdId, Command, CommandPlacement, FactPerspective, GraphId,
    Keys, MaxCut, MergeIds, Perspective, Policy, PolicyError, PolicyId, PolicyStore, Prior,
    Priority, Query, RuntimeBuffers, Sink, Storage, StorageError, StorageProvider,
    policy::ActionPlacement,
    storage::{
        LibcSpill, MemSpill, Spill,
        linear::{LinearStorageProvider, libc::FileManager, testing::MemStorageProvider},
    },
};

type Log = Rc<RefCell<Vec<String>>>;

fn cmd_id(n: u64) -> CmdId {
    let mut b = [0u8; 32];
    b[24..].copy_from_slice(&n.to_be_bytes());
    CmdId::from_bytes(b)
}
fn id_num(id: CmdId) -> u64 {
    let b = id.as_array();
    let mut a = [0u8; 8];
    a.copy_from_slice(&b[24..]);
    u64::from_be_bytes(a)
}
fn merge_id(l: u64, r: u64) -> u64 {
    let m = (l as u128 * 1_000_003 + r as u128 * 7919 + 12345) % (1u128 << 61);
    (1u64 << 62) + m as u64
}

#[derive(Clone, Debug)]
struct SCmd {
    id: CmdId,
    prio: Priority,
    parent: Prior<Address>,
    policy: Option<Vec<u8>>,
    data: Vec<u8>,
}
impl Command for SCmd {
    fn priority(&self) -> Priority {
        self.prio.clone()
    }
    fn id(&self) -> CmdId {
        self.id
    }
    fn parent(&self) -> Prior<Address> {
        self.parent
    }
    fn policy(&self) -> Option<&[u8]> {
        self.policy.as_deref()
    }
    fn bytes(&self) -> &[u8] {
        &self.data
    }
}

fn dec_seq(b: &[u8]) -> Vec<u64> {
    b.chunks(8)
        .map(|c| {
            let mut a = [0u8; 8];
            a[..c.len()].copy_from_slice(c);
            u64::from_be_bytes(a)
        })
        .collect()
}
fn get_seq(q: &impl Query) -> Result<Vec<u64>, StorageError> {
    Ok(q.query("seq", &Keys::default())?.map(|b| dec_seq(&b)).unwrap_or_default())
}
fn fmt_ids(v: &[u64]) -> String {
    v.iter().map(|x| x.to_string()).collect::<Vec<_>>().join(".")
}

struct SPolicy {
    log: Log,
    fresh: Rc<Cell<bool>>,
}
impl Policy for SPolicy {
    type Action<'a> = ();
    type Effect = ();
    type Command<'a> = SCmd;
    fn serial(&self) -> u32 {
        0
    }
    fn call_rule(
        &self,
        command: &impl Command,
        facts: &mut impl FactPerspective,
        _sink: &mut impl Sink<()>,
        placement: CommandPlacement,
    ) -> Result<(), PolicyError> {
        let id = id_num(command.id());
        let seq = get_seq(facts).map_err(|_| PolicyError::Read)?;
        match placement {
            CommandPlacement::OnGraphAtOrigin => self.log.borrow_mut().push(format!("O{id}")),
            CommandPlacement::OnGraphInBraid => {
                if self.fresh.replace(false) {
                    self.log.borrow_mut().push(format!("^{}", fmt_ids(&seq)));
                }
                self.log.borrow_mut().push(format!("B{id}"));
            }
            CommandPlacement::OffGraph => self.log.borrow_mut().push(format!("F{id}")),
        }
        if matches!(command.parent(), Prior::Merge(..)) {
            // a merge command must never reach the policy (C02)
            self.log.borrow_mut().push(format!("MERGE-EVALUATED{id}"));
        }
        let data = command.bytes();
        let arg = |d: &[u8]| -> u64 { core::str::from_utf8(&d[1..]).ok().and_then(|s| s.parse().ok()).unwrap_or(0) };
        match data.first().copied() {
            Some(b'q') => return Ok(()),
            Some(b'n') => {
                if seq.contains(&arg(data)) {
                    return Err(PolicyError::Rejected);
                }
            }
            Some(b'p') => {
                if !seq.contains(&arg(data)) {
                    return Err(PolicyError::Rejected);
                }
            }
            _ => {}
        }
        let mut v: Vec<u8> = seq.iter().flat_map(|x| x.to_be_bytes()).collect();
        v.extend_from_slice(&id.to_be_bytes());
        facts.insert("seq".into(), Keys::default(), v.into_boxed_slice()).map_err(|_| PolicyError::Write)?;
        Ok(())
    }
    fn call_action(
        &self,
        _action: (),
        _facts: &mut impl Perspective,
        _sink: &mut impl Sink<()>,
        _placement: ActionPlacement,
    ) -> Result<(), PolicyError> {
        Err(PolicyError::InternalError)
    }
    fn merge<'a>(&self, _target: &'a mut [u8], ids: MergeIds) -> Result<SCmd, PolicyError> {
        let (l, r): (Address, Address) = ids.into();
        Ok(SCmd {
            id: cmd_id(merge_id(id_num(l.id), id_num(r.id))),
            prio: Priority::Merge,
            parent: Prior::Merge(l, r),
            policy: None,
            data: vec![],
        })
    }
}
struct SStore {
    pol: SPolicy,
}
impl PolicyStore for SStore {
    type Policy = SPolicy;
    type Effect = ();
    fn add_policy(&mut self, _policy: &[u8]) -> Result<PolicyId, PolicyError> {
        Ok(PolicyId::new(0))
    }
    fn get_policy(&self, _id: PolicyId) -> Result<&SPolicy, PolicyError> {
        Ok(&self.pol)
    }
}

struct LSink {
    log: Log,
    fresh: Rc<Cell<bool>>,
}
impl Sink<()> for LSink {
    fn begin(&mut self) {
        self.fresh.set(true);
        self.log.borrow_mut().push("b".into());
    }
    fn consume(&mut self, _e: ()) {}
    fn rollback(&mut self) {
        self.log.borrow_mut().push("r".into());
    }
    fn commit(&mut self) {
        self.log.borrow_mut().push("k".into());
    }
}

// ---- counting spill -------------------------------------------------------------------------
thread_local! {
    static SPILL_N: Cell<u64> = const { Cell::new(0) };
    static SPILL_STATS: RefCell<[u64; 4]> = const { RefCell::new([0; 4]) };
}
struct CountSpill<F> {
    inner: F,
    kind: usize, // 0 = braid result (created first in `braid`), 1 = convergence map
}
impl<F: Spill> Spill for CountSpill<F> {
    fn write_at(&mut self, offset: usize, data: &[u8]) -> Result<(), StorageError> {
        SPILL_STATS.with(|s| s.borrow_mut()[self.kind * 2] += 1);
        self.inner.write_at(offset, data)
    }
    fn read_at(&mut self, offset: usize, data: &mut [u8]) -> Result<(), StorageError> {
        SPILL_STATS.with(|s| s.borrow_mut()[self.kind * 2 + 1] += 1);
        self.inner.read_at(offset, data)
    }
}
fn count<F: Spill>(inner: Result<F, StorageError>) -> Result<CountSpill<F>, StorageError> {
    let n = SPILL_N.with(|c| c.replace(c.get() + 1));
    Ok(CountSpill { inner: inner?, kind: (n % 2) as usize })
}

fn perr(e: &PolicyError) -> &'static str {
    match e {
        PolicyError::Read => "Read",
        PolicyError::Write => "Write",
        PolicyError::Rejected => "Rejected",
        PolicyError::Panic => "Panic",
        PolicyError::InternalError => "InternalError",
        PolicyError::Bug(_) => "Bug",
        _ => "Other",
    }
}
fn cerr(e: &ClientError) -> String {
    match e {
        ClientError::NoSuchParent(id) => format!("NoSuchParent:{}", id_num(*id)),
        ClientError::PolicyError(p) => format!("Policy:{}", perr(p)),
        ClientError::StorageError(s) => format!("Storage:{s:?}").split('(').next().unwrap_or("Storage").to_string(),
        ClientError::InitError => "InitError".into(),
        ClientError::ParallelFinalize => "ParallelFinalize".into(),
        ClientError::ConcurrentTransaction => "ConcurrentTransaction".into(),
        ClientError::Bug(_) => "Bug".into(),
        _ => "Other".into(),
    }
}

#[derive(Clone)]
struct TEntry {
    prio: Priority,
    par: Prior<u64>,
    data: String,
}
struct Table {
    t: BTreeMap<u64, TEntry>,
    mc: RefCell<BTreeMap<u64, u64>>,
}
impl Table {
    fn max_cut(&self, id: u64) -> u64 {
        // iterative (graphs may be thousands of commands deep)
        let mut stack = vec![id];
        while let Some(&x) = stack.last() {
            if self.mc.borrow().contains_key(&x) {
                stack.pop();
                continue;
            }
            let ps: Vec<u64> = match self.t.get(&x).map(|e| e.par) {
                None | Some(Prior::None) => vec![],
                Some(Prior::Single(p)) => vec![p],
                Some(Prior::Merge(l, r)) => vec![l, r],
            };
            let missing: Vec<u64> = ps.iter().copied().filter(|p| !self.mc.borrow().contains_key(p)).collect();
            if missing.is_empty() {
                let v = if ps.is_empty() || !self.t.contains_key(&x) {
                    0
                } else {
                    ps.iter().map(|p| self.mc.borrow()[p]).max().unwrap() + 1
                };
                self.mc.borrow_mut().insert(x, v);
                stack.pop();
            } else {
                stack.extend(missing);
            }
        }
        self.mc.borrow()[&id]
    }
    fn addr(&self, id: u64) -> Address {
        Address { id: cmd_id(id), max_cut: MaxCut::new(self.max_cut(id)) }
    }
    fn cmd(&self, id: u64) -> SCmd {
        let e = self.t.get(&id).cloned().unwrap_or(TEntry { prio: Priority::Basic(0), par: Prior::None, data: "a".into() });
        let parent = match e.par {
            Prior::None => Prior::None,
            Prior::Single(p) => Prior::Single(self.addr(p)),
            Prior::Merge(l, r) => Prior::Merge(self.addr(l), self.addr(r)),
        };
        let policy = if matches!(e.par, Prior::None) { Some(vec![0u8; 4]) } else { None };
        SCmd { id: cmd_id(id), prio: e.prio, parent, policy, data: e.data.into_bytes() }
    }
}

fn run_case<SP, F, MS>(provider: SP, gid_n: u64, table: &Table, ops: &[Vec<String>], make_spill: MS, out: &mut impl io::Write)
where
    SP: StorageProvider,
    F: Spill,
    MS: Fn() -> Result<F, StorageError>,
{
    let log: Log = Rc::new(RefCell::new(Vec::new()));
    let fresh = Rc::new(Cell::new(false));
    let mut client = ClientState::new(SStore { pol: SPolicy { log: log.clone(), fresh: fresh.clone() } }, provider);
    let gid = GraphId::transmute(cmd_id(gid_n));
    let mut buffers: RuntimeBuffers<SP::Segment> = RuntimeBuffers::new();
    let mut trx = Some(client.transaction(gid));
    for op in ops {
        let mut sink = LSink { log: log.clone(), fresh: fresh.clone() };
        log.borrow_mut().clear();
        SPILL_STATS.with(|s| *s.borrow_mut() = [0; 4]);
        // each braid creates its two spills in a fixed order; restart the parity per op
        SPILL_N.with(|c| c.set(0));
        let res = panic::catch_unwind(AssertUnwindSafe(|| -> String {
            match op[0].as_str() {
                "add" => {
                    let cmds: Vec<SCmd> = op[1].split(',').filter(|x| !x.is_empty()).map(|x| table.cmd(x.parse().unwrap())).collect();
                    match client.add_commands(trx.as_mut().unwrap(), &mut sink, &cmds, &mut buffers, || count(make_spill())) {
                        Ok(n) => format!("ok:{n}"),
                        Err(e) => format!("err:{}", cerr(&e)),
                    }
                }
                "flush" => match client.provider().get_storage(gid) {
                    Err(e) => format!("err:Storage:{e:?}"),
                    Ok(st) => match trx.as_mut().unwrap().flush(st) {
                        Ok(()) => "ok".into(),
                        Err(e) => format!("err:{}", cerr(&e)),
                    },
                },
                "commit" => {
                    let t = trx.take().unwrap();
                    let r = match client.commit(t, &mut sink, &mut buffers, || count(make_spill())) {
                        Ok(b) => format!("ok:{b}"),
                        Err(e) => format!("err:{}", cerr(&e)),
                    };
                    trx = Some(client.transaction(gid));
                    r
                }
                _ => "invalid".into(),
            }
        }))
        .unwrap_or_else(|_| "panic".into());
        if trx.is_none() {
            trx = Some(client.transaction(gid));
        }
        let dump = panic::catch_unwind(AssertUnwindSafe(|| -> String {
            match client.provider().get_storage(gid) {
                Err(_) => "h=-|seq=-".to_string(),
                Ok(st) => {
                    let mut hs: Vec<u64> = st.get_heads().map(|hs| hs.iter().map(|h| id_num(h.id)).collect()).unwrap_or_default();
                    hs.sort();
                    let f = st.fact_cache().and_then(|fc| get_seq(&fc)).map(|f| fmt_ids(&f)).unwrap_or_else(|e| format!("err:{e:?}"));
                    format!("h={}|seq={}", fmt_ids(&hs), f)
                }
            }
        }))
        .unwrap_or_else(|_| "dump-panic".into());
        let st = SPILL_STATS.with(|s| *s.borrow());
        writeln!(out, "{res}|L={}|S={}:{}:{}:{}|{dump}", log.borrow().join(","), st[0], st[1], st[2], st[3]).unwrap();
    }
}

fn main() {
    panic::set_hook(Box::new(|_| {}));
    let stdin = io::stdin();
    let stdout = io::stdout();
    let mut out = io::BufWriter::new(stdout.lock());
    let tmp_root = std::env::var("HX_TMP").unwrap_or_else(|_| "/verif/build/tmp-hx-braid".into());
    let mut name = String::new();
    let mut backend = String::new();
    let mut table: BTreeMap<u64, TEntry> = BTreeMap::new();
    let mut ops: Vec<Vec<String>> = Vec::new();
    let mut ncase = 0u64;
    for line in stdin.lock().lines() {
        let line = line.unwrap();
        let f: Vec<&str> = line.split_whitespace().collect();
        if f.is_empty() {
            continue;
        }
        match f[0] {
            "case" => {
                name = f[1].into();
                backend = f[2].into();
                table.clear();
                ops.clear();
            }
            "c" => {
                let par = match f[3].as_bytes()[0] {
                    b'-' => Prior::None,
                    b's' => Prior::Single(f[3][1..].parse().unwrap()),
                    _ => {
                        let (l, r) = f[3][1..].split_once(',').unwrap();
                        Prior::Merge(l.parse().unwrap(), r.parse().unwrap())
                    }
                };
                let prio = match f[2].as_bytes()[0] {
                    b'm' => Priority::Merge,
                    b'f' => Priority::Finalize,
                    b'i' => Priority::Init,
                    _ => Priority::Basic(f[2][1..].parse().unwrap()),
                };
                table.insert(f[1].parse().unwrap(), TEntry { prio, par, data: f.get(4).copied().unwrap_or("a").to_string() });
            }
            "o" => ops.push(f[1..].iter().map(|s| s.to_string()).collect()),
            "end" => {
                writeln!(out, "case {name}").unwrap();
                let tb = Table { t: table.clone(), mc: RefCell::new(BTreeMap::new()) };
                // the graph id is the id of the parentless command
                let gid = table.iter().find(|(_, e)| matches!(e.par, Prior::None)).map(|(k, _)| *k).unwrap_or(0);
                if backend == "libc" {
                    ncase += 1;
                    let dir = format!("{}-{}-{}", tmp_root, std::process::id(), ncase);
                    let _ = std::fs::remove_dir_all(&dir);
                    std::fs::create_dir_all(&dir).unwrap();
                    let sdir = format!("{dir}/spill");
                    std::fs::create_dir_all(&sdir).unwrap();
                    let fm = FileManager::new(std::path::Path::new(&dir)).expect("file manager");
                    let sp = std::path::PathBuf::from(&sdir);
                    run_case(LinearStorageProvider::new(fm), gid, &tb, &ops, || LibcSpill::new(&sp), &mut out);
                    let _ = std::fs::remove_dir_all(&dir);
                } else {
                    run_case(
                        MemStorageProvider::new(aranya_runtime::storage::linear::testing::Manager::new()),
                        gid,
                        &tb,
                        &ops,
                        MemSpill::new,
                        &mut out,
                    );
                }
                out.flush().unwrap();
            }
            _ => {}
        }
    }
}
