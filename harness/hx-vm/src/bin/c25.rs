//! C25 implementation-side runner: the real `aranya_policy_vm::{Machine, RunState}` driven by a
//! scripted, logging `MachineIO`.
//!
//! stdin: one case per line, an s-expression
//!   (case (prog I..) (structdefs ..) (factdefs ..) (actiondefs ..) (commanddefs ..) (globals ..)
//!         (labels (name ltype addr)..) (codemap TEXTHEX (instr start end)..)|(nocodemap)
//!         (ctx kind name) (stack V..) (pc N) (io ANSWER..) (steps N)
//!         (entry step)|(entry action NAME V..)|(entry policy THIS ENVELOPE)|(entry seal THIS HEX)|(entry open THIS HEX ENVELOPE))
//! stdout: one line per case
//!   (res STATUS (pc N) (stack V..) (locals (k V)..) (depth N) (log EVENT..) (codec ..) (kinds NAME..))
//! STATUS = (executing) | (exited R) | (error ERR SRC) | (panic)
use std::{
    cell::RefCell,
    collections::BTreeMap,
    io::{self, BufRead, Write},
    num::NonZeroUsize,
    panic,
    str::FromStr,
};

use aranya_crypto::policy::CmdId;
use aranya_policy_vm::*;

// ---------------------------------------------------------------- s-expressions
#[derive(Clone, Debug)]
pub enum Sx {
    A(String),
    L(Vec<Sx>),
}
pub fn parse_sx(s: &str) -> Sx {
    let toks: Vec<String> = s.replace('(', " ( ").replace(')', " ) ").split_whitespace().map(String::from).collect();
    fn go(t: &[String], i: &mut usize) -> Sx {
        if t[*i] == "(" {
            *i += 1;
            let mut v = vec![];
            while t[*i] != ")" {
                v.push(go(t, i));
            }
            *i += 1;
            Sx::L(v)
        } else {
            *i += 1;
            Sx::A(t[*i - 1].clone())
        }
    }
    let mut i = 0;
    go(&toks, &mut i)
}
impl Sx {
    pub fn atom(&self) -> &str {
        match self {
            Sx::A(s) => s,
            Sx::L(_) => panic!("harness: atom expected, got {:?}", self),
        }
    }
    pub fn list(&self) -> &[Sx] {
        match self {
            Sx::L(v) => v,
            Sx::A(_) => panic!("harness: list expected, got {:?}", self),
        }
    }
    pub fn head(&self) -> &str {
        match self {
            Sx::A(s) => s,
            Sx::L(v) => v[0].atom(),
        }
    }
    pub fn args(&self) -> &[Sx] {
        match self {
            Sx::A(_) => &[],
            Sx::L(v) => &v[1..],
        }
    }
}
pub fn unhex(s: &str) -> Vec<u8> {
    if s == "-" {
        return vec![];
    }
    (0..s.len() / 2).map(|i| u8::from_str_radix(&s[2 * i..2 * i + 2], 16).unwrap()).collect()
}
pub fn hex(b: &[u8]) -> String {
    if b.is_empty() {
        return "-".into();
    }
    b.iter().map(|x| format!("{x:02x}")).collect()
}
fn ident(s: &Sx) -> Identifier {
    Identifier::from_str(s.atom()).expect("harness: identifier")
}
fn text(s: &Sx) -> Text {
    Text::from_str(&String::from_utf8(unhex(s.atom())).unwrap()).expect("harness: text")
}
fn id32(s: &Sx) -> [u8; 32] {
    let b = unhex(s.atom());
    let mut a = [0u8; 32];
    a.copy_from_slice(&b);
    a
}

// ---------------------------------------------------------------- decoding the case
fn typekind(s: &Sx) -> TypeKind {
    match s.head() {
        "unit" => TypeKind::Unit,
        "string" => TypeKind::String,
        "bytes" => TypeKind::Bytes,
        "int" => TypeKind::Int,
        "bool" => TypeKind::Bool,
        "id" => TypeKind::Id,
        "never" => TypeKind::Never,
        "struct" => TypeKind::Struct(ident(&s.args()[0])),
        "enum" => TypeKind::Enum(ident(&s.args()[0])),
        "opt" => TypeKind::Optional(Box::new(typekind(&s.args()[0]))),
        "result" => TypeKind::Result(Box::new(ResultTypeKind { ok: typekind(&s.args()[0]), err: typekind(&s.args()[1]) })),
        x => panic!("harness: typekind {x}"),
    }
}
fn constvalue(s: &Sx) -> ConstValue {
    let a = s.args();
    match s.head() {
        "unit" => ConstValue::Unit,
        "int" => ConstValue::Int(a[0].atom().parse().unwrap()),
        "bool" => ConstValue::Bool(a[0].atom() == "1"),
        "str" => ConstValue::String(text(&a[0])),
        "struct" => ConstValue::Struct(ConstStruct {
            name: ident(&a[0]),
            fields: a[1..].iter().map(|kv| (ident(&kv.list()[0]), constvalue(&kv.list()[1]))).collect(),
        }),
        "enum" => ConstValue::Enum(ident(&a[0]), a[1].atom().parse().unwrap()),
        "none" => ConstValue::Option(None),
        "some" => ConstValue::Option(Some(Box::new(constvalue(&a[0])))),
        "ok" => ConstValue::Result(Ok(Box::new(constvalue(&a[0])))),
        "err" => ConstValue::Result(Err(Box::new(constvalue(&a[0])))),
        x => panic!("harness: constvalue {x}"),
    }
}
fn hashable(s: &Sx) -> HashableValue {
    let a = s.args();
    match s.head() {
        "int" => HashableValue::Int(a[0].atom().parse().unwrap()),
        "bool" => HashableValue::Bool(a[0].atom() == "1"),
        "str" => HashableValue::String(text(&a[0])),
        "id" => HashableValue::Id(BaseId::from_bytes(id32(&a[0]))),
        "enum" => HashableValue::Enum(ident(&a[0]), a[1].atom().parse().unwrap()),
        x => panic!("harness: hashable {x}"),
    }
}
fn factkeys(s: &Sx) -> Vec<FactKey> {
    s.list().iter().map(|kv| FactKey::new(ident(&kv.list()[0]), hashable(&kv.list()[1]))).collect()
}
fn factvalues(s: &Sx) -> Vec<FactValue> {
    s.list().iter().map(|kv| FactValue::new(ident(&kv.list()[0]), value(&kv.list()[1]))).collect()
}
fn structv(s: &Sx) -> Struct {
    let a = s.args();
    assert_eq!(s.head(), "struct");
    Struct { name: ident(&a[0]), fields: a[1..].iter().map(|kv| (ident(&kv.list()[0]), value(&kv.list()[1]))).collect() }
}
fn value(s: &Sx) -> Value {
    let a = s.args();
    match s.head() {
        "unit" => Value::Unit,
        "int" => Value::Int(a[0].atom().parse().unwrap()),
        "bool" => Value::Bool(a[0].atom() == "1"),
        "str" => Value::String(text(&a[0])),
        "bytes" => Value::Bytes(unhex(a[0].atom())),
        "struct" => Value::Struct(structv(s)),
        "fact" => Value::Fact(Fact { name: ident(&a[0]), keys: factkeys(&a[1]), values: factvalues(&a[2]) }),
        "id" => Value::Id(BaseId::from_bytes(id32(&a[0]))),
        "enum" => Value::Enum(ident(&a[0]), a[1].atom().parse().unwrap()),
        "ident" => Value::Identifier(ident(&a[0])),
        "none" => Value::Option(None),
        "some" => Value::Option(Some(Box::new(value(&a[0])))),
        "ok" => Value::Result(Ok(Box::new(value(&a[0])))),
        "err" => Value::Result(Err(Box::new(value(&a[0])))),
        x => panic!("harness: value {x}"),
    }
}
fn labeltype(s: &str) -> LabelType {
    match s {
        "action" => LabelType::Action,
        "policy" => LabelType::CommandPolicy,
        "recall" => LabelType::CommandRecall,
        "seal" => LabelType::CommandSeal,
        "open" => LabelType::CommandOpen,
        "temp" => LabelType::Temporary,
        "fn" => LabelType::Function,
        x => panic!("harness: labeltype {x}"),
    }
}
fn target(s: &Sx) -> Target {
    let a = s.args();
    match s.head() {
        "r" => Target::Resolved(a[0].atom().parse().unwrap()),
        "u" => Target::Unresolved(Label::new(ident(&a[0]), labeltype(a[1].atom()))),
        x => panic!("harness: target {x}"),
    }
}
fn wrap(s: &Sx) -> WrapType {
    match s.atom() {
        "ok" => WrapType::Ok,
        "err" => WrapType::Err,
        "some" => WrapType::Some,
        x => panic!("harness: wrap {x}"),
    }
}
fn exit_reason(s: &str) -> ExitReason {
    match s {
        "normal" => ExitReason::Normal,
        "yield" => ExitReason::Yield,
        "check" => ExitReason::Check,
        "panic" => ExitReason::Panic,
        x => panic!("harness: exit {x}"),
    }
}
fn instruction(s: &Sx) -> Instruction {
    use Instruction as I;
    let a = s.args();
    let nz = |x: &Sx| NonZeroUsize::new(x.atom().parse().unwrap()).expect("harness: nonzero");
    match s.head() {
        "Const" => I::Const(constvalue(&a[0])),
        "Identifier" => I::Identifier(ident(&a[0])),
        "Def" => I::Def(ident(&a[0])),
        "Get" => I::Get(ident(&a[0])),
        "Dup" => I::Dup,
        "Pop" => I::Pop,
        "Block" => I::Block,
        "End" => I::End,
        "Jump" => I::Jump(target(&a[0])),
        "Branch" => I::Branch(target(&a[0])),
        "Next" => I::Next,
        "Last" => I::Last,
        "Call" => I::Call(target(&a[0])),
        "Recall" => I::Recall(target(&a[0])),
        "ExtCall" => I::ExtCall(a[0].atom().parse().unwrap(), a[1].atom().parse().unwrap()),
        "Return" => I::Return,
        "Exit" => I::Exit(exit_reason(a[0].atom())),
        "Add" => I::Add,
        "Sub" => I::Sub,
        "SaturatingAdd" => I::SaturatingAdd,
        "SaturatingSub" => I::SaturatingSub,
        "Not" => I::Not,
        "Gt" => I::Gt,
        "Lt" => I::Lt,
        "Eq" => I::Eq,
        "FactNew" => I::FactNew(ident(&a[0])),
        "FactKeySet" => I::FactKeySet(ident(&a[0])),
        "FactValueSet" => I::FactValueSet(ident(&a[0])),
        "StructNew" => I::StructNew(ident(&a[0])),
        "StructSet" => I::StructSet(ident(&a[0])),
        "StructGet" => I::StructGet(ident(&a[0])),
        "MStructSet" => I::MStructSet(nz(&a[0])),
        "MStructGet" => I::MStructGet(nz(&a[0])),
        "Cast" => I::Cast(ident(&a[0])),
        "Wrap" => I::Wrap(wrap(&a[0])),
        "Is" => I::Is(wrap(&a[0])),
        "Unwrap" => I::Unwrap(wrap(&a[0])),
        "Publish" => I::Publish,
        "Create" => I::Create,
        "Delete" => I::Delete,
        "Update" => I::Update,
        "Emit" => I::Emit,
        "Query" => I::Query,
        "FactCount" => I::FactCount(a[0].atom().parse().unwrap()),
        "QueryStart" => I::QueryStart,
        "QueryNext" => I::QueryNext(ident(&a[0])),
        "Serialize" => I::Serialize,
        "Deserialize" => I::Deserialize,
        "SaveSP" => I::SaveSP,
        "RestoreSP" => I::RestoreSP,
        "Meta" => match a[0].head() {
            "finish" => I::Meta(Meta::Finish(a[0].args()[0].atom() == "1")),
            "ffi" => I::Meta(Meta::FFI(ident(&a[0].args()[0]), ident(&a[0].args()[1]))),
            x => panic!("harness: meta {x}"),
        },
        x => panic!("harness: unknown instruction kind {x}"),
    }
}
fn fields(s: &[Sx]) -> Vec<Field> {
    s.iter().map(|f| Field { name: ident(&f.list()[0]), ty: typekind(&f.list()[1]) }).collect()
}

// ---------------------------------------------------------------- encoding results
fn show_hv(v: &HashableValue) -> String {
    show_value(&v.clone().into())
}
fn show_value(v: &Value) -> String {
    match v {
        Value::Unit => "(unit)".into(),
        Value::Int(i) => format!("(int {i})"),
        Value::Bool(b) => format!("(bool {})", *b as u8),
        Value::String(s) => format!("(str {})", hex(s.as_str().as_bytes())),
        Value::Bytes(b) => format!("(bytes {})", hex(b)),
        Value::Struct(s) => show_struct(s),
        Value::Fact(f) => format!(
            "(fact {} ({}) ({}))",
            f.name,
            f.keys.iter().map(|k| format!("({} {})", k.identifier, show_hv(&k.value))).collect::<Vec<_>>().join(" "),
            f.values.iter().map(|k| format!("({} {})", k.identifier, show_value(&k.value))).collect::<Vec<_>>().join(" ")
        ),
        Value::Id(i) => format!("(id {})", hex(i.as_bytes())),
        Value::Enum(n, i) => format!("(enum {n} {i})"),
        Value::Identifier(n) => format!("(ident {n})"),
        Value::Option(None) => "(none)".into(),
        Value::Option(Some(v)) => format!("(some {})", show_value(v)),
        Value::Result(Ok(v)) => format!("(ok {})", show_value(v)),
        Value::Result(Err(v)) => format!("(err {})", show_value(v)),
    }
}
fn show_struct(s: &Struct) -> String {
    format!(
        "(struct {}{})",
        s.name,
        s.fields.iter().map(|(k, v)| format!(" ({} {})", k, show_value(v))).collect::<String>()
    )
}
fn show_keys(k: &[FactKey]) -> String {
    format!("({})", k.iter().map(|k| format!("({} {})", k.identifier, show_hv(&k.value))).collect::<Vec<_>>().join(" "))
}
fn show_values(k: &[FactValue]) -> String {
    format!("({})", k.iter().map(|k| format!("({} {})", k.identifier, show_value(&k.value))).collect::<Vec<_>>().join(" "))
}
pub fn hs(s: &str) -> String {
    hex(s.as_bytes())
}
fn show_ioerr(e: &MachineIOError) -> &'static str {
    match e {
        MachineIOError::FactExists => "FactExists",
        MachineIOError::FactNotFound => "FactNotFound",
        MachineIOError::Internal => "Internal",
        MachineIOError::Bug(_) => "Bug",
    }
}
fn show_label(l: &Label) -> String {
    format!("{} {}", l.name, l.ltype)
}
fn show_errtype(e: &MachineErrorType) -> String {
    use MachineErrorType as E;
    match e {
        E::StackUnderflow => "(StackUnderflow)".into(),
        E::StackOverflow => "(StackOverflow)".into(),
        E::AlreadyDefined(i) => format!("(AlreadyDefined {i})"),
        E::NotDefined(s) => format!("(NotDefined {})", hs(s)),
        E::InvalidType { want, got, msg } => format!("(InvalidType {} {} {})", hs(want), hs(got), hs(msg)),
        E::InvalidStructMember(i) => format!("(InvalidStructMember {i})"),
        E::InvalidFact(i) => format!("(InvalidFact {i})"),
        E::InvalidSchema(i) => format!("(InvalidSchema {i})"),
        E::UnresolvedTarget(l) => format!("(UnresolvedTarget {})", show_label(l)),
        E::InvalidAddress(i) => format!("(InvalidAddress {i})"),
        E::BadState(s) => format!("(BadState {})", hs(s)),
        E::IntegerOverflow => "(IntegerOverflow)".into(),
        E::InvalidInstruction => "(InvalidInstruction)".into(),
        E::CallStack => "(CallStack)".into(),
        E::IO(e) => format!("(IO {})", show_ioerr(e)),
        E::FfiModuleNotDefined(n) => format!("(FfiModuleNotDefined {n})"),
        E::FfiProcedureNotDefined(i, n) => format!("(FfiProcedureNotDefined {i} {n})"),
        E::ContextMismatch => "(ContextMismatch)".into(),
        E::Serialize(_) => "(Serialize)".into(),
        E::Deserialize(_) => "(Deserialize)".into(),
        E::Bug(b) => format!("(Bug {})", hs(b.msg())),
        E::Unknown(s) => format!("(Unknown {})", hs(s)),
    }
}
fn show_error(e: &MachineError) -> String {
    let full = e.to_string();
    let ty = e.err_type.to_string();
    let src = match full.strip_prefix(&ty) {
        Some(rest) if rest.starts_with(" at line ") => {
            // " at line L col C:\n\tTEXT"
            let rest = &rest[" at line ".len()..];
            let (l, rest) = rest.split_once(" col ").unwrap();
            let (c, t) = rest.split_once(":\n\t").unwrap();
            format!("(src {l} {c} {})", hs(t))
        }
        _ => "(nosrc)".into(),
    };
    format!("(error {} {})", show_errtype(&e.err_type), src)
}
fn show_exit(r: &ExitReason) -> String {
    format!("(exited {r})")
}

fn show_typekind(t: &TypeKind) -> String {
    match t {
        TypeKind::Unit => "unit".into(),
        TypeKind::String => "string".into(),
        TypeKind::Bytes => "bytes".into(),
        TypeKind::Int => "int".into(),
        TypeKind::Bool => "bool".into(),
        TypeKind::Id => "id".into(),
        TypeKind::Never => "never".into(),
        TypeKind::Struct(n) => format!("(struct {n})"),
        TypeKind::Enum(n) => format!("(enum {n})"),
        TypeKind::Optional(t) => format!("(opt {})", show_typekind(t)),
        TypeKind::Result(r) => format!("(result {} {})", show_typekind(&r.ok), show_typekind(&r.err)),
    }
}
fn show_const(v: &ConstValue) -> String {
    match v {
        ConstValue::Unit => "(unit)".into(),
        ConstValue::Int(i) => format!("(int {i})"),
        ConstValue::Bool(b) => format!("(bool {})", *b as u8),
        ConstValue::String(s) => format!("(str {})", hex(s.as_str().as_bytes())),
        ConstValue::Struct(s) => format!(
            "(struct {}{})",
            s.name,
            s.fields.iter().map(|(k, v)| format!(" ({} {})", k, show_const(v))).collect::<String>()
        ),
        ConstValue::Enum(n, i) => format!("(enum {n} {i})"),
        ConstValue::Option(None) => "(none)".into(),
        ConstValue::Option(Some(v)) => format!("(some {})", show_const(v)),
        ConstValue::Result(Ok(v)) => format!("(ok {})", show_const(v)),
        ConstValue::Result(Err(v)) => format!("(err {})", show_const(v)),
    }
}
fn show_target(t: &Target) -> String {
    match t {
        Target::Resolved(n) => format!("(r {n})"),
        Target::Unresolved(l) => format!("(u {})", show_label(l)),
    }
}
fn show_instr(i: &Instruction) -> String {
    use Instruction as I;
    match i {
        I::Const(v) => format!("(Const {})", show_const(v)),
        I::Identifier(n) => format!("(Identifier {n})"),
        I::Def(n) => format!("(Def {n})"),
        I::Get(n) => format!("(Get {n})"),
        I::Jump(t) => format!("(Jump {})", show_target(t)),
        I::Branch(t) => format!("(Branch {})", show_target(t)),
        I::Call(t) => format!("(Call {})", show_target(t)),
        I::Recall(t) => format!("(Recall {})", show_target(t)),
        I::ExtCall(a, b) => format!("(ExtCall {a} {b})"),
        I::Exit(r) => format!("(Exit {r})"),
        I::FactNew(n) => format!("(FactNew {n})"),
        I::FactKeySet(n) => format!("(FactKeySet {n})"),
        I::FactValueSet(n) => format!("(FactValueSet {n})"),
        I::StructNew(n) => format!("(StructNew {n})"),
        I::StructSet(n) => format!("(StructSet {n})"),
        I::StructGet(n) => format!("(StructGet {n})"),
        I::MStructSet(n) => format!("(MStructSet {n})"),
        I::MStructGet(n) => format!("(MStructGet {n})"),
        I::Cast(n) => format!("(Cast {n})"),
        I::Wrap(w) => format!("(Wrap {w})"),
        I::Is(w) => format!("(Is {w})"),
        I::Unwrap(w) => format!("(Unwrap {w})"),
        I::FactCount(n) => format!("(FactCount {n})"),
        I::QueryNext(n) => format!("(QueryNext {n})"),
        I::Meta(Meta::Finish(b)) => format!("(Meta (finish {}))", *b as u8),
        I::Meta(Meta::FFI(a, b)) => format!("(Meta (ffi {a} {b}))"),
        // nullary instructions print as their variant name
        other => instr_kind(other),
    }
}
fn show_fields(f: &[Field]) -> String {
    f.iter().map(|f| format!(" ({} {})", f.name, show_typekind(&f.ty))).collect()
}
fn show_machine(m: &Machine) -> String {
    let cm = match &m.codemap {
        None => "(nocodemap)".to_string(),
        Some(c) => {
            // CodeMap's table is private: rebuild an equivalent one, one entry per instruction
            // (an instruction without a valid span gets the invalid span (1 0)).
            let mut t = String::new();
            for i in 0..m.progmem.len() {
                match c.span_from_instruction(i) {
                    Ok(sp) => t += &format!(" ({} {} {})", i, sp.start(), sp.end()),
                    Err(_) => t += &format!(" ({} 1 0)", i),
                }
            }
            format!("(codemap {}{})", hex(c.text().as_bytes()), t)
        }
    };
    format!(
        "(machine (prog{}) (structdefs{}) (factdefs{}) (actiondefs{}) (commanddefs{}) (globals{}) (labels{}) {})",
        m.progmem.iter().map(|i| format!(" {}", show_instr(i))).collect::<String>(),
        m.struct_defs.iter().map(|d| format!(" ({}{})", d.name, show_fields(&d.items))).collect::<String>(),
        m.fact_defs.iter().map(|d| format!(" ({} ({}) ({}))", d.name, show_fields(&d.key).trim_start(), show_fields(&d.value).trim_start())).collect::<String>(),
        m.action_defs.iter().map(|d| format!(" ({}{})", d.name, show_fields(&d.params))).collect::<String>(),
        m.command_defs.iter().map(|d| format!(" ({}{})", d.name, show_fields(&d.fields))).collect::<String>(),
        m.globals.iter().map(|(k, v)| format!(" ({} {})", k, show_const(v))).collect::<String>(),
        m.labels.iter().map(|(l, a)| format!(" ({} {})", show_label(l), a)).collect::<String>(),
        cm
    )
}

// ---------------------------------------------------------------- scripted I/O
#[derive(Clone)]
struct Answer {
    res: Option<&'static str>,
    rows: Vec<Result<(FactKeyList, FactValueList), &'static str>>,
    ops: Vec<Sx>,
    fail: Option<Sx>,
}
fn ioerr(s: &str) -> MachineIOError {
    match s {
        "FactExists" => MachineIOError::FactExists,
        "FactNotFound" => MachineIOError::FactNotFound,
        _ => MachineIOError::Internal,
    }
}
fn ioerr_static(s: &str) -> &'static str {
    match s {
        "FactExists" => "FactExists",
        "FactNotFound" => "FactNotFound",
        _ => "Internal",
    }
}
fn answer(s: &Sx) -> Answer {
    // (ans RES (rows ROW..) (ops OP..) FAIL)   RES = ok | FactExists | ..   FAIL = nofail | (errtype..)
    let a = s.args();
    Answer {
        res: if a[0].atom() == "ok" { None } else { Some(ioerr_static(a[0].atom())) },
        rows: a[1]
            .args()
            .iter()
            .map(|r| match r.head() {
                "row" => Ok((factkeys(&r.args()[0]), factvalues(&r.args()[1]))),
                _ => Err(ioerr_static(r.args()[0].atom())),
            })
            .collect(),
        ops: a[2].args().to_vec(),
        fail: if a[3].head() == "nofail" { None } else { Some(a[3].clone()) },
    }
}
fn ffi_error(s: &Sx) -> MachineErrorType {
    let a = s.args();
    match s.head() {
        "Unknown" => MachineErrorType::Unknown(String::from_utf8(unhex(a[0].atom())).unwrap()),
        "FfiModuleNotDefined" => MachineErrorType::FfiModuleNotDefined(a[0].atom().parse().unwrap()),
        "IO" => MachineErrorType::IO(ioerr(a[0].atom())),
        "StackUnderflow" => MachineErrorType::StackUnderflow,
        "InvalidInstruction" => MachineErrorType::InvalidInstruction,
        x => panic!("harness: ffi error {x}"),
    }
}
struct ScriptIo {
    script: RefCell<std::collections::VecDeque<Answer>>,
    log: RefCell<Vec<String>>,
}
impl ScriptIo {
    fn next(&self) -> Answer {
        self.script.borrow_mut().pop_front().unwrap_or(Answer { res: None, rows: vec![], ops: vec![], fail: None })
    }
}
fn ctx_kind(c: &CommandContext) -> &'static str {
    match c {
        CommandContext::Action(_) => "action",
        CommandContext::Seal(_) => "seal",
        CommandContext::Open(_) => "open",
        CommandContext::Policy(_) => "policy",
        CommandContext::Recall(_) => "recall",
    }
}
impl<S: Stack> MachineIO<S> for ScriptIo {
    type QueryIterator = std::vec::IntoIter<Result<(FactKeyList, FactValueList), MachineIOError>>;
    fn fact_insert(
        &mut self,
        name: Identifier,
        key: impl IntoIterator<Item = FactKey>,
        value: impl IntoIterator<Item = FactValue>,
    ) -> Result<(), MachineIOError> {
        let k: Vec<_> = key.into_iter().collect();
        let v: Vec<_> = value.into_iter().collect();
        self.log.borrow_mut().push(format!("(insert {name} {} {})", show_keys(&k), show_values(&v)));
        match self.next().res {
            None => Ok(()),
            Some(e) => Err(ioerr(e)),
        }
    }
    fn fact_delete(&mut self, name: Identifier, key: impl IntoIterator<Item = FactKey>) -> Result<(), MachineIOError> {
        let k: Vec<_> = key.into_iter().collect();
        self.log.borrow_mut().push(format!("(delete {name} {})", show_keys(&k)));
        match self.next().res {
            None => Ok(()),
            Some(e) => Err(ioerr(e)),
        }
    }
    fn fact_query(&self, name: Identifier, key: impl IntoIterator<Item = FactKey>) -> Result<Self::QueryIterator, MachineIOError> {
        let k: Vec<_> = key.into_iter().collect();
        self.log.borrow_mut().push(format!("(query {name} {})", show_keys(&k)));
        let a = self.next();
        match a.res {
            Some(e) => Err(ioerr(e)),
            None => Ok(a.rows.into_iter().map(|r| r.map_err(ioerr)).collect::<Vec<_>>().into_iter()),
        }
    }
    fn effect(&mut self, name: Identifier, fields: impl IntoIterator<Item = KVPair>, command: CmdId, recalled: bool) {
        let f: Vec<String> = fields.into_iter().map(|kv| format!("({} {})", kv.key(), show_value(kv.value()))).collect();
        self.log.borrow_mut().push(format!("(effect {name} ({}) {} {})", f.join(" "), hex(command.as_bytes()), recalled as u8));
    }
    fn call(&self, module: usize, procedure: usize, stack: &mut S, ctx: &CommandContext) -> Result<(), MachineError> {
        self.log.borrow_mut().push(format!("(call {module} {procedure} {})", ctx_kind(ctx)));
        let a = self.next();
        for op in &a.ops {
            match op.head() {
                "push" => {
                    let _ = stack.push_value(value(&op.args()[0]));
                }
                "pop" => {
                    let _ = stack.pop_value();
                }
                "replace" => {
                    if let Ok(top) = stack.peek_value() {
                        *top = value(&op.args()[0]);
                    }
                }
                x => panic!("harness: stack op {x}"),
            }
        }
        match a.fail {
            None => Ok(()),
            Some(e) => Err(MachineError::new(ffi_error(&e))),
        }
    }
}

// ---------------------------------------------------------------- running one case
fn instr_kind(i: &Instruction) -> String {
    let d = format!("{i:?}");
    d.split(|c: char| !c.is_alphanumeric()).next().unwrap().to_string()
}
pub fn compile_policy(p: &Sx) -> Module {
    let text = String::from_utf8(unhex(p.args()[0].atom())).unwrap();
    let ast = aranya_policy_lang::lang::parse_policy_str(&text, aranya_policy_vm::ast::Version::V2)
        .unwrap_or_else(|e| panic!("harness: policy does not parse: {e}"));
    aranya_policy_compiler::Compiler::new(&ast)
        .debug(true)
        .compile()
        .unwrap_or_else(|e| panic!("harness: policy does not compile: {e}"))
}
/// The hand-built machine of a case, and the same content as a `Module` (definitions in the order given).
pub fn build_handmade(parts: &BTreeMap<String, Sx>) -> (Machine, Module) {
    let get = |k: &str| parts.get(k).unwrap_or_else(|| panic!("harness: missing {k}")).clone();
    let mut m = match parts.get("codemap") {
        Some(cm) => {
            let a = cm.args();
            let mut c = CodeMap::new(String::from_utf8(unhex(a[0].atom())).unwrap());
            for e in &a[1..] {
                let e = e.list();
                let _ = c.map_instruction(
                    e[0].atom().parse().unwrap(),
                    aranya_policy_vm::ast::Span::new(e[1].atom().parse().unwrap(), e[2].atom().parse().unwrap()),
                );
            }
            Machine::from_codemap(c)
        }
        None => Machine::new([]),
    };
    m.progmem = get("prog").args().iter().map(instruction).collect();
    let struct_defs: Vec<StructDef> = get("structdefs").args().iter().map(|d| { let d = d.list(); StructDef { name: ident(&d[0]), items: fields(&d[1..]) } }).collect();
    let fact_defs: Vec<FactDef> = get("factdefs").args().iter().map(|d| { let d = d.list(); FactDef { name: ident(&d[0]), key: fields(d[1].list()), value: fields(d[2].list()), immutable: false } }).collect();
    let action_defs: Vec<ActionDef> = get("actiondefs").args().iter().map(|d| { let d = d.list(); ActionDef { name: ident(&d[0]), persistence: Persistence::Persistent, params: fields(&d[1..]), result_type: TypeKind::Unit } }).collect();
    let command_defs: Vec<CommandDef> = get("commanddefs").args().iter().map(|d| { let d = d.list(); CommandDef { name: ident(&d[0]), persistence: Persistence::Persistent, attributes: vec![], fields: fields(&d[1..]) } }).collect();
    // optional: (enumdefs (Name (Variant N)..)..)
    let enum_defs: Vec<EnumDef> = parts.get("enumdefs").map(|p| p.args().iter().map(|d| { let d = d.list(); EnumDef { name: ident(&d[0]), variants: d[1..].iter().map(|v| (ident(&v.list()[0]), v.list()[1].atom().parse().unwrap())).collect() } }).collect()).unwrap_or_default();
    for g in get("globals").args() {
        m.globals.insert(ident(&g.list()[0]), constvalue(&g.list()[1]));
    }
    for l in get("labels").args() {
        let l = l.list();
        m.labels.insert(Label::new(ident(&l[0]), labeltype(l[1].atom())), l[2].atom().parse().unwrap());
    }
    let module = Module {
        data: ModuleData::V0(ModuleV0 {
            progmem: m.progmem.clone().into_boxed_slice(),
            labels: m.labels.clone(),
            action_defs: action_defs.clone(),
            command_defs: command_defs.clone(),
            fact_defs: fact_defs.clone(),
            struct_defs: struct_defs.clone(),
            enum_defs: enum_defs.clone(),
            codemap: m.codemap.clone(),
            globals: m.globals.clone(),
        }),
    };
    for d in struct_defs { m.struct_defs.insert(d); }
    for d in fact_defs { m.fact_defs.insert(d); }
    for d in action_defs { m.action_defs.insert(d); }
    for d in command_defs { m.command_defs.insert(d); }
    for d in enum_defs { m.enum_defs.insert(d); }
    (m, module)
}
pub fn parts_of(line: &str) -> BTreeMap<String, Sx> {
    let sx = parse_sx(line);
    let mut parts: BTreeMap<String, Sx> = BTreeMap::new();
    for p in sx.args() {
        parts.insert(p.head().to_string(), p.clone());
    }
    parts
}
fn run_case(line: &str) -> String {
    let parts = parts_of(line);
    if let Some(p) = parts.get("policy") {
        let m = Machine::from_module(compile_policy(p)).expect("harness: from_module");
        return run_machine(m, &parts, true);
    }
    let (m, module) = build_handmade(&parts);
    if parts.contains_key("viamodule") {
        // module loading: the definitions go through Machine::from_module in the order given
        return run_machine(Machine::from_module(module).expect("harness: from_module"), &parts, false);
    }
    run_machine(m, &parts, false)
}
pub fn run_machine(mut m: Machine, parts: &BTreeMap<String, Sx>, dump: bool) -> String {
    let get = |k: &str| parts.get(k).unwrap_or_else(|| panic!("harness: missing {k}")).clone();
    let dumped = if dump { format!(" {}", show_machine(&m)) } else { String::new() };
    let pc: usize = get("pc").args()[0].atom().parse().unwrap();
    let pc_label = Label::new(Identifier::from_str("zz_harness_pc").unwrap(), LabelType::Temporary);
    m.labels.insert(pc_label.clone(), pc);
    let c = get("ctx");
    let cname = ident(&c.args()[1]);
    let cmd_id = CmdId::from_bytes([7u8; 32]);
    let ctx = match c.args()[0].atom() {
        "action" => CommandContext::Action(ActionContext { name: cname, head_id: cmd_id }),
        "seal" => CommandContext::Seal(SealContext { name: cname, head_id: cmd_id }),
        "open" => CommandContext::Open(OpenContext { name: cname }),
        k => {
            let pc = PolicyContext { name: cname, id: cmd_id, author: [9u8; 32].into(), version: BaseId::from_bytes([3u8; 32]) };
            if k == "policy" { CommandContext::Policy(pc) } else { CommandContext::Recall(pc) }
        }
    };
    let mut io = ScriptIo {
        script: RefCell::new(get("io").args().iter().map(answer).collect()),
        log: RefCell::new(vec![]),
    };
    let steps: usize = get("steps").args()[0].atom().parse().unwrap();
    let stack0: Vec<Value> = get("stack").args().iter().map(value).collect();
    let entry = get("entry");
    let progmem = m.progmem.clone();

    let mut kinds: Vec<String> = vec![];
    let mut codec: Vec<String> = vec![];
    let status;
    let tail;
    {
        let mut rs = m.create_run_state(&mut io, ctx);
        for v in stack0 {
            rs.stack.push_value(v).expect("harness: initial stack too large");
        }
        let e = entry.args();
        let res = panic::catch_unwind(panic::AssertUnwindSafe(|| -> String {
            match e[0].atom() {
                "step" => {
                    rs.set_pc_by_label(&pc_label).unwrap();
                    for _ in 0..steps {
                        let pc = rs.pc();
                        let instr = progmem.get(pc).cloned();
                        if let Some(i) = &instr {
                            kinds.push(instr_kind(i));
                        }
                        let r = rs.step();
                        match (&instr, &r) {
                            (Some(Instruction::Serialize), Ok(_)) | (Some(Instruction::Deserialize), Ok(_)) => {
                                codec.push(format!("(ok {})", show_value(rs.stack.as_slice().last().unwrap())));
                            }
                            (Some(Instruction::Serialize), Err(e)) | (Some(Instruction::Deserialize), Err(e))
                                if matches!(e.err_type, MachineErrorType::Serialize(_) | MachineErrorType::Deserialize(_)) =>
                            {
                                codec.push("(err)".into());
                            }
                            _ => {}
                        }
                        match r {
                            Ok(MachineStatus::Executing) => {}
                            Ok(MachineStatus::Exited(r)) => return show_exit(&r),
                            Err(e) => return show_error(&e),
                        }
                    }
                    "(executing)".into()
                }
                "action" => match rs.call_action(ident(&e[1]), e[2..].iter().map(value).collect::<Vec<_>>()) {
                    Ok(r) => show_exit(&r),
                    Err(e) => show_error(&e),
                },
                "policy" => match rs.call_command_policy(structv(&e[1]), structv(&e[2])) {
                    Ok(r) => show_exit(&r),
                    Err(e) => show_error(&e),
                },
                "seal" => match rs.call_seal(structv(&e[1]), unhex(e[2].atom())) {
                    Ok(r) => show_exit(&r),
                    Err(e) => show_error(&e),
                },
                "open" => match rs.call_open(structv(&e[1]), unhex(e[2].atom()), structv(&e[3])) {
                    Ok(r) => show_exit(&r),
                    Err(e) => show_error(&e),
                },
                x => panic!("harness: entry {x}"),
            }
        }));
        status = match res {
            Ok(s) => s,
            Err(_) => "(panic)".into(),
        };
        let depth = {
            let d = format!("{rs}");
            match d.find("# Current defs (") {
                Some(i) => d[i + 16..].split(' ').next().unwrap().parse::<usize>().unwrap(),
                None => 0,
            }
        };
        tail = format!(
            "(pc {}) (stack{}) (locals{}) (depth {})",
            rs.pc(),
            rs.stack.as_slice().iter().map(|v| format!(" {}", show_value(v))).collect::<String>(),
            rs.scope().locals().map(|(k, v)| format!(" ({} {})", k, show_value(v))).collect::<String>(),
            depth
        );
    }
    format!(
        "(res {status} {tail} (log{}) (codec{}) (kinds{}){dumped})",
        io.log.borrow().iter().map(|l| format!(" {l}")).collect::<String>(),
        codec.iter().map(|l| format!(" {l}")).collect::<String>(),
        kinds.iter().map(|l| format!(" {l}")).collect::<String>()
    )
}

#[allow(dead_code)]
pub fn main() {
    if std::env::var("HX_VERBOSE").is_err() {
        panic::set_hook(Box::new(|_| {}));
    }
    let stdin = io::stdin();
    let out = io::stdout();
    let mut out = out.lock();
    for line in stdin.lock().lines() {
        let line = line.unwrap();
        if line.trim().is_empty() {
            continue;
        }
        // a harness-level failure (bad case text) must not look like a VM panic
        let r = panic::catch_unwind(|| run_case(&line));
        match r {
            Ok(s) => writeln!(out, "{s}").unwrap(),
            Err(e) => {
                let msg = e.downcast_ref::<String>().cloned().or_else(|| e.downcast_ref::<&str>().map(|s| s.to_string())).unwrap_or_default();
                writeln!(out, "(harness-error {})", hs(&msg)).unwrap()
            }
        }
    }
}
