//! C28 (second half) implementation-side runner: a `Module` is encoded and decoded through its two
//! serialized forms (serde/ciborium as written by the policy-compiler binary, and rkyv), each
//! decoded module is loaded with `Machine::from_module`, and the three machines are compared and run.
//!
//! stdin: the case lines of c25 (a compiled `(policy HEX)` or a hand-built machine, an entry, an
//! I/O script).  stdout per case:
//!   (c28 (cbor S) (rkyv S) (machines S) (runs S) (hash CBORHASH RKYVHASH LEN) RES)
//! with S = ok | differs | error:<text hex>, RES = the c25 result line of the original machine.
#[allow(dead_code)]
#[path = "c25.rs"]
mod c25;

use std::io::{self, BufRead, Write};
use std::panic;

use aranya_policy_vm::{Machine, Module};

fn fnv(b: &[u8]) -> u64 {
    let mut h: u64 = 0xcbf29ce484222325;
    for x in b {
        h ^= *x as u64;
        h = h.wrapping_mul(0x100000001b3);
    }
    h
}

fn run_case(line: &str) -> String {
    let parts = c25::parts_of(line);
    let module: Module = match parts.get("policy") {
        Some(p) => c25::compile_policy(p),
        None => c25::build_handmade(&parts).1,
    };
    // serde (CBOR), the format the policy-compiler binary writes
    let mut cbor = Vec::new();
    ciborium::into_writer(&module, &mut cbor).expect("harness: cbor encode");
    let cbor_back: Result<Module, String> = ciborium::from_reader(&cbor[..]).map_err(|e| format!("{e}"));
    // rkyv archive
    let rk = rkyv::to_bytes::<rkyv::rancor::Error>(&module).map_err(|e| format!("{e}"));
    let rk_back: Result<Module, String> = match &rk {
        Ok(b) => rkyv::from_bytes::<Module, rkyv::rancor::Error>(b).map_err(|e| format!("{e}")),
        Err(e) => Err(e.clone()),
    };
    let st = |r: &Result<Module, String>| match r {
        Ok(m) if *m == module => "ok".to_string(),
        Ok(_) => "differs".to_string(),
        Err(e) => format!("error:{}", c25::hs(e)),
    };
    let m0 = Machine::from_module(module.clone()).expect("harness: from_module");
    let mut machines = "ok".to_string();
    let mut runs = "ok".to_string();
    let r0 = c25::run_machine(m0.clone(), &parts, false);
    for back in [&cbor_back, &rk_back] {
        if let Ok(b) = back {
            let m1 = Machine::from_module(b.clone()).expect("harness: from_module");
            if m1 != m0 {
                machines = "differs".into();
            }
            if c25::run_machine(m1, &parts, false) != r0 {
                runs = "differs".into();
            }
        }
    }
    let rkh = rk.as_ref().map(|b| fnv(b)).unwrap_or(0);
    format!(
        "(c28 (cbor {}) (rkyv {}) (machines {machines}) (runs {runs}) (hash {:016x} {:016x} {}) {r0})",
        st(&cbor_back),
        st(&rk_back),
        fnv(&cbor),
        rkh,
        cbor.len()
    )
}

fn main() {
    if std::env::var("HX_VERBOSE").is_err() {
        panic::set_hook(Box::new(|_| {}));
    }
    let stdin = io::stdin();
    let out = io::stdout();
    let mut out = out.lock();
    for line in stdin.lock().lines() {
        let line = line.unwrap();
        if line.trim().is_empty() {
            continue;
        }
        match panic::catch_unwind(|| run_case(&line)) {
            Ok(s) => writeln!(out, "{s}").unwrap(),
            Err(e) => {
                let msg = e.downcast_ref::<String>().cloned().or_else(|| e.downcast_ref::<&str>().map(|s| s.to_string())).unwrap_or_default();
                writeln!(out, "(harness-error {})", c25::hs(&msg)).unwrap()
            }
        }
    }
}
