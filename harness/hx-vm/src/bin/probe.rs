use std::num::NonZeroUsize;
use aranya_policy_vm::*;
use aranya_crypto::policy::CmdId;
struct Io;
impl<S: Stack> MachineIO<S> for Io {
    type QueryIterator = std::vec::IntoIter<Result<(FactKeyList, FactValueList), MachineIOError>>;
    fn fact_insert(&mut self, _: Identifier, _: impl IntoIterator<Item = FactKey>, _: impl IntoIterator<Item = FactValue>) -> Result<(), MachineIOError> { Ok(()) }
    fn fact_delete(&mut self, _: Identifier, _: impl IntoIterator<Item = FactKey>) -> Result<(), MachineIOError> { Ok(()) }
    fn fact_query(&self, _: Identifier, _: impl IntoIterator<Item = FactKey>) -> Result<Self::QueryIterator, MachineIOError> { Ok(vec![].into_iter()) }
    fn effect(&mut self, _: Identifier, _: impl IntoIterator<Item = KVPair>, _: CmdId, _: bool) {}
    fn call(&self, _: usize, _: usize, _: &mut S, _: &CommandContext) -> Result<(), MachineError> { Ok(()) }
}
fn run(name: &str, prog: Vec<Instruction>) {
    let r = std::panic::catch_unwind(|| {
        let m = Machine::new(prog);
        let mut io = Io;
        let ctx = CommandContext::Action(ActionContext { name: ident!("a"), head_id: CmdId::default() });
        let mut rs = m.create_run_state(&mut io, ctx);
        format!("{:?}", rs.run())
    });
    println!("{name}: {:?}", r.map_err(|_| "PANIC"));
}
fn run_cm(name: &str, text: &str, span: (usize, usize), prog: Vec<Instruction>) {
    let text = text.to_string();
    let r = std::panic::catch_unwind(move || {
        let mut cm = CodeMap::new(text);
        cm.map_instruction(0, aranya_policy_ast::Span::new(span.0, span.1)).unwrap();
        let mut m = Machine::from_codemap(cm);
        m.progmem = prog;
        let mut io = Io;
        let ctx = CommandContext::Action(ActionContext { name: ident!("a"), head_id: CmdId::default() });
        let mut rs = m.create_run_state(&mut io, ctx);
        format!("{:?}", rs.run().map_err(|e| e.to_string()))
    });
    println!("{name}: {:?}", r.map_err(|_| "PANIC"));
}
fn main() {
    run_cm("codemap-empty-text", "", (0, 0), vec![Instruction::Pop, Instruction::Add]);
    run_cm("codemap-span-at-end", "abc", (3, 3), vec![Instruction::Add]);
    run_cm("codemap-span-ok", "abc", (1, 3), vec![Instruction::Add]);
    run_cm("codemap-span-oob", "abc", (1, 9), vec![Instruction::Add]);
    let which = std::env::args().nth(1).unwrap_or_default();
    run("next", vec![Instruction::Next]);
    run("last", vec![Instruction::Last]);
    run("mstructset-max", vec![Instruction::MStructSet(NonZeroUsize::new(usize::MAX).unwrap())]);
    run("mstructget-max", vec![Instruction::MStructGet(NonZeroUsize::new(usize::MAX).unwrap())]);
    if which == "alloc" {
        run("mstructset-2^40", vec![Instruction::MStructSet(NonZeroUsize::new(1usize << 40).unwrap())]);
    }
}
