//! C25 known-finding probe (F25vm): a 14-instruction looping module builds a value nested `n` deep
//! (Wrap Some in a loop with a counter) and exits normally; dropping (or cloning / comparing) that
//! value recurses `n` deep.  Run on a thread with the default 2 MiB stack, as a daemon would.
//! usage: c25deep N      prints "run: .." then "dropped" when the host survives.
use aranya_policy_vm::*;
use aranya_crypto::policy::CmdId;
struct Io;
impl<S: Stack> MachineIO<S> for Io {
    type QueryIterator = std::vec::IntoIter<Result<(FactKeyList, FactValueList), MachineIOError>>;
    fn fact_insert(&mut self, _: Identifier, _: impl IntoIterator<Item = FactKey>, _: impl IntoIterator<Item = FactValue>) -> Result<(), MachineIOError> { Ok(()) }
    fn fact_delete(&mut self, _: Identifier, _: impl IntoIterator<Item = FactKey>) -> Result<(), MachineIOError> { Ok(()) }
    fn fact_query(&self, _: Identifier, _: impl IntoIterator<Item = FactKey>) -> Result<Self::QueryIterator, MachineIOError> { Ok(vec![].into_iter()) }
    fn effect(&mut self, _: Identifier, _: impl IntoIterator<Item = KVPair>, _: CmdId, _: bool) {}
    fn call(&self, _: usize, _: usize, _: &mut S, _: &CommandContext) -> Result<(), MachineError> { Ok(()) }
}
fn main() {
    let n: i64 = std::env::args().nth(1).unwrap().parse().unwrap();
    use Instruction as I;
    let prog = vec![
        I::Const(ConstValue::Unit),            // 0  v
        I::Const(ConstValue::Int(n)),          // 1  c
        I::Block,                              // 2
        I::Def(ident!("c")),                   // 3
        I::Wrap(WrapType::Some),               // 4  v'
        I::Get(ident!("c")),                   // 5
        I::Const(ConstValue::Int(1)),          // 6
        I::SaturatingSub,                      // 7  c-1
        I::End,                                // 8
        I::Dup,                                // 9
        I::Const(ConstValue::Int(0)),          // 10
        I::Gt,                                 // 11
        I::Branch(Target::Resolved(2)),        // 12
        I::Exit(ExitReason::Normal),           // 13
    ];
    let h = std::thread::spawn(move || {
        let m = Machine::new(prog);
        let mut io = Io;
        let ctx = CommandContext::Action(ActionContext { name: ident!("a"), head_id: CmdId::default() });
        let mut rs = m.create_run_state(&mut io, ctx);
        let r = rs.run();
        println!("run: {:?} stack len {}", r.map_err(|e| e.to_string()), rs.stack.len());
        drop(rs);
        println!("dropped");
    });
    println!("join: {:?}", h.join().is_ok());
}
