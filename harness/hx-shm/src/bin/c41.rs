//! C41 implementation-side runner (see hx_shm lib docs for the case format).
fn main() {
    hx_shm::main_loop();
}
