//! Implementation-side runner for C42 / C41 / C40: the real AFC channel states
//! (`shm::{WriteState, ReadState}` on a POSIX shm object, and `memory::State`)
//! driven through `AranyaState` / `AfcState` and the real `Client`.
//!
//! One case per input line:
//!
//!   <backend> <suite> <cap> <nreaders> | <prefix ops> | <writer ops> | <reader0 ops> / <reader1 ops> ... | <schedule> | <suffix ops>
//!
//! backend = shm | mem ; suite = def (AES-256-GCM, 12-byte nonce) | lim (same AEAD
//! behind a 1-byte nonce: sequence limit 255).  Operations are separated by `;`:
//!
//!   a <s|o> <key> <label> <peer> [seq0]   add (seq0: first sequence number, mem only)
//!   r <id>            remove            ra              remove_all
//!   rf <pred>         remove_if         we <id>         writer-side exists
//!   ss <rd> <id>      setup_seal_ctx    so <rd> <id>    setup_open_ctx
//!   s <rd> <ctx> <c|f>   seal through ctx: c = real Client::seal, f = AfcState::seal with a closure returning Err
//!   o <rd> <ctx> <key> <label> <valid> <seq>   Client::open of a ciphertext made under key/label at seq
//!   e <rd> <id>       reader-side exists
//!   dc <rd> <ctx>     drop the ctx
//!
//! pred = T | F | L<label> | P<peer> | Ds | Do | I<n> (id < n) | E<n> (id mod 2 = n)
//!
//! The prefix and suffix run sequentially on the main thread.  The middle part
//! runs the writer program and the reader programs on OS threads under a baton:
//! the schedule is a list of thread ids (0 = writer, i+1 = reader i); each entry
//! lets that thread run from its current yield point to its next one.
//!
//! Output: one line per operation `<W|R<i>> <codes...>`, one line
//! `T <tid>:<site> ...` with the effective schedule, then `.`.
use std::{
    cell::Cell,
    panic::{self, AssertUnwindSafe},
    sync::{Condvar, Mutex, OnceLock},
};

use aranya_crypto::{
    CipherSuite, Csprng, DeviceId, Random, Rng,
    afc::{AuthData, OpenKey, RawOpenKey, RawSealKey, SealKey, Seq},
    dangerous::spideroak_crypto::{
        ed25519::Ed25519,
        hybrid_array::typenum::U1,
        rust::{Aes256Gcm, HkdfSha512, HmacSha512, Sha256},
    },
    default::DefaultCipherSuite,
    policy::LabelId,
    test_util::TestCs,
};
use aranya_fast_channels::{
    AfcState, AranyaState, ChannelDirection, Client, Directed, Error, LocalChannelId,
    RemoveIfParams, Version, memory,
    shm::{self, Flag, Mode, Path, ReadState, WriteState},
    testing::util::LimitedAead,
};

pub type DefCs = DefaultCipherSuite;
pub type LimCs = TestCs<
    LimitedAead<Aes256Gcm, U1>,
    Sha256,
    HkdfSha512,
    <DefaultCipherSuite as CipherSuite>::Kem,
    HmacSha512,
    Ed25519,
>;

/// `DataHeader` (crate-private): the sequence number, 8 bytes little endian, appended to the ciphertext.
pub const HDR: usize = 8;
pub const NKEYS: u64 = 8;
pub const NLABELS: u64 = 4;

// ---------------------------------------------------------------- deterministic material

struct DetRng(Cell<u64>);
impl Csprng for DetRng {
    fn fill_bytes(&self, dst: &mut [u8]) {
        for b in dst.iter_mut() {
            let mut s = self.0.get().wrapping_add(0x9E3779B97F4A7C15);
            self.0.set(s);
            s = (s ^ (s >> 30)).wrapping_mul(0xBF58476D1CE4E5B9);
            s = (s ^ (s >> 27)).wrapping_mul(0x94D049BB133111EB);
            *b = (s ^ (s >> 31)) as u8;
        }
    }
}
fn raw_seal<CS: CipherSuite>(k: u64) -> RawSealKey<CS> {
    RawSealKey::random(&DetRng(Cell::new(k.wrapping_mul(0x1234567) + 77)))
}
fn raw_open<CS: CipherSuite>(k: u64) -> RawOpenKey<CS> {
    RawOpenKey::random(&DetRng(Cell::new(k.wrapping_mul(0x1234567) + 77)))
}
fn label(l: u64) -> LabelId {
    let mut b = [0u8; 32];
    b[0] = 0xA0;
    b[31] = l as u8;
    LabelId::from_bytes(b)
}
fn label_idx(l: &LabelId) -> u64 {
    (0..NLABELS).find(|i| label(*i) == *l).unwrap_or(99)
}
fn peer(p: u64) -> DeviceId {
    let mut b = [0u8; 32];
    b[0] = 0xB0;
    b[31] = p as u8;
    DeviceId::from_bytes(b)
}
fn peer_idx(p: &DeviceId) -> u64 {
    (0..256).find(|i| peer(*i) == *p).unwrap_or(999)
}
const PLAINTEXT: &[u8] = b"afc-verif";

// ---------------------------------------------------------------- operations

#[derive(Clone, Debug)]
pub enum Pred { T, F, L(u64), P(u64), D(bool), I(u64), E(u64) }
impl Pred {
    fn parse(s: &str) -> Pred {
        let n = || s[1..].parse::<u64>().expect("pred arg");
        match &s[..1] {
            "T" => Pred::T,
            "F" => Pred::F,
            "L" => Pred::L(n()),
            "P" => Pred::P(n()),
            "D" => Pred::D(&s[1..] == "s"),
            "I" => Pred::I(n()),
            "E" => Pred::E(n()),
            _ => panic!("bad pred {s}"),
        }
    }
    fn eval(&self, p: &RemoveIfParams, id_of: &dyn Fn(LocalChannelId) -> u64) -> bool {
        match self {
            Pred::T => true,
            Pred::F => false,
            Pred::L(l) => p.label_id == label(*l),
            Pred::P(x) => peer_idx(&p.peer_id) == *x,
            Pred::D(seal) => (p.direction == ChannelDirection::Seal) == *seal,
            Pred::I(n) => id_of(p.local_channel_id) < *n,
            Pred::E(n) => id_of(p.local_channel_id) % 2 == *n,
        }
    }
}

#[derive(Clone, Debug)]
pub enum Op {
    Add { seal: bool, key: u64, label: u64, peer: u64, seq0: u64 },
    Remove(u64),
    RemoveAll,
    RemoveIf(Pred),
    WExists(u64),
    SetupSeal(usize, u64),
    SetupOpen(usize, u64),
    Seal(usize, usize, bool),
    Open { rd: usize, ctx: usize, key: u64, label: u64, valid: bool, seq: u64 },
    RExists(usize, u64),
    DropCtx(usize, usize),
}
impl Op {
    pub fn parse(s: &str) -> Op {
        let f: Vec<&str> = s.split_whitespace().collect();
        let n = |i: usize| f[i].parse::<u64>().unwrap_or_else(|_| panic!("bad number in op {s:?}"));
        match f[0] {
            "a" => Op::Add { seal: f[1] == "s", key: n(2), label: n(3), peer: n(4), seq0: if f.len() > 5 { n(5) } else { 0 } },
            "r" => Op::Remove(n(1)),
            "ra" => Op::RemoveAll,
            "rf" => Op::RemoveIf(Pred::parse(f[1])),
            "we" => Op::WExists(n(1)),
            "ss" => Op::SetupSeal(n(1) as usize, n(2)),
            "so" => Op::SetupOpen(n(1) as usize, n(2)),
            "s" => Op::Seal(n(1) as usize, n(2) as usize, f[3] == "c"),
            "o" => Op::Open { rd: n(1) as usize, ctx: n(2) as usize, key: n(3), label: n(4), valid: n(5) != 0, seq: n(6) },
            "e" => Op::RExists(n(1) as usize, n(2)),
            "dc" => Op::DropCtx(n(1) as usize, n(2) as usize),
            _ => panic!("bad op {s:?}"),
        }
    }
    /// Some(reader index) for reader operations.
    pub fn reader(&self) -> Option<usize> {
        match self {
            Op::SetupSeal(r, _) | Op::SetupOpen(r, _) | Op::Seal(r, _, _) | Op::RExists(r, _) | Op::DropCtx(r, _) => Some(*r),
            Op::Open { rd, .. } => Some(*rd),
            _ => None,
        }
    }
}
pub fn parse_ops(s: &str) -> Vec<Op> {
    s.split(';').map(str::trim).filter(|x| !x.is_empty()).map(Op::parse).collect()
}

// ---------------------------------------------------------------- ids
//
// `LocalChannelId` has no public constructor or accessor besides serde and
// `Display`; ids are recovered with `to_string` and rebuilt through postcard-free
// serde (`serde::Deserialize` from a u64 deserializer).

fn id_to_u64(id: LocalChannelId) -> u64 {
    id.to_string().parse().expect("numeric id")
}
fn id_from_u64(v: u64) -> LocalChannelId {
    use serde::de::{self, IntoDeserializer, Visitor, value::U64Deserializer};
    struct NewtypeU64(u64);
    impl<'de> de::Deserializer<'de> for NewtypeU64 {
        type Error = de::value::Error;
        fn deserialize_any<V: Visitor<'de>>(self, v: V) -> Result<V::Value, Self::Error> {
            v.visit_u64(self.0)
        }
        fn deserialize_newtype_struct<V: Visitor<'de>>(self, _name: &'static str, v: V) -> Result<V::Value, Self::Error> {
            let d: U64Deserializer<de::value::Error> = self.0.into_deserializer();
            v.visit_newtype_struct(d)
        }
        serde::forward_to_deserialize_any! {
            bool i8 i16 i32 i64 i128 u8 u16 u32 u64 u128 f32 f64 char str string bytes byte_buf option
            unit unit_struct seq tuple tuple_struct map struct enum identifier ignored_any
        }
    }
    <LocalChannelId as serde::Deserialize>::deserialize(NewtypeU64(v)).expect("id")
}

// ---------------------------------------------------------------- backends

pub trait Backend<CS: CipherSuite> {
    type Afc: AfcState<CipherSuite = CS>;
    type Aranya: AranyaState<CipherSuite = CS>;
    fn create(cap: usize, nreaders: usize) -> (Self::Aranya, Vec<Self::Afc>);
    fn keys(seal: bool, key: u64, seq0: u64) -> Directed<<Self::Aranya as AranyaState>::SealKey, <Self::Aranya as AranyaState>::OpenKey>;
    fn werr(e: &<Self::Aranya as AranyaState>::Error) -> String;
}

pub struct ShmB;
static SHM_COUNTER: std::sync::atomic::AtomicU64 = std::sync::atomic::AtomicU64::new(0);
impl<CS: CipherSuite> Backend<CS> for ShmB {
    type Afc = ReadState<CS>;
    type Aranya = WriteState<CS, Rng>;
    fn create(cap: usize, nreaders: usize) -> (Self::Aranya, Vec<Self::Afc>) {
        let n = SHM_COUNTER.fetch_add(1, std::sync::atomic::Ordering::SeqCst);
        let name = format!("/hxshm-{}-{}\0", std::process::id(), n);
        let path: &Path = Path::from_bytes(name.as_bytes()).expect("path");
        let _ = shm::unlink(path);
        let w = WriteState::open(path, Flag::Create, Mode::ReadWrite, cap, Rng).expect("create shm");
        let rs = (0..nreaders)
            .map(|_| ReadState::open(path, Flag::OpenOnly, Mode::ReadWrite, cap).expect("open shm"))
            .collect();
        // the mappings stay valid; the name is not needed any more
        let _ = shm::unlink(path);
        (w, rs)
    }
    fn keys(seal: bool, key: u64, _seq0: u64) -> Directed<RawSealKey<CS>, RawOpenKey<CS>> {
        if seal { Directed::SealOnly { seal: raw_seal::<CS>(key) } } else { Directed::OpenOnly { open: raw_open::<CS>(key) } }
    }
    fn werr(e: &shm::Error) -> String {
        match e {
            shm::Error::OutOfSpace => "3".into(),
            shm::Error::Corrupted(_) => "4".into(),
            other => format!("9 {other:?}").replace('\n', " "),
        }
    }
}

pub struct MemB;
impl<CS: CipherSuite> Backend<CS> for MemB {
    type Afc = memory::State<CS>;
    type Aranya = memory::State<CS>;
    fn create(_cap: usize, nreaders: usize) -> (Self::Aranya, Vec<Self::Afc>) {
        let s = memory::State::<CS>::new();
        let rs = (0..nreaders).map(|_| s.clone()).collect();
        (s, rs)
    }
    fn keys(seal: bool, key: u64, seq0: u64) -> Directed<SealKey<CS>, OpenKey<CS>> {
        if seal {
            Directed::SealOnly { seal: SealKey::from_raw(&raw_seal::<CS>(key), Seq::new(seq0)).expect("seal key") }
        } else {
            Directed::OpenOnly { open: OpenKey::from_raw(&raw_open::<CS>(key)).expect("open key") }
        }
    }
    fn werr(e: &Error) -> String {
        match e {
            Error::OutOfSpace => "3".into(),
            Error::Corrupted(_) => "4".into(),
            other => format!("9 {other:?}").replace('\n', " "),
        }
    }
}

enum Ctx<A: AfcState> { Seal(A::SealCtx), Open(A::OpenCtx), Dropped }

pub struct Reader<A: AfcState> {
    client: Client<A>,
    ctxs: Vec<Ctx<A>>,
}

fn rerr(e: &Error) -> String {
    match e {
        Error::NotFound(_) => "1".into(),
        Error::KeyExpired => "2".into(),
        other => format!("9 {other:?}").replace('\n', " "),
    }
}

/// Which (key, label) of the pool opens this ciphertext at `seq`?
fn identify<CS: CipherSuite>(ct: &[u8], seq: u64) -> (u64, u64) {
    let body = &ct[..ct.len() - HDR];
    let mut dst = vec![0u8; body.len().saturating_sub(SealKey::<CS>::OVERHEAD)];
    for k in 0..NKEYS {
        let ok = OpenKey::<CS>::from_raw(&raw_open::<CS>(k)).expect("open key");
        for l in 0..NLABELS {
            let ad = AuthData { version: u32::from(Version::V1 as u16), label_id: label(l) };
            if ok.open(&mut dst, body, &ad, Seq::new(seq)).is_ok() && dst == PLAINTEXT {
                return (k, l);
            }
        }
    }
    (99, 99)
}

/// A ciphertext as the peer holding `key` would produce it for `label` at `seq`.
fn fabricate<CS: CipherSuite>(key: u64, lbl: u64, seq: u64, valid: bool) -> Vec<u8> {
    let mut sk = SealKey::<CS>::from_raw(&raw_seal::<CS>(key), Seq::new(seq)).expect("seal key");
    let mut out = vec![0u8; PLAINTEXT.len() + SealKey::<CS>::OVERHEAD + HDR];
    let n = PLAINTEXT.len() + SealKey::<CS>::OVERHEAD;
    let ad = AuthData { version: u32::from(Version::V1 as u16), label_id: label(lbl) };
    let got = sk.seal(&mut out[..n], PLAINTEXT, &ad).expect("fabricate seal");
    out[n..].copy_from_slice(&got.to_u64().to_le_bytes());
    if !valid {
        out[0] ^= 1;
    }
    out
}

impl<A: AfcState> Reader<A> {
    fn exec(&mut self, op: &Op) -> String {
        type CSof<A> = <A as AfcState>::CipherSuite;
        match op {
            Op::SetupSeal(_, id) => match self.client.setup_seal_ctx(id_from_u64(*id)) {
                Ok(c) => { self.ctxs.push(Ctx::Seal(c)); format!("0 {}", self.ctxs.len() - 1) }
                Err(e) => rerr(&e),
            },
            Op::SetupOpen(_, id) => match self.client.setup_open_ctx(id_from_u64(*id)) {
                Ok(c) => { self.ctxs.push(Ctx::Open(c)); format!("0 {}", self.ctxs.len() - 1) }
                Err(e) => rerr(&e),
            },
            Op::Seal(_, c, client) => {
                let Some(Ctx::Seal(ctx)) = self.ctxs.get_mut(*c) else { return "6".into() };
                if *client {
                    let mut dst = vec![0u8; PLAINTEXT.len() + Client::<A>::OVERHEAD];
                    match self.client.seal(ctx, &mut dst, PLAINTEXT) {
                        Ok(_) => {
                            let hdr: [u8; HDR] = dst[dst.len() - HDR..].try_into().expect("hdr");
                            let seq = u64::from_le_bytes(hdr);
                            let (k, l) = identify::<CSof<A>>(&dst, seq);
                            format!("3 {c} 0 {seq} {k} {l}")
                        }
                        Err(e) => rerr(&e),
                    }
                } else {
                    let mut seen = 99;
                    let r = self.client.state().seal(ctx, |_key, lbl| -> Result<(), Error> {
                        seen = label_idx(&lbl);
                        Err(Error::Authentication)
                    });
                    match r {
                        Ok(Err(Error::Authentication)) => format!("3 {c} 2 {seen}"),
                        Ok(Ok(())) => "9 closure-ok".into(),
                        Ok(Err(e)) => format!("9 inner {e:?}"),
                        Err(e) => rerr(&e),
                    }
                }
            }
            Op::Open { ctx: c, key, label: l, valid, seq, .. } => {
                let Some(Ctx::Open(ctx)) = self.ctxs.get_mut(*c) else { return "6".into() };
                let ct = fabricate::<CSof<A>>(*key, *l, *seq, *valid);
                let mut dst = vec![0u8; PLAINTEXT.len()];
                match self.client.open(ctx, &mut dst, &ct) {
                    Ok((lbl, sq)) => {
                        if dst != PLAINTEXT || sq.to_u64() != *seq { "9 wrong-plaintext".into() } else { format!("4 {c} 1 {}", label_idx(&lbl)) }
                    }
                    Err(Error::Authentication) => format!("4 {c} 0"),
                    Err(e) => rerr(&e),
                }
            }
            Op::RExists(_, id) => match self.client.state().exists(id_from_u64(*id)) {
                Ok(b) => format!("5 {}", b as u8),
                Err(e) => rerr(&e),
            },
            Op::DropCtx(_, c) => {
                if let Some(x) = self.ctxs.get_mut(*c) { *x = Ctx::Dropped; }
                "8".into()
            }
            _ => "6".into(),
        }
    }
}

fn wexec<CS: CipherSuite, B: Backend<CS>>(w: &B::Aranya, op: &Op) -> String {
    match op {
        Op::Add { seal, key, label: l, peer: p, seq0 } => match w.add(B::keys(*seal, *key, *seq0), label(*l), peer(*p)) {
            Ok(id) => format!("1 {}", id_to_u64(id)),
            Err(e) => B::werr(&e),
        },
        Op::Remove(id) => match w.remove(id_from_u64(*id)) { Ok(()) => "0".into(), Err(e) => B::werr(&e) },
        Op::RemoveAll => match w.remove_all() { Ok(()) => "0".into(), Err(e) => B::werr(&e) },
        Op::RemoveIf(p) => match w.remove_if(|x| p.eval(&x, &id_to_u64)) { Ok(()) => "0".into(), Err(e) => B::werr(&e) },
        Op::WExists(id) => match w.exists(id_from_u64(*id)) { Ok(b) => format!("2 {}", b as u8), Err(e) => B::werr(&e) },
        _ => "6".into(),
    }
}

fn guarded<F: FnOnce() -> String>(f: F) -> String {
    match panic::catch_unwind(AssertUnwindSafe(f)) {
        Ok(s) => s,
        Err(_) => "7".into(),
    }
}

// ---------------------------------------------------------------- baton scheduler

struct CtlState {
    turn: Option<usize>,
    parked: Vec<Option<u32>>,
    finished: Vec<bool>,
}
struct Ctl { m: Mutex<CtlState>, cv: Condvar }
static CTL: OnceLock<Ctl> = OnceLock::new();
thread_local! { static TID: Cell<Option<usize>> = const { Cell::new(None) }; }

fn ctl() -> &'static Ctl {
    CTL.get_or_init(|| Ctl { m: Mutex::new(CtlState { turn: None, parked: vec![], finished: vec![] }), cv: Condvar::new() })
}

/// Park the calling scheduled thread at `site` until it is given the baton.
fn park(site: u32) {
    let Some(t) = TID.with(|c| c.get()) else { return };
    let c = ctl();
    let mut g = c.m.lock().unwrap_or_else(|e| e.into_inner());
    g.parked[t] = Some(site);
    g.turn = None;
    c.cv.notify_all();
    while g.turn != Some(t) {
        g = c.cv.wait(g).unwrap_or_else(|e| e.into_inner());
    }
    g.parked[t] = None;
}
fn finish_thread() {
    let Some(t) = TID.with(|c| c.get()) else { return };
    let c = ctl();
    let mut g = c.m.lock().unwrap_or_else(|e| e.into_inner());
    g.finished[t] = true;
    g.parked[t] = None;
    g.turn = None;
    c.cv.notify_all();
}

pub const SITE_START: u32 = 1;

#[cfg(aranya_core_verif)]
fn hook_yield(site: u32) {
    // sites below 100 belong to the mutex / lender hooks: with one runnable
    // thread at a time the side mutexes are never contended
    if site >= 100 {
        park(site);
    }
}
#[cfg(aranya_core_verif)]
fn hook_futex(_: &std::sync::atomic::AtomicU32, _: u32) -> bool { false }
#[cfg(aranya_core_verif)]
static HOOKS: aranya_fast_channels::verif_hook::Hooks = aranya_fast_channels::verif_hook::Hooks {
    yield_point: hook_yield,
    futex_wait: hook_futex,
    futex_wake: hook_futex,
};
pub fn install_hooks() -> bool {
    #[cfg(aranya_core_verif)]
    {
        aranya_fast_channels::verif_hook::install(Some(&HOOKS));
        true
    }
    #[cfg(not(aranya_core_verif))]
    {
        false
    }
}

struct SendBox<T>(T);
// SAFETY: the wrapped state is used by exactly one thread at a time (the baton).
unsafe impl<T> Send for SendBox<T> {}

// ---------------------------------------------------------------- a case

pub fn run_case<CS: CipherSuite, B: Backend<CS>>(cap: usize, nreaders: usize, parts: &[&str], out: &mut Vec<String>) {
    let (w, afcs) = B::create(cap, nreaders);
    let mut readers: Vec<Reader<B::Afc>> = afcs.into_iter().map(|a| Reader { client: Client::new(a), ctxs: vec![] }).collect();
    let seq_phase = |ops: &[Op], w: &B::Aranya, readers: &mut Vec<Reader<B::Afc>>, out: &mut Vec<String>| {
        for op in ops {
            match op.reader() {
                None => out.push(format!("W {}", guarded(|| wexec::<CS, B>(w, op)))),
                Some(r) => {
                    let rd = &mut readers[r];
                    out.push(format!("R{} {}", r, guarded(|| rd.exec(op))));
                }
            }
        }
    };
    let prefix = parse_ops(parts.first().copied().unwrap_or(""));
    seq_phase(&prefix, &w, &mut readers, out);

    let wprog = parse_ops(parts.get(1).copied().unwrap_or(""));
    let rprogs: Vec<Vec<Op>> = parts.get(2).copied().unwrap_or("").split('/').map(parse_ops).collect();
    let sched: Vec<usize> = parts.get(3).copied().unwrap_or("").split_whitespace().map(|x| x.parse().expect("tid")).collect();
    let has_conc = !wprog.is_empty() || rprogs.iter().any(|p| !p.is_empty());
    if has_conc {
        let nthreads = 1 + readers.len();
        {
            let c = ctl();
            let mut g = c.m.lock().unwrap_or_else(|e| e.into_inner());
            g.turn = None;
            g.parked = vec![None; nthreads];
            g.finished = vec![false; nthreads];
        }
        let mut trace: Vec<(usize, u32)> = vec![];
        let mut wres: Vec<String> = vec![];
        let mut rres: Vec<Vec<String>> = vec![vec![]; readers.len()];
        std::thread::scope(|s| {
            let wref = SendBox(&w);
            let wp = &wprog;
            let wout = &mut wres;
            s.spawn(move || {
                let wref = wref;
                TID.with(|c| c.set(Some(0)));
                for op in wp {
                    park(SITE_START);
                    wout.push(guarded(|| wexec::<CS, B>(wref.0, op)));
                }
                finish_thread();
            });
            for (i, (rd, ro)) in readers.iter_mut().zip(rres.iter_mut()).enumerate() {
                let prog: &[Op] = rprogs.get(i).map(|v| v.as_slice()).unwrap_or(&[]);
                let rd = SendBox(rd);
                s.spawn(move || {
                    let rd = rd;
                    TID.with(|c| c.set(Some(i + 1)));
                    for op in prog {
                        park(SITE_START);
                        ro.push(guarded(|| rd.0.exec(op)));
                    }
                    finish_thread();
                });
            }
            // controller
            let c = ctl();
            let grant = |t: usize, trace: &mut Vec<(usize, u32)>| {
                let mut g = c.m.lock().unwrap_or_else(|e| e.into_inner());
                // wait until every thread is parked or finished
                while !(0..nthreads).all(|i| g.finished[i] || g.parked[i].is_some()) || g.turn.is_some() {
                    g = c.cv.wait(g).unwrap_or_else(|e| e.into_inner());
                }
                if t >= nthreads || g.finished[t] {
                    return;
                }
                trace.push((t, g.parked[t].unwrap_or(0)));
                g.turn = Some(t);
                c.cv.notify_all();
                while g.turn.is_some() {
                    g = c.cv.wait(g).unwrap_or_else(|e| e.into_inner());
                }
            };
            for &t in &sched {
                grant(t, &mut trace);
            }
            // completion tail: lowest unfinished thread first
            loop {
                let next = {
                    let mut g = c.m.lock().unwrap_or_else(|e| e.into_inner());
                    while !(0..nthreads).all(|i| g.finished[i] || g.parked[i].is_some()) || g.turn.is_some() {
                        g = c.cv.wait(g).unwrap_or_else(|e| e.into_inner());
                    }
                    (0..nthreads).find(|&i| !g.finished[i])
                };
                match next {
                    Some(t) => grant(t, &mut trace),
                    None => break,
                }
            }
        });
        for r in wres { out.push(format!("W {r}")); }
        for (i, rs) in rres.into_iter().enumerate() {
            for r in rs { out.push(format!("R{i} {r}")); }
        }
        out.push(format!("T {}", trace.iter().map(|(t, s)| format!("{t}:{s}")).collect::<Vec<_>>().join(" ")));
    }
    let suffix = parse_ops(parts.get(4).copied().unwrap_or(""));
    seq_phase(&suffix, &w, &mut readers, out);
}

pub fn run_line(line: &str) -> Vec<String> {
    let mut out = vec![];
    let segs: Vec<&str> = line.split('|').collect();
    let head: Vec<&str> = segs[0].split_whitespace().collect();
    let (backend, suite) = (head[0], head[1]);
    let cap: usize = head[2].parse().expect("cap");
    let nreaders: usize = head[3].parse().expect("nreaders");
    let parts = &segs[1..];
    match (backend, suite) {
        ("shm", "def") => run_case::<DefCs, ShmB>(cap, nreaders, parts, &mut out),
        ("shm", "lim") => run_case::<LimCs, ShmB>(cap, nreaders, parts, &mut out),
        ("mem", "def") => run_case::<DefCs, MemB>(cap, nreaders, parts, &mut out),
        ("mem", "lim") => run_case::<LimCs, MemB>(cap, nreaders, parts, &mut out),
        _ => panic!("bad backend/suite"),
    }
    out
}

pub fn main_loop() {
    use std::io::{self, BufRead, Write};
    panic::set_hook(Box::new(|_| {}));
    let hooked = install_hooks();
    let stdin = io::stdin();
    let out = io::stdout();
    let mut out = out.lock();
    writeln!(out, "H hooks={}", hooked as u8).unwrap();
    for line in stdin.lock().lines() {
        let line = line.unwrap();
        if line.trim().is_empty() { continue; }
        let res = panic::catch_unwind(|| run_line(&line));
        match res {
            Ok(ls) => for l in ls { writeln!(out, "{l}").unwrap(); },
            Err(_) => writeln!(out, "X harness-panic").unwrap(),
        }
        writeln!(out, ".").unwrap();
    }
}
