//! The real `policy-compiler` command-line tool: this binary *is* the file
//! `crates/aranya-policy-compiler/src/bin/policy-compiler/main.rs` of the tree under
//! test, compiled unmodified (as a module, through `#[path]`) against the same
//! crates and the same Cargo.lock, so that `vlib.cargo_build` can build it into the
//! verification target directory (and against a VERIF_REPO worktree).
#[path = "/repo/crates/aranya-policy-compiler/src/bin/policy-compiler/main.rs"]
mod real_main;

fn main() -> std::process::ExitCode {
    real_main::main()
}
