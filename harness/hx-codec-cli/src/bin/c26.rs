//! C26 implementation-side runner: the real `Machine::serialize_struct` / `Machine::deserialize_struct`
//! on schema sets and values / byte strings given on stdin.
//!
//! One case per line, space separated:   `<op> <structs> <enums> <args..>`
//!   structs: `-` or `;`-joined `<n>:<f>=<ty>,<f>=<ty>`      (struct s<n>, fields f<f>, in definition order)
//!   enums:   `-` or `;`-joined `<n>:<v>=<z>,<v>=<z>`        (enum e<n>, variants v<v> with value z)
//!   ty:      `u` unit `s` string `y` bytes `i` int `b` bool `d` id `n` never `S<n>.` `E<n>.` `o<ty>` `r<ty><ty>`
//!   value:   `u` | `i<z>.` | `b0` | `b1` | `s<hex>.` | `y<hex>.` | `d<hex>.` | `e<n>:<z>.` | `t<n>{<f>=<value>,..}`
//!            | `N` | `J<value>` | `O<value>` | `X<value>` | `F` (a Fact) | `I<n>.` (an Identifier value)
//!   ops:     `ser <value>`            -> `ok <hex>` | `err <class>`
//!            `de <n> <hex|->`         -> `ok <value>` | `err <class>`
//!            `rt <value>`             -> serialize, then deserialize the bytes: `ok <hex> <value>` | `err ..`
//! All names are 4-digit numbers so that the `BTreeMap<Identifier, _>` order is the numeric order.
//! A panic inside the library is reported as `panic`.
use std::{
    io::{self, BufRead, Write},
    panic,
};

use aranya_id::BaseId;
use aranya_policy_ast::{Identifier, Text};
use aranya_policy_module::{EnumDef, Field, ResultTypeKind, StructDef, TypeKind};
use aranya_policy_vm::{Fact, Machine, Struct, Value};

fn unhex(s: &str) -> Vec<u8> {
    (0..s.len() / 2).map(|i| u8::from_str_radix(&s[2 * i..2 * i + 2], 16).unwrap()).collect()
}
fn hex(b: &[u8]) -> String {
    if b.is_empty() { "-".into() } else { b.iter().map(|x| format!("{x:02x}")).collect() }
}
fn ident(prefix: char, n: &str) -> Identifier {
    format!("{prefix}{:0>4}", n).parse().unwrap()
}
fn numz(i: &Identifier) -> String {
    i.as_str()[1..].parse::<u64>().unwrap().to_string()
}

struct P<'a> {
    s: &'a [u8],
    i: usize,
}
impl<'a> P<'a> {
    fn new(s: &'a str) -> Self { Self { s: s.as_bytes(), i: 0 } }
    fn next(&mut self) -> u8 { let c = self.s[self.i]; self.i += 1; c }
    fn until(&mut self, stop: u8) -> String {
        let st = self.i;
        while self.s[self.i] != stop { self.i += 1; }
        let r = String::from_utf8(self.s[st..self.i].to_vec()).unwrap();
        self.i += 1;
        r
    }
    fn ty(&mut self) -> TypeKind {
        match self.next() {
            b'u' => TypeKind::Unit,
            b's' => TypeKind::String,
            b'y' => TypeKind::Bytes,
            b'i' => TypeKind::Int,
            b'b' => TypeKind::Bool,
            b'd' => TypeKind::Id,
            b'n' => TypeKind::Never,
            b'S' => TypeKind::Struct(ident('s', &self.until(b'.'))),
            b'E' => TypeKind::Enum(ident('e', &self.until(b'.'))),
            b'o' => TypeKind::Optional(Box::new(self.ty())),
            b'r' => { let ok = self.ty(); let err = self.ty(); TypeKind::Result(Box::new(ResultTypeKind { ok, err })) }
            c => panic!("bad type char {c}"),
        }
    }
    fn value(&mut self) -> Value {
        match self.next() {
            b'u' => Value::Unit,
            b'i' => Value::Int(self.until(b'.').parse().unwrap()),
            b'b' => Value::Bool(self.next() == b'1'),
            b's' => { let t: Text = String::from_utf8(unhex(&self.until(b'.'))).unwrap().parse().unwrap(); Value::String(t) }
            b'y' => Value::Bytes(unhex(&self.until(b'.'))),
            b'd' => { let b: [u8; 32] = unhex(&self.until(b'.')).try_into().unwrap(); Value::Id(BaseId::from_bytes(b)) }
            b'e' => { let n = self.until(b':'); Value::Enum(ident('e', &n), self.until(b'.').parse().unwrap()) }
            b't' => Value::Struct(self.strukt()),
            b'N' => Value::Option(None),
            b'J' => Value::Option(Some(Box::new(self.value()))),
            b'O' => Value::Result(Ok(Box::new(self.value()))),
            b'X' => Value::Result(Err(Box::new(self.value()))),
            b'F' => Value::Fact(Fact::new(ident('q', "1"))),
            b'I' => Value::Identifier(ident('x', &self.until(b'.'))),
            c => panic!("bad value char {c}"),
        }
    }
    /// after the leading `t`
    fn strukt(&mut self) -> Struct {
        let name = ident('s', &self.until(b'{'));
        let mut fields: Vec<(Identifier, Value)> = Vec::new();
        if self.s[self.i] == b'}' { self.i += 1; return Struct::new(name, fields); }
        loop {
            let f = ident('f', &self.until(b'='));
            let v = self.value();
            fields.push((f, v));
            if self.next() == b'}' { break; }
        }
        Struct::new(name, fields)
    }
}

fn show(v: &Value, out: &mut String) {
    match v {
        Value::Unit => out.push('u'),
        Value::Int(z) => out.push_str(&format!("i{z}.")),
        Value::Bool(b) => out.push_str(if *b { "b1" } else { "b0" }),
        Value::String(t) => out.push_str(&format!("s{}.", hex(t.as_str().as_bytes()).replace('-', ""))),
        Value::Bytes(b) => out.push_str(&format!("y{}.", hex(b).replace('-', ""))),
        Value::Id(i) => out.push_str(&format!("d{}.", hex(i.as_bytes()))),
        Value::Enum(e, z) => out.push_str(&format!("e{}:{z}.", numz(e))),
        Value::Struct(s) => {
            out.push_str(&format!("t{}{{", numz(&s.name)));
            for (k, (f, x)) in s.fields.iter().enumerate() {
                if k > 0 { out.push(','); }
                out.push_str(&format!("{}=", numz(f)));
                show(x, out);
            }
            out.push('}');
        }
        Value::Option(None) => out.push('N'),
        Value::Option(Some(x)) => { out.push('J'); show(x, out) }
        Value::Result(Ok(x)) => { out.push('O'); show(x, out) }
        Value::Result(Err(x)) => { out.push('X'); show(x, out) }
        Value::Fact(_) => out.push('F'),
        Value::Identifier(i) => out.push_str(&format!("I{}.", numz(i))),
    }
}

fn machine(structs: &str, enums: &str) -> Machine {
    let mut m = Machine::new([]);
    if structs != "-" {
        for d in structs.split(';') {
            let (n, fs) = d.split_once(':').unwrap();
            let mut items = Vec::new();
            if !fs.is_empty() {
                for f in fs.split(',') {
                    let (fname, ty) = f.split_once('=').unwrap();
                    items.push(Field { name: ident('f', fname), ty: P::new(ty).ty() });
                }
            }
            m.struct_defs.insert(StructDef { name: ident('s', n), items });
        }
    }
    if enums != "-" {
        for d in enums.split(';') {
            let (n, vs) = d.split_once(':').unwrap();
            let mut variants = Vec::new();
            if !vs.is_empty() {
                for v in vs.split(',') {
                    let (vn, z) = v.split_once('=').unwrap();
                    variants.push((ident('v', vn), z.parse().unwrap()));
                }
            }
            m.enum_defs.insert(EnumDef { name: ident('e', n), variants });
        }
    }
    m
}

/// `SerializeError` / `DeserializeError` live in a private module, so they are classified through `Debug`:
/// `Variant` or `Variant(<identifier>)`.
fn err_class<E: std::fmt::Debug>(e: E) -> String {
    let d = format!("{e:?}");
    match d.split_once('(') {
        None => format!("err {d}"),
        Some((v, rest)) => {
            let name: String = rest.chars().filter(|c| c.is_ascii_alphanumeric() || *c == '_').collect();
            format!("err {v}:{}", name[1..].parse::<u64>().map(|n| n.to_string()).unwrap_or(name))
        }
    }
}
fn ser_err<E: std::fmt::Debug>(e: E) -> String { err_class(e) }
fn de_err<E: std::fmt::Debug>(e: E) -> String { err_class(e) }

fn run(line: &str) -> String {
    let f: Vec<&str> = line.split(' ').collect();
    let m = machine(f[1], f[2]);
    match f[0] {
        "ser" | "rt" => {
            let Value::Struct(s) = P::new(f[3]).value() else { panic!("ser needs a struct") };
            match m.serialize_struct(&s) {
                Err(e) => ser_err(e),
                Ok(b) if f[0] == "ser" => format!("ok {}", hex(&b)),
                Ok(b) => match m.deserialize_struct(s.name.clone(), &b) {
                    Ok(s2) => { let mut o = String::new(); show(&Value::Struct(s2), &mut o); format!("ok {} {o}", hex(&b)) }
                    Err(e) => format!("{} after-ser {}", de_err(e), hex(&b)),
                },
            }
        }
        "de" => {
            let bytes = if f[4] == "-" { vec![] } else { unhex(f[4]) };
            match m.deserialize_struct(ident('s', f[3]), &bytes) {
                Ok(s) => { let mut o = String::new(); show(&Value::Struct(s), &mut o); format!("ok {o}") }
                Err(e) => de_err(e),
            }
        }
        _ => panic!("bad op"),
    }
}

fn main() {
    panic::set_hook(Box::new(|_| {}));
    let stdin = io::stdin();
    let out = io::stdout();
    let mut out = out.lock();
    for line in stdin.lock().lines() {
        let line = line.unwrap();
        let r = panic::catch_unwind(|| run(&line)).unwrap_or_else(|_| "panic".to_string());
        writeln!(out, "{r}").unwrap();
    }
}
