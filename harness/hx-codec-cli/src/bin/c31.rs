//! C31 library-side runner: what `parse_policy_document`, `Compiler::compile`, `validate` and the
//! tracer itself say about a policy document — the inputs of the CLI decision model.
//!
//! stdin, one case per line:
//!   `D <stub:0|1> <doc hex>`            a policy document
//!   `X <stub:0|1> <doc hex> <mutation>`  the compiled module of the document, damaged before validation:
//!        `trunc:<k>`    keep only the first k instructions of the program memory
//!        `label:<pc>`   add a function label `zz_bad` pointing at <pc> (may be out of range)
//!        `jump:<i>`     replace instruction i by a jump to an unresolved target
//! stdout per case (other lines are the library's own diagnostics and are ignored):
//!   `@@ <parse_ok> <compile_ok> <validate_ret:0|1|-|panic> <traces>`
//! where <traces> is a comma separated list with one entry per label of the module, in label
//! order: `e` if `trace` returned a `TraceError`, otherwise the number of `TraceFailure`s; `-` if there
//! are no labels or the module does not exist.  The traces are produced by this runner driving the
//! public tracer API directly (same analyzers per label type as the policy book documents:
//! actions must publish, policy/recall blocks must finish, functions must return, values are set
//! before use), NOT from the return value of `validate`, so they are independent of its polarity.
use std::{
    io::{self, BufRead, Write},
    panic,
};

use aranya_policy_ast::Identifier;
use aranya_policy_compiler::{
    ActionAnalyzer, Compiler, FinishAnalyzer, FunctionAnalyzer, TraceAnalyzerBuilder, ValueAnalyzer,
    validate::validate,
};
use aranya_policy_lang::lang::parse_policy_document;
use aranya_policy_module::{Instruction, Label, LabelType, Module, ModuleData, Target};

fn unhex(s: &str) -> Vec<u8> {
    (0..s.len() / 2).map(|i| u8::from_str_radix(&s[2 * i..2 * i + 2], 16).unwrap()).collect()
}

fn traces(module: &Module) -> String {
    let ModuleData::V0(ref m) = module.data;
    let globals: Vec<Identifier> = m.globals.keys().cloned().collect();
    let mut out = Vec::new();
    for l in m.labels.keys() {
        let r = panic::catch_unwind(panic::AssertUnwindSafe(|| {
            let mut t = TraceAnalyzerBuilder::new(m);
            match l.ltype {
                LabelType::Action => t = t.add_analyzer(ActionAnalyzer::new()),
                LabelType::CommandPolicy | LabelType::CommandRecall => t = t.add_analyzer(FinishAnalyzer::new()),
                LabelType::Function => t = t.add_analyzer(FunctionAnalyzer::new()),
                _ => {}
            }
            let t = t.add_analyzer(ValueAnalyzer::new(globals.clone())).build();
            match t.trace(l) {
                Ok(f) => f.len().to_string(),
                Err(_) => "e".to_string(),
            }
        }));
        out.push(r.unwrap_or_else(|_| "p".to_string()));
    }
    if out.is_empty() { "-".to_string() } else { out.join(",") }
}

fn damage(module: &mut Module, mutation: &str) {
    let ModuleData::V0(ref mut m) = module.data;
    let (kind, arg) = mutation.split_once(':').unwrap();
    let arg: usize = arg.parse().unwrap();
    match kind {
        "trunc" => {
            let mut v = m.progmem.to_vec();
            v.truncate(arg);
            m.progmem = v.into_boxed_slice();
        }
        "label" => {
            let name: Identifier = "zz_bad".parse().unwrap();
            m.labels.insert(Label::new(name, LabelType::Function), arg);
        }
        "jump" => {
            let mut v = m.progmem.to_vec();
            if arg < v.len() {
                let name: Identifier = "zz_nowhere".parse().unwrap();
                v[arg] = Instruction::Jump(Target::Unresolved(Label::new(name, LabelType::Temporary)));
            }
            m.progmem = v.into_boxed_slice();
        }
        _ => panic!("unknown mutation"),
    }
}

fn main() {
    panic::set_hook(Box::new(|_| {}));
    let stdin = io::stdin();
    for line in stdin.lock().lines() {
        let line = line.unwrap();
        let f: Vec<&str> = line.split_whitespace().collect();
        let stub = f[1] == "1";
        let doc = String::from_utf8(unhex(f.get(2).copied().unwrap_or(""))).unwrap();
        let res = panic::catch_unwind(|| {
            let ast = match parse_policy_document(&doc) {
                Ok(a) => a,
                Err(_) => return "0 0 - -".to_string(),
            };
            let mut module = match Compiler::new(&ast).stub_ffi(stub).compile() {
                Ok(m) => m,
                Err(_) => return "1 0 - -".to_string(),
            };
            if f[0] == "X" {
                damage(&mut module, f[3]);
            }
            let tr = traces(&module);
            let v = match panic::catch_unwind(|| validate(&module)) {
                Ok(true) => "1",
                Ok(false) => "0",
                Err(_) => "panic",
            };
            format!("1 1 {v} {tr}")
        });
        let s = res.unwrap_or_else(|_| "panic panic - -".to_string());
        let out = io::stdout();
        let mut out = out.lock();
        writeln!(out, "\n@@ {s}").unwrap();
    }
}
