//! Recording primitives.
use aranya_crypto::dangerous::spideroak_crypto::{
    self as crypto,
    aead::{IndCca2, Lifetime, OpenError, SealError},
    hpke::{AeadId, HpkeAead},
    oid::{Identified, Oid},
};
use aranya_crypto::Aead;

use crate::{hex, log_push};

/// An AEAD that forwards to `T` and logs `(nonce, ad, input, output)`.
pub struct RecAead<T>(T);

impl<T: Aead> crypto::aead::Aead for RecAead<T> {
    const LIFETIME: Lifetime = T::LIFETIME;
    type KeySize = T::KeySize;
    const KEY_SIZE: usize = T::KEY_SIZE;
    type NonceSize = T::NonceSize;
    const NONCE_SIZE: usize = T::NONCE_SIZE;
    type Overhead = T::Overhead;
    const OVERHEAD: usize = T::OVERHEAD;
    const MAX_PLAINTEXT_SIZE: u64 = T::MAX_PLAINTEXT_SIZE;
    const MAX_ADDITIONAL_DATA_SIZE: u64 = T::MAX_ADDITIONAL_DATA_SIZE;
    const MAX_CIPHERTEXT_SIZE: u64 = T::MAX_CIPHERTEXT_SIZE;
    type Key = T::Key;

    fn new(key: &Self::Key) -> Self {
        Self(T::new(key))
    }

    fn seal_in_place(
        &self,
        nonce: &[u8],
        data: &mut [u8],
        tag: &mut [u8],
        additional_data: &[u8],
    ) -> Result<(), SealError> {
        let pt = data.to_vec();
        let r = self.0.seal_in_place(nonce, data, tag, additional_data);
        log_push(format!(
            "S {} {} {} {} {} {}",
            hex(nonce),
            hex(additional_data),
            hex(&pt),
            if r.is_ok() { 1 } else { 0 },
            hex(data),
            hex(tag)
        ));
        r
    }

    fn open_in_place(
        &self,
        nonce: &[u8],
        data: &mut [u8],
        tag: &[u8],
        additional_data: &[u8],
    ) -> Result<(), OpenError> {
        let ct = data.to_vec();
        let r = self.0.open_in_place(nonce, data, tag, additional_data);
        log_push(format!(
            "O {} {} {} {} {} {}",
            hex(nonce),
            hex(additional_data),
            hex(&ct),
            hex(tag),
            if r.is_ok() { 1 } else { 0 },
            hex(data)
        ));
        r
    }
}

impl<T: Aead> IndCca2 for RecAead<T> {}

impl<T: Aead> HpkeAead for RecAead<T> {
    const ID: AeadId = T::ID;
}

impl<T: Aead> Identified for RecAead<T> {
    const OID: &'static Oid = T::OID;
}
