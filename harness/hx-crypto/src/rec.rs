//! Recording primitives.
use aranya_crypto::dangerous::spideroak_crypto::{
    self as crypto,
    aead::{IndCca2, Lifetime, OpenError, SealError},
    hpke::{AeadId, HpkeAead},
    oid::{Identified, Oid},
};
use aranya_crypto::Aead;

use crate::{hex, log_push};

/// An AEAD that forwards to `T` and logs `(nonce, ad, input, output)`.
pub struct RecAead<T>(T);

impl<T: Aead> crypto::aead::Aead for RecAead<T> {
    const LIFETIME: Lifetime = T::LIFETIME;
    type KeySize = T::KeySize;
    const KEY_SIZE: usize = T::KEY_SIZE;
    type NonceSize = T::NonceSize;
    const NONCE_SIZE: usize = T::NONCE_SIZE;
    type Overhead = T::Overhead;
    const OVERHEAD: usize = T::OVERHEAD;
    const MAX_PLAINTEXT_SIZE: u64 = T::MAX_PLAINTEXT_SIZE;
    const MAX_ADDITIONAL_DATA_SIZE: u64 = T::MAX_ADDITIONAL_DATA_SIZE;
    const MAX_CIPHERTEXT_SIZE: u64 = T::MAX_CIPHERTEXT_SIZE;
    type Key = T::Key;

    fn new(key: &Self::Key) -> Self {
        use aranya_crypto::dangerous::spideroak_crypto::keys::SecretKey as _;
        if let Ok(b) = key.try_export_secret() {
            log_push(format!("K {}", hex(b.as_bytes())));
        }
        Self(T::new(key))
    }

    fn seal_in_place(
        &self,
        nonce: &[u8],
        data: &mut [u8],
        tag: &mut [u8],
        additional_data: &[u8],
    ) -> Result<(), SealError> {
        let pt = data.to_vec();
        let r = self.0.seal_in_place(nonce, data, tag, additional_data);
        log_push(format!(
            "S {} {} {} {} {} {}",
            hex(nonce),
            hex(additional_data),
            hex(&pt),
            if r.is_ok() { 1 } else { 0 },
            hex(data),
            hex(tag)
        ));
        r
    }

    fn open_in_place(
        &self,
        nonce: &[u8],
        data: &mut [u8],
        tag: &[u8],
        additional_data: &[u8],
    ) -> Result<(), OpenError> {
        let ct = data.to_vec();
        let r = self.0.open_in_place(nonce, data, tag, additional_data);
        log_push(format!(
            "O {} {} {} {} {} {}",
            hex(nonce),
            hex(additional_data),
            hex(&ct),
            hex(tag),
            if r.is_ok() { 1 } else { 0 },
            hex(data)
        ));
        r
    }
}

impl<T: Aead> IndCca2 for RecAead<T> {}

impl<T: Aead> HpkeAead for RecAead<T> {
    const ID: AeadId = T::ID;
}

impl<T: Aead> Identified for RecAead<T> {
    const OID: &'static Oid = T::OID;
}

// ---------------------------------------------------------------- hash

use aranya_crypto::dangerous::spideroak_crypto::{
    hash::Digest,
    hpke::{HpkeKdf, KdfId},
    kdf::{KdfError, Prk},
};
use aranya_crypto::{Hash, Kdf};
use std::marker::PhantomData;

/// A hash that forwards to `T` and logs `(input, digest)` when finished.
#[derive(Clone)]
pub struct RecHash<T> {
    inner: T,
    buf: Vec<u8>,
}

impl<T: Hash> crypto::hash::Hash for RecHash<T> {
    type DigestSize = T::DigestSize;
    const DIGEST_SIZE: usize = T::DIGEST_SIZE;

    fn new() -> Self {
        Self { inner: T::new(), buf: Vec::new() }
    }

    fn update(&mut self, data: &[u8]) {
        self.buf.extend_from_slice(data);
        self.inner.update(data);
    }

    fn digest(self) -> Digest<Self::DigestSize> {
        let d = self.inner.digest();
        log_push(format!("H {} {}", hex(&self.buf), hex(d.as_bytes())));
        d
    }
}

impl<T: Hash> Identified for RecHash<T> {
    const OID: &'static Oid = T::OID;
}

// ---------------------------------------------------------------- kdf

/// A KDF that forwards to `T` and logs the concatenated IKM / info.
pub struct RecKdf<T>(PhantomData<T>);

impl<T: Kdf> crypto::kdf::Kdf for RecKdf<T> {
    type MaxOutput = T::MaxOutput;
    type PrkSize = T::PrkSize;

    fn extract_multi<'a, I>(ikm: I, salt: &[u8]) -> Prk<Self::PrkSize>
    where
        I: IntoIterator<Item = &'a [u8]>,
    {
        let parts: Vec<&[u8]> = ikm.into_iter().collect();
        let cat: Vec<u8> = parts.iter().flat_map(|p| p.iter().copied()).collect();
        let prk = T::extract_multi(parts.iter().copied(), salt);
        log_push(format!("X {} {} {}", hex(salt), hex(&cat), hex(prk.as_bytes())));
        prk
    }

    fn expand_multi<'a, I>(out: &mut [u8], prk: &Prk<Self::PrkSize>, info: I) -> Result<(), KdfError>
    where
        I: IntoIterator<Item = &'a [u8], IntoIter: Clone>,
    {
        let parts: Vec<&[u8]> = info.into_iter().collect();
        let cat: Vec<u8> = parts.iter().flat_map(|p| p.iter().copied()).collect();
        let r = T::expand_multi(out, prk, parts.iter().copied());
        log_push(format!("E {} {} {}", hex(prk.as_bytes()), hex(&cat), hex(out)));
        r
    }
}

impl<T: Kdf> HpkeKdf for RecKdf<T> {
    const ID: KdfId = T::ID;
}

impl<T: Kdf> Identified for RecKdf<T> {
    const OID: &'static Oid = T::OID;
}

/// The default cipher suite with recording AEAD, hash and KDF.
pub type RecCs = aranya_crypto::test_util::TestCs<
    RecAead<crypto::rust::Aes256Gcm>,
    RecHash<crypto::rust::Sha256>,
    RecKdf<crypto::rust::HkdfSha512>,
    <aranya_crypto::default::DefaultCipherSuite as aranya_crypto::CipherSuite>::Kem,
    crypto::rust::HmacSha512,
    crypto::ed25519::Ed25519,
>;
