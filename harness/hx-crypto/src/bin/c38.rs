//! C38 runner: AFC unidirectional channel keys.
//!
//!   frame <seed> <parent 32B> <seal_id 32B> <open_id 32B> <label 32B>
//!       recording suite: UniSecrets::new + from_author_secret + from_peer_encap; prints the logged KDF inputs.
//!   sweep <seed> <parent> <seal_id> <open_id> <label>
//!       default suite: the peer derives its key under every single-parameter change; `<label>=<agree|differ|err>`;
//!       plus the handler's role checks.
use std::io::{self, BufRead, Write};

use aranya_afc_util::{Handler, UniChannelCreated, UniChannelReceived, UniKey};
use aranya_crypto::{
    CipherSuite, DeviceId, EncryptionKey, Engine, KeyStoreExt as _,
    afc::{AuthData, OpenKey, RawOpenKey, RawSealKey, SealKey, Seq, UniChannel, UniOpenKey, UniPeerEncap, UniSealKey, UniSecrets},
    dangerous::spideroak_crypto::{aead::Aead, import::Import},
    default::{DefaultCipherSuite, DefaultEngine},
    id::Identified,
    keystore::memstore::MemStore,
    policy::{CmdId, LabelId},
};
use hx_crypto::{SeedRng, guarded, hex, log_take, oids_hex, quiet_panics, rec::RecCs, unhex};

fn b32(s: &str) -> [u8; 32] {
    unhex(s).try_into().expect("32 bytes")
}

fn engine<CS: CipherSuite>(seed: &[u8]) -> DefaultEngine<SeedRng, CS> {
    let rng = SeedRng::new(seed);
    let mut kb = vec![0u8; <CS::Aead as Aead>::KEY_SIZE];
    aranya_crypto::Csprng::fill_bytes(&rng, &mut kb);
    let key = <<CS::Aead as Aead>::Key as Import<&[u8]>>::import(&kb).expect("engine key");
    DefaultEngine::new(&key, rng)
}

fn raw_s<CS: CipherSuite>(k: &RawSealKey<CS>) -> Vec<u8> {
    let mut v = k.key.as_bytes().to_vec();
    v.extend_from_slice(&k.base_nonce);
    v
}
fn raw_o<CS: CipherSuite>(k: &RawOpenKey<CS>) -> Vec<u8> {
    let mut v = k.key.as_bytes().to_vec();
    v.extend_from_slice(&k.base_nonce);
    v
}

fn frame(f: &[&str]) -> String {
    type CS = RecCs;
    let eng = engine::<CS>(&unhex(f[1]));
    let rng = SeedRng::new(&unhex(f[1]));
    let a = EncryptionKey::<CS>::new(&rng);
    let b = EncryptionKey::<CS>::new(&rng);
    let (parent, seal_id, open_id, label) = (CmdId::from_bytes(b32(f[2])), DeviceId::from_bytes(b32(f[3])), DeviceId::from_bytes(b32(f[4])), LabelId::from_bytes(b32(f[5])));
    let bpk = b.public().expect("pk");
    let apk = a.public().expect("pk");
    let _ = log_take();
    let ch_a = UniChannel { parent_cmd_id: parent, our_sk: &a, their_pk: &bpk, seal_id, open_id, label_id: label };
    let sec = match UniSecrets::new(&eng, &ch_a) {
        Ok(s) => s,
        Err(_) => return format!("oids={} rejected", oids_hex::<CS>()),
    };
    let l1 = log_take();
    let encap = sec.peer.as_bytes().to_vec();
    let sk = UniSealKey::from_author_secret(&ch_a, sec.author).expect("from_author_secret").into_raw_key();
    let l2 = log_take();
    let ch_b = UniChannel { parent_cmd_id: parent, our_sk: &b, their_pk: &apk, seal_id, open_id, label_id: label };
    let ok = UniOpenKey::from_peer_encap(&ch_b, UniPeerEncap::from_bytes(&encap).expect("encap")).expect("from_peer_encap").into_raw_key();
    let l3 = log_take();
    format!(
        "oids={} agree={} || {} || {} || {}",
        oids_hex::<CS>(),
        raw_s(&sk) == raw_o(&ok),
        l1.join(" ; "), l2.join(" ; "), l3.join(" ; ")
    )
}

fn sweep(f: &[&str]) -> String {
    type CS = DefaultCipherSuite;
    let eng = engine::<CS>(&unhex(f[1]));
    let rng = SeedRng::new(&unhex(f[1]));
    let a = EncryptionKey::<CS>::new(&rng);
    let b = EncryptionKey::<CS>::new(&rng);
    let a2 = EncryptionKey::<CS>::new(&rng);
    let b2 = EncryptionKey::<CS>::new(&rng);
    let (parent_b, seal_b, open_b, label_b) = (b32(f[2]), b32(f[3]), b32(f[4]), b32(f[5]));
    let apk = a.public().expect("pk");
    let bpk = b.public().expect("pk");
    let mut out = Vec::new();

    let ch_a = UniChannel { parent_cmd_id: CmdId::from_bytes(parent_b), our_sk: &a, their_pk: &bpk,
        seal_id: DeviceId::from_bytes(seal_b), open_id: DeviceId::from_bytes(open_b), label_id: LabelId::from_bytes(label_b) };
    let sec = match UniSecrets::new(&eng, &ch_a) {
        Ok(s) => s,
        Err(_) => {
            // seal_id == open_id: everything must be rejected
            let dummy = UniSecrets::new(&eng, &UniChannel { open_id: DeviceId::from_bytes([0xEE; 32]), ..UniChannel { parent_cmd_id: ch_a.parent_cmd_id, our_sk: &a, their_pk: &bpk, seal_id: ch_a.seal_id, open_id: ch_a.open_id, label_id: ch_a.label_id } });
            let mut s = "same.new=err".to_string();
            if let Ok(d) = dummy {
                let enc = d.peer.as_bytes().to_vec();
                s += &format!(" same.author={}", if UniSealKey::from_author_secret(&ch_a, d.author).is_err() { "err" } else { "ok" });
                let ch_b = UniChannel { parent_cmd_id: ch_a.parent_cmd_id, our_sk: &b, their_pk: &apk, seal_id: ch_a.seal_id, open_id: ch_a.open_id, label_id: ch_a.label_id };
                s += &format!(" same.peer={}", if UniOpenKey::from_peer_encap(&ch_b, UniPeerEncap::from_bytes(&enc).expect("enc")).is_err() { "err" } else { "ok" });
            }
            return s;
        }
    };
    let encap = sec.peer.as_bytes().to_vec();
    let author_secret_id = sec.author.id().expect("id");
    let seal_raw = UniSealKey::from_author_secret(&ch_a, sec.author).expect("from_author_secret").into_raw_key();
    let want = raw_s(&seal_raw);
    // a message sealed by the author
    let ad = AuthData { version: 7, label_id: LabelId::from_bytes(label_b) };
    let msg = b"channel message";
    let mut ct = vec![0u8; msg.len() + SealKey::<CS>::OVERHEAD];
    let mut sealer = SealKey::<CS>::from_raw(&seal_raw, Seq::ZERO).expect("seal key");
    let seq = sealer.seal(&mut ct, msg, &ad).expect("seal");

    let derive = |our: &EncryptionKey<CS>, their: &aranya_crypto::EncryptionPublicKey<CS>, enc: &[u8], p: &[u8; 32], s: &[u8; 32], o: &[u8; 32], l: &[u8; 32]| -> &'static str {
        let Ok(pe) = UniPeerEncap::<CS>::from_bytes(enc) else { return "err" };
        let ch = UniChannel { parent_cmd_id: CmdId::from_bytes(*p), our_sk: our, their_pk: their,
            seal_id: DeviceId::from_bytes(*s), open_id: DeviceId::from_bytes(*o), label_id: LabelId::from_bytes(*l) };
        match UniOpenKey::from_peer_encap(&ch, pe) {
            Err(_) => "err",
            Ok(k) => {
                let raw = k.into_raw_key();
                let same = raw_o(&raw) == want;
                let opener = OpenKey::<CS>::from_raw(&raw).expect("open key");
                let mut dst = vec![0u8; msg.len()];
                let opened = opener.open(&mut dst, &ct, &ad, seq).is_ok() && dst == msg;
                match (same, opened) {
                    (true, true) => "agree",
                    (false, false) => "differ",
                    _ => "inconsistent",
                }
            }
        }
    };
    out.push(format!("base={}", derive(&b, &apk, &encap, &parent_b, &seal_b, &open_b, &label_b)));
    for i in 0..32 {
        let bit = 1u8 << (i % 8);
        let mut p = parent_b; p[i] ^= bit;
        out.push(format!("parent.{}={}", i, derive(&b, &apk, &encap, &p, &seal_b, &open_b, &label_b)));
        let mut l = label_b; l[i] ^= bit;
        out.push(format!("label.{}={}", i, derive(&b, &apk, &encap, &parent_b, &seal_b, &open_b, &l)));
        let mut s = seal_b; s[i] ^= bit;
        out.push(format!("seal_id.{}={}", i, derive(&b, &apk, &encap, &parent_b, &s, &open_b, &label_b)));
        let mut o = open_b; o[i] ^= bit;
        out.push(format!("open_id.{}={}", i, derive(&b, &apk, &encap, &parent_b, &seal_b, &o, &label_b)));
    }
    out.push(format!("ids.swapped={}", derive(&b, &apk, &encap, &parent_b, &open_b, &seal_b, &label_b)));
    out.push(format!("ids.shifted={}", {
        // boundary shift between adjacent fixed-size fields: rotate the 64 bytes seal_id || open_id by one
        let mut both = [0u8; 64];
        both[..32].copy_from_slice(&seal_b);
        both[32..].copy_from_slice(&open_b);
        both.rotate_left(1);
        derive(&b, &apk, &encap, &parent_b, both[..32].try_into().unwrap(), both[32..].try_into().unwrap(), &label_b)
    }));
    out.push(format!("author_pk.other={}", derive(&b, &a2.public().expect("pk"), &encap, &parent_b, &seal_b, &open_b, &label_b)));
    out.push(format!("peer_sk.other={}", derive(&b2, &apk, &encap, &parent_b, &seal_b, &open_b, &label_b)));
    for i in (0..encap.len()).step_by(2) {
        let mut e = encap.clone();
        e[i] ^= 1 << (i % 8);
        out.push(format!("encap.{}={}", i, derive(&b, &apk, &e, &parent_b, &seal_b, &open_b, &label_b)));
    }

    // handler role checks (afc-util)
    {
        let mut store_a = MemStore::new();
        let mut store_b = MemStore::new();
        let a_id = store_a.insert_key(&eng, a.clone()).expect("insert a");
        let b_id = store_b.insert_key(&eng, b.clone()).expect("insert b");
        let apk_enc = postcard::to_allocvec(&apk).expect("enc");
        let bpk_enc = postcard::to_allocvec(&bpk).expect("enc");
        let mk_secret = |store: &mut MemStore| {
            let s = UniSecrets::new(&eng, &ch_a).expect("secrets");
            let enc = s.peer.as_bytes().to_vec();
            let id = store.insert_key(&eng, s.author).expect("insert secret");
            (id, enc)
        };
        let _ = author_secret_id;
        type HK = UniKey<RawSealKey<CS>, RawOpenKey<CS>>;
        // author device = seal_id : created succeeds with SealOnly
        let (sid, enc) = mk_secret(&mut store_a);
        let mut ha = Handler::new(DeviceId::from_bytes(seal_b), store_a.clone());
        let eff = UniChannelCreated { parent_cmd_id: CmdId::from_bytes(parent_b), open_id: DeviceId::from_bytes(open_b),
            author_enc_key_id: a_id, peer_enc_pk: &bpk_enc, label_id: LabelId::from_bytes(label_b), key_id: (*AsRef::<aranya_crypto::BaseId>::as_ref(&sid)).into() };
        let r: Result<HK, _> = ha.uni_channel_created(&eng, &eff);
        let created_key = match &r { Ok(UniKey::SealOnly(k)) => Some(raw_s(k)), _ => None };
        out.push(format!("handler.created={}", match &r { Ok(UniKey::SealOnly(_)) => "sealonly", Ok(UniKey::OpenOnly(_)) => "openonly", Err(_) => "err" }));
        // the same device asked to create a channel it would also open
        let (sid2, _) = mk_secret(&mut store_a);
        let mut ha2 = Handler::new(DeviceId::from_bytes(open_b), store_a.clone());
        let eff2 = UniChannelCreated { key_id: (*AsRef::<aranya_crypto::BaseId>::as_ref(&sid2)).into(), ..eff.clone() };
        let r2: Result<HK, _> = ha2.uni_channel_created(&eng, &eff2);
        out.push(format!("handler.created.as_opener={}", match &r2 { Ok(_) => "ok", Err(aranya_afc_util::Error::AuthorMustBeSealer) => "err", Err(_) => "err-other" }));
        // peer device = open_id : received succeeds with OpenOnly and the same key
        let mut hb = Handler::new(DeviceId::from_bytes(open_b), store_b.clone());
        let effr = UniChannelReceived { parent_cmd_id: CmdId::from_bytes(parent_b), seal_id: DeviceId::from_bytes(seal_b),
            author_enc_pk: &apk_enc, peer_enc_key_id: b_id, label_id: LabelId::from_bytes(label_b), encap: &enc };
        let r3: Result<HK, _> = hb.uni_channel_received(&eng, &effr);
        out.push(format!("handler.received={}", match &r3 {
            Ok(UniKey::OpenOnly(k)) => if Some(raw_o(k)) == created_key { "openonly-agree" } else { "openonly-differ" },
            Ok(UniKey::SealOnly(_)) => "sealonly", Err(_) => "err" }));
        // the sealing device asked to receive its own channel
        let mut hb2 = Handler::new(DeviceId::from_bytes(seal_b), store_b.clone());
        let r4: Result<HK, _> = hb2.uni_channel_received(&eng, &effr);
        out.push(format!("handler.received.as_sealer={}", match &r4 { Ok(_) => "ok", Err(aranya_afc_util::Error::AuthorMustBeSealer) => "err", Err(_) => "err-other" }));
    }
    out.join(" ")
}

fn main() {
    quiet_panics();
    let stdin = io::stdin();
    let out = io::stdout();
    let mut out = io::BufWriter::new(out.lock());
    for line in stdin.lock().lines() {
        let line = line.unwrap();
        let f: Vec<&str> = line.split_whitespace().collect();
        let r = guarded(|| match f.first().copied() {
            Some("frame") if f.len() == 6 => frame(&f),
            Some("sweep") if f.len() == 6 => sweep(&f),
            _ => "badcase".to_string(),
        });
        match r {
            Ok(s) => writeln!(out, "{s}").unwrap(),
            Err(m) => writeln!(out, "panic {}", m.replace('\n', " ")).unwrap(),
        }
    }
}
