//! C36 runner: wrapped keys (DefaultEngine).
//!
//!   frame <engine seed> <key seed> <type>
//!       recording suite: wrap one key; prints oids, alg id bytes, key id, the postcard encoding of the
//!       wrapped key and the logged hash / AEAD calls.
//!   sweep <engine seed> <key seed> <type>
//!       default suite: wrap, then unwrap under every mutation; `<label>=<ok|err>`.
//! type = sign | enc | group | psk   (AlgId kinds Signing, Decap, Seed, Prk)
use std::io::{self, BufRead, Write};

use aranya_crypto::{
    CipherSuite, EncryptionKey, Engine, GroupKey, SigningKey,
    dangerous::spideroak_crypto::{aead::Aead, import::Import, oid::Identified as _},
    default::{DefaultCipherSuite, DefaultEngine},
    engine::UnwrappedKey,
    id::Identified,
    policy::GroupId,
    tls::PskSeed,
};
use hx_crypto::{SeedRng, guarded, hex, log_take, oids_hex, quiet_panics, rec::RecCs, unhex};

fn engine<CS: CipherSuite>(seed: &[u8]) -> DefaultEngine<SeedRng, CS> {
    let rng = SeedRng::new(seed);
    let mut kb = vec![0u8; <CS::Aead as Aead>::KEY_SIZE];
    aranya_crypto::Csprng::fill_bytes(&rng, &mut kb);
    let key = <<CS::Aead as Aead>::Key as Import<&[u8]>>::import(&kb).expect("engine key");
    DefaultEngine::new(&key, rng)
}

fn alg_bytes<CS: CipherSuite>(ty: &str) -> Vec<u8> {
    match ty {
        "sign" => <CS::Signer as aranya_crypto::dangerous::spideroak_crypto::oid::Identified>::OID.as_bytes().to_vec(),
        "enc" => <CS::Kem as aranya_crypto::dangerous::spideroak_crypto::oid::Identified>::OID.as_bytes().to_vec(),
        "psk" => <CS::Kdf as aranya_crypto::dangerous::spideroak_crypto::oid::Identified>::OID.as_bytes().to_vec(),
        _ => b"64 byte Seed".to_vec(),
    }
}

/// wraps a fresh key of the given type; returns (key id, postcard(wrapped))
fn wrap_one<CS: CipherSuite>(eng: &DefaultEngine<SeedRng, CS>, ty: &str, kseed: &[u8]) -> (Vec<u8>, Vec<u8>) {
    let rng = SeedRng::new(kseed);
    macro_rules! go {
        ($k:expr) => {{
            let k = $k;
            let id = k.id().expect("id");
            let w = eng.wrap(k).expect("wrap");
            (AsRef::<[u8]>::as_ref(&id).to_vec(), postcard::to_allocvec(&w).expect("encode wrapped"))
        }};
    }
    match ty {
        "sign" => go!(SigningKey::<CS>::new(&rng)),
        "enc" => go!(EncryptionKey::<CS>::new(&rng)),
        "group" => go!(GroupKey::<CS>::new(&rng)),
        "psk" => go!(PskSeed::<CS>::new(&rng, &GroupId::default())),
        _ => panic!("type"),
    }
}

/// unwraps `enc` as type `ty`; Some(id) on success
fn unwrap_as<CS: CipherSuite>(eng: &DefaultEngine<SeedRng, CS>, ty: &str, enc: &[u8]) -> Option<Vec<u8>> {
    let w: <DefaultEngine<SeedRng, CS> as Engine>::WrappedKey = postcard::from_bytes(enc).ok()?;
    fn idb<K: Identified>(k: &K) -> Option<Vec<u8>> where K::Id: AsRef<[u8]> {
        k.id().ok().map(|i| AsRef::<[u8]>::as_ref(&i).to_vec())
    }
    fn un<CS: CipherSuite, K: UnwrappedKey<CS>>(eng: &DefaultEngine<SeedRng, CS>, w: &<DefaultEngine<SeedRng, CS> as Engine>::WrappedKey) -> Option<K> {
        eng.unwrap::<K>(w).ok()
    }
    match ty {
        "sign" => un::<CS, SigningKey<CS>>(eng, &w).and_then(|k| idb(&k)),
        "enc" => un::<CS, EncryptionKey<CS>>(eng, &w).and_then(|k| idb(&k)),
        "group" => un::<CS, GroupKey<CS>>(eng, &w).and_then(|k| idb(&k)),
        "psk" => un::<CS, PskSeed<CS>>(eng, &w).and_then(|k| idb(&k)),
        _ => panic!("type"),
    }
}

fn frame(f: &[&str]) -> String {
    type CS = RecCs;
    let eng = engine::<CS>(&unhex(f[1]));
    let _ = log_take();
    let (id, enc) = wrap_one::<CS>(&eng, f[3], &unhex(f[2]));
    let wlog = log_take();
    let back = unwrap_as::<CS>(&eng, f[3], &enc);
    let ulog = log_take();
    format!(
        "oids={} alg={} id={} wrapped={} back={} | {} | {}",
        oids_hex::<CS>(),
        hex(&alg_bytes::<CS>(f[3])),
        hex(&id),
        hex(&enc),
        back.map(|b| hex(&b)).unwrap_or("none".into()),
        wlog.join(" ; "),
        ulog.join(" ; ")
    )
}

fn sweep(f: &[&str]) -> String {
    type CS = DefaultCipherSuite;
    let eng = engine::<CS>(&unhex(f[1]));
    let mut other_seed = unhex(f[1]);
    other_seed.push(1);
    let eng2 = engine::<CS>(&other_seed);
    let ty = f[3];
    let (id, enc) = wrap_one::<CS>(&eng, ty, &unhex(f[2]));
    let mut out = Vec::new();
    let res = |r: Option<Vec<u8>>| match r {
        Some(got) => if got == id { "ok" } else { "ok-other-id" },
        None => "err",
    };
    out.push(format!("base={}", res(unwrap_as::<CS>(&eng, ty, &enc))));
    out.push(format!("engine.other={}", res(unwrap_as::<CS>(&eng2, ty, &enc))));
    for t2 in ["sign", "enc", "group", "psk"] {
        if t2 != ty {
            out.push(format!("as.{}={}", t2, res(unwrap_as::<CS>(&eng, t2, &enc))));
        }
    }
    for i in 0..enc.len() {
        let mut e = enc.clone();
        e[i] ^= 1 << (i % 8);
        out.push(format!("byte.{}={}", i, res(unwrap_as::<CS>(&eng, ty, &e))));
    }
    for n in [enc.len() - 1, enc.len() - 16, 1] {
        out.push(format!("trunc.{}={}", n, res(unwrap_as::<CS>(&eng, ty, &enc[..n]))));
    }
    out.push(format!("len={}", enc.len()));
    out.join(" ")
}

fn main() {
    quiet_panics();
    let stdin = io::stdin();
    let out = io::stdout();
    let mut out = io::BufWriter::new(out.lock());
    for line in stdin.lock().lines() {
        let line = line.unwrap();
        let f: Vec<&str> = line.split_whitespace().collect();
        let r = guarded(|| match f.first().copied() {
            Some("frame") if f.len() == 4 => frame(&f),
            Some("sweep") if f.len() == 4 => sweep(&f),
            _ => "badcase".to_string(),
        });
        match r {
            Ok(s) => writeln!(out, "{s}").unwrap(),
            Err(m) => writeln!(out, "panic {}", m.replace('\n', " ")).unwrap(),
        }
    }
}
