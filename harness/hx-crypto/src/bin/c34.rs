//! C34 runner: command signatures.
//!
//!   frame <seed> <name hex> <parent 32B hex> <data hex>
//!       sign_cmd + verify_cmd with the recording suite; prints the suite OIDs, the
//!       public key bytes, signature, id and every hash input/output the code produced.
//!   sweep <seed> <name hex> <parent> <data hex> <other name hex>
//!       default suite: sign, then verify under every mutation; prints `<label>=<ok|err>` per
//!       mutation (labels are deterministic functions of the input line).
use std::io::{self, BufRead, Write};

use aranya_crypto::{
    CipherSuite, Cmd, Signature, SigningKey, VerifyingKey,
    default::{DefaultCipherSuite, DefaultEngine},
    keystore::memstore::MemStore,
    policy::CmdId,
};
use aranya_crypto_ffi::Ffi;
use aranya_policy_vm::{CommandContext, Identifier, MachineStack, OpenContext, Stack, ffi::FfiModule};
use hx_crypto::{SeedRng, guarded, hex, log_take, oids_hex, quiet_panics, rec::RecCs, unhex};

fn pk_bytes<CS: CipherSuite>(pk: &VerifyingKey<CS>) -> Vec<u8> {
    let enc = postcard::to_allocvec(pk).expect("encode pk");
    enc[enc.len() - 32..].to_vec()
}

fn frame(f: &[&str]) -> String {
    type CS = RecCs;
    let rng = SeedRng::new(&unhex(f[1]));
    let name = String::from_utf8(unhex(f[2])).expect("utf8 name");
    let parent = CmdId::from_bytes(unhex(f[3]).try_into().expect("parent"));
    let data = unhex(f[4]);
    let sk = SigningKey::<CS>::new(&rng);
    let pk = sk.public().expect("pk");
    let _ = log_take();
    let (sig, id) = sk.sign_cmd(Cmd { data: &data, name: &name, parent_id: &parent }).expect("sign");
    let slog = log_take();
    let vid = pk.verify_cmd(Cmd { data: &data, name: &name, parent_id: &parent }, &sig).expect("verify");
    let vlog = log_take();
    use std::borrow::Borrow;
    format!(
        "oids={} pk={} sig={} id={} vid={} | {} | {}",
        oids_hex::<CS>(),
        hex(&pk_bytes(&pk)),
        hex(sig.to_bytes().borrow()),
        hex(id.as_bytes()),
        hex(vid.as_bytes()),
        slog.join(" ; "),
        vlog.join(" ; ")
    )
}

fn ffi_verify(pk_enc: &[u8], name: &str, parent: CmdId, data: &[u8], claimed: CmdId, sig: &[u8]) -> Result<bool, String> {
    let ident: Identifier = name.parse().map_err(|_| "badname".to_string())?;
    let ffi = Ffi::new(MemStore::new());
    let (eng, _) = DefaultEngine::<_, DefaultCipherSuite>::from_entropy(SeedRng::new(b"eng"));
    let mut stack = MachineStack::new();
    stack.push(Some(pk_enc.to_vec())).map_err(|e| format!("{e:?}"))?;
    stack.push(parent).map_err(|e| format!("{e:?}"))?;
    stack.push(data.to_vec()).map_err(|e| format!("{e:?}"))?;
    stack.push(claimed).map_err(|e| format!("{e:?}"))?;
    stack.push(sig.to_vec()).map_err(|e| format!("{e:?}"))?;
    let idx = <Ffi<MemStore> as FfiModule>::SCHEMA
        .functions
        .iter()
        .position(|f| f.name.as_str() == "verify")
        .ok_or("no verify")?;
    let ctx = CommandContext::Open(OpenContext { name: ident });
    Ok(ffi.call(idx, &mut stack, &ctx, &eng).is_ok())
}

fn sweep(f: &[&str]) -> String {
    type CS = DefaultCipherSuite;
    use std::borrow::Borrow;
    let rng = SeedRng::new(&unhex(f[1]));
    let name = String::from_utf8(unhex(f[2])).expect("utf8 name");
    let parent_b: [u8; 32] = unhex(f[3]).try_into().expect("parent");
    let data = unhex(f[4]);
    let other_name = String::from_utf8(unhex(f[5])).expect("utf8 name");
    let sk = SigningKey::<CS>::new(&rng);
    let pk = sk.public().expect("pk");
    let sk2 = SigningKey::<CS>::new(&rng);
    let pk2 = sk2.public().expect("pk2");
    let parent = CmdId::from_bytes(parent_b);
    let (sig, id) = sk.sign_cmd(Cmd { data: &data, name: &name, parent_id: &parent }).expect("sign");
    let sigb: Vec<u8> = sig.to_bytes().borrow().to_vec();
    let pk_enc = postcard::to_allocvec(&pk).expect("pk enc");
    let pk2_enc = postcard::to_allocvec(&pk2).expect("pk enc");
    let mut out: Vec<String> = Vec::new();

    // direct (aranya-crypto) verification: ok iff Ok(id') with id' == id
    let direct = |pk: &VerifyingKey<CS>, name: &str, parent: &[u8; 32], data: &[u8], sigb: &[u8]| -> &'static str {
        let sig = match Signature::<CS>::from_bytes(sigb) { Ok(s) => s, Err(_) => return "err" };
        let p = CmdId::from_bytes(*parent);
        match pk.verify_cmd(Cmd { data, name, parent_id: &p }, &sig) {
            Ok(got) => if got == id { "ok" } else { "ok-other-id" },
            Err(_) => "err",
        }
    };
    let viaffi = |pk_enc: &[u8], name: &str, parent: &[u8; 32], data: &[u8], claimed: &[u8; 32], sigb: &[u8]| -> String {
        match ffi_verify(pk_enc, name, CmdId::from_bytes(*parent), data, CmdId::from_bytes(*claimed), sigb) {
            Ok(true) => "ok".into(),
            Ok(false) => "err".into(),
            Err(e) => if e == "badname" { "skip".into() } else { format!("fail:{e}") },
        }
    };
    let idb: [u8; 32] = id.as_bytes().try_into().unwrap();
    out.push(format!("base={}", direct(&pk, &name, &parent_b, &data, &sigb)));
    out.push(format!("ffi.base={}", viaffi(&pk_enc, &name, &parent_b, &data, &idb, &sigb)));
    // every byte of data, parent, signature, claimed id
    for i in 0..data.len() {
        let mut d = data.clone();
        d[i] ^= 1 << (i % 8);
        out.push(format!("data.{}={}", i, direct(&pk, &name, &parent_b, &d, &sigb)));
        if i % 4 == 0 { out.push(format!("ffi.data.{}={}", i, viaffi(&pk_enc, &name, &parent_b, &d, &idb, &sigb))); }
    }
    for n in [data.len().saturating_sub(1), data.len() + 1] {
        if n == data.len() { continue; }
        let mut d = data.clone();
        d.resize(n, 0);
        out.push(format!("data.len{}={}", n, direct(&pk, &name, &parent_b, &d, &sigb)));
    }
    for i in 0..32 {
        let mut p = parent_b;
        p[i] ^= 0x80 >> (i % 8);
        out.push(format!("parent.{}={}", i, direct(&pk, &name, &p, &data, &sigb)));
        if i % 4 == 0 { out.push(format!("ffi.parent.{}={}", i, viaffi(&pk_enc, &name, &p, &data, &idb, &sigb))); }
        let mut c = idb;
        c[i] ^= 1 << (i % 8);
        out.push(format!("ffi.claimed.{}={}", i, viaffi(&pk_enc, &name, &parent_b, &data, &c, &sigb)));
    }
    for i in 0..sigb.len() {
        let mut s = sigb.clone();
        s[i] ^= 1 << (i % 8);
        out.push(format!("sig.{}={}", i, direct(&pk, &name, &parent_b, &data, &s)));
        if i % 4 == 0 { out.push(format!("ffi.sig.{}={}", i, viaffi(&pk_enc, &name, &parent_b, &data, &idb, &s))); }
    }
    // name, author
    if other_name != name {
        out.push(format!("name.other={}", direct(&pk, &other_name, &parent_b, &data, &sigb)));
        out.push(format!("ffi.name.other={}", viaffi(&pk_enc, &other_name, &parent_b, &data, &idb, &sigb)));
    }
    out.push(format!("pk.other={}", direct(&pk2, &name, &parent_b, &data, &sigb)));
    out.push(format!("ffi.pk.other={}", viaffi(&pk2_enc, &name, &parent_b, &data, &idb, &sigb)));
    // boundary shifts between name and data (same concatenation)
    if name.len() >= 2 {
        let (n2, tail) = name.split_at(name.len() - 1);
        let mut d = tail.as_bytes().to_vec();
        d.extend_from_slice(&data);
        out.push(format!("shift.name>data={}", direct(&pk, n2, &parent_b, &d, &sigb)));
        out.push(format!("ffi.shift.name>data={}", viaffi(&pk_enc, n2, &parent_b, &d, &idb, &sigb)));
    }
    if !data.is_empty() && data[0].is_ascii_lowercase() {
        let n2 = format!("{}{}", name, data[0] as char);
        out.push(format!("shift.data>name={}", direct(&pk, &n2, &parent_b, &data[1..], &sigb)));
        out.push(format!("ffi.shift.data>name={}", viaffi(&pk_enc, &n2, &parent_b, &data[1..], &idb, &sigb)));
    }
    // name/parent shift: parent is fixed-size, so move the name's last byte in front of the parent's bytes
    {
        let mut p = parent_b;
        p.rotate_right(1);
        p[0] = *name.as_bytes().last().unwrap();
        let n2 = &name[..name.len() - 1];
        if !n2.is_empty() {
            out.push(format!("shift.name>parent={}", direct(&pk, n2, &p, &data, &sigb)));
        }
    }
    out.join(" ")
}

fn main() {
    quiet_panics();
    let stdin = io::stdin();
    let out = io::stdout();
    let mut out = io::BufWriter::new(out.lock());
    for line in stdin.lock().lines() {
        let line = line.unwrap();
        let f: Vec<&str> = line.split_whitespace().collect();
        let r = guarded(|| match f.first().copied() {
            Some("frame") if f.len() == 5 => frame(&f),
            Some("sweep") if f.len() == 6 => sweep(&f),
            _ => "badcase".to_string(),
        });
        match r {
            Ok(s) => writeln!(out, "{s}").unwrap(),
            Err(m) => writeln!(out, "panic {}", m.replace('\n', " ")).unwrap(),
        }
    }
}
