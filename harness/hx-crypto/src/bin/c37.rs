//! C37 runner: context-bound encryption (group keys, sealed group keys, sealed PSK seeds).
//!
//!   frame <seed> <label hex> <parent 32B> <group 32B> <plaintext hex>
//!       recording suite: GroupKey::seal/open, seal_group_key/open_group_key, seal_psk_seed/open_psk_seed;
//!       prints inputs the model needs and the logged hash / KDF / AEAD calls of each step.
//!   sweep <seed> <label hex> <parent> <group> <plaintext hex>
//!       default suite: every context component and every ciphertext byte mutated; `<label>=<ok|err>`.
use std::io::{self, BufRead, Write};

use aranya_crypto::{
    CipherSuite, EncryptedGroupKey, Encap, EncryptionKey, GroupKey, SigningKey,
    Context,
    default::DefaultCipherSuite,
    id::Identified,
    policy::{CmdId, GroupId},
    tls::{EncryptedPskSeed, PskSeed},
};
use hx_crypto::{SeedRng, guarded, hex, log_take, oids_hex, quiet_panics, rec::RecCs, unhex};

fn b32(s: &str) -> [u8; 32] {
    unhex(s).try_into().expect("32 bytes")
}

fn frame(f: &[&str]) -> String {
    type CS = RecCs;
    let rng = SeedRng::new(&unhex(f[1]));
    let label = String::from_utf8(unhex(f[2])).expect("label");
    let parent = CmdId::from_bytes(b32(f[3]));
    let group = GroupId::from_bytes(b32(f[4]));
    let pt = unhex(f[5]);
    let author = SigningKey::<CS>::new(&rng).public().expect("pk");
    let author_id = author.id().expect("author id");
    let gk = GroupKey::<CS>::new(&rng);
    let recv = EncryptionKey::<CS>::new(&rng);
    let send = EncryptionKey::<CS>::new(&rng);
    let _ = log_take();
    // group key seal / open
    let mut dst = vec![0u8; pt.len() + GroupKey::<CS>::OVERHEAD];
    gk.seal(&rng, &mut dst, &pt, Context { label: &label, parent, author_sign_pk: &author }).expect("seal");
    let l1 = log_take();
    let mut back = vec![0u8; pt.len()];
    gk.open(&mut back, &dst, Context { label: &label, parent, author_sign_pk: &author }).expect("open");
    let l2 = log_take();
    // sealed group key
    let (enc, egk) = recv.public().expect("pk").seal_group_key(&rng, &gk, group).expect("seal_group_key");
    let l3 = log_take();
    let gk2 = recv.open_group_key(&enc, egk.clone(), group).expect("open_group_key");
    let l4 = log_take();
    let same = gk2.id().expect("id") == gk.id().expect("id");
    let _ = log_take();
    // sealed psk seed
    let seed = PskSeed::<CS>::new(&rng, &group);
    let _ = log_take();
    let (enc2, eps) = send.seal_psk_seed(&rng, &seed, &recv.public().expect("pk"), &group).expect("seal_psk_seed");
    let l5 = log_take();
    let _ = recv.open_psk_seed(&enc2, eps, &send.public().expect("pk"), &group).expect("open_psk_seed");
    let l6 = log_take();
    format!(
        "oids={} author={} sealed={} back={} same={} || {} || {} || {} || {} || {} || {}",
        oids_hex::<CS>(),
        hex(author_id.as_bytes()),
        hex(&dst),
        hex(&back),
        same,
        l1.join(" ; "), l2.join(" ; "), l3.join(" ; "), l4.join(" ; "), l5.join(" ; "), l6.join(" ; ")
    )
}

fn sweep(f: &[&str]) -> String {
    type CS = DefaultCipherSuite;
    let rng = SeedRng::new(&unhex(f[1]));
    let label = String::from_utf8(unhex(f[2])).expect("label");
    let parent_b = b32(f[3]);
    let group_b = b32(f[4]);
    let pt = unhex(f[5]);
    let author = SigningKey::<CS>::new(&rng).public().expect("pk");
    let author2 = SigningKey::<CS>::new(&rng).public().expect("pk");
    let gk = GroupKey::<CS>::new(&rng);
    let gk_other = GroupKey::<CS>::new(&rng);
    let recv = EncryptionKey::<CS>::new(&rng);
    let recv2 = EncryptionKey::<CS>::new(&rng);
    let send = EncryptionKey::<CS>::new(&rng);
    let send2 = EncryptionKey::<CS>::new(&rng);
    let mut out = Vec::new();

    // ---- group key seal/open
    let mut ct = vec![0u8; pt.len() + GroupKey::<CS>::OVERHEAD];
    gk.seal(&rng, &mut ct, &pt, Context { label: &label, parent: CmdId::from_bytes(parent_b), author_sign_pk: &author }).expect("seal");
    let open = |k: &GroupKey<CS>, c: &[u8], label: &str, parent: &[u8; 32], a: &aranya_crypto::VerifyingKey<CS>| -> &'static str {
        let n = c.len().saturating_sub(GroupKey::<CS>::OVERHEAD);
        let mut dst = vec![0u8; n];
        match k.open(&mut dst, c, Context { label, parent: CmdId::from_bytes(*parent), author_sign_pk: a }) {
            Ok(()) => if dst == pt { "ok" } else { "ok-other-pt" },
            Err(_) => "err",
        }
    };
    out.push(format!("gk.base={}", open(&gk, &ct, &label, &parent_b, &author)));
    out.push(format!("gk.key.other={}", open(&gk_other, &ct, &label, &parent_b, &author)));
    out.push(format!("gk.author.other={}", open(&gk, &ct, &label, &parent_b, &author2)));
    let l2 = format!("{}x", label);
    out.push(format!("gk.label.ext={}", open(&gk, &ct, &l2, &parent_b, &author)));
    if label.len() > 1 {
        out.push(format!("gk.label.cut={}", open(&gk, &ct, &label[..label.len() - 1], &parent_b, &author)));
        // boundary shift label -> parent
        let mut p = parent_b;
        p.rotate_right(1);
        p[0] = *label.as_bytes().last().unwrap();
        out.push(format!("gk.shift.label>parent={}", open(&gk, &ct, &label[..label.len() - 1], &p, &author)));
    }
    for i in 0..32 {
        let mut p = parent_b;
        p[i] ^= 1 << (i % 8);
        out.push(format!("gk.parent.{}={}", i, open(&gk, &ct, &label, &p, &author)));
    }
    for i in 0..ct.len() {
        let mut c = ct.clone();
        c[i] ^= 1 << (i % 8);
        out.push(format!("gk.ct.{}={}", i, open(&gk, &c, &label, &parent_b, &author)));
    }
    for n in [0usize, 11, 12, 27, ct.len() - 1] {
        if n < ct.len() {
            out.push(format!("gk.trunc.{}={}", n, open(&gk, &ct[..n], &label, &parent_b, &author)));
        }
    }

    // ---- sealed group key
    let group = GroupId::from_bytes(group_b);
    let (enc, egk) = recv.public().expect("pk").seal_group_key(&rng, &gk, group).expect("seal_group_key");
    let gid = gk.id().expect("id");
    let encb = enc.as_bytes().to_vec();
    let egkb = postcard::to_allocvec(&egk).expect("encode egk");
    let opengk = |r: &EncryptionKey<CS>, encb: &[u8], egkb: &[u8], g: &[u8; 32]| -> &'static str {
        let Ok(enc) = Encap::<CS>::from_bytes(encb) else { return "err" };
        let Ok(egk) = postcard::from_bytes::<EncryptedGroupKey<CS>>(egkb) else { return "err" };
        match r.open_group_key(&enc, egk, GroupId::from_bytes(*g)) {
            Ok(k) => if k.id().expect("id") == gid { "ok" } else { "ok-other-key" },
            Err(_) => "err",
        }
    };
    out.push(format!("sgk.base={}", opengk(&recv, &encb, &egkb, &group_b)));
    out.push(format!("sgk.recipient.other={}", opengk(&recv2, &encb, &egkb, &group_b)));
    for i in 0..32 {
        let mut g = group_b;
        g[i] ^= 1 << (i % 8);
        out.push(format!("sgk.group.{}={}", i, opengk(&recv, &encb, &egkb, &g)));
    }
    for i in 0..egkb.len() {
        let mut e = egkb.clone();
        e[i] ^= 1 << (i % 8);
        out.push(format!("sgk.ct.{}={}", i, opengk(&recv, &encb, &e, &group_b)));
    }
    for i in (0..encb.len()).step_by(3) {
        let mut e = encb.clone();
        e[i] ^= 1 << (i % 8);
        out.push(format!("sgk.enc.{}={}", i, opengk(&recv, &e, &egkb, &group_b)));
    }

    // ---- sealed PSK seed
    let seed = PskSeed::<CS>::new(&rng, &group);
    let sid = seed.id().expect("id");
    let (enc2, eps) = send.seal_psk_seed(&rng, &seed, &recv.public().expect("pk"), &group).expect("seal_psk_seed");
    let enc2b = enc2.as_bytes().to_vec();
    let epsb = postcard::to_allocvec(&eps).expect("encode eps");
    let openps = |r: &EncryptionKey<CS>, s: &EncryptionKey<CS>, encb: &[u8], epsb: &[u8], g: &[u8; 32]| -> &'static str {
        let Ok(enc) = Encap::<CS>::from_bytes(encb) else { return "err" };
        let Ok(eps) = postcard::from_bytes::<EncryptedPskSeed<CS>>(epsb) else { return "err" };
        match r.open_psk_seed(&enc, eps, &s.public().expect("pk"), &GroupId::from_bytes(*g)) {
            Ok(k) => if k.id().expect("id") == sid { "ok" } else { "ok-other-seed" },
            Err(_) => "err",
        }
    };
    out.push(format!("psk.base={}", openps(&recv, &send, &enc2b, &epsb, &group_b)));
    out.push(format!("psk.recipient.other={}", openps(&recv2, &send, &enc2b, &epsb, &group_b)));
    out.push(format!("psk.sender.other={}", openps(&recv, &send2, &enc2b, &epsb, &group_b)));
    for i in 0..32 {
        let mut g = group_b;
        g[i] ^= 1 << (i % 8);
        out.push(format!("psk.group.{}={}", i, openps(&recv, &send, &enc2b, &epsb, &g)));
    }
    for i in 0..epsb.len() {
        let mut e = epsb.clone();
        e[i] ^= 1 << (i % 8);
        out.push(format!("psk.ct.{}={}", i, openps(&recv, &send, &enc2b, &e, &group_b)));
    }
    for i in (0..enc2b.len()).step_by(3) {
        let mut e = enc2b.clone();
        e[i] ^= 1 << (i % 8);
        out.push(format!("psk.enc.{}={}", i, openps(&recv, &send, &e, &epsb, &group_b)));
    }
    out.join(" ")
}

fn main() {
    quiet_panics();
    let stdin = io::stdin();
    let out = io::stdout();
    let mut out = io::BufWriter::new(out.lock());
    for line in stdin.lock().lines() {
        let line = line.unwrap();
        let f: Vec<&str> = line.split_whitespace().collect();
        let r = guarded(|| match f.first().copied() {
            Some("frame") if f.len() == 6 => frame(&f),
            Some("sweep") if f.len() == 6 => sweep(&f),
            _ => "badcase".to_string(),
        });
        match r {
            Ok(s) => writeln!(out, "{s}").unwrap(),
            Err(m) => writeln!(out, "panic {}", m.replace('\n', " ")).unwrap(),
        }
    }
}
