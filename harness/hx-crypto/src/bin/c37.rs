//! C37 runner: context-bound encryption (group keys, sealed group keys, sealed PSK seeds).
//!
//!   frame <seed> <label hex> <parent 32B> <group 32B> <plaintext hex>
//!       recording suite: GroupKey::seal/open, seal_group_key/open_group_key, seal_psk_seed/open_psk_seed;
//!       prints inputs the model needs and the logged hash / KDF / AEAD calls of each step.
//!   sweep <seed> <label hex> <parent> <group> <plaintext hex>
//!       default suite: every context component and every ciphertext byte mutated; `<label>=<ok|err>`.
//!   tframe <seed> <version> <topic 16B> <plaintext hex>      APQ topic keys, recording suite
//!   tsweep <seed> <version> <topic 16B> <plaintext hex>      APQ topic keys, default suite, each component alone
use std::io::{self, BufRead, Write};

use aranya_crypto::apq::{
    EncryptedTopicKey, ReceiverSecretKey, Sender, SenderSecretKey, SenderSigningKey, Topic, TopicKey, Version,
};
use aranya_crypto::{
    CipherSuite, EncryptedGroupKey, Encap, EncryptionKey, GroupKey, SigningKey,
    Context,
    default::DefaultCipherSuite,
    id::Identified,
    policy::{CmdId, GroupId},
    tls::{EncryptedPskSeed, PskSeed},
};
use hx_crypto::{SeedRng, guarded, hex, log_take, oids_hex, quiet_panics, rec::RecCs, unhex};

fn b32(s: &str) -> [u8; 32] {
    unhex(s).try_into().expect("32 bytes")
}

fn frame(f: &[&str]) -> String {
    type CS = RecCs;
    let rng = SeedRng::new(&unhex(f[1]));
    let label = String::from_utf8(unhex(f[2])).expect("label");
    let parent = CmdId::from_bytes(b32(f[3]));
    let group = GroupId::from_bytes(b32(f[4]));
    let pt = unhex(f[5]);
    let author = SigningKey::<CS>::new(&rng).public().expect("pk");
    let author_id = author.id().expect("author id");
    let gk = GroupKey::<CS>::new(&rng);
    let recv = EncryptionKey::<CS>::new(&rng);
    let send = EncryptionKey::<CS>::new(&rng);
    let _ = log_take();
    // group key seal / open
    let mut dst = vec![0u8; pt.len() + GroupKey::<CS>::OVERHEAD];
    gk.seal(&rng, &mut dst, &pt, Context { label: &label, parent, author_sign_pk: &author }).expect("seal");
    let l1 = log_take();
    let mut back = vec![0u8; pt.len()];
    gk.open(&mut back, &dst, Context { label: &label, parent, author_sign_pk: &author }).expect("open");
    let l2 = log_take();
    // sealed group key
    let (enc, egk) = recv.public().expect("pk").seal_group_key(&rng, &gk, group).expect("seal_group_key");
    let l3 = log_take();
    let gk2 = recv.open_group_key(&enc, egk.clone(), group).expect("open_group_key");
    let l4 = log_take();
    let same = gk2.id().expect("id") == gk.id().expect("id");
    let _ = log_take();
    // sealed psk seed
    let seed = PskSeed::<CS>::new(&rng, &group);
    let _ = log_take();
    let (enc2, eps) = send.seal_psk_seed(&rng, &seed, &recv.public().expect("pk"), &group).expect("seal_psk_seed");
    let l5 = log_take();
    let _ = recv.open_psk_seed(&enc2, eps, &send.public().expect("pk"), &group).expect("open_psk_seed");
    let l6 = log_take();
    format!(
        "oids={} author={} sealed={} back={} same={} || {} || {} || {} || {} || {} || {}",
        oids_hex::<CS>(),
        hex(author_id.as_bytes()),
        hex(&dst),
        hex(&back),
        same,
        l1.join(" ; "), l2.join(" ; "), l3.join(" ; "), l4.join(" ; "), l5.join(" ; "), l6.join(" ; ")
    )
}

fn sweep(f: &[&str]) -> String {
    type CS = DefaultCipherSuite;
    let rng = SeedRng::new(&unhex(f[1]));
    let label = String::from_utf8(unhex(f[2])).expect("label");
    let parent_b = b32(f[3]);
    let group_b = b32(f[4]);
    let pt = unhex(f[5]);
    let author = SigningKey::<CS>::new(&rng).public().expect("pk");
    let author2 = SigningKey::<CS>::new(&rng).public().expect("pk");
    let gk = GroupKey::<CS>::new(&rng);
    let gk_other = GroupKey::<CS>::new(&rng);
    let recv = EncryptionKey::<CS>::new(&rng);
    let recv2 = EncryptionKey::<CS>::new(&rng);
    let send = EncryptionKey::<CS>::new(&rng);
    let send2 = EncryptionKey::<CS>::new(&rng);
    let mut out = Vec::new();

    // ---- group key seal/open
    let mut ct = vec![0u8; pt.len() + GroupKey::<CS>::OVERHEAD];
    gk.seal(&rng, &mut ct, &pt, Context { label: &label, parent: CmdId::from_bytes(parent_b), author_sign_pk: &author }).expect("seal");
    let open = |k: &GroupKey<CS>, c: &[u8], label: &str, parent: &[u8; 32], a: &aranya_crypto::VerifyingKey<CS>| -> &'static str {
        let n = c.len().saturating_sub(GroupKey::<CS>::OVERHEAD);
        let mut dst = vec![0u8; n];
        match k.open(&mut dst, c, Context { label, parent: CmdId::from_bytes(*parent), author_sign_pk: a }) {
            Ok(()) => if dst == pt { "ok" } else { "ok-other-pt" },
            Err(_) => "err",
        }
    };
    out.push(format!("gk.base={}", open(&gk, &ct, &label, &parent_b, &author)));
    out.push(format!("gk.key.other={}", open(&gk_other, &ct, &label, &parent_b, &author)));
    out.push(format!("gk.author.other={}", open(&gk, &ct, &label, &parent_b, &author2)));
    let l2 = format!("{}x", label);
    out.push(format!("gk.label.ext={}", open(&gk, &ct, &l2, &parent_b, &author)));
    if label.len() > 1 {
        out.push(format!("gk.label.cut={}", open(&gk, &ct, &label[..label.len() - 1], &parent_b, &author)));
        // boundary shift label -> parent
        let mut p = parent_b;
        p.rotate_right(1);
        p[0] = *label.as_bytes().last().unwrap();
        out.push(format!("gk.shift.label>parent={}", open(&gk, &ct, &label[..label.len() - 1], &p, &author)));
    }
    for i in 0..32 {
        let mut p = parent_b;
        p[i] ^= 1 << (i % 8);
        out.push(format!("gk.parent.{}={}", i, open(&gk, &ct, &label, &p, &author)));
    }
    for i in 0..ct.len() {
        let mut c = ct.clone();
        c[i] ^= 1 << (i % 8);
        out.push(format!("gk.ct.{}={}", i, open(&gk, &c, &label, &parent_b, &author)));
    }
    for n in [0usize, 11, 12, 27, ct.len() - 1] {
        if n < ct.len() {
            out.push(format!("gk.trunc.{}={}", n, open(&gk, &ct[..n], &label, &parent_b, &author)));
        }
    }

    // ---- sealed group key
    let group = GroupId::from_bytes(group_b);
    let (enc, egk) = recv.public().expect("pk").seal_group_key(&rng, &gk, group).expect("seal_group_key");
    let gid = gk.id().expect("id");
    let encb = enc.as_bytes().to_vec();
    let egkb = postcard::to_allocvec(&egk).expect("encode egk");
    let opengk = |r: &EncryptionKey<CS>, encb: &[u8], egkb: &[u8], g: &[u8; 32]| -> &'static str {
        let Ok(enc) = Encap::<CS>::from_bytes(encb) else { return "err" };
        let Ok(egk) = postcard::from_bytes::<EncryptedGroupKey<CS>>(egkb) else { return "err" };
        match r.open_group_key(&enc, egk, GroupId::from_bytes(*g)) {
            Ok(k) => if k.id().expect("id") == gid { "ok" } else { "ok-other-key" },
            Err(_) => "err",
        }
    };
    out.push(format!("sgk.base={}", opengk(&recv, &encb, &egkb, &group_b)));
    out.push(format!("sgk.recipient.other={}", opengk(&recv2, &encb, &egkb, &group_b)));
    for i in 0..32 {
        let mut g = group_b;
        g[i] ^= 1 << (i % 8);
        out.push(format!("sgk.group.{}={}", i, opengk(&recv, &encb, &egkb, &g)));
    }
    for i in 0..egkb.len() {
        let mut e = egkb.clone();
        e[i] ^= 1 << (i % 8);
        out.push(format!("sgk.ct.{}={}", i, opengk(&recv, &encb, &e, &group_b)));
    }
    for i in (0..encb.len()).step_by(3) {
        let mut e = encb.clone();
        e[i] ^= 1 << (i % 8);
        out.push(format!("sgk.enc.{}={}", i, opengk(&recv, &e, &egkb, &group_b)));
    }

    // ---- sealed PSK seed
    let seed = PskSeed::<CS>::new(&rng, &group);
    let sid = seed.id().expect("id");
    let (enc2, eps) = send.seal_psk_seed(&rng, &seed, &recv.public().expect("pk"), &group).expect("seal_psk_seed");
    let enc2b = enc2.as_bytes().to_vec();
    let epsb = postcard::to_allocvec(&eps).expect("encode eps");
    let openps = |r: &EncryptionKey<CS>, s: &EncryptionKey<CS>, encb: &[u8], epsb: &[u8], g: &[u8; 32]| -> &'static str {
        let Ok(enc) = Encap::<CS>::from_bytes(encb) else { return "err" };
        let Ok(eps) = postcard::from_bytes::<EncryptedPskSeed<CS>>(epsb) else { return "err" };
        match r.open_psk_seed(&enc, eps, &s.public().expect("pk"), &GroupId::from_bytes(*g)) {
            Ok(k) => if k.id().expect("id") == sid { "ok" } else { "ok-other-seed" },
            Err(_) => "err",
        }
    };
    out.push(format!("psk.base={}", openps(&recv, &send, &enc2b, &epsb, &group_b)));
    out.push(format!("psk.recipient.other={}", openps(&recv2, &send, &enc2b, &epsb, &group_b)));
    out.push(format!("psk.sender.other={}", openps(&recv, &send2, &enc2b, &epsb, &group_b)));
    for i in 0..32 {
        let mut g = group_b;
        g[i] ^= 1 << (i % 8);
        out.push(format!("psk.group.{}={}", i, openps(&recv, &send, &enc2b, &epsb, &g)));
    }
    for i in 0..epsb.len() {
        let mut e = epsb.clone();
        e[i] ^= 1 << (i % 8);
        out.push(format!("psk.ct.{}={}", i, openps(&recv, &send, &enc2b, &e, &group_b)));
    }
    for i in (0..enc2b.len()).step_by(3) {
        let mut e = enc2b.clone();
        e[i] ^= 1 << (i % 8);
        out.push(format!("psk.enc.{}={}", i, openps(&recv, &send, &e, &epsb, &group_b)));
    }
    out.join(" ")
}

fn b16(s: &str) -> [u8; 16] {
    unhex(s).try_into().expect("16 bytes")
}

fn tframe(f: &[&str]) -> String {
    type CS = RecCs;
    let rng = SeedRng::new(&unhex(f[1]));
    let version = Version::new(f[2].parse().expect("version"));
    let topic = Topic::from(b16(f[3]));
    let pt = unhex(f[4]);
    let s_enc_sk = SenderSecretKey::<CS>::new(&rng);
    let s_enc = s_enc_sk.public().expect("pk");
    let s_sign = SenderSigningKey::<CS>::new(&rng).public().expect("pk");
    let recv = ReceiverSecretKey::<CS>::new(&rng);
    let enc_id = s_enc.id().expect("id");
    let sign_id = s_sign.id().expect("id");
    let _ = log_take();
    let tk = TopicKey::<CS>::new(&rng, version, &topic).expect("topic key");
    let l0 = log_take();
    let ident = Sender { enc_key: &s_enc, sign_key: &s_sign };
    let mut dst = vec![0u8; pt.len() + TopicKey::<CS>::OVERHEAD];
    tk.seal_message(&rng, &mut dst, &pt, version, &topic, &ident).expect("seal_message");
    let l1 = log_take();
    let mut back = vec![0u8; pt.len()];
    tk.open_message(&mut back, &dst, version, &topic, &ident).expect("open_message");
    let l2 = log_take();
    let (enc, etk) = recv.public().expect("pk").seal_topic_key(&rng, version, &topic, &s_enc_sk, &tk).expect("seal_topic_key");
    let l3 = log_take();
    let tk2 = recv.open_topic_key(version, &topic, &s_enc, &enc, &etk).expect("open_topic_key");
    let l4 = log_take();
    let same = tk2.id().expect("id") == tk.id().expect("id");
    let _ = log_take();
    format!(
        "oids={} enc_id={} sign_id={} sealed={} back={} same={} || {} || {} || {} || {} || {}",
        oids_hex::<CS>(),
        hex(enc_id.as_bytes()),
        hex(sign_id.as_bytes()),
        hex(&dst),
        hex(&back),
        same,
        l0.join(" ; "), l1.join(" ; "), l2.join(" ; "), l3.join(" ; "), l4.join(" ; ")
    )
}

fn tsweep(f: &[&str]) -> String {
    type CS = DefaultCipherSuite;
    let rng = SeedRng::new(&unhex(f[1]));
    let v: u32 = f[2].parse().expect("version");
    let topic_b = b16(f[3]);
    let pt = unhex(f[4]);
    let version = Version::new(v);
    let topic = Topic::from(topic_b);
    let s_enc_sk = SenderSecretKey::<CS>::new(&rng);
    let s_enc = s_enc_sk.public().expect("pk");
    let s_sign = SenderSigningKey::<CS>::new(&rng).public().expect("pk");
    let s_enc2_sk = SenderSecretKey::<CS>::new(&rng);
    let s_enc2 = s_enc2_sk.public().expect("pk");
    let s_sign2 = SenderSigningKey::<CS>::new(&rng).public().expect("pk");
    let recv = ReceiverSecretKey::<CS>::new(&rng);
    let recv2 = ReceiverSecretKey::<CS>::new(&rng);
    let tk = TopicKey::<CS>::new(&rng, version, &topic).expect("topic key");
    let tk_other = TopicKey::<CS>::new(&rng, version, &topic).expect("topic key");
    let mut out = Vec::new();

    // ---- messages
    let mut ct = vec![0u8; pt.len() + TopicKey::<CS>::OVERHEAD];
    tk.seal_message(&rng, &mut ct, &pt, version, &topic, &Sender { enc_key: &s_enc, sign_key: &s_sign }).expect("seal_message");
    let open = |k: &TopicKey<CS>, c: &[u8], v: u32, t: &[u8; 16], e: &aranya_crypto::apq::SenderPublicKey<CS>, s: &aranya_crypto::apq::SenderVerifyingKey<CS>| -> &'static str {
        let n = c.len().saturating_sub(TopicKey::<CS>::OVERHEAD);
        let mut dst = vec![0u8; n];
        match k.open_message(&mut dst, c, Version::new(v), &Topic::from(*t), &Sender { enc_key: e, sign_key: s }) {
            Ok(()) => if dst == pt { "ok" } else { "ok-other-pt" },
            Err(_) => "err",
        }
    };
    out.push(format!("tm.base={}", open(&tk, &ct, v, &topic_b, &s_enc, &s_sign)));
    out.push(format!("tm.key.other={}", open(&tk_other, &ct, v, &topic_b, &s_enc, &s_sign)));
    out.push(format!("tm.sender.enc_only={}", open(&tk, &ct, v, &topic_b, &s_enc2, &s_sign)));
    out.push(format!("tm.sender.sign_only={}", open(&tk, &ct, v, &topic_b, &s_enc, &s_sign2)));
    out.push(format!("tm.sender.both={}", open(&tk, &ct, v, &topic_b, &s_enc2, &s_sign2)));
    for i in 0..32 {
        out.push(format!("tm.version.{}={}", i, open(&tk, &ct, v ^ (1u32 << i), &topic_b, &s_enc, &s_sign)));
    }
    out.push(format!("tm.version.plus1={}", open(&tk, &ct, v.wrapping_add(1), &topic_b, &s_enc, &s_sign)));
    for i in 0..16 {
        let mut t = topic_b;
        t[i] ^= 1 << (i % 8);
        out.push(format!("tm.topic.{}={}", i, open(&tk, &ct, v, &t, &s_enc, &s_sign)));
    }
    // boundary shift version -> topic (fixed sizes: rotate the 20 bytes by one)
    {
        let mut both = [0u8; 20];
        both[..4].copy_from_slice(&v.to_be_bytes());
        both[4..].copy_from_slice(&topic_b);
        both.rotate_left(1);
        let v2 = u32::from_be_bytes(both[..4].try_into().unwrap());
        let t2: [u8; 16] = both[4..].try_into().unwrap();
        if v2 != v || t2 != topic_b {
            out.push(format!("tm.shift.version>topic={}", open(&tk, &ct, v2, &t2, &s_enc, &s_sign)));
        }
    }
    for i in 0..ct.len() {
        let mut c = ct.clone();
        c[i] ^= 1 << (i % 8);
        out.push(format!("tm.ct.{}={}", i, open(&tk, &c, v, &topic_b, &s_enc, &s_sign)));
    }
    for n in [0usize, 11, 12, 27, ct.len() - 1] {
        if n < ct.len() {
            out.push(format!("tm.trunc.{}={}", n, open(&tk, &ct[..n], v, &topic_b, &s_enc, &s_sign)));
        }
    }

    // ---- sealed topic key
    let (enc, etk) = recv.public().expect("pk").seal_topic_key(&rng, version, &topic, &s_enc_sk, &tk).expect("seal_topic_key");
    let tid = tk.id().expect("id");
    let encb = enc.as_bytes().to_vec();
    let etkb = etk.as_bytes().to_vec();
    let opentk = |r: &ReceiverSecretKey<CS>, spk: &aranya_crypto::apq::SenderPublicKey<CS>, encb: &[u8], etkb: &[u8], v: u32, t: &[u8; 16]| -> &'static str {
        let Ok(enc) = Encap::<CS>::from_bytes(encb) else { return "err" };
        let Ok(etk) = EncryptedTopicKey::<CS>::from_bytes(etkb) else { return "err" };
        match r.open_topic_key(Version::new(v), &Topic::from(*t), spk, &enc, &etk) {
            Ok(k) => if k.id().expect("id") == tid { "ok" } else { "ok-other-key" },
            Err(_) => "err",
        }
    };
    out.push(format!("tr.base={}", opentk(&recv, &s_enc, &encb, &etkb, v, &topic_b)));
    out.push(format!("tr.recipient.other={}", opentk(&recv2, &s_enc, &encb, &etkb, v, &topic_b)));
    out.push(format!("tr.sender.other={}", opentk(&recv, &s_enc2, &encb, &etkb, v, &topic_b)));
    for i in 0..32 {
        out.push(format!("tr.version.{}={}", i, opentk(&recv, &s_enc, &encb, &etkb, v ^ (1u32 << i), &topic_b)));
    }
    for i in 0..16 {
        let mut t = topic_b;
        t[i] ^= 1 << (i % 8);
        out.push(format!("tr.topic.{}={}", i, opentk(&recv, &s_enc, &encb, &etkb, v, &t)));
    }
    for i in 0..etkb.len() {
        let mut e = etkb.clone();
        e[i] ^= 1 << (i % 8);
        out.push(format!("tr.ct.{}={}", i, opentk(&recv, &s_enc, &encb, &e, v, &topic_b)));
    }
    for i in (0..encb.len()).step_by(3) {
        let mut e = encb.clone();
        e[i] ^= 1 << (i % 8);
        out.push(format!("tr.enc.{}={}", i, opentk(&recv, &s_enc, &e, &etkb, v, &topic_b)));
    }
    out.join(" ")
}

fn main() {
    quiet_panics();
    let stdin = io::stdin();
    let out = io::stdout();
    let mut out = io::BufWriter::new(out.lock());
    for line in stdin.lock().lines() {
        let line = line.unwrap();
        let f: Vec<&str> = line.split_whitespace().collect();
        let r = guarded(|| match f.first().copied() {
            Some("frame") if f.len() == 6 => frame(&f),
            Some("sweep") if f.len() == 6 => sweep(&f),
            Some("tframe") if f.len() == 5 => tframe(&f),
            Some("tsweep") if f.len() == 5 => tsweep(&f),
            _ => "badcase".to_string(),
        });
        match r {
            Ok(s) => writeln!(out, "{s}").unwrap(),
            Err(m) => writeln!(out, "panic {}", m.replace('\n', " ")).unwrap(),
        }
    }
}
