//! C45 runner: operation sequences on the real key stores.
//!
//! One sequence per input line:  `<store> <dir> <op> <op> ...`
//!   store = fs | mem ;  dir = directory for the fs store (created and removed by the check)
//!   ops:  E<i>:I<k>:<n><R|D>   entry(id i); if vacant insert key k; if occupied do n `get`s, then `remove` (R) or drop (D)
//!         E<i>:D:<n><R|D>      same, but a vacant entry is dropped without insert
//!         E<i>:F<k>:<n><R|D>   same, but the key inserted into a vacant entry FAILS to serialise after emitting
//!                              its first field (`insert` returns an error, the entry is dropped)
//!         X<i>:<k>             store.try_insert(id i, failing key k)
//!         G<i>                 store.get(id i)
//!         T<i>:<k>             store.try_insert(id i, key k)
//!         R<i>                 store.remove(id i)
//!         O                    reopen the store on the same directory (fs) / clone the store (mem)
//! Output: one token per op, separated by spaces:
//!   V1 / V0 / Vf  vacant: inserted / dropped / insert returned an error
//!   U[g..]:r      occupied: g = per-get result (`k<key>` or `e`), r = `-` (dropped), `k<key>` or `e` (remove)
//!   g- / gk<key> / ge      get: none / key / error
//!   t1 / tx / tf           try_insert: ok / AlreadyExists / other error
//!   r- / rk<key> / re      remove: none / key / error
//!   o / oe                 reopen
//!   Ee                     entry() itself failed
//! each followed by `@<sorted ids present in the directory or map>` (fs: file names decoded; canary file excluded).
use std::io::{self, BufRead, Write};

use aranya_crypto::{
    BaseId, KeyStore,
    engine::WrappedKey,
    id::{IdError, Identified},
    keystore::{Entry, ErrorKind, Error as _, Occupied as _, Vacant as _, fs_keystore, memstore::MemStore},
};
use hx_crypto::{guarded, quiet_panics};

#[derive(Clone, Debug, PartialEq, Eq, serde::Deserialize)]
struct TKey {
    v: u64,
    pad: Vec<u8>,
    /// serialisation fails after the first field has been written
    #[serde(skip)]
    fail: bool,
}
impl serde::Serialize for TKey {
    fn serialize<S: serde::Serializer>(&self, s: S) -> Result<S::Ok, S::Error> {
        use serde::ser::{Error as _, SerializeStruct as _};
        let mut st = s.serialize_struct("TKey", 2)?;
        st.serialize_field("v", &self.v)?;
        if self.fail {
            return Err(S::Error::custom("injected serialisation failure"));
        }
        st.serialize_field("pad", &self.pad)?;
        st.end()
    }
}
impl WrappedKey for TKey {}
impl Identified for TKey {
    type Id = BaseId;
    fn id(&self) -> Result<BaseId, IdError> {
        Ok(bid(self.v))
    }
}

fn bid(i: u64) -> BaseId {
    let mut b = [0u8; 32];
    b[0] = i as u8;
    b[31] = 0xA0 ^ (i as u8);
    BaseId::from_bytes(b)
}
fn key(k: u64) -> TKey {
    TKey { v: k, pad: vec![k as u8; (k % 5) as usize], fail: false }
}
fn failing_key(k: u64) -> TKey {
    TKey { fail: true, ..key(k) }
}
fn kshow(k: &TKey) -> String {
    if *k == key(k.v) { format!("k{}", k.v) } else { "k?".to_string() }
}

fn run_ops<S: KeyStore>(store: &mut S, ops: &[&str], reopen: &mut dyn FnMut(&mut S) -> bool, listing: &dyn Fn(&S) -> String) -> Vec<String> {
    let mut out = Vec::new();
    for op in ops {
        let tok = match op.as_bytes()[0] {
            b'E' => {
                let f: Vec<&str> = op[1..].split(':').collect();
                let i: u64 = f[0].parse().unwrap();
                let ngets: usize = f[2][..f[2].len() - 1].parse().unwrap();
                let rm = f[2].ends_with('R');
                match store.entry::<TKey>(bid(i)) {
                    Err(_) => "Ee".to_string(),
                    Ok(Entry::Vacant(v)) => {
                        if f[1] == "D" {
                            drop(v);
                            "V0".to_string()
                        } else if f[1].starts_with('F') {
                            let k: u64 = f[1][1..].parse().unwrap();
                            match v.insert(failing_key(k)) { Ok(()) => "V1".to_string(), Err(_) => "Vf".to_string() }
                        } else {
                            let k: u64 = f[1][1..].parse().unwrap();
                            match v.insert(key(k)) { Ok(()) => "V1".to_string(), Err(_) => "Vf".to_string() }
                        }
                    }
                    Ok(Entry::Occupied(o)) => {
                        let mut gs = Vec::new();
                        for _ in 0..ngets {
                            gs.push(match o.get() { Ok(k) => kshow(&k), Err(_) => "e".to_string() });
                        }
                        let r = if rm {
                            match o.remove() { Ok(k) => kshow(&k), Err(_) => "e".to_string() }
                        } else {
                            drop(o);
                            "-".to_string()
                        };
                        format!("U[{}]:{}", gs.join(","), r)
                    }
                }
            }
            b'G' => {
                let i: u64 = op[1..].parse().unwrap();
                match store.get::<TKey>(bid(i)) { Ok(None) => "g-".to_string(), Ok(Some(k)) => format!("g{}", kshow(&k)), Err(_) => "ge".to_string() }
            }
            b'T' => {
                let f: Vec<&str> = op[1..].split(':').collect();
                let (i, k): (u64, u64) = (f[0].parse().unwrap(), f[1].parse().unwrap());
                match store.try_insert(bid(i), key(k)) {
                    Ok(()) => "t1".to_string(),
                    Err(e) if e.kind() == ErrorKind::AlreadyExists => "tx".to_string(),
                    Err(_) => "te".to_string(),
                }
            }
            b'X' => {
                let f: Vec<&str> = op[1..].split(':').collect();
                let (i, k): (u64, u64) = (f[0].parse().unwrap(), f[1].parse().unwrap());
                match store.try_insert(bid(i), failing_key(k)) {
                    Ok(()) => "t1".to_string(),
                    Err(e) if e.kind() == ErrorKind::AlreadyExists => "tx".to_string(),
                    Err(_) => "tf".to_string(),
                }
            }
            b'R' => {
                let i: u64 = op[1..].parse().unwrap();
                match store.remove::<TKey>(bid(i)) { Ok(None) => "r-".to_string(), Ok(Some(k)) => format!("r{}", kshow(&k)), Err(_) => "re".to_string() }
            }
            b'O' => if reopen(store) { "o".to_string() } else { "oe".to_string() },
            _ => "??".to_string(),
        };
        out.push(format!("{}@{}", tok, listing(store)));
    }
    out
}

fn main() {
    quiet_panics();
    let stdin = io::stdin();
    let out = io::stdout();
    let mut out = io::BufWriter::new(out.lock());
    let ids: Vec<(String, u64)> = (0..16u64).map(|i| (bid(i).to_string(), i)).collect();
    for line in stdin.lock().lines() {
        let line = line.unwrap();
        let f: Vec<&str> = line.split_whitespace().collect();
        if f.len() < 2 {
            writeln!(out, "badcase").unwrap();
            continue;
        }
        let ops = &f[2..];
        let r = guarded(|| {
            if f[0] == "fs" {
                let dir = f[1].to_string();
                let mut store = fs_keystore::Store::open(dir.as_str()).expect("open store");
                let d2 = dir.clone();
                let mut reopen = move |s: &mut fs_keystore::Store| match fs_keystore::Store::open(d2.as_str()) {
                    Ok(n) => { *s = n; true }
                    Err(_) => false,
                };
                let ids = ids.clone();
                let listing = move |_s: &fs_keystore::Store| {
                    let mut names: Vec<String> = Vec::new();
                    for e in std::fs::read_dir(&dir).expect("read_dir") {
                        let n = e.unwrap().file_name().to_string_lossy().to_string();
                        if n == "__canary" { continue; }
                        match ids.iter().find(|(s, _)| *s == n) {
                            Some((_, i)) => names.push(format!("{:02}", i)),
                            None => names.push(format!("?{}", n)),
                        }
                    }
                    names.sort();
                    names.join(",")
                };
                run_ops(&mut store, ops, &mut reopen, &listing)
            } else {
                let mut store = MemStore::new();
                let mut reopen = |s: &mut MemStore| { *s = s.clone(); true };
                let listing = |s: &MemStore| {
                    let mut names = Vec::new();
                    for i in 0..16u64 {
                        // presence probe that does not go through the typed decode path's success
                        if format!("{:?}", s).contains(&format!("{:?}", bid(i))) { names.push(format!("{:02}", i)); }
                    }
                    names.join(",")
                };
                run_ops(&mut store, ops, &mut reopen, &listing)
            }
        });
        match r {
            Ok(toks) => writeln!(out, "{}", toks.join(" ")).unwrap(),
            Err(m) => writeln!(out, "panic {}", m.replace('\n', " ")).unwrap(),
        }
    }
}
