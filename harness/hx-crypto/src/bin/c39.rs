//! C39 runner: the real `aranya_fast_channels::Client` over the in-memory
//! state.  One case per input line:
//!
//!   <op> <buf> <flag> <key:32B hex> <base_nonce:12B hex> <label:32B hex> <seq0> <dstlen> <data hex>
//!
//! op   = seal | sealip | open | openip
//! buf  = v (Vec<u8>) | f<N> (FixedBuf over an N-byte backing array) | h (heapless::Vec<u8,96>) | -
//! flag = r (remove the channel before the call) | -
//! seq0 = first sequence number of the seal key (ignored by open*)
//! dstlen = length of the destination of the copying interfaces (pre-filled with 0x5a)
//!
//! Every case runs twice: with the default cipher suite and with the same
//! suite whose AEAD is wrapped by the recording AEAD.  Output line:
//!
//!   <class> <ret> <buf> <spare> | <same for the recording suite> | <aead log ...>
//!
//! class = ok | err:<Kind> | panic ; ret = `-` or `<label hex>:<seq>` (open) /
//! `<version>:<msgtype>` (seal); buf = visible bytes afterwards; spare = bytes
//! of the backing store past the visible length (FixedBuf only).
use std::io::{self, BufRead, Write};

use aranya_crypto::{
    CipherSuite, DeviceId,
    afc::{OpenKey, RawOpenKey, RawSealKey, SealKey, Seq},
    dangerous::spideroak_crypto::{
        aead::{Aead, KeyData, Nonce},
        hybrid_array::Array,
        keys::SecretKeyBytes,
        rust::{Aes256Gcm, HkdfSha512, HmacSha512, Sha256},
        ed25519::Ed25519,
    },
    default::DefaultCipherSuite,
    policy::LabelId,
    test_util::TestCs,
};
use aranya_fast_channels::{
    AfcState, AranyaState, Client, Directed, Error, FixedBuf, HeaderError, MsgType, Version,
    memory::State,
};
use hx_crypto::{guarded, hex, log_take, quiet_panics, rec::RecAead, unhex};

type RecCs = TestCs<
    RecAead<Aes256Gcm>,
    Sha256,
    HkdfSha512,
    <DefaultCipherSuite as CipherSuite>::Kem,
    HmacSha512,
    Ed25519,
>;

fn err_kind(e: &Error) -> String {
    match e {
        Error::Bug(_) => "Bug".into(),
        Error::InvalidHeader(h) => match h {
            HeaderError::Bug(_) => "Header.Bug".into(),
            HeaderError::InvalidSize => "Header.InvalidSize".into(),
            HeaderError::UnknownVersion => "Header.UnknownVersion".into(),
            HeaderError::InvalidMsgType => "Header.InvalidMsgType".into(),
        },
        Error::NotFound(_) => "NotFound".into(),
        Error::InputTooLarge => "InputTooLarge".into(),
        Error::BufferTooSmall => "BufferTooSmall".into(),
        Error::KeyExpired => "KeyExpired".into(),
        Error::Authentication => "Authentication".into(),
        Error::Crypto(_) => "Crypto".into(),
        Error::Allocation(_) => "Allocation".into(),
        _ => "Other".into(),
    }
}

fn key_data<A: Aead>(b: &[u8]) -> KeyData<A> {
    let arr = Array::try_from(b).expect("key size");
    SecretKeyBytes::new(arr)
}

fn nonce<A: Aead>(b: &[u8]) -> Nonce<A::NonceSize> {
    let mut n = Nonce::<A::NonceSize>::default();
    n.copy_from_slice(b);
    n
}

struct Out {
    class: String,
    ret: String,
    buf: Vec<u8>,
    spare: Vec<u8>,
}

fn fmt_out(o: &Out) -> String {
    format!("{} {} {} {}", o.class, o.ret, hex(&o.buf), hex(&o.spare))
}

fn run_case<CS: CipherSuite>(f: &[&str]) -> Out {
    let (op, bufk, flag) = (f[0], f[1], f[2]);
    let key = unhex(f[3]);
    let bn = unhex(f[4]);
    let label = LabelId::from_bytes(unhex(f[5]).try_into().expect("label"));
    let seq0: u64 = f[6].parse().expect("seq0");
    let dstlen: usize = f[7].parse().expect("dstlen");
    let data = unhex(f[8]);

    let state = State::<CS>::new();
    let is_seal = op == "seal" || op == "sealip";
    let keys: Directed<SealKey<CS>, OpenKey<CS>> = if is_seal {
        let raw = RawSealKey::<CS> { key: key_data::<CS::Aead>(&key), base_nonce: nonce::<CS::Aead>(&bn) };
        Directed::SealOnly { seal: SealKey::from_raw(&raw, Seq::new(seq0)).expect("seal key") }
    } else {
        let raw = RawOpenKey::<CS> { key: key_data::<CS::Aead>(&key), base_nonce: nonce::<CS::Aead>(&bn) };
        Directed::OpenOnly { open: OpenKey::from_raw(&raw).expect("open key") }
    };
    let id = state.add(keys, label, DeviceId::default()).expect("add");
    let client = Client::new(state.clone());

    let cls = |r: &Result<String, Error>| match r {
        Ok(_) => "ok".to_string(),
        Err(e) => format!("err:{}", err_kind(e)),
    };
    let retf = |r: &Result<String, Error>| match r {
        Ok(s) => s.clone(),
        Err(_) => "-".to_string(),
    };
    let hdr = |h: aranya_fast_channels::Header| {
        format!(
            "{}:{}",
            match h.version { Version::V1 => "V1" },
            match h.msg_type { MsgType::Data => "Data", MsgType::Control => "Control" }
        )
    };

    match op {
        "seal" | "open" => {
            let mut dst = vec![0x5au8; dstlen];
            let r = guarded(|| {
                if op == "seal" {
                    let mut ctx = client.setup_seal_ctx(id)?;
                    if flag == "r" { state.remove(id).expect("remove"); }
                    client.seal(&mut ctx, &mut dst, &data).map(hdr)
                } else {
                    let mut ctx = client.setup_open_ctx(id)?;
                    if flag == "r" { state.remove(id).expect("remove"); }
                    client.open(&mut ctx, &mut dst, &data).map(|(l, s)| format!("{}:{}", hex(l.as_bytes()), s.to_u64()))
                }
            });
            match r {
                Ok(r) => Out { class: cls(&r), ret: retf(&r), buf: dst, spare: vec![] },
                Err(_) => Out { class: "panic".into(), ret: "-".into(), buf: dst, spare: vec![] },
            }
        }
        "sealip" | "openip" => {
            // the three Buf implementations
            macro_rules! go {
                ($buf:expr) => {{
                    let b = $buf;
                    guarded(|| {
                        if op == "sealip" {
                            let mut ctx = client.setup_seal_ctx(id)?;
                            if flag == "r" { state.remove(id).expect("remove"); }
                            client.seal_in_place(&mut ctx, b).map(hdr)
                        } else {
                            let mut ctx = client.setup_open_ctx(id)?;
                            if flag == "r" { state.remove(id).expect("remove"); }
                            client.open_in_place(&mut ctx, b).map(|(l, s)| format!("{}:{}", hex(l.as_bytes()), s.to_u64()))
                        }
                    })
                }};
            }
            if bufk == "v" {
                let mut v = data.clone();
                let r = go!(&mut v);
                match r {
                    Ok(r) => Out { class: cls(&r), ret: retf(&r), buf: v, spare: vec![] },
                    Err(_) => Out { class: "panic".into(), ret: "-".into(), buf: v, spare: vec![] },
                }
            } else if bufk == "h" {
                let mut v = heapless::Vec::<u8, 96>::new();
                v.extend_from_slice(&data).expect("heapless capacity");
                let r = go!(&mut v);
                let vis = v.as_slice().to_vec();
                match r {
                    Ok(r) => Out { class: cls(&r), ret: retf(&r), buf: vis, spare: vec![] },
                    Err(_) => Out { class: "panic".into(), ret: "-".into(), buf: vis, spare: vec![] },
                }
            } else {
                let cap: usize = bufk[1..].parse().expect("cap");
                let mut backing = vec![0x5au8; cap];
                backing[..data.len()].copy_from_slice(&data);
                let (r, n) = {
                    let mut fb = FixedBuf::from_slice_mut(&mut backing, data.len()).expect("fixedbuf");
                    let r = go!(&mut fb);
                    let n = aranya_fast_channels::Buf::len(&fb);
                    (r, n)
                };
                let vis = backing[..n].to_vec();
                let spare = backing[n..].to_vec();
                match r {
                    Ok(r) => Out { class: cls(&r), ret: retf(&r), buf: vis, spare },
                    Err(_) => Out { class: "panic".into(), ret: "-".into(), buf: vis, spare },
                }
            }
        }
        _ => panic!("bad op"),
    }
}

fn main() {
    quiet_panics();
    let stdin = io::stdin();
    let out = io::stdout();
    let mut out = io::BufWriter::new(out.lock());
    // constants line
    writeln!(
        out,
        "consts overhead={} tag={} debug_assertions={}",
        Client::<State<DefaultCipherSuite>>::OVERHEAD,
        <Aes256Gcm as Aead>::OVERHEAD,
        cfg!(debug_assertions)
    )
    .unwrap();
    for line in stdin.lock().lines() {
        let line = line.unwrap();
        let f: Vec<&str> = line.split_whitespace().collect();
        if f.len() != 9 {
            writeln!(out, "badcase").unwrap();
            continue;
        }
        let a = run_case::<DefaultCipherSuite>(&f);
        let _ = log_take();
        let b = run_case::<RecCs>(&f);
        let log = log_take();
        writeln!(out, "{} | {} | {}", fmt_out(&a), fmt_out(&b), log.join(" ; ")).unwrap();
    }
}
