//! Shared pieces of the crypto harness: hex helpers and the *recording*
//! primitives — thin wrappers around the real algorithms of the default
//! cipher suite that log every input byte string they are given, so the
//! framing the crates feed to a primitive can be compared byte for byte with
//! the Coq model's framing.
#![allow(clippy::all)]

use std::cell::RefCell;

pub mod rec;

pub fn hex(b: &[u8]) -> String {
    if b.is_empty() {
        return "-".to_string();
    }
    let mut s = String::with_capacity(b.len() * 2);
    for x in b {
        s.push_str(&format!("{:02x}", x));
    }
    s
}

pub fn unhex(s: &str) -> Vec<u8> {
    if s == "-" {
        return Vec::new();
    }
    let b = s.as_bytes();
    assert!(b.len() % 2 == 0, "odd hex");
    (0..b.len() / 2)
        .map(|i| u8::from_str_radix(&s[2 * i..2 * i + 2], 16).expect("hex"))
        .collect()
}

thread_local! {
    /// Log of primitive invocations (one string per call), in call order.
    pub static LOG: RefCell<Vec<String>> = RefCell::new(Vec::new());
}

pub fn log_push(s: String) {
    LOG.with(|l| l.borrow_mut().push(s));
}

pub fn log_take() -> Vec<String> {
    LOG.with(|l| std::mem::take(&mut *l.borrow_mut()))
}

/// Runs `f`, turning a panic into `Err(message)`.
pub fn guarded<T>(f: impl FnOnce() -> T) -> Result<T, String> {
    let r = std::panic::catch_unwind(std::panic::AssertUnwindSafe(f));
    r.map_err(|e| {
        if let Some(s) = e.downcast_ref::<&str>() {
            s.to_string()
        } else if let Some(s) = e.downcast_ref::<String>() {
            s.clone()
        } else {
            "?".to_string()
        }
    })
}

pub fn quiet_panics() {
    std::panic::set_hook(Box::new(|_| {}));
}
