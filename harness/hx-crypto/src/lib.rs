//! Shared pieces of the crypto harness: hex helpers and the *recording*
//! primitives — thin wrappers around the real algorithms of the default
//! cipher suite that log every input byte string they are given, so the
//! framing the crates feed to a primitive can be compared byte for byte with
//! the Coq model's framing.
#![allow(clippy::all)]

use std::cell::RefCell;

pub mod rec;

pub fn hex(b: &[u8]) -> String {
    if b.is_empty() {
        return "-".to_string();
    }
    let mut s = String::with_capacity(b.len() * 2);
    for x in b {
        s.push_str(&format!("{:02x}", x));
    }
    s
}

pub fn unhex(s: &str) -> Vec<u8> {
    if s == "-" {
        return Vec::new();
    }
    let b = s.as_bytes();
    assert!(b.len() % 2 == 0, "odd hex");
    (0..b.len() / 2)
        .map(|i| u8::from_str_radix(&s[2 * i..2 * i + 2], 16).expect("hex"))
        .collect()
}

thread_local! {
    /// Log of primitive invocations (one string per call), in call order.
    pub static LOG: RefCell<Vec<String>> = RefCell::new(Vec::new());
}

pub fn log_push(s: String) {
    LOG.with(|l| l.borrow_mut().push(s));
}

pub fn log_take() -> Vec<String> {
    LOG.with(|l| std::mem::take(&mut *l.borrow_mut()))
}

/// Runs `f`, turning a panic into `Err(message)`.
pub fn guarded<T>(f: impl FnOnce() -> T) -> Result<T, String> {
    let r = std::panic::catch_unwind(std::panic::AssertUnwindSafe(f));
    r.map_err(|e| {
        if let Some(s) = e.downcast_ref::<&str>() {
            s.to_string()
        } else if let Some(s) = e.downcast_ref::<String>() {
            s.clone()
        } else {
            "?".to_string()
        }
    })
}

pub fn quiet_panics() {
    std::panic::set_hook(Box::new(|_| {}));
}

/// Deterministic byte stream (SplitMix64) usable as a `Csprng`.
pub struct SeedRng(std::cell::Cell<u64>);

impl SeedRng {
    pub fn new(seed: &[u8]) -> Self {
        let mut s = 0x9E37_79B9_7F4A_7C15u64;
        for b in seed {
            s = s.rotate_left(7) ^ (*b as u64).wrapping_mul(0x1000_0000_01B3);
        }
        Self(std::cell::Cell::new(s))
    }
    fn next(&self) -> u64 {
        let mut s = self.0.get().wrapping_add(0x9E37_79B9_7F4A_7C15);
        self.0.set(s);
        s = (s ^ (s >> 30)).wrapping_mul(0xBF58_476D_1CE4_E5B9);
        s = (s ^ (s >> 27)).wrapping_mul(0x94D0_49BB_1331_11EB);
        s ^ (s >> 31)
    }
}

impl aranya_crypto::Csprng for SeedRng {
    fn fill_bytes(&self, dst: &mut [u8]) {
        for chunk in dst.chunks_mut(8) {
            let v = self.next().to_le_bytes();
            chunk.copy_from_slice(&v[..chunk.len()]);
        }
    }
}

pub fn oids_hex<CS: aranya_crypto::CipherSuite>() -> String {
    CS::OIDS
        .into_iter()
        .map(|o| hex(o.as_bytes()))
        .collect::<Vec<_>>()
        .join(",")
}
