//! C27 implementation-side runner: the real parser entry points and the real compiler on
//! arbitrary text, one `catch_unwind` per step.
//!
//! stdin: one case per line `<mode> <hex of utf-8 text>`; mode
//!   D = parse_policy_document (Markdown), S = parse_policy_str(V2), E = parse_expression,
//!   F = parse_ffi_decl, T = parse_ffi_structs_enums.
//! stdout (only lines starting with `@@` belong to the protocol; `validate` prints free text):
//!   `@@ <index> P=<r> C1=<r> C2=<r> I=<r> V=<r> M=<r> R=<r>`  with r one of
//!      ok | err:<kind> | panic:<hex message> | -          (`-` = step not applicable)
//!   P parse; C1 compile(debug, stub_ffi); C2 compile(no debug, FFI schemas); I compile_interface;
//!   V validate(module); M Machine::from_module; R Display of every error value (informational);
//!   FM (mode D) 1 when the front-matter guard rejected the document ("Front matter is not terminated"), else 0.
//!   `@@SHAPE <rule> <child,child,...>` / `@@TOP <entry> <child,...>`: the distinct pair-tree shapes
//!   pest produced for the same grammar file (own `pest_derive` instance of policy.pest).
//! `--grammar-dump`: print pest_meta's reading of policy.pest in the canonical form that
//!   tools/gen_frontend.py also produces (cross-check of the translator's pest reader).
use std::{
    collections::BTreeSet,
    io::{self, BufRead, Write},
    panic,
    sync::Mutex,
};

use aranya_policy_ast::{Version, ident};
use aranya_policy_compiler::{Compiler, validate::validate};
use aranya_policy_lang::lang::{
    parse_expression, parse_ffi_decl, parse_ffi_structs_enums, parse_policy_document, parse_policy_str,
};
use aranya_policy_module::ffi::{self, ModuleSchema};
use pest::Parser as _;

#[derive(pest_derive::Parser)]
#[grammar = "/repo/crates/aranya-policy-lang/src/lang/parse/policy.pest"]
struct G;

static LAST_PANIC: Mutex<String> = Mutex::new(String::new());

const SCHEMAS: &[ModuleSchema<'static>] = &[
    ModuleSchema {
        name: ident!("test"),
        functions: &[
            ffi::Func {
                name: ident!("doit"),
                args: &[ffi::Arg { name: ident!("x"), vtype: ffi::Type::Int }],
                return_type: ffi::Type::Bool,
            },
            ffi::Func {
                name: ident!("mk"),
                args: &[],
                return_type: ffi::Type::Optional(&ffi::Type::Struct(ident!("FFIFoo"))),
            },
        ],
        structs: &[ffi::Struct {
            name: ident!("FFIFoo"),
            fields: &[ffi::Arg { name: ident!("bar"), vtype: ffi::Type::Int }],
        }],
        enums: &[],
    },
    ModuleSchema {
        name: ident!("cyclic_types"),
        functions: &[],
        structs: &[
            ffi::Struct {
                name: ident!("FFIA"),
                fields: &[ffi::Arg { name: ident!("b"), vtype: ffi::Type::Struct(ident!("FFIB")) }],
            },
            ffi::Struct {
                name: ident!("FFIB"),
                fields: &[ffi::Arg { name: ident!("a"), vtype: ffi::Type::Struct(ident!("FFIA")) }],
            },
        ],
        enums: &[],
    },
];

fn hex(s: &str) -> String {
    s.bytes().map(|b| format!("{b:02x}")).collect()
}
fn unhex(s: &str) -> Vec<u8> {
    (0..s.len() / 2).map(|i| u8::from_str_radix(&s[2 * i..2 * i + 2], 16).unwrap()).collect()
}

/// Run one step; `Ok(Ok(v))` value, `Ok(Err(kind))` structured error, `Err(msg)` panic.
fn step<T, E>(f: impl FnOnce() -> Result<T, E>, kind: impl Fn(&E) -> String, render: &mut Vec<String>) -> (String, Option<T>)
where
    E: std::fmt::Display,
{
    LAST_PANIC.lock().unwrap().clear();
    match panic::catch_unwind(panic::AssertUnwindSafe(f)) {
        Ok(Ok(v)) => ("ok".into(), Some(v)),
        Ok(Err(e)) => {
            let k = kind(&e);
            // Display of the error value (the renderer slices the source text by span)
            LAST_PANIC.lock().unwrap().clear();
            if panic::catch_unwind(panic::AssertUnwindSafe(|| e.to_string())).is_err() {
                render.push(LAST_PANIC.lock().unwrap().clone());
            }
            (format!("err:{k}"), None)
        }
        Err(_) => (format!("panic:{}", hex(&LAST_PANIC.lock().unwrap())), None),
    }
}

fn word(s: String) -> String {
    let w: String = s.chars().take_while(|c| c.is_ascii_alphanumeric() || *c == '_').collect();
    if w.is_empty() { "Other".into() } else { w }
}

fn shapes(p: pest::iterators::Pair<'_, Rule>, out: &mut BTreeSet<String>) {
    let kids: Vec<_> = p.clone().into_inner().collect();
    let names: Vec<String> = kids.iter().map(|k| format!("{:?}", k.as_rule())).collect();
    out.insert(format!("@@SHAPE {:?} {}", p.as_rule(), names.join(",")));
    for k in kids {
        shapes(k, out);
    }
}

fn pest_shapes(entry: Rule, name: &str, text: &str, out: &mut BTreeSet<String>) -> bool {
    match G::parse(entry, text) {
        Ok(pairs) => {
            let tops: Vec<_> = pairs.collect();
            let names: Vec<String> = tops.iter().map(|k| format!("{:?}", k.as_rule())).collect();
            out.insert(format!("@@TOP {} {}", name, names.join(",")));
            for t in tops {
                shapes(t, out);
            }
            true
        }
        Err(_) => false,
    }
}

// ---------------------------------------------------------------- grammar dump (pest_meta)

fn canon(e: &pest_meta::ast::Expr) -> String {
    use pest_meta::ast::Expr::*;
    fn flat<'a>(e: &'a pest_meta::ast::Expr, seq: bool, out: &mut Vec<&'a pest_meta::ast::Expr>) {
        match (e, seq) {
            (Seq(a, b), true) | (Choice(a, b), false) => {
                flat(a, seq, out);
                flat(b, seq, out);
            }
            _ => out.push(e),
        }
    }
    match e {
        Str(s) => format!("(str {})", hex(s)),
        Insens(s) => format!("(insens {})", hex(s)),
        Range(a, b) => format!("(range {} {})", hex(a), hex(b)),
        Ident(s) => format!("(ref {s})"),
        PosPred(a) => format!("(pos {})", canon(a)),
        NegPred(a) => format!("(neg {})", canon(a)),
        Seq(..) => {
            let mut v = vec![];
            flat(e, true, &mut v);
            format!("(seq {})", v.iter().map(|x| canon(x)).collect::<Vec<_>>().join(" "))
        }
        Choice(..) => {
            let mut v = vec![];
            flat(e, false, &mut v);
            format!("(alt {})", v.iter().map(|x| canon(x)).collect::<Vec<_>>().join(" "))
        }
        Opt(a) => format!("(opt {})", canon(a)),
        Rep(a) => format!("(star {})", canon(a)),
        RepOnce(a) => format!("(plus {})", canon(a)),
        RepExact(a, n) => format!("(rep {n} {n} {})", canon(a)),
        RepMin(a, n) => format!("(rep {n} inf {})", canon(a)),
        RepMax(a, n) => format!("(rep 0 {n} {})", canon(a)),
        RepMinMax(a, n, m) => format!("(rep {n} {m} {})", canon(a)),
        other => format!("(unsupported {other:?})"),
    }
}

fn grammar_dump() {
    let src = std::fs::read_to_string("/repo/crates/aranya-policy-lang/src/lang/parse/policy.pest").unwrap();
    let pairs = pest_meta::parser::parse(pest_meta::parser::Rule::grammar_rules, &src).expect("pest_meta parse");
    let rules = pest_meta::parser::consume_rules(pairs).expect("pest_meta consume");
    for r in rules {
        let ty = match r.ty {
            pest_meta::ast::RuleType::Normal => "Normal",
            pest_meta::ast::RuleType::Silent => "Silent",
            pest_meta::ast::RuleType::Atomic => "Atomic",
            pest_meta::ast::RuleType::CompoundAtomic => "CompoundAtomic",
            pest_meta::ast::RuleType::NonAtomic => "NonAtomic",
        };
        println!("@@RULE {} {} {}", r.name, ty, canon(&r.expr));
    }
}

fn main() {
    let args: Vec<String> = std::env::args().collect();
    if args.iter().any(|a| a == "--grammar-dump") {
        grammar_dump();
        return;
    }
    let want_shapes = !args.iter().any(|a| a == "--no-shapes");
    // `validate` (the tracer) is not part of the property and does not terminate on recursive policy
    // functions; it is only run on request.
    let want_validate = args.iter().any(|a| a == "--validate");
    panic::set_hook(Box::new(|info| {
        let loc = info.location().map(|l| format!("{}:{}", l.file(), l.line())).unwrap_or_default();
        let msg = if let Some(s) = info.payload().downcast_ref::<&str>() {
            (*s).to_string()
        } else if let Some(s) = info.payload().downcast_ref::<String>() {
            s.clone()
        } else {
            "<non-string panic>".into()
        };
        *LAST_PANIC.lock().unwrap() = format!("{loc}: {msg}");
    }));
    let stdin = io::stdin();
    let out = io::stdout();
    let mut shape_set = BTreeSet::new();
    for (idx, line) in stdin.lock().lines().enumerate() {
        let line = line.unwrap();
        let mut it = line.split_whitespace();
        let mode = it.next().unwrap_or("S").to_string();
        let bytes = unhex(it.next().unwrap_or(""));
        let text = match String::from_utf8(bytes) {
            Ok(t) => t,
            Err(_) => {
                writeln!(out.lock(), "@@ {idx} P=- C1=- C2=- I=- V=- M=- R=-").unwrap();
                continue;
            }
        };
        let mut render = vec![];
        // D mode: did the front-matter guard reject the document? (compared with the Coq model of the guard)
        let mut fm = "-".to_string();
        let (mut c1, mut c2, mut ci, mut v, mut m) = ("-".to_string(), "-".to_string(), "-".to_string(), "-".to_string(), "-".to_string());
        let pk = |e: &aranya_policy_lang::lang::ParseError| word(format!("{:?}", e.kind));
        let p = match mode.as_str() {
            "D" | "S" => {
                let (p, pol) = if mode == "D" {
                    let guard = std::cell::Cell::new(false);
                    let r = step(
                        || parse_policy_document(&text).inspect_err(|e| guard.set(e.message == "Front matter is not terminated")),
                        pk,
                        &mut render,
                    );
                    fm = if r.0.starts_with("panic") { "-".into() } else { (guard.get() as u8).to_string() };
                    r
                } else {
                    step(|| parse_policy_str(&text, Version::V2), pk, &mut render)
                };
                if let Some(pol) = pol {
                    let ck = |e: &aranya_policy_compiler::CompileError| word(format!("{:?}", e));
                    let (r1, m1) = step(|| Compiler::new(&pol).debug(true).stub_ffi(true).compile(), ck, &mut render);
                    c1 = r1;
                    let (r2, m2) = step(|| Compiler::new(&pol).debug(false).ffi_modules(SCHEMAS).compile(), ck, &mut render);
                    c2 = r2;
                    let (r3, _) = step(|| Compiler::new(&pol).ffi_modules(SCHEMAS).compile_interface(), ck, &mut render);
                    ci = r3;
                    for module in [m1, m2].into_iter().flatten() {
                        if want_validate {
                            let (rv, _) = step(|| Ok::<bool, std::fmt::Error>(validate(&module)), |_| String::new(), &mut render);
                            if v == "-" || rv != "ok" {
                                v = rv;
                            }
                        }
                        let (rm, _) = step(
                            || aranya_policy_vm::Machine::from_module(module.clone()).map_err(|_| std::fmt::Error),
                            |_| "UnsupportedVersion".into(),
                            &mut render,
                        );
                        if m == "-" || rm != "ok" {
                            m = rm;
                        }
                    }
                }
                p
            }
            "E" => step(|| parse_expression(&text), pk, &mut render).0,
            "F" => step(|| parse_ffi_decl(&text), pk, &mut render).0,
            "T" => step(|| parse_ffi_structs_enums(&text), pk, &mut render).0,
            _ => "-".into(),
        };
        if want_shapes {
            LAST_PANIC.lock().unwrap().clear();
            let _ = panic::catch_unwind(panic::AssertUnwindSafe(|| match mode.as_str() {
                "S" => pest_shapes(Rule::file, "file", &text, &mut shape_set),
                "E" => pest_shapes(Rule::complete_expression, "complete_expression", &text, &mut shape_set),
                "F" => pest_shapes(Rule::ffi_def, "ffi_def", &text, &mut shape_set),
                "T" => pest_shapes(Rule::ffi_struct_or_enum_def, "ffi_struct_or_enum_def", &text, &mut shape_set),
                _ => false,
            }));
        }
        let r = if render.is_empty() { "ok".to_string() } else { format!("panic:{}", hex(&render[0])) };
        let mut o = out.lock();
        writeln!(o, "@@ {idx} P={p} C1={c1} C2={c2} I={ci} V={v} M={m} R={r} FM={fm}").unwrap();
        o.flush().unwrap();
    }
    let mut o = out.lock();
    for s in shape_set {
        writeln!(o, "{s}").unwrap();
    }
    writeln!(o, "@@END").unwrap();
}
