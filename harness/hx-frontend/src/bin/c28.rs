//! C28 implementation-side runner: compile, serialize (CBOR via serde/ciborium, rkyv archive),
//! decode, reload into a `Machine`, and execute every entry point on the original and on the
//! reloaded machines.
//!
//! stdin: one case per line `<mode> <hex of utf-8 text>` (D = Markdown document, S = policy source).
//! stdout (protocol lines start with `@@`):
//!   `@@ <i> C=<ok|perr|cerr|panic> cb=<len>:<hash> rk=<len>:<hash> RT=<k=0/1,...> EX=<entries>:<hash> ST=<executed steps>`
//!      cb / rk: the serialized bytes (length and a 128-bit FNV digest) — compared across two processes;
//!      RT: round-trip facts, all must be 1:
//!        twice   compiling the same AST twice in this process gives an equal Module
//!        cb_eq   decode(encode_cbor m) == m          cb_re  re-encoding the decoded module gives the same bytes
//!        rk_eq   rkyv from_bytes(to_bytes m) == m    rk_re  likewise for the archive
//!        mach_cb / mach_rk   Machine::from_module(decoded) == Machine::from_module(m)
//!        exec_cb / exec_rk   every entry point gives the same canonical result on the reloaded machine
//!      EX: number of entry points executed and a digest of all their results on the original machine.
//!   `@@N <i> <table>=<module order names>|<machine order names>;...`  definition names for the Coq model
//!   `@@D <i> <text>`  details of the first difference (diagnostics only)
use std::{
    collections::BTreeMap,
    io::{self, BufRead, Write},
    panic,
};

use aranya_crypto::{BaseId, DeviceId, policy::CmdId};
use aranya_policy_ast::{self as ast, Version, ident};
use aranya_policy_compiler::Compiler;
use aranya_policy_lang::lang::{parse_policy_document, parse_policy_str};
use aranya_policy_module::{
    Label, LabelType, Module, ModuleData, TypeKind,
    ffi::{self, ModuleSchema},
};
use aranya_policy_vm::{
    ActionContext, CommandContext, FactKey, FactKeyList, FactValue, FactValueList, Identifier, KVPair, Machine, MachineError,
    MachineErrorType, MachineIO, MachineIOError, MachineStack, MachineStatus, OpenContext, PolicyContext, SealContext, Stack,
    Struct, Value,
};

const SCHEMAS: &[ModuleSchema<'static>] = &[ModuleSchema {
    name: ident!("test"),
    functions: &[ffi::Func {
        name: ident!("doit"),
        args: &[ffi::Arg { name: ident!("x"), vtype: ffi::Type::Int }],
        return_type: ffi::Type::Bool,
    }],
    structs: &[],
    enums: &[],
}];

fn unhex(s: &str) -> Vec<u8> {
    (0..s.len() / 2).map(|i| u8::from_str_radix(&s[2 * i..2 * i + 2], 16).unwrap()).collect()
}

fn digest(b: &[u8]) -> String {
    let (mut h1, mut h2) = (0xcbf29ce484222325u64, 0x84222325cbf29ce4u64);
    for &x in b {
        h1 = (h1 ^ x as u64).wrapping_mul(0x100000001b3);
        h2 = (h2.rotate_left(5) ^ x as u64).wrapping_mul(0x9E3779B97F4A7C15);
    }
    format!("{h1:016x}{h2:016x}")
}

// ---------------------------------------------------------------- in-memory fact store

#[derive(Default)]
struct Io {
    facts: BTreeMap<(Identifier, FactKeyList), FactValueList>,
    log: Vec<String>,
}

impl<S: Stack> MachineIO<S> for Io {
    type QueryIterator = Box<dyn Iterator<Item = Result<(FactKeyList, FactValueList), MachineIOError>>>;

    fn fact_insert(
        &mut self,
        name: Identifier,
        key: impl IntoIterator<Item = FactKey>,
        value: impl IntoIterator<Item = FactValue>,
    ) -> Result<(), MachineIOError> {
        let key: Vec<_> = key.into_iter().collect();
        let value: Vec<_> = value.into_iter().collect();
        self.log.push(format!("insert {name} {key:?} {value:?}"));
        if self.facts.contains_key(&(name.clone(), key.clone())) {
            return Err(MachineIOError::FactExists);
        }
        self.facts.insert((name, key), value);
        Ok(())
    }

    fn fact_delete(&mut self, name: Identifier, key: impl IntoIterator<Item = FactKey>) -> Result<(), MachineIOError> {
        let key: Vec<_> = key.into_iter().collect();
        self.log.push(format!("delete {name} {key:?}"));
        match self.facts.remove(&(name, key)) {
            Some(_) => Ok(()),
            None => Err(MachineIOError::FactNotFound),
        }
    }

    fn fact_query(&self, name: Identifier, key: impl IntoIterator<Item = FactKey>) -> Result<Self::QueryIterator, MachineIOError> {
        let key: Vec<_> = key.into_iter().collect();
        let v: Vec<_> = self
            .facts
            .iter()
            .filter(|((n, k), _)| *n == name && k.starts_with(&key))
            .map(|((_, k), v)| Ok((k.clone(), v.clone())))
            .collect();
        Ok(Box::new(v.into_iter()))
    }

    fn effect(&mut self, name: Identifier, fields: impl IntoIterator<Item = KVPair>, _command: CmdId, recalled: bool) {
        let mut fields: Vec<_> = fields.into_iter().collect();
        fields.sort_by(|a, b| a.key().cmp(b.key()));
        self.log.push(format!("effect {name} {fields:?} recalled={recalled}"));
    }

    fn call(&self, module: usize, _procedure: usize, _stack: &mut S, _ctx: &CommandContext) -> Result<(), MachineError> {
        Err(MachineError::new(MachineErrorType::FfiModuleNotDefined(module)))
    }
}

// ---------------------------------------------------------------- argument generation

fn lcg(seed: &mut u64) -> u64 {
    *seed = seed.wrapping_mul(6364136223846793005).wrapping_add(1442695040888963407);
    *seed >> 33
}

fn value_of(ty: &TypeKind, m: &Machine, seed: &mut u64, depth: usize) -> Value {
    match ty {
        TypeKind::Unit => Value::Unit,
        TypeKind::String => Value::String(["", "a", "hello"][(lcg(seed) % 3) as usize].parse().unwrap()),
        TypeKind::Bytes => Value::Bytes(vec![1, 2, 3][..(lcg(seed) % 4) as usize].to_vec()),
        TypeKind::Int => Value::Int([0, 1, 2, 3, -1, 7, 42, i64::MAX][(lcg(seed) % 8) as usize]),
        TypeKind::Bool => Value::Bool(lcg(seed) % 2 == 0),
        TypeKind::Id => Value::Id(BaseId::default()),
        TypeKind::Struct(name) => Value::Struct(struct_of(name, m, seed, depth)),
        TypeKind::Enum(name) => {
            let v = m.enum_defs.get(name).and_then(|e| e.variants.first().map(|(_, v)| *v)).unwrap_or(0);
            Value::Enum(name.clone(), v)
        }
        TypeKind::Optional(inner) => {
            if lcg(seed) % 3 == 0 || depth > 3 { Value::NONE } else { Value::Option(Some(Box::new(value_of(inner, m, seed, depth + 1)))) }
        }
        TypeKind::Result(r) => {
            if lcg(seed) % 2 == 0 {
                Value::Result(Ok(Box::new(value_of(&r.ok, m, seed, depth + 1))))
            } else {
                Value::Result(Err(Box::new(value_of(&r.err, m, seed, depth + 1))))
            }
        }
        TypeKind::Never => Value::Unit,
    }
}

fn struct_of(name: &Identifier, m: &Machine, seed: &mut u64, depth: usize) -> Struct {
    let mut fields = Vec::new();
    if depth < 4 {
        if let Some(def) = m.struct_defs.get(name) {
            for f in &def.items {
                fields.push((f.name.clone(), value_of(&f.ty, m, seed, depth + 1)));
            }
        }
    }
    Struct::new(name.clone(), fields)
}

fn ast_kind(t: &ast::TypeKind) -> TypeKind {
    t.clone().into()
}

const MAX_STEPS: usize = 20_000;

/// Drive a prepared run state; the canonical outcome lists yields, the exit, the stack top and the IO log.
fn drive<'a>(rs: &mut aranya_policy_vm::RunState<'a, Io>, steps: &mut usize) -> String {
    let mut out = String::new();
    for _ in 0..MAX_STEPS {
        *steps += 1;
        match rs.step() {
            Ok(MachineStatus::Executing) => {}
            Ok(MachineStatus::Exited(aranya_policy_vm::ExitReason::Yield)) => {
                out.push_str(&format!("yield {:?}; ", rs.stack.as_slice().last()));
            }
            Ok(MachineStatus::Exited(r)) => {
                out.push_str(&format!("exit {r} top={:?}", rs.stack.as_slice().last()));
                return out;
            }
            Err(e) => {
                out.push_str(&format!("error {e}"));
                return out;
            }
        }
    }
    out.push_str("step-limit");
    out
}

/// Run every action, function, command policy / seal / open of `m`; canonical text per entry point.
fn execute(m: &Machine, policy: &ast::Policy, case_seed: u64, steps: &mut usize) -> Vec<String> {
    let mut res = Vec::new();
    let run = |what: String, f: &mut dyn FnMut(&mut Io, &mut usize) -> String, steps: &mut usize| -> String {
        let mut io = Io::default();
        // a few facts may already exist
        let r = match panic::catch_unwind(panic::AssertUnwindSafe(|| f(&mut io, steps))) {
            Ok(s) => s,
            Err(_) => "PANIC".to_string(),
        };
        format!("{what} => {r} | io={:?} facts={:?}", io.log, io.facts)
    };
    for a in m.action_defs.iter() {
        for round in 0..2u64 {
            let mut seed = case_seed ^ digest(a.name.as_str().as_bytes()).len() as u64 ^ (round << 20) ^ a.name.as_str().len() as u64;
            let args: Vec<Value> = a.params.iter().map(|p| value_of(&p.ty, m, &mut seed, 0)).collect();
            let name = a.name.clone();
            res.push(run(format!("action {name} {args:?}"), &mut |io, steps| {
                let ctx = CommandContext::Action(ActionContext { name: name.clone(), head_id: CmdId::default() });
                let mut rs = m.create_run_state(io, ctx);
                match rs.setup_action(name.clone(), args.clone()) {
                    Ok(()) => drive(&mut rs, steps),
                    Err(e) => format!("setup error {e}"),
                }
            }, steps));
        }
    }
    for f in &policy.functions {
        let mut seed = case_seed ^ 0x5151 ^ f.identifier.as_str().len() as u64;
        let args: Vec<Value> = f.arguments.iter().map(|p| value_of(&ast_kind(&p.ty.inner), m, &mut seed, 0)).collect();
        let name = f.identifier.inner.clone();
        res.push(run(format!("function {name} {args:?}"), &mut |io, steps| {
            let ctx = CommandContext::Action(ActionContext { name: name.clone(), head_id: CmdId::default() });
            let mut rs = m.create_run_state(io, ctx);
            if let Err(e) = rs.set_pc_by_label(&Label::new(name.clone(), LabelType::Function)) {
                return format!("label error {e}");
            }
            for a in args.iter().cloned() {
                if rs.stack.push_value(a).is_err() {
                    return "push error".into();
                }
            }
            drive(&mut rs, steps)
        }, steps));
    }
    for c in m.command_defs.iter() {
        let mut seed = case_seed ^ 0xC0DE ^ c.name.as_str().len() as u64;
        let this = Struct::new(c.name.clone(), c.fields.iter().map(|f| (f.name.clone(), value_of(&f.ty, m, &mut seed, 0))).collect::<Vec<_>>());
        let envelope = struct_of(&ident!("Envelope"), m, &mut seed, 0);
        let name = c.name.clone();
        res.push(run(format!("policy {name} {this:?}"), &mut |io, steps| {
            let ctx = CommandContext::Policy(PolicyContext { name: name.clone(), id: CmdId::default(), author: DeviceId::default(), version: BaseId::default() });
            let mut rs = m.create_run_state(io, ctx);
            match rs.setup_command(Label::new(name.clone(), LabelType::CommandPolicy), this.clone()) {
                Ok(()) => {
                    if rs.stack.push_value(Value::Struct(envelope.clone())).is_err() {
                        return "push error".into();
                    }
                    drive(&mut rs, steps)
                }
                Err(e) => format!("setup error {e}"),
            }
        }, steps));
        res.push(run(format!("seal {name}"), &mut |io, steps| {
            let ctx = CommandContext::Seal(SealContext { name: name.clone(), head_id: CmdId::default() });
            let mut rs = m.create_run_state(io, ctx);
            if let Err(e) = rs.set_pc_by_label(&Label::new(name.clone(), LabelType::CommandSeal)) {
                return format!("label error {e}");
            }
            let _ = rs.stack.push_value(Value::Struct(this.clone()));
            let _ = rs.stack.push_value(Value::Bytes(vec![1, 2, 3]));
            drive(&mut rs, steps)
        }, steps));
        res.push(run(format!("open {name}"), &mut |io, steps| {
            let ctx = CommandContext::Open(OpenContext { name: name.clone() });
            let mut rs = m.create_run_state(io, ctx);
            if let Err(e) = rs.set_pc_by_label(&Label::new(name.clone(), LabelType::CommandOpen)) {
                return format!("label error {e}");
            }
            let _ = rs.stack.push_value(Value::Struct(this.clone()));
            let _ = rs.stack.push_value(Value::Bytes(vec![1, 2, 3]));
            let _ = rs.stack.push_value(Value::Struct(envelope.clone()));
            drive(&mut rs, steps)
        }, steps));
    }
    // every remaining label (recall blocks): entered with an empty stack
    for (l, _) in m.labels.iter() {
        if l.ltype == LabelType::CommandRecall {
            let l = l.clone();
            res.push(run(format!("recall {}", l.name), &mut |io, steps| {
                let ctx = CommandContext::Recall(PolicyContext { name: l.name.clone(), id: CmdId::default(), author: DeviceId::default(), version: BaseId::default() });
                let mut rs = m.create_run_state(io, ctx);
                if let Err(e) = rs.set_pc_by_label(&l) {
                    return format!("label error {e}");
                }
                drive(&mut rs, steps)
            }, steps));
        }
    }
    res
}

fn names<T>(it: impl Iterator<Item = T>, f: impl Fn(&T) -> String) -> String {
    it.map(|x| f(&x)).collect::<Vec<_>>().join(",")
}

fn main() {
    panic::set_hook(Box::new(|_| {}));
    let stdin = io::stdin();
    let out = io::stdout();
    for (idx, line) in stdin.lock().lines().enumerate() {
        let line = line.unwrap();
        let mut it = line.split_whitespace();
        let mode = it.next().unwrap_or("S").to_string();
        let text = String::from_utf8(unhex(it.next().unwrap_or(""))).unwrap_or_default();
        let parsed = panic::catch_unwind(|| if mode == "D" { parse_policy_document(&text) } else { parse_policy_str(&text, Version::V2) });
        let policy = match parsed {
            Ok(Ok(p)) => p,
            Ok(Err(_)) => {
                writeln!(out.lock(), "@@ {idx} C=perr").unwrap();
                continue;
            }
            Err(_) => {
                writeln!(out.lock(), "@@ {idx} C=panic").unwrap();
                continue;
            }
        };
        let compile = || Compiler::new(&policy).debug(true).ffi_modules(SCHEMAS).compile();
        let module: Module = match panic::catch_unwind(panic::AssertUnwindSafe(compile)) {
            Ok(Ok(m)) => m,
            Ok(Err(_)) => {
                writeln!(out.lock(), "@@ {idx} C=cerr").unwrap();
                continue;
            }
            Err(_) => {
                writeln!(out.lock(), "@@ {idx} C=panic").unwrap();
                continue;
            }
        };
        let mut detail = String::new();
        let mut flag = |name: &str, ok: bool, flags: &mut Vec<String>, why: &dyn Fn() -> String| {
            flags.push(format!("{name}={}", ok as u8));
            if !ok && detail.is_empty() {
                detail = format!("{name}: {}", why());
            }
        };
        let mut flags = Vec::new();
        let again = compile().ok();
        flag("twice", again.as_ref() == Some(&module), &mut flags, &|| "second compilation differs".into());
        // CBOR
        let mut cb = Vec::new();
        ciborium::into_writer(&module, &mut cb).expect("cbor encode");
        let m_cb: Option<Module> = ciborium::from_reader(&cb[..]).ok();
        flag("cb_eq", m_cb.as_ref() == Some(&module), &mut flags, &|| "decoded CBOR module differs".into());
        let mut cb2 = Vec::new();
        if let Some(m2) = &m_cb {
            ciborium::into_writer(m2, &mut cb2).expect("cbor encode");
        }
        flag("cb_re", cb2 == cb, &mut flags, &|| "re-encoded CBOR differs".into());
        // rkyv
        let rk = rkyv::to_bytes::<rkyv::rancor::Error>(&module).expect("rkyv encode");
        let m_rk: Option<Module> = rkyv::from_bytes::<Module, rkyv::rancor::Error>(&rk).ok();
        flag("rk_eq", m_rk.as_ref() == Some(&module), &mut flags, &|| "decoded rkyv module differs".into());
        let rk2 = m_rk.as_ref().map(|m| rkyv::to_bytes::<rkyv::rancor::Error>(m).expect("rkyv encode").to_vec()).unwrap_or_default();
        flag("rk_re", rk2[..] == rk[..], &mut flags, &|| "re-encoded rkyv archive differs".into());
        // machines
        let mach = Machine::from_module(module.clone()).expect("machine");
        let mach_cb = m_cb.clone().and_then(|m| Machine::from_module(m).ok());
        let mach_rk = m_rk.clone().and_then(|m| Machine::from_module(m).ok());
        flag("mach_cb", mach_cb.as_ref() == Some(&mach), &mut flags, &|| "machine from CBOR differs".into());
        flag("mach_rk", mach_rk.as_ref() == Some(&mach), &mut flags, &|| "machine from rkyv differs".into());
        // execution
        let case_seed = 0x9E3779B97F4A7C15u64 ^ (text.len() as u64).wrapping_mul(0x100000001b3);
        let mut steps = 0usize;
        let r0 = execute(&mach, &policy, case_seed, &mut steps);
        let mut s2 = 0usize;
        for (nm, other) in [("exec_cb", &mach_cb), ("exec_rk", &mach_rk)] {
            let r = other.as_ref().map(|m| execute(m, &policy, case_seed, &mut s2));
            let same = r.as_ref() == Some(&r0);
            let why = || {
                let r = r.clone().unwrap_or_default();
                let i = (0..r0.len().max(r.len())).find(|&i| r0.get(i) != r.get(i)).unwrap_or(0);
                format!("entry {i}: {:?} vs {:?}", r0.get(i), r.get(i))
            };
            flag(nm, same, &mut flags, &why);
        }
        let ModuleData::V0(v0) = &module.data;
        let mut o = out.lock();
        writeln!(
            o,
            "@@ {idx} C=ok cb={}:{} rk={}:{} RT={} EX={}:{} ST={}",
            cb.len(), digest(&cb), rk.len(), digest(&rk), flags.join(","), r0.len(), digest(r0.join("\n").as_bytes()), steps
        )
        .unwrap();
        writeln!(
            o,
            "@@N {idx} actions={}|{};commands={}|{};facts={}|{};structs={}|{};enums={}|{}",
            names(v0.action_defs.iter(), |d| d.name.to_string()), names(mach.action_defs.iter(), |d| d.name.to_string()),
            names(v0.command_defs.iter(), |d| d.name.to_string()), names(mach.command_defs.iter(), |d| d.name.to_string()),
            names(v0.fact_defs.iter(), |d| d.name.to_string()), names(mach.fact_defs.iter(), |d| d.name.to_string()),
            names(v0.struct_defs.iter(), |d| d.name.to_string()), names(mach.struct_defs.iter(), |d| d.name.to_string()),
            names(v0.enum_defs.iter(), |d| d.name.to_string()), names(mach.enum_defs.iter(), |d| d.name.to_string()),
        )
        .unwrap();
        if !detail.is_empty() {
            writeln!(o, "@@D {idx} {}", detail.replace('\n', " ")).unwrap();
        }
        o.flush().unwrap();
    }
    writeln!(out.lock(), "@@END").unwrap();
}
