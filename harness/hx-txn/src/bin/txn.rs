//! hx-txn: drives the REAL `aranya_runtime::ClientState` / `Transaction` with a
//! deterministic *audit policy* and dumps the observable state after every
//! operation.  Used by the checks C09, C10, C08, C06, C07, C04, C01.
//!
//! stdin (ASCII, one item per line):
//!   case <name> <mem|libc> <graph-id>
//!   c <id> <prio> <par> <pol> <prog>       command table entry
//!        prio: m | b<n> | f | i            par: - | s<id> | m<l>,<r>
//!        pol : 0 | 1 (has policy bytes)    prog: - | op.op...   (see `run_prog`)
//!   o open <t> | o add <t> <id,id,..|-> | o flush <t> | o commit <t>
//!   o action <d|-> <fail|-> <id>:<prio>:<prog>,...|-     (parents = current head)
//!   o probe <id> <max_cut>                 should_sync_on_hello on that address
//!   o sess                                 facts visible to a fresh Session (ephemeral dump action)
//!   o fault <commit|append> <k>            the k-th next Write::commit / Write::append fails with IoError (one shot)
//!   o newgraph <fail|-> <id>:<prio>:<prog>,...   ClientState::new_graph with an init action publishing these
//!   end
//! stdout: `case <name>` then one line per op:
//!   <result>|h=..|f=..|hh=..|s=..|r=..|g=..|st=..
//! Locations/offsets never appear; the head-set stamp is printed as a first-seen ordinal.
use std::{
    cell::RefCell,
    collections::{BTreeMap, BTreeSet},
    io::{self, BufRead, Write as _},
    panic::{self, AssertUnwindSafe},
    rc::Rc,
};

use aranya_runtime::{
    Address, ClientError, ClientState, CmdId, Command, CommandPlacement, FactPerspective, GraphId,
    Keys, Location, MaxCut, MergeIds, Perspective, Policy, PolicyError, PolicyId, PolicyStore,
    Prior, Priority, Query, RuntimeBuffers, Segment, Sink, Storage, StorageError, StorageProvider,
    policy::ActionPlacement,
    storage::{
        HeadSet, HeadSetOffset, MemSpill,
        linear::{self, LinearStorageProvider, libc::FileManager},
    },
};

/// Switchable I/O faults: the k-th next `Write::commit` / `Write::append` fails (one shot).
#[derive(Clone, Default)]
struct Faults(Rc<RefCell<(u64, u64)>>);
impl Faults {
    fn hit(&self, commit: bool) -> bool {
        let mut g = self.0.borrow_mut();
        let c = if commit { &mut g.0 } else { &mut g.1 };
        if *c == 0 {
            return false;
        }
        *c -= 1;
        *c == 0
    }
}
struct FManager<M> {
    inner: M,
    f: Faults,
}
struct FWriter<W> {
    inner: W,
    f: Faults,
}
impl<M: linear::IoManager> linear::IoManager for FManager<M> {
    type Writer = FWriter<M::Writer>;
    fn create(&mut self, id: GraphId) -> Result<Self::Writer, StorageError> {
        Ok(FWriter { inner: self.inner.create(id)?, f: self.f.clone() })
    }
    fn open(&mut self, id: GraphId) -> Result<Option<Self::Writer>, StorageError> {
        Ok(self.inner.open(id)?.map(|w| FWriter { inner: w, f: self.f.clone() }))
    }
    fn remove(&mut self, id: GraphId) -> Result<(), StorageError> {
        self.inner.remove(id)
    }
    fn list(&mut self) -> Result<impl Iterator<Item = Result<GraphId, StorageError>>, StorageError> {
        self.inner.list()
    }
}
impl<W: linear::Write> linear::Write for FWriter<W> {
    type ReadOnly = W::ReadOnly;
    fn readonly(&self) -> Self::ReadOnly {
        self.inner.readonly()
    }
    fn heads(&self) -> Result<HeadSet, StorageError> {
        self.inner.heads()
    }
    fn heads_offset(&self) -> Result<HeadSetOffset, StorageError> {
        self.inner.heads_offset()
    }
    fn fact_cache(&self) -> Result<linear::FactCacheOffset, StorageError> {
        self.inner.fact_cache()
    }
    fn append<F, T>(&mut self, builder: F) -> Result<T, StorageError>
    where
        F: FnOnce(u64) -> T,
        T: serde::Serialize,
    {
        if self.f.hit(false) {
            return Err(StorageError::IoError);
        }
        self.inner.append(builder)
    }
    fn commit(&mut self, heads: &HeadSet, fact_cache: linear::FactCacheOffset) -> Result<(), StorageError> {
        if self.f.hit(true) {
            return Err(StorageError::IoError);
        }
        self.inner.commit(heads, fact_cache)
    }
}

type Eff = Vec<u64>;
type Log = Rc<RefCell<Vec<String>>>;

fn cmd_id(n: u64) -> CmdId {
    let mut b = [0u8; 32];
    b[24..].copy_from_slice(&n.to_be_bytes());
    CmdId::from_bytes(b)
}
fn id_num(id: CmdId) -> String {
    let b = id.as_array();
    if b[..24].iter().all(|x| *x == 0) {
        let mut a = [0u8; 8];
        a.copy_from_slice(&b[24..]);
        u64::from_be_bytes(a).to_string()
    } else {
        format!("x{}", b.iter().map(|x| format!("{x:02x}")).collect::<String>())
    }
}
/// Deterministic merge id (the Coq model and the Python generator use the same formula).
fn merge_id(l: u64, r: u64) -> u64 {
    let m = (l as u128 * 1_000_003 + r as u128 * 7919 + 12345) % (1u128 << 61);
    (1u64 << 62) + m as u64
}

#[derive(Clone, Debug)]
struct ACmd {
    id: CmdId,
    prio: Priority,
    parent: Prior<Address>,
    policy: Option<Vec<u8>>,
    data: Vec<u8>,
}
impl Command for ACmd {
    fn priority(&self) -> Priority {
        self.prio.clone()
    }
    fn id(&self) -> CmdId {
        self.id
    }
    fn parent(&self) -> Prior<Address> {
        self.parent
    }
    fn policy(&self) -> Option<&[u8]> {
        self.policy.as_deref()
    }
    fn bytes(&self) -> &[u8] {
        &self.data
    }
}

fn fname(k: u64) -> &'static str {
    if k % 2 == 0 { "x" } else { "y" }
}
fn fkeys(k: u64) -> Keys {
    let b: Box<[u8]> = k.to_be_bytes().to_vec().into_boxed_slice();
    Keys::from(vec![b])
}
fn enc_val(v: &[u64]) -> Box<[u8]> {
    v.iter().flat_map(|x| x.to_be_bytes()).collect::<Vec<u8>>().into_boxed_slice()
}
fn dec_val(b: &[u8]) -> Vec<u64> {
    b.chunks(8)
        .map(|c| {
            let mut a = [0u8; 8];
            a[..c.len()].copy_from_slice(c);
            u64::from_be_bytes(a)
        })
        .collect()
}
fn dec_key(k: &Keys) -> u64 {
    let mut a = [0u8; 8];
    if let Some(b) = k.iter().next() {
        let n = b.len().min(8);
        a[..n].copy_from_slice(&b[..n]);
    }
    u64::from_be_bytes(a)
}

/// All facts visible through a `Query`, as sorted (k, value) pairs.
fn all_facts(q: &impl Query) -> Result<Vec<(u64, Vec<u64>)>, StorageError> {
    let mut out = Vec::new();
    for name in ["x", "y"] {
        for f in q.query_prefix(name, &[])? {
            let f = f?;
            out.push((dec_key(&f.key), dec_val(&f.value)));
        }
    }
    out.sort();
    Ok(out)
}

/// The audit interpreter.  `prog` = ops separated by '.', fields by ':':
///   S:k:v  set k := [v]        D:k  delete k          A:k:t  append t to k (absent = [])
///   C:k:j  copy k into j (absent k deletes j)         E:e    emit effect [e]
///   X      emit every visible fact as effect [k, v..] Q:k    reject if k absent
///   R      reject                                     W:k:v  write k := [v] then reject
///   I      internal error
fn run_prog(
    prog: &[u8],
    facts: &mut impl FactPerspective,
    sink: &mut impl Sink<Eff>,
) -> Result<(), PolicyError> {
    let s = core::str::from_utf8(prog).map_err(|_| PolicyError::Read)?;
    for op in s.split('.').filter(|o| !o.is_empty()) {
        let f: Vec<&str> = op.split(':').collect();
        let n = |i: usize| -> Result<u64, PolicyError> {
            f.get(i).and_then(|x| x.parse().ok()).ok_or(PolicyError::Read)
        };
        match f[0] {
            "S" => {
                let k = n(1)?;
                facts.insert(fname(k).into(), fkeys(k), enc_val(&[n(2)?])).map_err(|_| PolicyError::Write)?;
            }
            "D" => {
                let k = n(1)?;
                facts.delete(fname(k).into(), fkeys(k)).map_err(|_| PolicyError::Write)?;
            }
            "A" => {
                let k = n(1)?;
                let mut v = facts
                    .query(fname(k), &fkeys(k))
                    .map_err(|_| PolicyError::Read)?
                    .map(|b| dec_val(&b))
                    .unwrap_or_default();
                v.push(n(2)?);
                facts.insert(fname(k).into(), fkeys(k), enc_val(&v)).map_err(|_| PolicyError::Write)?;
            }
            "C" => {
                let (k, j) = (n(1)?, n(2)?);
                match facts.query(fname(k), &fkeys(k)).map_err(|_| PolicyError::Read)? {
                    Some(b) => facts.insert(fname(j).into(), fkeys(j), b).map_err(|_| PolicyError::Write)?,
                    None => facts.delete(fname(j).into(), fkeys(j)).map_err(|_| PolicyError::Write)?,
                }
            }
            "E" => sink.consume(vec![n(1)?]),
            "X" => {
                for (k, v) in all_facts(facts).map_err(|_| PolicyError::Read)? {
                    let mut e = vec![k];
                    e.extend(v);
                    sink.consume(e);
                }
            }
            "Q" => {
                let k = n(1)?;
                if facts.query(fname(k), &fkeys(k)).map_err(|_| PolicyError::Read)?.is_none() {
                    return Err(PolicyError::Rejected);
                }
            }
            "R" => return Err(PolicyError::Rejected),
            "W" => {
                let k = n(1)?;
                facts.insert(fname(k).into(), fkeys(k), enc_val(&[n(2)?])).map_err(|_| PolicyError::Write)?;
                return Err(PolicyError::Rejected);
            }
            "I" => return Err(PolicyError::InternalError),
            _ => return Err(PolicyError::Read),
        }
    }
    Ok(())
}

struct APolicy {
    log: Log,
}
struct AAction {
    dump: bool,
    cmds: Vec<(u64, Priority, String)>,
    fail_after: Option<usize>,
}
impl Policy for APolicy {
    type Action<'a> = AAction;
    type Effect = Eff;
    type Command<'a> = ACmd;
    fn serial(&self) -> u32 {
        0
    }
    fn call_rule(
        &self,
        command: &impl Command,
        facts: &mut impl FactPerspective,
        sink: &mut impl Sink<Eff>,
        placement: CommandPlacement,
    ) -> Result<(), PolicyError> {
        let p = match placement {
            CommandPlacement::OnGraphAtOrigin => 'O',
            CommandPlacement::OnGraphInBraid => 'B',
            CommandPlacement::OffGraph => 'F',
        };
        self.log.borrow_mut().push(format!("{}@{}", id_num(command.id()), p));
        run_prog(command.bytes(), facts, sink)
    }
    fn call_action(
        &self,
        action: AAction,
        facts: &mut impl Perspective,
        sink: &mut impl Sink<Eff>,
        _placement: ActionPlacement,
    ) -> Result<(), PolicyError> {
        if action.dump {
            run_prog(b"X", facts, sink)?;
        }
        for (i, (id, prio, prog)) in action.cmds.iter().enumerate() {
            if action.fail_after == Some(i) {
                return Err(PolicyError::Rejected);
            }
            let parent = facts.head_address()?;
            let cmd = ACmd { id: cmd_id(*id), prio: prio.clone(), parent, policy: None, data: prog.as_bytes().to_vec() };
            self.log.borrow_mut().push(format!("{}@A", id));
            run_prog(&cmd.data, facts, sink)?;
            facts.add_command(&cmd).map_err(|_| PolicyError::Write)?;
        }
        if action.fail_after == Some(action.cmds.len()) {
            return Err(PolicyError::Rejected);
        }
        Ok(())
    }
    fn merge<'a>(&self, _target: &'a mut [u8], ids: MergeIds) -> Result<ACmd, PolicyError> {
        let (l, r): (Address, Address) = ids.into();
        let ln: u64 = id_num(l.id).parse().map_err(|_| PolicyError::InternalError)?;
        let rn: u64 = id_num(r.id).parse().map_err(|_| PolicyError::InternalError)?;
        Ok(ACmd { id: cmd_id(merge_id(ln, rn)), prio: Priority::Merge, parent: Prior::Merge(l, r), policy: None, data: vec![] })
    }
}
struct AStore {
    pol: APolicy,
}
impl PolicyStore for AStore {
    type Policy = APolicy;
    type Effect = Eff;
    fn add_policy(&mut self, _policy: &[u8]) -> Result<PolicyId, PolicyError> {
        Ok(PolicyId::new(0))
    }
    fn get_policy(&self, _id: PolicyId) -> Result<&APolicy, PolicyError> {
        Ok(&self.pol)
    }
}

struct LSink {
    log: Vec<String>,
}
impl Sink<Eff> for LSink {
    fn begin(&mut self) {
        self.log.push("B".into());
    }
    fn consume(&mut self, e: Eff) {
        self.log.push(format!("C{}", e.iter().map(|x| x.to_string()).collect::<Vec<_>>().join("_")));
    }
    fn rollback(&mut self) {
        self.log.push("R".into());
    }
    fn commit(&mut self) {
        self.log.push("K".into());
    }
}
struct NullMsg;
impl<'b> Sink<&'b [u8]> for NullMsg {
    fn begin(&mut self) {}
    fn consume(&mut self, _e: &'b [u8]) {}
    fn rollback(&mut self) {}
    fn commit(&mut self) {}
}

fn perr(e: &PolicyError) -> &'static str {
    match e {
        PolicyError::Read => "Read",
        PolicyError::Write => "Write",
        PolicyError::Rejected => "Rejected",
        PolicyError::Panic => "Panic",
        PolicyError::InternalError => "InternalError",
        PolicyError::Bug(_) => "Bug",
        _ => "Other",
    }
}
fn serr(e: &StorageError) -> String {
    match e {
        StorageError::StorageExists => "StorageExists".into(),
        StorageError::NoSuchStorage => "NoSuchStorage".into(),
        StorageError::NotInitialized => "NotInitialized".into(),
        StorageError::SegmentOutOfBounds(_) => "SegmentOutOfBounds".into(),
        StorageError::CommandOutOfBounds(_) => "CommandOutOfBounds".into(),
        StorageError::IoError => "IoError".into(),
        StorageError::PolicyMismatch => "PolicyMismatch".into(),
        StorageError::EmptyPerspective => "EmptyPerspective".into(),
        StorageError::PerspectiveHeadMismatch => "PerspectiveHeadMismatch".into(),
        StorageError::MultipleHeads(_) => "MultipleHeads".into(),
        StorageError::Bug(_) => "Bug".into(),
        _ => "Other".into(),
    }
}
fn cerr(e: &ClientError) -> String {
    match e {
        ClientError::NoSuchParent(id) => format!("NoSuchParent:{}", id_num(*id)),
        ClientError::PolicyError(p) => format!("Policy:{}", perr(p)),
        ClientError::StorageError(s) => format!("Storage:{}", serr(s)),
        ClientError::InitError => "InitError".into(),
        ClientError::SessionDeserialize => "SessionDeserialize".into(),
        ClientError::ParallelFinalize => "ParallelFinalize".into(),
        ClientError::ConcurrentTransaction => "ConcurrentTransaction".into(),
        ClientError::Bug(_) => "Bug".into(),
        _ => "Other".into(),
    }
}

#[derive(Clone)]
struct TEntry {
    prio: Priority,
    par: Prior<u64>,
    pol: bool,
    prog: String,
}
fn parse_prio(s: &str) -> Priority {
    match s.as_bytes()[0] {
        b'm' => Priority::Merge,
        b'f' => Priority::Finalize,
        b'i' => Priority::Init,
        _ => Priority::Basic(s[1..].parse().unwrap()),
    }
}
fn prog_of(s: &str) -> String {
    if s == "-" { String::new() } else { s.to_string() }
}

struct Table {
    t: BTreeMap<u64, TEntry>,
    mc: RefCell<BTreeMap<u64, u64>>,
}
impl Table {
    fn max_cut(&self, id: u64) -> u64 {
        if let Some(v) = self.mc.borrow().get(&id) {
            return *v;
        }
        let v = match self.t.get(&id).map(|e| e.par) {
            None | Some(Prior::None) => 0,
            Some(Prior::Single(p)) => self.max_cut(p) + 1,
            Some(Prior::Merge(l, r)) => self.max_cut(l).max(self.max_cut(r)) + 1,
        };
        self.mc.borrow_mut().insert(id, v);
        v
    }
    fn addr(&self, id: u64) -> Address {
        Address { id: cmd_id(id), max_cut: MaxCut::new(self.max_cut(id)) }
    }
    fn cmd(&self, id: u64) -> ACmd {
        let e = self.t.get(&id).cloned().unwrap_or(TEntry { prio: Priority::Basic(0), par: Prior::None, pol: false, prog: String::new() });
        let parent = match e.par {
            Prior::None => Prior::None,
            Prior::Single(p) => Prior::Single(self.addr(p)),
            Prior::Merge(l, r) => Prior::Merge(self.addr(l), self.addr(r)),
        };
        ACmd { id: cmd_id(id), prio: e.prio, parent, policy: if e.pol { Some(vec![0u8; 8]) } else { None }, data: e.prog.into_bytes() }
    }
}

/// Commands reachable from the committed heads, with their parents, read back from storage.
fn walk<S: Storage>(st: &S) -> Result<String, StorageError> {
    let mut seen: BTreeSet<(u64, u64)> = BTreeSet::new();
    let mut out: BTreeMap<String, String> = BTreeMap::new();
    let mut stack: Vec<Location> = st.get_heads()?.iter().map(|h| h.location()).collect();
    while let Some(loc) = stack.pop() {
        let seg = st.get_segment(loc)?;
        let first = seg.first_location();
        let mut mc = loc.max_cut.get();
        loop {
            if !seen.insert((loc.segment.get(), mc)) {
                break;
            }
            let l = Location::new(loc.segment, MaxCut::new(mc));
            let c = seg.get_command(l).ok_or(StorageError::CommandOutOfBounds(l))?;
            let ps = match c.parent() {
                Prior::None => String::new(),
                Prior::Single(a) => id_num(a.id),
                Prior::Merge(a, b) => format!("{}+{}", id_num(a.id), id_num(b.id)),
            };
            out.insert(id_num(c.id()), ps);
            if mc == first.max_cut.get() {
                for p in seg.prior() {
                    stack.push(p);
                }
                break;
            }
            mc -= 1;
        }
    }
    Ok(out.iter().map(|(k, v)| format!("{k}:{v}")).collect::<Vec<_>>().join(","))
}

fn fmt_facts(f: &[(u64, Vec<u64>)]) -> String {
    f.iter()
        .map(|(k, v)| format!("{}={}", k, v.iter().map(|x| x.to_string()).collect::<Vec<_>>().join("_")))
        .collect::<Vec<_>>()
        .join(";")
}

fn run_case<SP: StorageProvider>(provider: SP, faults: Faults, gid_n: u64, table: &Table, ops: &[Vec<String>], out: &mut impl io::Write) {
    let log: Log = Rc::new(RefCell::new(Vec::new()));
    let mut client = ClientState::new(AStore { pol: APolicy { log: log.clone() } }, provider);
    let gid = GraphId::transmute(cmd_id(gid_n));
    let mut buffers: RuntimeBuffers<SP::Segment> = RuntimeBuffers::new();
    let mut txs: BTreeMap<u64, aranya_runtime::Transaction<SP, AStore>> = BTreeMap::new();
    let mut stamps: Vec<String> = Vec::new();
    for op in ops {
        let mut sink = LSink { log: Vec::new() };
        log.borrow_mut().clear();
        let res = panic::catch_unwind(AssertUnwindSafe(|| -> String {
            match op[0].as_str() {
                "open" => {
                    let t: u64 = op[1].parse().unwrap();
                    txs.insert(t, client.transaction(gid));
                    "ok".into()
                }
                "add" => {
                    let t: u64 = op[1].parse().unwrap();
                    let cmds: Vec<ACmd> = if op[2] == "-" { vec![] } else { op[2].split(',').map(|x| table.cmd(x.parse().unwrap())).collect() };
                    let Some(trx) = txs.get_mut(&t) else { return "invalid".into() };
                    match client.add_commands(trx, &mut sink, &cmds, &mut buffers, MemSpill::new) {
                        Ok(n) => format!("ok:{n}"),
                        Err(e) => format!("err:{}", cerr(&e)),
                    }
                }
                "flush" => {
                    let t: u64 = op[1].parse().unwrap();
                    let Some(trx) = txs.get_mut(&t) else { return "invalid".into() };
                    match client.provider().get_storage(gid) {
                        Err(e) => format!("err:Storage:{}", serr(&e)),
                        Ok(st) => match trx.flush(st) {
                            Ok(()) => "ok".into(),
                            Err(e) => format!("err:{}", cerr(&e)),
                        },
                    }
                }
                "commit" => {
                    let t: u64 = op[1].parse().unwrap();
                    let Some(trx) = txs.remove(&t) else { return "invalid".into() };
                    match client.commit(trx, &mut sink, &mut buffers, MemSpill::new) {
                        Ok(b) => format!("ok:{b}"),
                        Err(e) => format!("err:{}", cerr(&e)),
                    }
                }
                "action" => {
                    let dump = op[1] == "d";
                    let fail_after = if op[2] == "-" { None } else { Some(op[2].parse().unwrap()) };
                    let cmds = if op[3] == "-" {
                        vec![]
                    } else {
                        op[3].split(',')
                            .map(|c| {
                                let f: Vec<&str> = c.splitn(3, ':').collect();
                                (f[0].parse().unwrap(), parse_prio(f[1]), prog_of(f.get(2).copied().unwrap_or("-")))
                            })
                            .collect()
                    };
                    match client.action(gid, &mut sink, AAction { dump, cmds, fail_after }, &mut buffers, MemSpill::new) {
                        Ok(()) => "ok".into(),
                        Err(e) => format!("err:{}", cerr(&e)),
                    }
                }
                "probe" => {
                    let a = Address { id: cmd_id(op[1].parse().unwrap()), max_cut: MaxCut::new(op[2].parse().unwrap()) };
                    match client.should_sync_on_hello(gid, a, &mut buffers.traversal.primary) {
                        Ok(b) => format!("ok:{b}"),
                        Err(e) => format!("err:{}", cerr(&e)),
                    }
                }
                "fault" => {
                    let k: u64 = op[2].parse().unwrap();
                    let mut g = faults.0.borrow_mut();
                    if op[1] == "commit" { g.0 = k } else { g.1 = k }
                    "ok".into()
                }
                "newgraph" => {
                    let fail_after = if op[1] == "-" { None } else { Some(op[1].parse().unwrap()) };
                    let cmds: Vec<(u64, Priority, String)> = if op[2] == "-" {
                        vec![]
                    } else {
                        op[2].split(',')
                            .map(|c| {
                                let f: Vec<&str> = c.splitn(3, ':').collect();
                                (f[0].parse().unwrap(), parse_prio(f[1]), prog_of(f.get(2).copied().unwrap_or("-")))
                            })
                            .collect()
                    };
                    let ids: Vec<u64> = cmds.iter().map(|c| c.0).collect();
                    let r = client.new_graph(b"", AAction { dump: false, cmds, fail_after }, &mut sink);
                    // which of the published ids name a graph now?
                    let ex: Vec<String> = ids
                        .iter()
                        .map(|i| format!("{}:{}", i, client.provider().get_storage(GraphId::transmute(cmd_id(*i))).is_ok() as u8))
                        .collect();
                    match r {
                        Ok(g) => format!("ok:{};{}", id_num(CmdId::transmute(g)), ex.join("+")),
                        Err(e) => format!("err:{};{}", cerr(&e), ex.join("+")),
                    }
                }
                "sess" => match client.session(gid) {
                    Err(e) => format!("err:{}", cerr(&e)),
                    Ok(mut s) => match s.action(&client, &mut sink, &mut NullMsg, AAction { dump: true, cmds: vec![], fail_after: None }) {
                        Ok(()) => "ok".into(),
                        Err(e) => format!("err:{}", cerr(&e)),
                    },
                },
                _ => "invalid".into(),
            }
        }))
        .unwrap_or_else(|_| "panic".into());
        // ---- dump of the observable state
        let dump = panic::catch_unwind(AssertUnwindSafe(|| -> String {
            let hh = match client.hello_head(gid) {
                Ok(a) => format!("{}:{}", id_num(a.id), a.max_cut.get()),
                Err(e) => format!("err:{}", cerr(&e)),
            };
            let (h, f, g, st) = match client.provider().get_storage(gid) {
                Err(_) => ("-".to_string(), "-".to_string(), "-".to_string(), "-".to_string()),
                Ok(st) => {
                    let h = st.get_heads().map(|hs| hs.iter().map(|h| id_num(h.id)).collect::<Vec<_>>().join(",")).unwrap_or_else(|e| format!("err:{}", serr(&e)));
                    let f = st.fact_cache().and_then(|fc| all_facts(&fc)).map(|f| fmt_facts(&f)).unwrap_or_else(|e| format!("err:{}", serr(&e)));
                    let g = walk(st).unwrap_or_else(|e| format!("err:{}", serr(&e)));
                    let s = format!("{:?}", st.heads_offset());
                    let ord = match stamps.iter().position(|x| *x == s) {
                        Some(i) => i,
                        None => {
                            stamps.push(s);
                            stamps.len() - 1
                        }
                    };
                    (h, f, g, ord.to_string())
                }
            };
            format!("h={h}|f={f}|hh={hh}|g={g}|st={st}")
        }))
        .unwrap_or_else(|_| "dump-panic".into());
        writeln!(out, "{res}|s={}|r={}|{dump}", sink.log.join(","), log.borrow().join(",")).unwrap();
    }
}

fn main() {
    panic::set_hook(Box::new(|_| {}));
    let stdin = io::stdin();
    let stdout = io::stdout();
    let mut out = io::BufWriter::new(stdout.lock());
    let tmp_root = std::env::var("HX_TMP").unwrap_or_else(|_| "/verif/build/tmp-hx-txn".into());
    let mut name = String::new();
    let mut backend = String::new();
    let mut gid = 0u64;
    let mut table: BTreeMap<u64, TEntry> = BTreeMap::new();
    let mut ops: Vec<Vec<String>> = Vec::new();
    let mut ncase = 0u64;
    for line in stdin.lock().lines() {
        let line = line.unwrap();
        let f: Vec<&str> = line.split_whitespace().collect();
        if f.is_empty() {
            continue;
        }
        match f[0] {
            "case" => {
                name = f[1].into();
                backend = f[2].into();
                gid = f[3].parse().unwrap();
                table.clear();
                ops.clear();
            }
            "c" => {
                let par = match f[3].as_bytes()[0] {
                    b'-' => Prior::None,
                    b's' => Prior::Single(f[3][1..].parse().unwrap()),
                    _ => {
                        let (l, r) = f[3][1..].split_once(',').unwrap();
                        Prior::Merge(l.parse().unwrap(), r.parse().unwrap())
                    }
                };
                table.insert(f[1].parse().unwrap(), TEntry { prio: parse_prio(f[2]), par, pol: f[4] == "1", prog: prog_of(f[5]) });
            }
            "o" => ops.push(f[1..].iter().map(|s| s.to_string()).collect()),
            "end" => {
                writeln!(out, "case {name}").unwrap();
                let tb = Table { t: table.clone(), mc: RefCell::new(BTreeMap::new()) };
                if backend == "libc" {
                    ncase += 1;
                    let dir = format!("{}-{}-{}", tmp_root, std::process::id(), ncase);
                    let _ = std::fs::remove_dir_all(&dir);
                    std::fs::create_dir_all(&dir).unwrap();
                    let fm = FileManager::new(std::path::Path::new(&dir)).expect("file manager");
                    let f = Faults::default();
                    run_case(LinearStorageProvider::new(FManager { inner: fm, f: f.clone() }), f, gid, &tb, &ops, &mut out);
                    let _ = std::fs::remove_dir_all(&dir);
                } else {
                    let f = Faults::default();
                    run_case(LinearStorageProvider::new(FManager { inner: linear::testing::Manager::new(), f: f.clone() }), f, gid, &tb, &ops, &mut out);
                }
                out.flush().unwrap();
            }
            _ => {}
        }
    }
}
