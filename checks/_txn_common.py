"""Shared machinery of the transaction checks (C09, C10, C08, C06, C07, C04, C01).

 * DAG / history generators (all randomness from the Rng passed in),
 * the text protocol of harness/hx-txn (bin `txn`) and its output parser,
 * rendering of a batch of histories as a Coq cases file that evaluates the model
   (model/Txn.v instantiated by model/TxnRef.v) and prints only mismatching (case, op) indices,
 * graph helpers for the per-property oracles (frontier, ancestry, closure).
"""
import os
import vlib

M61 = 1 << 61


def merge_id(l, r):
    return (1 << 62) + ((l * 1000003 + r * 7919 + 12345) % M61)


# ---------------------------------------------------------------- programs
# op = tuple; text form for the harness, Coq form for the model
def op_text(o):
    return ":".join([o[0]] + [str(x) for x in o[1:]])


COQ_OP = {"S": "ASet", "D": "ADel", "A": "AApp", "C": "ACopy", "E": "AEmit", "X": "ADump", "Q": "AQ",
          "R": "ARej", "W": "AWrej", "I": "AInt"}


def op_coq(o):
    return "(" + " ".join([COQ_OP[o[0]]] + [str(x) for x in o[1:]]) + ")" if len(o) > 1 else COQ_OP[o[0]]


def prog_text(p):
    return ".".join(op_text(o) for o in p) if p else "-"


def rand_prog(r, reject_w=0, nkeys=4):
    """A small audit program; reject_w in 0..100 = chance (percent) that it fails at origin for sure."""
    p = []
    if r.below(3) == 0:
        # a "quiet" command: writes no fact (nothing, or effects only)
        p = [("E", r.below(900) + 100) for _ in range(r.choice([0, 0, 1, 2]))]
        if r.below(100) < reject_w:
            p.append(("R",))
        return tuple(p)
    for _ in range(r.choice([0, 1, 1, 2, 2, 3])):
        k = r.below(nkeys)
        c = r.below(100)
        if c < 30:
            p.append(("A", k, r.below(90) + 10))
        elif c < 50:
            p.append(("S", k, r.below(90) + 10))
        elif c < 58:
            p.append(("D", k))
        elif c < 68:
            p.append(("C", k, r.below(nkeys)))
        elif c < 88:
            p.append(("E", r.below(900) + 100))
        else:
            p.append(("Q", k))
    if r.below(100) < reject_w:
        c = r.below(10)
        tail = ("W", r.below(nkeys), 7) if c < 5 else (("R",) if c < 8 else ("I",))
        p.insert(r.below(len(p) + 1), tail)
    return tuple(p)


def sure_fail(p):
    return any(o[0] in ("R", "W", "I") for o in p)


# ---------------------------------------------------------------- commands / DAG
class Cmd:
    __slots__ = ("id", "prio", "par", "pol", "prog")

    def __init__(self, id, prio, par, pol, prog):
        self.id, self.prio, self.par, self.pol, self.prog = id, prio, par, pol, prog

    def parents(self):
        return list(self.par)


def prio_text(p):
    return p if isinstance(p, str) else "b%d" % p


def prio_coq(p):
    return {"m": "PMerge", "f": "PFinalize", "i": "PInit"}.get(p) if isinstance(p, str) else "(PBasic %d)" % p


def par_text(par):
    return "-" if not par else ("s%d" % par[0] if len(par) == 1 else "m%d,%d" % par)


def par_coq(par):
    return "PNone" if not par else ("(PSingle %d)" % par[0] if len(par) == 1 else "(PMerge2 %d %d)" % par)


class Dag:
    """Global command table; cmds in creation (topological) order."""

    def __init__(self):
        self.cmds = {}
        self.order = []
        self._anc = {}

    def add(self, c):
        self.cmds[c.id] = c
        self.order.append(c.id)
        a = {c.id}
        for p in c.par:
            a |= self._anc.get(p, {p})
        self._anc[c.id] = a

    def anc(self, i):
        return self._anc.get(i, {i})

    def comparable(self, a, b):
        return a in self.anc(b) or b in self.anc(a)


def gen_dag(r, n, gid=None, reject_w=8, merge_w=18, fin_w=3, deep_w=20, nkeys=4):
    d = Dag()
    used = set()

    def fresh():
        while True:
            x = r.below(1 << 20) + 1
            if x not in used:
                used.add(x)
                return x
    gid = gid or fresh()
    used.add(gid)
    d.add(Cmd(gid, "i", (), 1, tuple(o for o in rand_prog(r, 0, nkeys) if o[0] != "Q")))
    tips = [gid]
    for _ in range(n):
        c = r.below(100)
        done = False
        if c < merge_w and len(d.order) >= 3:
            for _try in range(6):
                a, b = r.choice(d.order), r.choice(d.order)
                if a != b and not d.comparable(a, b):
                    l, rr = min(a, b), max(a, b)
                    m = merge_id(l, rr)
                    if m not in d.cmds and not sure_fail(d.cmds[a].prog) and not sure_fail(d.cmds[b].prog):
                        d.add(Cmd(m, "m", (l, rr), 0, ()))
                        done = True
                        break
        if done:
            continue
        parent = r.choice(d.order) if r.below(100) < deep_w else r.choice(d.order[-4:])
        if r.below(100) < fin_w:
            prio = "f"
        else:
            prio = r.choice([0, 0, 1, 1, 2, 5])
        d.add(Cmd(fresh(), prio, (parent,), 0, rand_prog(r, reject_w, nkeys)))
    return d


# ---------------------------------------------------------------- histories
# op forms: ("open",t) ("add",t,[ids]) ("flush",t) ("commit",t)
#           ("action",dump,fail,[(id,prio,prog)]) ("probe",id,mc) ("sess",)
def gen_history(r, d, ntx=2, p_dup=8, p_bad=5, p_flush=10, p_commit=8, p_action=6, p_probe=3, extra_cmds=None,
                allow_actions=True, target=None, p_fault=0):
    """Deliver the commands of `d` (optionally only the causally closed subset `target`) through `ntx`
    concurrently open transactions with duplicates, out-of-order deliveries, flushes, commits and actions."""
    ops = []
    ids = [i for i in d.order if target is None or i in target]
    pending = list(ids)
    open_tx = {}
    delivered = []
    committed_guess = set()
    next_action_id = [(1 << 40) + r.below(1 << 20)]

    def do_open(t):
        ops.append(("open", t))
        open_tx[t] = set(committed_guess)
    for t in range(ntx):
        do_open(t)
    steps = 0
    while pending and steps < 6 * len(ids) + 20:
        steps += 1
        t = r.choice(sorted(open_tx))
        known = open_tx[t]
        c = r.below(100)
        if c < p_flush:
            ops.append(("flush", t))
            continue
        if c < p_flush + p_commit:
            if committed_guess and r.below(100) < p_fault:
                ops.append(("fault", "commit", 1))
            ops.append(("commit", t))
            committed_guess |= known      # optimistic
            do_open(t)
            continue
        if allow_actions and c < p_flush + p_commit + p_action and committed_guess:
            k = r.choice([0, 1, 1, 2, 3])
            cmds = []
            for _ in range(k):
                next_action_id[0] += 1
                cmds.append((next_action_id[0], r.choice([0, 1, 2]), rand_prog(r, 6)))
            fail = r.choice([None, None, None, 0, k, r.below(k + 1)])
            if r.below(100) < p_fault:
                ops.append(("fault", "commit", 1))
            ops.append(("action", r.below(3) == 0, fail, cmds))
            continue
        if c < p_flush + p_commit + p_action + p_probe:
            x = r.choice(d.order)
            ops.append(r.choice([("probe", x, len(d.anc(x)) and max_cut(d, x)), ("sess",)]))
            continue
        # a batch of 1..5 commands
        batch = []
        for _ in range(r.choice([1, 1, 2, 3, 5])):
            cc = r.below(100)
            if cc < p_dup and delivered:
                batch.append(r.choice(delivered))
                continue
            if cc < p_dup + p_bad and pending:
                batch.append(r.choice(pending))       # maybe out of order
                continue
            ready = [i for i in pending if all(p in known or p in batch for p in d.cmds[i].par)]
            if not ready:
                break
            x = ready[0] if r.below(100) < 50 else r.choice(ready)
            batch.append(x)
            if not sure_fail(d.cmds[x].prog):
                known.add(x)
                if not d.cmds[x].par:          # the init command is committed as soon as it is added
                    committed_guess.add(x)
                    for kk in open_tx.values():
                        kk.add(x)
            pending.remove(x)
            delivered.append(x)
        if batch:
            ops.append(("add", t, batch))
        elif not any(all(p in open_tx[tt] for p in d.cmds[i].par) for i in pending for tt in open_tx):
            # nothing deliverable anywhere (e.g. descendants of a rejected command): deliver one anyway, then drop it
            x = pending.pop(0)
            ops.append(("add", t, [x]))
            delivered.append(x)
    for t in sorted(open_tx):
        if r.below(100) < 85:
            ops.append(("commit", t))
    if extra_cmds:
        ops += extra_cmds
    return ops


def max_cut(d, i, memo=None):
    memo = {} if memo is None else memo
    if i in memo:
        return memo[i]
    c = d.cmds.get(i)
    v = 0 if c is None or not c.par else 1 + max(max_cut(d, p, memo) for p in c.par)
    memo[i] = v
    return v


# ---------------------------------------------------------------- harness I/O
def case_text(name, backend, gid, d, ops):
    out = ["case %s %s %d" % (name, backend, gid)]
    for i in d.order:
        c = d.cmds[i]
        out.append("c %d %s %s %d %s" % (c.id, prio_text(c.prio), par_text(c.par), c.pol, prog_text(c.prog)))
    for o in ops:
        if o[0] in ("open", "flush", "commit"):
            out.append("o %s %d" % (o[0], o[1]))
        elif o[0] == "add":
            out.append("o add %d %s" % (o[1], ",".join(str(x) for x in o[2]) or "-"))
        elif o[0] == "action":
            cm = ",".join("%d:%s:%s" % (i, prio_text(p), prog_text(pr)) for (i, p, pr) in o[3]) or "-"
            out.append("o action %s %s %s" % ("d" if o[1] else "-", "-" if o[2] is None else str(o[2]), cm))
        elif o[0] == "probe":
            out.append("o probe %d %d" % (o[1], o[2]))
        elif o[0] == "sess":
            out.append("o sess")
        elif o[0] == "fault":
            out.append("o fault %s %d" % (o[1], o[2]))
        elif o[0] == "newgraph":
            cm = ",".join("%d:%s:%s" % (i, prio_text(p), prog_text(pr)) for (i, p, pr) in o[2]) or "-"
            out.append("o newgraph %s %s" % ("-" if o[1] is None else str(o[1]), cm))
    out.append("end")
    return "\n".join(out) + "\n"


def parse_line(line):
    """One harness output line -> dict."""
    parts = line.rstrip("\n").split("|")
    o = {"res": parts[0]}
    for p in parts[1:]:
        k, _, v = p.partition("=")
        o[k] = v
    o["heads"] = None if o.get("h", "-") == "-" else [int(x) for x in o["h"].split(",") if x]
    f = o.get("f", "-")
    o["facts"] = None if f == "-" else [[int(kv.split("=")[0])] + [int(x) for x in kv.split("=")[1].split("_") if x]
                                        for kv in f.split(";") if kv]
    hh = o.get("hh", "")
    o["hello"] = [int(x) for x in hh.split(":")] if hh and not hh.startswith("err") else []
    g = o.get("g", "-")
    o["graph"] = None if g == "-" else {int(e.split(":")[0]): tuple(int(x) for x in e.split(":")[1].split("+") if x)
                                       for e in g.split(",") if e}
    o["sink"] = [x for x in o.get("s", "").split(",") if x]
    o["rules"] = [x for x in o.get("r", "").split(",") if x]
    return o


def run_harness(ctx, binp, cases):
    """cases: list of (name, backend, gid, dag, ops).  Returns list (per case) of list (per op) of dicts, or None."""
    inp = "".join(case_text(*c) for c in cases)
    tmp = os.path.join(vlib.BUILD, "tmp-hx-txn-%s" % ctx.pid)
    rc, out, err = vlib.run_bin(binp, input=inp, env={"HX_TMP": tmp})
    res, cur = [], None
    for line in out.splitlines():
        if line.startswith("case "):
            cur = []
            res.append(cur)
        elif cur is not None:
            cur.append(parse_line(line))
    if rc != 0 or len(res) != len(cases) or any(len(r) != len(c[4]) for r, c in zip(res, cases)):
        ctx.oblige("harness:run", False, "rc=%s cases=%d/%d %s" % (rc, len(res), len(cases), err[-1500:]))
        return None
    return res


# ---------------------------------------------------------------- encoding the implementation's output as model observations
PE = {"Rejected": 0, "InternalError": 2, "Write": 3, "Read": 4, "Panic": 5, "Bug": 6}
SE = {"NoSuchStorage": 0, "EmptyPerspective": 1, "PerspectiveHeadMismatch": 2, "IoError": 3, "StorageExists": 4}


def enc_res(res):
    """harness result string -> the model's enc_res list, or None if the class has no model counterpart."""
    res = res.split(";")[0]
    if res == "ok":
        return [0]
    if res.startswith("ok:"):
        v = res[3:]
        if v in ("true", "false"):
            return [2, 1 if v == "true" else 0]
        return [1, int(v)]
    if res == "invalid":
        return [4]
    if res.startswith("err:"):
        e = res[4:]
        if e.startswith("NoSuchParent:"):
            return [3, 1, int(e.split(":")[1])]
        if e.startswith("Policy:"):
            return [3, 2, PE.get(e.split(":")[1], 99)]
        if e.startswith("Storage:"):
            return [3, 3, SE.get(e.split(":")[1], 99)]
        return {"InitError": [3, 4, 0], "ParallelFinalize": [3, 5, 0], "ConcurrentTransaction": [3, 6, 0],
                "Bug": [3, 7, 0]}.get(e, [3, 99, 0])
    return [99]       # panic etc.


def enc_sink(s):
    out = []
    for e in s:
        if e == "B":
            out.append([0])
        elif e == "K":
            out.append([2])
        elif e == "R":
            out.append([3])
        else:
            out.append([1] + [int(x) for x in e[1:].split("_") if x])
    return out


def cl(xs, f=str):
    return "[" + "; ".join(f(x) for x in xs) + "]"


def obs_coq(o):
    g = sorted(o["graph"]) if o["graph"] is not None else []
    return ("{| o_res := %s; o_sink := %s; o_heads := %s; o_facts := %s; o_hello := %s; o_committed := %s |}" % (
        cl(enc_res(o["res"])), cl(enc_sink(o["sink"]), cl), cl(o["heads"] or []), cl(o["facts"] or [], cl),
        cl(o["hello"]), cl(g)))


def case_coq(idx, backend, gid, d, ops, outs):
    """Coq definitions for one case: progs table, commands, ops, expected observations."""
    progs, pidx = [()], {(): 0}

    def body(prog, pol):
        if prog not in pidx:
            pidx[prog] = len(progs)
            progs.append(prog)
        return 2 * pidx[prog] + (1 if pol else 0)

    def cmd(i):
        c = d.cmds[i]
        return "(Build_cmd %d %s %s %d)" % (c.id, prio_coq(c.prio), par_coq(c.par), body(c.prog, c.pol))
    xs = []
    for o in ops:
        if o[0] == "open":
            xs.append("XOp (Open %d)" % o[1])
        elif o[0] == "add":
            xs.append("XOp (Add %d %s)" % (o[1], cl(o[2], cmd)))
        elif o[0] == "flush":
            xs.append("XOp (Flush %d)" % o[1])
        elif o[0] == "commit":
            xs.append("XOp (Commit %d)" % o[1])
        elif o[0] == "action":
            pcs = cl(o[3], lambda c: "(Build_pubcmd %d %s %d)" % (c[0], prio_coq(c[1]), body(c[2], 0)))
            fail = "None" if o[2] is None else "(Some %d%%nat)" % o[2]
            xs.append("XOp (Action (Build_action %s %s %s))" % ("true" if o[1] else "false", pcs, fail))
        elif o[0] == "probe":
            xs.append("XProbe %d %d" % (o[1], o[2]))
        elif o[0] == "sess":
            xs.append("XSess")
        elif o[0] == "fault":
            xs.append("XFaultCommit")
        elif o[0] == "newgraph":
            pcs = cl(o[2], lambda c: "(Build_pubcmd %d %s %d)" % (c[0], prio_coq(c[1]), body(c[2], 0)))
            xs.append("XNewGraph %s %s" % ("None" if o[1] is None else "(Some %d%%nat)" % o[1], pcs))
    return ("Definition progs%d : list (list aop) := %s.\n"
            "Definition ops%d : list xop := %s.\n"
            "Definition exp%d : list obs := %s.\n"
            "Definition mm%d := obs_mismatch 0 (xrun progs%d %s %d r0 ops%d) exp%d.\n" % (
                idx, cl(progs, lambda p: cl(p, op_coq)), idx, cl(xs), idx, cl(outs, obs_coq), idx, idx,
                "true" if backend == "libc" else "false", gid, idx, idx))


HEADER = ("From Aranya Require Import base.Tactics model.Dag model.Txn model.TxnRef.\n"
          "Local Open Scope N_scope.\n")


def model_compare(ctx, name, cases, results, shard=12):
    """Evaluate the model on every case inside Coq; returns list of (case index, [op indices]) mismatches, or None."""
    items = list(zip(range(len(cases)), cases, results))

    def render(chunk):
        txt = []
        for k, (gi, c, outs) in enumerate(chunk):
            txt.append(case_coq(k, c[1], c[2], c[3], c[4], outs))
        txt.append("Eval vm_compute in %s.\n" % cl(range(len(chunk)), lambda k: "mm%d" % k))
        return "".join(txt)
    outs, chunks = vlib.coq_eval_sharded(ctx, name, HEADER, items, render, shard=shard)
    mism = []
    for (rc, o), ch in zip(outs, chunks):
        v = vlib.parse_coq_value(o) if rc == 0 else None
        if v is None or len(v) != len(ch):
            ctx.oblige("correspondence:model-eval", False, o[-2500:])
            return None
        for (gi, c, _), mm in zip(ch, v):
            if mm:
                mism.append((gi, mm))
    return mism


# ---------------------------------------------------------------- graph helpers for the oracles
def frontier(graph):
    """graph: {id: parents}; ids without a child inside the graph."""
    has_child = set()
    for i, ps in graph.items():
        for p in ps:
            has_child.add(p)
    return sorted(i for i in graph if i not in has_child)


def closed(graph):
    return all(p in graph for ps in graph.values() for p in ps)


def ancestors(graph, i):
    seen, todo = set(), [i]
    while todo:
        x = todo.pop()
        if x in seen or x not in graph:
            continue
        seen.add(x)
        todo.extend(graph[x])
    return seen


def state_key(o):
    return (o.get("h"), o.get("f"), o.get("g"), o.get("st"), o.get("hh"))


# ---------------------------------------------------------------- fixed scenarios (regressions of repaired defects, corner shapes)
def fixed_scenarios():
    """(name, dag, ops): small hand-made histories that every transaction check replays first."""
    out = []

    def dag(cmds):
        d = Dag()
        for c in cmds:
            d.add(Cmd(*c))
        return d
    base = [(1, "i", (), 1, (("S", 0, 1),)), (2, 1, (1,), 0, (("A", 0, 2),)), (3, 1, (2,), 0, (("A", 0, 3), ("E", 3))),
            (4, 1, (3,), 0, (("A", 0, 4),)), (5, 1, (1,), 0, (("A", 0, 5),)), (6, 0, (1,), 0, (("W", 4, 4),)),
            (7, 0, (6,), 0, (("A", 0, 7),))]
    # F10: failed merge, then a child of the command that was at the perspective head
    d = dag(base + [(9, "m", (2, 77), 0, ())])
    out.append(("F10", d, [("open", 0), ("add", 0, [1]), ("add", 0, [2]), ("add", 0, [9]), ("add", 0, [3]), ("commit", 0)]))
    # F12: duplicate of the in-flight perspective's parent (after a flush / after a perspective switch)
    d = dag(base)
    out.append(("F12a", d, [("open", 0), ("add", 0, [1, 2, 3]), ("flush", 0), ("add", 0, [4]), ("add", 0, [3]), ("commit", 0)]))
    out.append(("F12b", d, [("open", 0), ("add", 0, [1, 2, 3]), ("add", 0, [5]), ("add", 0, [4]), ("add", 0, [3]),
                            ("commit", 0), ("action", False, None, [(10, 1, (("A", 0, 10),))])]))
    # F13: rejected first command of a fresh perspective, then commit / then a child of it
    out.append(("F13a", d, [("open", 0), ("add", 0, [1, 2]), ("add", 0, [6]), ("commit", 0)]))
    out.append(("F13b", d, [("open", 0), ("add", 0, [1, 2]), ("add", 0, [6]), ("add", 0, [7]), ("add", 0, [3]),
                            ("flush", 0), ("add", 0, [6]), ("commit", 0), ("open", 1), ("add", 1, [7]), ("commit", 1)]))
    # merge COMMANDS over transaction-local tips (written, uncommitted), then - before anything flushes the merge -
    # a duplicate of a merged parent / of an ancestor on the merged branches; and merges over committed heads
    m25, m45 = merge_id(2, 5), merge_id(4, 5)
    dm = dag(base + [(m25, "m", (2, 5), 0, ()), (m45, "m", (4, 5), 0, ()), (8, 1, (m25,), 0, (("A", 0, 8),)),
                     (9, 0, (m25,), 0, (("W", 4, 4),)), (11, 1, (m45,), 0, (("A", 0, 11),))])
    out.append(("Mloc-left", dm, [("open", 0), ("add", 0, [1, 2]), ("add", 0, [5]), ("add", 0, [m25]), ("add", 0, [2]), ("commit", 0)]))
    out.append(("Mloc-right", dm, [("open", 0), ("add", 0, [1, 2]), ("add", 0, [5]), ("add", 0, [m25]), ("add", 0, [5]), ("commit", 0),
                                   ("action", True, None, [(12, 1, (("A", 0, 12),))])]))
    out.append(("Mloc-anc", dm, [("open", 0), ("add", 0, [1, 2, 3, 4]), ("add", 0, [5]), ("add", 0, [m45]), ("add", 0, [3]),
                                 ("add", 0, [4, 2, 5]), ("commit", 0), ("sess",)]))
    out.append(("Mloc-batch", dm, [("open", 0), ("add", 0, [1, 2, 5, m25, 2, 5, 8]), ("add", 0, [m25, 5]), ("commit", 0)]))
    out.append(("Mloc-child", dm, [("open", 0), ("add", 0, [1, 2]), ("add", 0, [5]), ("add", 0, [m25, 8]), ("add", 0, [2]),
                                   ("add", 0, [9]), ("add", 0, [5, m25]), ("flush", 0), ("add", 0, [8, 2]), ("commit", 0)]))
    out.append(("Mloc-rejchild", dm, [("open", 0), ("add", 0, [1, 2]), ("add", 0, [5]), ("add", 0, [m25]), ("add", 0, [9]),
                                      ("add", 0, [5]), ("add", 0, [2]), ("commit", 0)]))
    out.append(("Mcommitted", dm, [("open", 0), ("add", 0, [1, 2, 3, 4]), ("add", 0, [5]), ("commit", 0), ("open", 1),
                                   ("add", 1, [m45]), ("add", 1, [4]), ("add", 1, [5, 3]), ("add", 1, [11]), ("add", 1, [m45]),
                                   ("commit", 1)]))
    out.append(("Mtwo-merges", dm, [("open", 0), ("add", 0, [1, 2, 3, 4]), ("add", 0, [5]), ("add", 0, [m25]), ("add", 0, [m45]),
                                    ("add", 0, [2]), ("add", 0, [4]), ("add", 0, [m25]), ("commit", 0)]))
    # a braid whose base lands in the MIDDLE of a segment: [2,3,4] is one segment, 2 and 3 write no facts, 4 does;
    # the merge of 5 (child of 3) and 6 (child of 2) braids with base 3; same DAG under another segmentation
    mq = merge_id(5, 6)
    dq = dag([(1, "i", (), 1, (("S", 0, 1),)), (2, 1, (1,), 0, (("E", 5),)), (3, 9, (2,), 0, ()), (4, 1, (3,), 0, (("A", 0, 4), ("S", 2, 4))),
              (5, 1, (3,), 0, (("A", 0, 5),)), (6, 1, (2,), 0, (("A", 0, 6),)), (mq, "m", (5, 6), 0, ()), (7, 1, (mq,), 0, (("A", 0, 70), ("C", 2, 3)))])
    out.append(("quiet-mid-a", dq, [("open", 0), ("add", 0, [1]), ("add", 0, [2, 3, 4]), ("add", 0, [5]), ("add", 0, [6]), ("add", 0, [mq]),
                                    ("add", 0, [7]), ("commit", 0), ("sess",)]))
    out.append(("quiet-mid-b", dq, [("open", 0), ("add", 0, [1]), ("add", 0, [2]), ("flush", 0), ("add", 0, [3]), ("flush", 0), ("add", 0, [4]),
                                    ("flush", 0), ("add", 0, [6]), ("add", 0, [5]), ("add", 0, [mq]), ("flush", 0), ("add", 0, [7]),
                                    ("commit", 0), ("sess",)]))
    out.append(("quiet-mid-c", dq, [("open", 0), ("add", 0, [1, 2, 3, 4]), ("commit", 0), ("open", 1), ("add", 1, [5]), ("commit", 1),
                                    ("open", 2), ("add", 2, [6]), ("commit", 2), ("sess",), ("action", True, None, [(12, 1, (("A", 0, 12),))])]))
    # the storage fails at Write::commit during a transaction commit / an action: nothing may change
    out.append(("fault-commit", d, [("open", 0), ("add", 0, [1, 2]), ("add", 0, [5]), ("commit", 0), ("open", 0), ("add", 0, [3]),
                                    ("fault", "commit", 1), ("commit", 0), ("sess",), ("open", 0), ("add", 0, [3]), ("commit", 0)]))
    out.append(("fault-action", d, [("open", 0), ("add", 0, [1, 2]), ("add", 0, [5]), ("commit", 0), ("fault", "commit", 1),
                                    ("action", True, None, [(12, 1, (("A", 0, 12), ("E", 9)))]), ("sess",), ("probe", 12, 3),
                                    ("action", False, None, [(12, 1, (("A", 0, 12),))]), ("fault", "commit", 1),
                                    ("action", False, 1, [(13, 1, ())]), ("action", False, None, [(13, 1, ())])]))
    # ClientState::new_graph with an init action publishing 1, 2, 3 commands: the graph id is the id of the FIRST one
    for k in (1, 2, 3):
        dn = dag([(100, "i", (), 1, (("S", 0, 1),)), (101, 1, (100,), 0, (("A", 0, 2),)), (102, 1, (101,), 0, (("A", 0, 3),)),
                  (110, 1, (100 + k - 1,), 0, (("A", 0, 9),))])
        pubs = [(100, "i", (("S", 0, 1),)), (101, 1, (("A", 0, 2),)), (102, 1, (("A", 0, 3),))][:k]
        out.append(("newgraph%d" % k, dn, [("open", 0), ("newgraph", None, pubs), ("add", 0, [110]), ("add", 0, [100]), ("commit", 0),
                                           ("newgraph", None, pubs[:1]), ("sess",)]))
    dn = dag([(100, "i", (), 1, (("S", 0, 1),)), (101, 1, (100,), 0, ())])
    out.append(("newgraph-fail", dn, [("newgraph", 1, [(100, "i", (("E", 3), ("S", 0, 1))), (101, 1, ())]), ("newgraph", None, []),
                                      ("open", 0), ("add", 0, [101]), ("newgraph", None, [(100, "i", (("S", 0, 1),)), (101, 1, ())]),
                                      ("add", 0, [101]), ("commit", 0)]))
    # two transactions racing, the loser keeps working and commits again
    out.append(("race", d, [("open", 0), ("open", 1), ("add", 0, [1, 2]), ("add", 1, [5]), ("commit", 1), ("add", 0, [3]),
                            ("commit", 0), ("open", 0), ("add", 0, [2, 3]), ("commit", 0), ("sess",), ("probe", 3, 2)]))
    # first-command shapes for a missing graph (C10)
    d = dag([(1, "i", (), 1, ()), (2, 1, (1,), 0, ()), (30, "i", (), 1, ()), (31, "i", (), 0, ()), (32, "i", (), 1, (("R",),))])
    out.append(("init-shapes", d, [("open", 0), ("add", 0, []), ("add", 0, [2]), ("add", 0, [30]), ("commit", 0),
                                   ("flush", 0), ("open", 0), ("flush", 0), ("action", False, None, []), ("add", 0, [1, 1, 30]),
                                   ("add", 0, [1, 2, 1]), ("add", 0, [30]), ("add", 0, [1]), ("commit", 0)]))
    d31 = dag([(31, "i", (), 0, ()), (2, 1, (31,), 0, ())])
    out.append(("init-nopolicy", d31, [("open", 0), ("add", 0, [31, 2]), ("commit", 0)]))
    d32 = dag([(32, "i", (), 1, (("E", 5), ("R",))), (2, 1, (32,), 0, ())])
    out.append(("init-rejected", d32, [("open", 0), ("add", 0, [32, 2]), ("add", 0, [32]), ("commit", 0)]))
    return out


def gid_of(d):
    return d.order[0]


# ---------------------------------------------------------------- the common pipeline
def run_cases(ctx, cases, name):
    """Build the harness, run the real runtime and the model on `cases`.
    Returns (results, mismatches) or (None, None)."""
    binp = vlib.cargo_build(ctx, "hx-txn", bin="txn")
    if not binp:
        return None, None
    res = run_harness(ctx, binp, cases)
    if res is None:
        return None, None
    mm = model_compare(ctx, name, cases, res)
    return res, mm


def replay_obj(case, results, note, op_index=None):
    name, backend, gid, d, ops = case
    return {"case_text": case_text(name, backend, gid, d, ops),
            "impl_output": [dict(res=o["res"], heads=o.get("h"), facts=o.get("f"), hello=o.get("hh"), sink=o.get("s"),
                                 graph=o.get("g"), stamp=o.get("st")) for o in results],
            "failing_op_index": op_index, "note": note,
            "replay_cmd": "build/target/debug/txn < case.txt   (case.txt = the case_text field)"}


def report_mismatches(ctx, cases, results, mm):
    ctx.oblige("correspondence:model=impl", mm is not None and not mm,
               "model (coq/model/Txn.v) and implementation differ on (case, ops) %s; first case:\n%s" % (
                   (mm or [])[:5], case_text(*cases[mm[0][0]]) if mm else ""))


def basic_stats(cases, results):
    from collections import Counter
    cnt = Counter()
    for c, rr in zip(cases, results):
        for op, o in zip(c[4], rr):
            r = o["res"]
            cnt["op:" + op[0]] += 1
            key = "ok" if r.startswith("ok") else (r.split(":")[0] + ":" + r.split(":")[1] if r.startswith("err") else r)
            cnt["res:" + key] += 1
            if o["heads"] and len(o["heads"]) >= 2:
                cnt["multi_head_states"] += 1
        cnt["backend:" + c[1]] += 1
    return dict(cnt)


def make_cases(ctx, n_cases, size_lo, size_hi, hist_kw=None, dag_kw=None, prefix="h"):
    """Random DAGs, one history each, alternating backends; preceded by the fixed scenarios on both backends."""
    r = ctx.rng
    cases = []
    for (nm, d, ops) in fixed_scenarios():
        for be in ("mem", "libc"):
            cases.append(("%s-%s" % (nm, be), be, gid_of(d), d, ops))
    for i in range(n_cases):
        d = gen_dag(r, r.range(size_lo, size_hi), **(dag_kw or {}))
        ops = gen_history(r, d, ntx=r.choice([1, 2, 2, 3]), **(hist_kw or {}))
        cases.append(("%s%d" % (prefix, i), "libc" if i % 3 == 2 else "mem", gid_of(d), d, ops))
    return cases


# ---------------------------------------------------------------- replay of a recorded case (./check Cxx --replay file)
def parse_prog(s):
    if s == "-":
        return ()
    out = []
    for o in s.split("."):
        f = o.split(":")
        out.append(tuple([f[0]] + [int(x) for x in f[1:]]))
    return tuple(out)


def parse_prio(s):
    return s if s in ("m", "f", "i") else int(s[1:])


def parse_case_text(txt):
    """Inverse of case_text (one or more cases)."""
    cases, cur = [], None
    for line in txt.splitlines():
        f = line.split()
        if not f:
            continue
        if f[0] == "case":
            cur = [f[1], f[2], int(f[3]), Dag(), []]
        elif f[0] == "c":
            par = () if f[3] == "-" else ((int(f[3][1:]),) if f[3][0] == "s" else tuple(int(x) for x in f[3][1:].split(",")))
            cur[3].add(Cmd(int(f[1]), parse_prio(f[2]), par, int(f[4]), parse_prog(f[5])))
        elif f[0] == "o":
            k = f[1]
            if k in ("open", "flush", "commit"):
                cur[4].append((k, int(f[2])))
            elif k == "add":
                cur[4].append(("add", int(f[2]), [] if f[3] == "-" else [int(x) for x in f[3].split(",")]))
            elif k == "action":
                cmds = [] if f[4] == "-" else [(int(c.split(":", 2)[0]), parse_prio(c.split(":", 2)[1]), parse_prog(c.split(":", 2)[2]))
                                               for c in f[4].split(",")]
                cur[4].append(("action", f[2] == "d", None if f[3] == "-" else int(f[3]), cmds))
            elif k == "probe":
                cur[4].append(("probe", int(f[2]), int(f[3])))
            elif k == "sess":
                cur[4].append(("sess",))
            elif k == "fault":
                cur[4].append(("fault", f[2], int(f[3])))
            elif k == "newgraph":
                cmds = [] if f[3] == "-" else [(int(c.split(":", 2)[0]), parse_prio(c.split(":", 2)[1]), parse_prog(c.split(":", 2)[2]))
                                               for c in f[3].split(",")]
                cur[4].append(("newgraph", None if f[2] == "-" else int(f[2]), cmds))
        elif f[0] == "end":
            cases.append(tuple(cur))
    return cases


def replay_cases(ctx):
    """The cases recorded in the replay file given with --replay (None if not in replay mode)."""
    if not ctx.replay_in:
        return None
    import json
    obj = json.load(open(ctx.replay_in))
    txts = [obj[k]["case_text"] if isinstance(obj.get(k), dict) else None for k in ("history_a", "history_b")]
    txt = obj.get("case_text") or "".join(t for t in txts if t)
    return parse_case_text(txt) if txt else None


# ---------------------------------------------------------------- exhaustive small scope (thorough tier)
def small_dag():
    """init -> a, b ; c child of a ; m = merge(b, c) ; e child of m ; x (rejected) child of a."""
    d = Dag()
    d.add(Cmd(1, "i", (), 1, (("S", 0, 1),)))
    d.add(Cmd(20, 1, (1,), 0, (("A", 0, 20), ("E", 20))))
    d.add(Cmd(10, 1, (1,), 0, (("A", 0, 10),)))
    d.add(Cmd(30, 0, (20,), 0, (("A", 0, 30), ("C", 0, 1))))
    m = merge_id(10, 30)
    d.add(Cmd(m, "m", (10, 30), 0, ()))
    d.add(Cmd(40, 2, (m,), 0, (("A", 0, 40),)))
    return d, [20, 10, 30, m, 40]


def permutations(xs):
    if len(xs) <= 1:
        yield list(xs)
        return
    for i in range(len(xs)):
        for p in permutations(xs[:i] + xs[i + 1:]):
            yield [xs[i]] + p


def exhaustive_small_cases(flush=False):
    """Every delivery order of the five non-init commands (one Add each, out-of-order ones fail with NoSuchParent),
    then the causal order once more, then commit: 120 histories that must all end in the same state."""
    d, ids = small_dag()
    cases = []
    for k, perm in enumerate(permutations(ids)):
        ops = [("open", 0), ("add", 0, [1])]
        for x in perm:
            ops.append(("add", 0, [x]))
            if flush:
                ops.append(("flush", 0))
        for x in ids:
            ops.append(("add", 0, [x]))
        ops.append(("commit", 0))
        cases.append(("perm%s%d" % ("f" if flush else "", k), "mem" if k % 2 else "libc", 1, d, ops))
    return cases


# ---------------------------------------------------------------- merge commands over transaction-local tips
def gen_merge_history(r, steps, ntx=1, reject_w=6, p_merge=30, p_dup=30, p_flush=8, p_commit=6, nkeys=4):
    """DAG and history generated together: commands are created as children of what a transaction already
    holds; MERGE COMMANDS (id = merge_id, as a peer's policy would produce them) are created over two incomparable
    commands the transaction holds - its local tips most of the time, sometimes older commands or committed heads -
    and delivered like any other command; deliveries are interleaved with duplicates of arbitrary earlier commands
    (preferably the parents of the merge that is still in the in-flight perspective), flushes, rejected commands
    and commits."""
    d = Dag()
    used = set()

    def fresh():
        while True:
            x = r.below(1 << 20) + 1
            if x not in used and x not in d.cmds:
                used.add(x)
                return x
    gid = fresh()
    d.add(Cmd(gid, "i", (), 1, (("S", 0, 1),)))
    ops = []
    committed = {gid}
    held = {}
    delivered = [gid]
    for t in range(ntx):
        ops.append(("open", t))
        held[t] = set()
    ops.append(("add", 0, [gid]))
    for t in held:
        held[t] = {gid}
    batch, bt = [], 0

    def emit():
        nonlocal batch
        if batch:
            ops.append(("add", bt, batch))
            batch = []

    def leaves(hs):
        return [x for x in hs if not any(x in d.cmds[y].par for y in hs)]
    last_merge = None
    for _ in range(steps):
        t = r.choice(sorted(held))
        if t != bt:
            emit()
            bt = t
        hs = held[t]
        c = r.below(100)
        if c < p_flush:
            emit()
            ops.append(("flush", t))
            continue
        if c < p_flush + p_commit:
            emit()
            ops.append(("commit", t))
            committed |= hs
            ops.append(("open", t))
            held[t] = set(committed)
            last_merge = None
            continue
        c = r.below(100)
        if c < p_dup and len(delivered) > 1:
            # duplicates: the parents of the last merge, or anything delivered before
            if last_merge is not None and r.below(100) < 60:
                x = r.choice(list(d.cmds[last_merge].par) + [last_merge])
            else:
                x = r.choice(delivered)
            batch.append(x)
        elif c < p_dup + p_merge:
            lv = leaves(hs)
            pool = lv if (len(lv) >= 2 and r.below(100) < 75) else sorted(hs)
            done = False
            for _try in range(8):
                a, b = r.choice(pool), r.choice(pool)
                if a != b and not d.comparable(a, b):
                    l, rr = min(a, b), max(a, b)
                    m = merge_id(l, rr)
                    if m not in d.cmds:
                        d.add(Cmd(m, "m", (l, rr), 0, ()))
                    batch.append(m)
                    hs.add(m)
                    delivered.append(m)
                    last_merge = m
                    done = True
                    break
            if not done:
                continue
        else:
            lv = leaves(hs)
            parent = r.choice(lv) if r.below(100) < 50 else r.choice(sorted(hs))
            x = fresh()
            prog = tuple(o for o in rand_prog(r, reject_w, nkeys) if o[0] != "Q")
            d.add(Cmd(x, r.choice([0, 0, 1, 2]), (parent,), 0, prog))
            batch.append(x)
            delivered.append(x)
            if not sure_fail(prog):
                hs.add(x)
        if r.below(100) < 55:
            emit()
    emit()
    for t in sorted(held):
        ops.append(("commit", t))
    if r.below(2):
        ops.append(("action", True, None, [(fresh() + (1 << 41), 1, (("A", 0, 77),))]))
    return d, ops


def merge_family_cases(ctx, n, steps_lo=10, steps_hi=30, prefix="mg"):
    r = ctx.rng
    cases = []
    for i in range(n):
        d, ops = gen_merge_history(r, r.range(steps_lo, steps_hi), ntx=r.choice([1, 1, 2]))
        cases.append(("%s%d" % (prefix, i), "libc" if i % 3 == 1 else "mem", gid_of(d), d, ops))
    return cases
