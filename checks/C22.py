"""C22 — compiled policy code computes the language semantics."""
import os
import sys

sys.path.insert(0, os.path.dirname(os.path.abspath(__file__)))
import vlib
import compiler_common as cc
import compiler_gen as cg

F23_POLICY = ("struct S { a bool, b bool }\nfunction f(s struct S) int {\n match s { S{a:true,b:false} => { return 1 } "
              "S{b:false,a:true} => { return 2 } S{a:false,b:false} => { return 3 } S{a:true,b:true} => {return 4} }\n return 9\n}\n")


def gen_programs(ctx, n, depth, ffi_every=3, max_chars=7000):
    out = []
    while len(out) < n:
        g = cg.Gen(ctx.rng.fork(), depth, ffi=(len(out) % ffi_every == 0))
        pol, main = g.policy()
        if len(cc.policy_text(pol)) > max_chars:
            continue
        out.append((g, pol, main))
    return out


def run(ctx):
    vlib.regen(ctx)
    vlib.prove(ctx)
    binp = vlib.cargo_build(ctx, "hx-compiler", bin="c22")
    if not binp:
        return
    thorough = ctx.thorough
    depth = 6 if thorough else 4
    n_l1 = 900 if thorough else 70
    n_l3 = 700 if thorough else 45
    inputs_per = 6 if thorough else 4

    # ---------------- L1: compiler output and acceptance, well-typed programs and mutants
    progs = gen_programs(ctx, n_l1, depth)
    l1_cases, kinds = [], {}
    for i, (g, pol, main) in enumerate(progs):
        if i % 2 == 1:
            pol, kind = cg.mutate(ctx.rng, pol)
            kinds[kind] = kinds.get(kind, 0) + 1
        l1_cases.append(pol)
    res, err = cc.run_harness(vlib, binp, [cc.compile_line(p) for p in l1_cases])
    if res is None:
        ctx.oblige("harness:run:l1", False, err)
        return
    usable = [(p, l) for (p, l) in zip(l1_cases, res) if l.startswith("ok ") or l.startswith("err ")]
    bad_lines = [l for l in res if not (l.startswith("ok ") or l.startswith("err "))]
    mism, cerr = cc.coq_mismatches(vlib, ctx, "c22_l1", cc.COQ_HEADER, usable, cc.l1_render, shard=40)
    if mism is None:
        ctx.oblige("correspondence:L1:model-eval", False, cerr)
        return
    accepted = sum(1 for (_, l) in usable if l.startswith("ok "))
    err_classes = {}
    for (_, l) in usable:
        if l.startswith("err "):
            err_classes[l[4:]] = err_classes.get(l[4:], 0) + 1
    ctx.oblige("correspondence:L1:compile-output-and-acceptance", not mism and len(bad_lines) <= len(res) // 20,
               "model and compiler differ on %d case(s), first: %s -> %s; unusable harness lines: %s" % (
                   len(mism), cc.policy_text(usable[mism[0]][0])[:1500] if mism else "", usable[mism[0]][1][:300] if mism else "", bad_lines[:3]))

    # ---------------- L3 (oracle): real parse -> compile -> Machine -> run against Lang.eval
    progs3 = gen_programs(ctx, n_l3, depth)
    l3_cases = []
    for (g, pol, main) in progs3:
        for _ in range(inputs_per):
            args = [g.value(t) for _, t in main['params']]
            fail_at = ctx.rng.choice([0, 0, 0, 1, 2, 3]) if pol['uses_ffi'] else 0
            l3_cases.append((pol, args, fail_at))
    res3, err = cc.run_harness(vlib, binp, [cc.run_line(p, "fn", "main", fa, a) for (p, a, fa) in l3_cases])
    if res3 is None:
        ctx.oblige("harness:run:l3", False, err)
        return
    runs = []
    exits = {}
    for (p, a, fa), l in zip(l3_cases, res3):
        if l == "panic" or l.startswith("parse-err") or l.startswith("compile-err"):
            exits[l.split("|")[0][:40]] = exits.get(l.split("|")[0][:40], 0) + 1
            continue
        ex, top, depth_, log = cc.run_result(l)
        exits[ex] = exits.get(ex, 0) + 1
        runs.append((p, a, fa, (ex, top, log)))
    mism3, cerr = cc.coq_mismatches(vlib, ctx, "c22_l3", cc.COQ_HEADER, runs, cc.l3_fn_render, shard=60)
    if mism3 is None:
        ctx.oblige("correspondence:L3:model-eval", False, cerr)
        return
    for i in mism3[:3]:
        p, a, fa, (ex, top, log) = runs[i]
        ctx.violation("compiled code does not compute the language semantics: the real compiler+VM and the reference semantics (Lang.eval) disagree",
                      {"policy": cc.policy_text(p), "entry": "fn main", "args": [cc.val_text(x) for x in a], "fail_at": fa,
                       "impl": {"exit": ex, "returned": top, "io_log": log},
                       "contradicts": "compile_correct (coq/props/C22.v)",
                       "replay_cmd": "echo '%s' | build/target/debug/c22" % cc.run_line(p, "fn", "main", fa, a)})
    ctx.oblige("oracle:L3:impl-run=reference-semantics", not mism3, "%d disagreeing runs" % len(mism3))

    # ---------------- the arithmetic boundary family: the four integer builtins on every pair of boundary values
    B = [cc.I64_MIN, cc.I64_MIN + 1, -2, -1, 0, 1, 2, cc.I64_MAX - 1, cc.I64_MAX]
    ar_funs = [{'name': 'f_' + op, 'params': [('a', cc.T_INT), ('b', cc.T_INT)],
                'ret': cc.T_INT if op.startswith('saturating') else cg.opt(cc.T_INT),
                'body': [('SReturn', ('ECall', op, [('EVar', 'a'), ('EVar', 'b')]))]} for op in ('add', 'sub', 'saturating_add', 'saturating_sub')]
    ar_pol = {'enums': [], 'structs': [], 'effects': [], 'facts': [], 'globals': [], 'funs': ar_funs, 'finfuns': [], 'cmds': [],
              'actions': [], 'uses_ffi': False}
    ar_cases = [(f['name'], a, b) for f in ar_funs for a in B for b in B]
    resa, err = cc.run_harness(vlib, binp, [cc.run_line(ar_pol, "fn", n, 0, [('I', a), ('I', b)]) for (n, a, b) in ar_cases])
    if resa is None:
        ctx.oblige("harness:run:arith-family", False, err)
        return
    def ar_expected(n, a, b):
        v = a + b if n.endswith('add') else a - b
        if n.startswith('f_saturating'):
            return "I%d" % max(cc.I64_MIN, min(cc.I64_MAX, v))
        return "O(I%d)" % v if cc.I64_MIN <= v <= cc.I64_MAX else "N"
    ar_wrong, ar_runs = [], []
    for (n, a, b), l in zip(ar_cases, resa):
        ex, top, depth_, log = cc.run_result(l) if "|" in l else (l, None, 0, [])
        ar_runs.append((ar_pol, n, [('I', a), ('I', b)], (ex, top, log)))
        if (ex, top) != ("normal", ar_expected(n, a, b)):
            ar_wrong.append((n, a, b, l))
    for (n, a, b, l) in ar_wrong[:3]:
        ctx.violation("compiled code does not compute the language semantics: %s(%d, %d) gives the wrong value" % (n[2:], a, b),
                      {"policy": cc.policy_text(ar_pol), "entry": "fn " + n, "args": [a, b], "expected": ar_expected(n, a, b), "impl": l[:200],
                       "contradicts": "compile_correct (coq/props/C22.v) with Lang.eval_builtin: checked / saturating i64 arithmetic",
                       "replay_cmd": "echo '%s' | build/target/debug/c22" % cc.run_line(ar_pol, "fn", n, 0, [('I', a), ('I', b)])})
    ctx.oblige("oracle:L3:arith-family-values", not ar_wrong, "%d wrong results, first %s" % (len(ar_wrong), ar_wrong[:2]))
    def ar_render(chunk):
        items = ["(%s, %s, %s)" % (cc.cq_str(n), cc.cq_list(a, cc.val_coq), cc.summary_coq(r[0], r[1], r[2])) for (_, n, a, r) in chunk]
        return ("Definition pol : policy := %s.\nDefinition cases : list (ident * list Value * summary) := %s.\n"
                "Eval vm_compute in (mismatches (fun c => let '(f, args, s) := c in summary_eqb (l3_function pol true f args 0%%N) s) cases).\n"
                % (cc.cq_policy(ar_pol), cc.cq_list(items)))
    misma, cerr = cc.coq_mismatches(vlib, ctx, "c22_arith_l3", cc.COQ_HEADER, ar_runs, ar_render, shard=400)
    if misma is None:
        ctx.oblige("correspondence:L3:model-eval", False, cerr)
        return
    ctx.oblige("oracle:L3:arith-family-impl-run=reference-semantics", not misma, "%d disagreeing runs" % len(misma))

    # ---------------- the boolean-nesting family: small shapes over !, &&, ||, comparisons, `is Some`, every assignment
    fam = cg.bool_family(ctx.rng, thorough)
    assigns = cg.bool_assignments()
    fam_lines = [cc.compile_line(p) for (p, shapes) in fam] + [cc.run_line(p, "fn", "main", 0, a) for (p, shapes) in fam for a in assigns]
    resf, err = cc.run_harness(vlib, binp, fam_lines)
    if resf is None:
        ctx.oblige("harness:run:bool-family", False, err)
        return
    fam_l1 = [(p, l) for ((p, shapes), l) in zip(fam, resf[:len(fam)]) if l.startswith("ok ") or l.startswith("err ")]
    fam_rejected = [l for l in resf[:len(fam)] if not l.startswith("ok ")]
    mismf, cerr = cc.coq_mismatches(vlib, ctx, "c22_fam_l1", cc.COQ_HEADER, fam_l1, cc.l1_render, shard=8)
    if mismf is None:
        ctx.oblige("correspondence:L1:model-eval", False, cerr)
        return
    ctx.oblige("correspondence:L1:bool-family-compile-output", not mismf and not fam_rejected,
               "model and compiler differ on %d family policies (first: %s); rejected: %s" % (
                   len(mismf), cc.policy_text(fam_l1[mismf[0]][0])[:1500] if mismf else "", fam_rejected[:2]))
    fam_runs, fam_wrong = [], []
    k = len(fam)
    for (p, shapes) in fam:
        for a in assigns:
            l = resf[k]
            k += 1
            if l == "panic" or l.startswith("parse-err") or l.startswith("compile-err"):
                continue
            ex, top, depth_, log = cc.run_result(l)
            fam_runs.append((p, a, 0, (ex, top, log)))
            want = sum((1 << i) for i, s in enumerate(shapes) if cg.bool_eval(s, a))
            if (ex, top) != ("normal", "I%d" % want):
                bad = [i for i, s in enumerate(shapes) if top and top.startswith("I") and ((int(top[1:]) >> i) & 1) != int(cg.bool_eval(s, a))]
                fam_wrong.append((p, shapes, a, ex, top, want, bad))
    for (p, shapes, a, ex, top, want, bad) in fam_wrong[:3]:
        i = bad[0] if bad else 0
        ctx.violation("compiled code does not compute the language semantics: a boolean expression evaluates to the wrong value",
                      {"function": cc.policy_text({**p, 'funs': [p['funs'][j] for j in range(len(p['funs'])) if p['funs'][j]['name'] == 'b%d' % i]}),
                       "args": [cc.val_text(x) for x in a], "expected_value": bool(cg.bool_eval(shapes[i], a)),
                       "impl": {"exit": ex, "main_returned_bitmask": top, "expected_bitmask": want, "wrong_bits": bad[:8]},
                       "contradicts": "compile_correct (coq/props/C22.v); expected value by the operator semantics of Lang.v",
                       "replay_cmd": "echo '%s' | build/target/debug/c22" % cc.run_line(p, "fn", "main", 0, a)})
    ctx.oblige("oracle:L3:bool-family-values", not fam_wrong, "%d runs with a wrong value" % len(fam_wrong))
    mismf3, cerr = cc.coq_mismatches(vlib, ctx, "c22_fam_l3", cc.COQ_HEADER, fam_runs, cc.l3_fn_render, shard=60)
    if mismf3 is None:
        ctx.oblige("correspondence:L3:model-eval", False, cerr)
        return
    ctx.oblige("oracle:L3:bool-family-impl-run=reference-semantics", not mismf3, "%d disagreeing runs" % len(mismf3))

    # ---------------- the recorded open finding F23 (struct-literal patterns with permuted fields)
    res4, _ = cc.run_harness(vlib, binp, ["R %s fn f 0 TS{a=B0,b=B1} -" % F23_POLICY.encode().hex()])
    if res4 and res4[0].startswith("normal|I1|"):
        for f in ctx.known_findings():
            if f.get("id") == "F23":
                ctx.report_known(f, "match over struct literals whose duplicate patterns differ only in field order is accepted as exhaustive; an uncovered value runs the first arm (F23)")

    cons = {}
    for p in l1_cases[::2]:
        cc.constructs(p['funs'], cons)
    ctx.coverage.update({
        "traces_validated_against_impl": len(usable) + len(runs) + len(fam_l1) + len(fam_runs),
        "evaluations": len(usable) + len(runs) + len(fam_l1) + len(fam_runs),
        "distinct_nontrivial": len({cc.policy_text(p) for (p, l) in usable if l.startswith("ok ") and cc.count_nodes(p['funs']) > 60})
                               + len({(cc.policy_text(p), tuple(cc.val_text(x) for x in a)) for (p, a, fa, r) in runs if cc.count_nodes(p['funs']) > 60}),
        "rule": "L1 case = one policy (every second one mutated once); L3 case = (policy, argument values, FFI failure point); non-trivial = AST of the functions has more than 60 nodes; distinct by policy text (+ arguments)",
        "distribution": {
            "l1_programs": len(usable), "l1_accepted": accepted, "l1_rejected_by_class": err_classes, "l1_mutation_kinds": kinds,
            "l1_unusable_harness_lines": len(bad_lines),
            "l3_runs": len(runs), "l3_exit_reasons": exits, "nesting_depth": depth,
            "arith_family": {"runs": len(ar_runs), "values": B},
            "bool_family": {"shapes": sum(len(sh) for (_, sh) in fam), "policies": len(fam), "assignments_per_shape": len(assigns),
                            "runs": len(fam_runs), "exhaustive_to_depth": 2 if thorough else 1},
            "constructs_in_unmutated_l1_programs": cons,
        },
        "samples": [{"policy": cc.policy_text(p)[:600], "args": [cc.val_text(x) for x in a], "impl": {"exit": r[0], "top": r[1], "log": r[2]}}
                    for (p, a, fa, r) in runs[:3]],
    })
    ctx.assumptions += [
        "the theorem is about the code as laid out by model/CompileDirect.v; its equality with the label-based transcription model/Compile.v and with the real compiler's output is checked on every generated program (L1), and the layout side condition layout_check is a decidable hypothesis of the theorem",
        "the machine holds no source map (error positions are not part of the simulation); foreign functions honour their signature",
        "fragment: everything of model/Lang.v except substruct, cast, foreign calls and create/update/delete/emit (those are covered by L1 and L3 only)",
    ]
