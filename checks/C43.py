"""C43 — the shared-memory mutex is exclusive and loses no wake-ups.

Proof: coq/props/C43.v (invariant over every schedule of the interleaving model
model/Mutex.v).  Correspondence: schedule replay — the real Mutex of
aranya-fast-channels, compiled with the yield-point hooks, is driven one atomic
operation at a time along generated schedules (harness/hx-conc, bin c43); after
every event the whole observable state (protected value, mutex word, futex
queue, the site every thread is parked at) is folded into a digest which is
compared inside Coq with the digest of the model run on the same events.
"""
import itertools
import os

import conc_util
import vlib


def ev_code(tok):
    """r<t>.<c> -> 2*(4t+c), s<t> -> 2t+1 (decoded again by dec_ev in the cases file)."""
    if tok[0] == "r":
        t, c = tok[1:].split(".")
        return 2 * (4 * int(t) + (int(c) % 4))
    return 2 * int(tok[1:]) + 1


def blocks_to_events(blocks):
    evs = []
    for (t, k) in blocks:
        evs += ["r%d.0" % t] * k
    return evs


def gen_cases(ctx):
    r = ctx.rng
    th = ctx.thorough
    cases = []  # (family, line)
    # (a) exhaustive binary prefixes, 2 threads x 1 acquisition, then round-robin completion
    depth = 12 if th else 9
    for bits in itertools.product("01", repeat=depth):
        cases.append(("ex-binary", "ex 1,1 400 " + " ".join("r%s.0" % b for b in bits)))
    # (b) exhaustive bounded-context-switch prefixes: alternating blocks with run lengths from L
    L = [1, 2, 3, 5, 8, 9, 10, 12] if th else [1, 2, 3, 6, 9, 10, 11]
    nblocks = 4 if th else 3
    for iters in (["2,2", "1,2"] if th else ["2,2"]):
        for first in (0, 1):
            for lens in itertools.product(L, repeat=nblocks):
                blocks = [((first + i) % 2, k) for i, k in enumerate(lens)]
                cases.append(("ex-blocks", "ex %s 600 %s" % (iters, " ".join(blocks_to_events(blocks)))))
    # (c) spurious wake-ups, exhaustive after a prelude that puts thread 1 to sleep behind thread 0
    prelude = ["r0.0"] + ["r1.0"] * 9
    d2 = 6 if th else 4
    for seq in itertools.product(["r0.0", "r1.0", "s0", "s1"], repeat=d2):
        cases.append(("ex-spurious", "ex 2,2 600 " + " ".join(prelude + list(seq))))
    # (d) 3 threads: exhaustive ternary prefixes after a prelude that has two sleepers (wake choice matters)
    prelude3 = ["r0.0"] + ["r1.0"] * 9 + ["r2.0"] * 9
    d3 = 5 if th else 4
    for seq in itertools.product(["r0.0", "r0.1", "r1.0", "r2.0", "s1"], repeat=d3):
        cases.append(("ex-3threads", "ex 2,1,1 900 " + " ".join(prelude3 + list(seq))))
    # (e) random and PCT-style schedules, 2-4 threads
    nrand = 4000 if th else 350
    for i in range(nrand):
        n = r.choice([2, 3, 3, 3, 4])
        iters = ",".join(str(r.choice([1, 1, 2, 2, 3])) for _ in range(n))
        tot = sum(int(x) for x in iters.split(","))
        if i % 2 == 0:
            cases.append(("random", "rnd %s 2500 %d %d %d" % (iters, r.next() >> 1, r.choice([0, 0, 30, 150]), 40 * tot)))
        else:
            cases.append(("pct", "pct %s 2500 %d %d %d %d" % (iters, r.next() >> 1, r.choice([1, 2, 3, 5]), r.choice([0, 50, 200]), 12 * tot)))
    return cases


HEADER = """From Aranya Require Import base.Tactics base.Harness base.Interleave model.Mutex.
Open Scope N_scope.
Definition dec_ev (n : N) : event :=
  if N.even n then Run (N.to_nat (n / 8)) (N.to_nat ((n / 2) mod 4)) else Spur (N.to_nat (n / 2)).
Definition chk (c : list nat * list N * N * N) : bool :=
  let '(ns, evs, d, f) := c in
  let '(d', f') := digest (map dec_ev evs) (init ns) in N.eqb d d' && N.eqb f f'.
"""


CAS_HEADER = """From Aranya Require Import base.Tactics base.Harness base.Interleave model.Mutex.
Open Scope N_scope.
Definition chk (c : list nat * list nat * N * N) : bool :=
  let '(ns, evs, d, f) := c in
  let '(d', f') := cdigest evs (cinit ns) in N.eqb d d' && N.eqb f f'.
"""


def run_cas(ctx):
    """Replay on the crate built with `cas_mutex` (sites 10/11) against model cstep."""
    binc = vlib.cargo_build(ctx, "hx-conc", bin="c43cas", features=["cas"])
    if not binc:
        return {"built": False}
    r = ctx.rng
    lines = []
    for bits in itertools.product("01", repeat=9 if ctx.thorough else 7):
        lines.append("ex 1,1 400 " + " ".join("r%s.0" % b for b in bits))
    for lens in itertools.product([1, 2, 3, 5], repeat=3):
        for first in (0, 1):
            lines.append("ex 2,2 600 " + " ".join(blocks_to_events([((first + i) % 2, k) for i, k in enumerate(lens)])))
    for i in range(600 if ctx.thorough else 120):
        n = r.choice([2, 3, 3, 4])
        iters = ",".join(str(r.choice([1, 2, 3])) for _ in range(n))
        lines.append("rnd %s 3000 %d 0 %d" % (iters, r.next() >> 1, 30 * n))
    rc, out, err = conc_util.run_parallel(binc, lines)
    if rc != 0 or len(out) != len(lines):
        ctx.oblige("harness:run-cas", False, "rc=%d lines=%d/%d %s" % (rc, len(out), len(lines), err[-800:]))
        return {"built": True, "ran": False}
    items, bad = [], []
    for line, l in zip(lines, out):
        parts = l.split()
        if parts[2] != "ok":
            bad.append((line, parts[2]))
        items.append((line.split()[1].split(","), [int(e[1:].split(".")[0]) for e in parts[4:]], int(parts[0]), int(parts[1])))
    for (line, flags) in bad[:2]:
        ctx.violation("CAS-only mutex violates its contract under a replayed schedule: " + flags,
                      {"case_line": line, "flags": flags, "replay_cmd": "echo '%s' | build/target/debug/c43cas --trace" % line,
                       "contradicts": "cas_mutex_exclusive (coq/props/C43.v)"})
    ctx.oblige("oracle:cas-fallback-exclusive-on-impl", not bad, str(bad[:3]))

    def render(chunk):
        body = vlib.coq_list(chunk, lambda c: "(%s, %s, %d, %d)" % (
            vlib.coq_list(c[0], lambda x: "%s%%nat" % x), vlib.coq_list(c[1], lambda x: "%d%%nat" % x), c[2], c[3]))
        return "Definition cases : list (list nat * list nat * N * N) := %s.\nEval vm_compute in (mismatches chk cases).\n" % body
    outs, chunks = vlib.coq_eval_sharded(ctx, "c43cas", CAS_HEADER, items, render, shard=max(200, (len(items) + 3) // 4), timeout=900)
    mism, base = [], 0
    for (rc3, o), ch in zip(outs, chunks):
        v = vlib.parse_coq_value(o) if rc3 == 0 else None
        if v is None:
            ctx.oblige("correspondence:cas-model-eval", False, o[-1500:])
            return {"built": True, "ran": True}
        mism += [base + j for j in v]
        base += len(ch)
    ctx.oblige("correspondence:cas-model=impl", not mism, "%d of %d schedules differ; first: %s" % (len(mism), len(lines), lines[mism[0]][:120] if mism else ""))
    return {"schedules": len(lines), "events": sum(len(it[1]) for it in items), "mismatches": len(mism)}


def run(ctx):
    vlib.regen(ctx)
    proved = vlib.prove(ctx)
    binp = vlib.cargo_build(ctx, "hx-conc", bin="c43")
    if not binp:
        return
    cases = gen_cases(ctx)
    # free-running stress on the real futex (what the SC model cannot exhibit)
    stress_lines = ["stress 4 20000", "stress 12 3000", "stress 2 100000"] if not ctx.thorough else \
                   ["stress 4 200000", "stress 12 50000", "stress 2 1000000", "stress 3 300000"]
    rc, lines, err = conc_util.run_parallel(binp, [line for (_, line) in cases])
    if (rc not in (0, 3)) or (rc == 0 and len(lines) != len(cases)) or not lines:
        ctx.oblige("harness:run", False, "rc=%d lines=%d/%d %s" % (rc, len(lines), len(cases), err[-1500:]))
        return
    rcs, stress_out, errs = conc_util.run_parallel(binp, stress_lines, nproc=1, timeout=900)
    if len(stress_out) < len(stress_lines):
        stress_out.append("stress crashed (rc=%d) %s" % (rcs, errs[-300:].replace("\n", " ")))
    # two mappings of one shared-memory mutex, real futex syscalls (no shim): a wake through one
    # mapping must reach a waiter asleep through the other (process-shared futex)
    twomap_line = "twomap %d" % (200 if ctx.thorough else 40)
    rct, twomap_out, errt = conc_util.run_parallel(binp, [twomap_line], nproc=1, timeout=900)
    twomap_res = twomap_out[0] if twomap_out else "twomap crashed (rc=%d) %s" % (rct, errt[-300:].replace("\n", " "))
    results = []
    bad = []
    for i, l in enumerate(lines):
        parts = l.split()
        if len(parts) < 4:
            ctx.oblige("harness:output", False, l[:200])
            return
        digest, fin, flags, stats = int(parts[0]), int(parts[1]), parts[2], [int(x) for x in parts[3].split(":")]
        evs = parts[4:]
        results.append((digest, fin, flags, stats, evs))
        if flags != "ok":
            bad.append(i)
    stress_bad = [l for l in stress_out if not l.startswith("stress ok")]

    # ---- oracle: exclusivity / no stuck state / no bug!() / no lost update, on the implementation's own run
    def replay_of(i):
        fam, line = cases[i]
        digest, fin, flags, stats, evs = results[i]
        rc2, out2, _ = vlib.run_bin(binp, args=["--trace"], input=line + "\n", timeout=120)
        tr = [l[2:] for l in out2.splitlines() if l.startswith("# ")]
        return {"family": fam, "case_line": line, "executed_events": " ".join(evs), "flags": flags,
                "stats(steps:sleeps:wakes:spurious:casfail:maxholders)": stats,
                "impl_trace(data key |queue| queue.. site-per-thread)": tr[-40:],
                "replay_cmd": "echo '%s' | build/target/debug/c43 --trace" % line}
    what = {"excl": "two threads inside the critical section at once", "stuck": "unfinished threads exist but none can run (lost wake-up / deadlock)",
            "panic": "a locker panicked (bug!() branch of sys_unlock reached)", "incomplete": "threads still waiting after the step budget under round-robin scheduling",
            "baddata": "lost update on the protected counter", "badkey": "mutex word / wait queue not clean after all threads finished",
            "hang": "a thread stopped reaching yield points"}
    for i in bad[:3]:
        flags = results[i][2]
        msg = "; ".join(what.get(f, f) for f in flags.split(","))
        ctx.violation("mutex violates its contract under a replayed schedule: " + msg,
                      dict(replay_of(i), contradicts="mutex_exclusive / no_stuck_state / unlock_never_bugs (coq/props/C43.v)"))
    for l in stress_bad[:2]:
        ctx.violation("free-running threads on the real futex: " + l, {"stress": l, "replay_cmd": "echo 'stress 12 50000' | build/target/debug/c43"})
    if not twomap_res.startswith("twomap ok"):
        ctx.violation("real futex, one shared-memory mutex mapped twice: " + twomap_res,
                      {"scenario": "memfd region mapped twice with MAP_SHARED; thread A locks through one mapping and holds; thread B calls "
                                   "lock through the other mapping and is observed asleep in futex_wait (/proc/self/task/<tid>/wchan); A unlocks; "
                                   "B must acquire within 5 s; roles alternate each round; hooks' futex shim not used (real system calls)",
                       "result": twomap_res, "replay_cmd": "echo '%s' | build/target/debug/c43" % twomap_line,
                       "contradicts": "no_lost_wakeup / no_stuck_state under the assumption futex_shared_on_key (coq/props/C43.v): "
                                      "the futex must be process-shared on the key word"})
    ctx.oblige("oracle:two-mappings-real-futex-wakeup", twomap_res.startswith("twomap ok"), twomap_res)
    ctx.oblige("oracle:exclusive-no-stuck-no-bug-on-impl", not bad and not stress_bad, str([(cases[i][1][:80], results[i][2]) for i in bad[:3]] + stress_bad[:2]))

    # ---- correspondence: model digest = implementation digest, compared inside Coq
    items = []
    for (fam, line), (digest, fin, flags, stats, evs) in zip(cases, results):
        ns = line.split()[1].split(",")
        items.append((ns, [ev_code(e) for e in evs], digest, fin))

    def render(chunk):
        body = vlib.coq_list(chunk, lambda c: "(%s, %s, %d, %d)" % (
            vlib.coq_list(c[0], lambda x: "%s%%nat" % x), vlib.coq_list(c[1]), c[2], c[3]))
        return "Definition cases : list (list nat * list N * N * N) := %s.\nEval vm_compute in (mismatches chk cases).\n" % body
    shard = max(200, (len(items) + 5) // 6)
    outs, chunks = vlib.coq_eval_sharded(ctx, "c43", HEADER, items, render, shard=shard, timeout=1500)
    mism, base = [], 0
    for (rc3, o), ch in zip(outs, chunks):
        v = vlib.parse_coq_value(o) if rc3 == 0 else None
        if v is None:
            ctx.oblige("correspondence:model-eval", False, o[-2000:])
            return
        mism += [base + j for j in v]
        base += len(ch)
    detail = ""
    if mism:
        i = mism[0]
        ns, codes, _, _ = items[i]
        body = ("Eval vm_compute in (map obs_digits (mtrace (map dec_ev %s) (init %s))).\n"
                % (vlib.coq_list(codes), vlib.coq_list(ns, lambda x: "%s%%nat" % x)))
        rc4, o4 = vlib.coq_eval(ctx, "c43_trace", HEADER + body)
        mt = vlib.parse_coq_value(o4) if rc4 == 0 else None
        rp = replay_of(i)
        it_ = [[int(x) for x in l.split()] for l in rp["impl_trace(data key |queue| queue.. site-per-thread)"]]
        rc5, out5, _ = vlib.run_bin(binp, args=["--trace"], input=cases[i][1] + "\n", timeout=120)
        full = [[int(x) for x in l[2:].split()] for l in out5.splitlines() if l.startswith("# ")]
        step = next((k for k in range(min(len(full), len(mt or []))) if full[k] != mt[k]), None)
        detail = "case %d (%s): first divergence at event %s: impl %s vs model %s" % (
            i, cases[i][1][:120], step, full[step] if step is not None else None, mt[step] if (mt and step is not None) else None)
        if not bad:
            # the oracle accepts the implementation's behaviour: stale model / changed step structure
            ctx.violation("schedule replay: the implementation no longer performs the model's steps (" + detail + ")",
                          dict(rp, model_trace=(mt or [])[:60], first_divergence=step), no_input=True)
    ctx.oblige("correspondence:model=impl", not mism, "%d of %d schedules differ; %s" % (len(mism), len(cases), detail))

    # ---- the CAS-only fallback (feature cas_mutex): same replay against its own small model
    cas_info = run_cas(ctx)

    fams = {}
    for (fam, _), (_, _, _, stats, evs) in zip(cases, results):
        f = fams.setdefault(fam, {"cases": 0, "events": 0, "with_sleep": 0, "with_spurious": 0, "with_cas_failure": 0, "wakes": 0})
        f["cases"] += 1
        f["events"] += len(evs)
        f["with_sleep"] += 1 if stats[1] else 0
        f["with_spurious"] += 1 if stats[3] else 0
        f["with_cas_failure"] += 1 if stats[4] else 0
        f["wakes"] += stats[2]
    contended = {res[0] for res in results if res[3][1] or res[3][4]}
    ctx.coverage.update({
        "traces_validated_against_impl": len(cases),
        "evaluations": sum(len(res[4]) for res in results),
        "distinct_nontrivial": len(contended),
        "rule": "a case is one schedule (explicit prefix / random / PCT, completed round-robin) replayed on the real Mutex; "
                "evaluations = schedule events executed and compared (state digest after every event); non-trivial = the schedule "
                "produced contention (a failed compare_exchange or a futex sleep); distinct by state-sequence digest",
        "distribution": fams,
        "stress_runs": stress_out,
        "two_mapping_real_futex": twomap_res,
        "cas_fallback": cas_info,
        "samples": [{"case": cases[i][1][:160], "events": len(results[i][4]), "stats": results[i][3], "flags": results[i][2]} for i in (0, len(cases) // 2, len(cases) - 1)],
    })
    ctx.assumptions += [
        "sequentially consistent interleaving of the individual atomic operations (the Relaxed load in the spin loop and all SeqCst operations are single steps); weaker-memory reorderings are not modelled",
        "futex_wait/futex_wake behave as the atomic compare-and-enqueue / dequeue-one of the Linux futex contract on ONE queue per mutex word, i.e. a process-shared futex on the key word whatever mapping a thread uses; the syscall sites are pinned by futex_shared_on_key (no private flag, address = key) and the real syscall is exercised by the stress runs and by the two-mapping wake-up scenario",
        "lockers are well behaved: every unlock is the drop of the guard returned by lock",
        "Linux futex path only; the macOS ulock path is not covered; the CAS-only fallback has its own small model and theorem",
    ]
